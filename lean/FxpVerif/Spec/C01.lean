import FxpVerif.Model.Chk
import Mathlib.Data.Rat.Floor
import Mathlib.Algebra.Order.Ring.Abs
/-!
# C01 — the property as a mathematical statement

`Spec f r o v c`: `c` is OVERFLOW(ROUND(v·2^n_frac)) in exact arithmetic, with ROUND and OVERFLOW given
*relationally* (what the English says), not by the model's functions.
-/
namespace Fxp.C01
open Fxp

/-- ROUND: the configured rounding rule as a relation between the exact scaled value and an integer. -/
def SpecRound : Rounding → ℚ → ℤ → Prop
  | .floor,  x, q => (q:ℚ) ≤ x ∧ x < q + 1
  | .ceil,   x, q => (q:ℚ) - 1 < x ∧ x ≤ q
  | .trunc,  x, q => (0 ≤ x → (q:ℚ) ≤ x ∧ x < q + 1) ∧ (x < 0 → (q:ℚ) - 1 < x ∧ x ≤ q)
  | .fix,    x, q => (0 ≤ x → (q:ℚ) ≤ x ∧ x < q + 1) ∧ (x < 0 → (q:ℚ) - 1 < x ∧ x ≤ q)
  | .around, x, q => |(q:ℚ) - x| ≤ 1/2 ∧ (|(q:ℚ) - x| = 1/2 → q % 2 = 0)

/-- OVERFLOW: saturate = the bound on the input's own side; wrap = the in-range representative mod 2^n_word. -/
def SpecOvf : Overflow → Fmt → ℤ → ℤ → Prop
  | .saturate, f, k, c => (f.hi < k → c = f.hi) ∧ (k < f.lo → c = f.lo) ∧ (f.InRange k → c = k)
  | .wrap,     f, k, c => f.InRange c ∧ (c - k) % (2 ^ f.nword) = 0

/-- the stored code of a real value. -/
def Spec (f : Fmt) (r : Rounding) (o : Overflow) (v : ℚ) (c : ℤ) : Prop :=
  ∃ k : ℤ, SpecRound r (v * (2:ℚ) ^ f.nfrac) k ∧ SpecOvf o f k c

/-- the value read back from a code. -/
def SpecRead (f : Fmt) (c : ℤ) (x : ℚ) : Prop := x = (c:ℚ) * (2:ℚ) ^ (-f.nfrac)

end Fxp.C01
