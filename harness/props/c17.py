"""C17 — scale and bias act as an exact affine wrapper around the stored code."""
from fractions import Fraction
import numpy as np
from ..env import Fxp, parse_list, tok_list, lims, codes_of, fmt_of, exc_token, tok_bool, tok_frac, tok_exact, to_float, is_exact_float, frac, flat, ROUNDS, OVFS
from .. import gen as G
from ..arith import hist_of
from . import base

TRUSTED_BASE = base.TRUSTED_BASE
ASSUMPTIONS = base.ASSUMPTIONS + ['scale, bias and inputs are dyadic and chosen so that (v-b)/s, s*x+b and the limits are exact doubles (asserted with Fractions by the generator)']
RULE = ('SC lines: formats n_word<=16 (n_frac 0..n_word), all 10 modes, dyadic scale k/2^j (also negative) and dyadic bias, int and float spellings of scale/bias/value, inputs on and between codes and beyond both bounds, scalars and arrays: '
        'codes, get_val, upper, lower, precision, flags, observed after construction or after a content-determined history (store into an empty scaled object, resize keeping n_frac, resize to the own dtype); SCI lines: inference on scaled inputs. non-trivial = scale != 1 or bias != 0 (always) and the inner value is not an in-range code')
TECHNIQUE = 'Lean 4 theorems (stored code = C01 quantization of (v-b)/s; read-back and limits are the affine image; round-trip error < |s|*LSB; flags = those of the inner value; inference on the inner value) + differential correspondence'
LEVEL_TEXT = ('Machine-checked: a scaled object is the unscaled pipeline composed with the affine map x -> s*x+b: stored code satisfies the C01 statement for (v-b)/s, get_val is s*code*2^-n_frac+b, upper/lower/precision are the images of the unscaled ones '
              '(precision through s only), a non-overflowing input is read back within |s|*LSB, flags are those of the inner value. Correspondence over formats up to 16 bits, all modes, dyadic scales (also negative) and biases in int and float spellings.')
LEVEL_NOTE = 'Trusted: Lean kernel + standard axioms; float exactness of the affine map for the generated inputs; model-vs-code agreement on generated inputs only.'


def num(q, spelling):
    q = Fraction(q)
    if spelling == 'int' and q.denominator == 1:
        return int(q)
    return to_float(q)


def exec_SC(t):
    s, n, f = t[0] == 's', int(t[1]), int(t[2])
    r, o = t[3], t[4]
    sc, bi, sp = frac(t[5]), frac(t[6]), t[7]
    vs = [frac(v) for v in parse_list(t[8])]
    try:
        vals = [num(v, 'int' if sp == 'npint' else sp) for v in vs]
        v_in = vals[0] if len(vals) == 1 else vals
        if sp == 'npint' and all(v.denominator == 1 for v in vs):
            # integer values in the narrowest NumPy integer type that holds them (scalar or array): v - bias must not wrap in that width
            dt = next(d for d in (np.int8, np.uint8, np.int16, np.uint16, np.int32, np.int64) if all(np.iinfo(d).min <= int(v) <= np.iinfo(d).max for v in vs))
            if all(v >= 0 for v in vs) and (len(vs) + sum(int(v) % 5 for v in vs)) % 3 == 0:
                dt = np.uint64 if int(vs[0]) % 2 else np.uint32        # the wide unsigned types: v - bias must not wrap at zero either
            v_in = dt(vals[0]) if len(vals) == 1 else np.array(vals, dtype=dt)
            if (n + len(vs) + int(vs[0])) % 4 == 1:
                # the same NumPy integers standing in a python list or tuple (D59: a list of np.uint64 kept uint64 as its value type)
                v_in = [dt(v) for v in vals] if (n + f) % 2 else tuple(dt(v) for v in vals)
        if sp != 'npint':
            # (content-determined) the value arrives inside an exact fixed-point object, or as a decimal.Decimal: storing v is storing
            # (v - b) / s whatever holds v (D80: the codes of such a source were copied)
            from .. import carriers as C_
            hh = (n * 3 + f + len(vs) + sum(int(v * 4) % 7 for v in vs)) % 6
            cf = 'fxp' if len(vs) == 1 else 'arr.fxp'
            if hh == 0 and C_.ok_for(cf, vs):
                v_in = C_.build(cf, vs)[0]
            elif hh == 1 and len(vs) == 1 and C_.ok_for('decimal', vs):
                v_in = C_.build('decimal', vs)[0]
        kw = dict(rounding=r, overflow=o, scale=num(sc, 'int' if sp == 'npint' else sp), bias=num(bi, 'int' if sp == 'npint' else sp))
        if (n + f + len(vs)) % 5 == 0 and isinstance(kw['scale'], float) and float(np.float32(kw['scale'])) == kw['scale']:
            kw['scale'] = np.float32(kw['scale'])     # (the same scale as a NumPy float: limits and readings are those of the value, D80)
        if sp == 'npint' and isinstance(kw['bias'], float) and float(np.float32(kw['bias'])) == kw['bias'] and (n + f) % 2:
            kw['bias'] = np.float32(kw['bias'])       # the same bias as a NumPy float (it is a float all the same)
        lo, hi = lims(s, n)
        safe = all(lo + 1 <= (v - bi) / sc * 2 ** f <= hi - 1 for v in vs)     # no overflow whatever the rounding
        h = hist_of(n, f, len(vs), *[int(v * 8) % 1009 for v in vs]) % 7
        # "an object created with scale s and bias b" keeps them through its life: direct construction, a later store,
        # a resize that keeps n_frac (narrowing a wider word), a resize to its own dtype, or both
        if h == 1:
            x = Fxp(None if len(vals) == 1 else np.zeros(len(vals)), s, n, f, **kw)
            x.reset()       # the placeholder value 0 may itself be out of the scaled range (flags are sticky)
            x(v_in) if len(vs) % 2 else x.set_val(v_in)
        elif h == 6:
            # an object like a scaled template (the module-level fxp_like): it is a scaled object as well
            import fxpmath
            t = Fxp(None if len(vals) == 1 else np.zeros(len(vals)), s, n, f, **kw)
            t.reset()
            x = fxpmath.fxp_like(t, v_in)
        elif h == 2 and safe:
            x = Fxp(v_in, s, n + 3, f, **kw)
            x.resize(n_word=n)
        elif h == 3 and safe:
            x = Fxp(v_in, s, n, f, **kw)
            x.resize(dtype=x.dtype)
        elif h == 4 and safe:
            x = Fxp(v_in, s, n + 2, f, **kw)
            x.resize(s, n, f)
            _ = x.get_val()
        else:
            x = Fxp(v_in, s, n, f, **kw)
            if h == 5:
                # the object's own codes are stored once more as codes (raw): nothing changes — it still is the scaled object it was created as
                cs = codes_of(x)
                x.set_val(cs[0] if len(cs) == 1 else np.array(cs, dtype=np.int64), raw=True)
        st = x.status
        if len(vs) > 1 and not (st['overflow'] or st['underflow'] or st['inaccuracy']):
            # an element (a slice) taken from an array object nothing was flagged on: no write happened to it, it has no flag either
            for e in (x[0], x[0:1]):
                if e.status['overflow'] or e.status['underflow'] or e.status['inaccuracy']:
                    return ['ELEMENT_FLAGS:%d%d%d' % (e.status['overflow'], e.status['underflow'], e.status['inaccuracy'])]
        gv = [tok_exact(v) for v in flat(x.get_val())]
        return [tok_list([str(c) for c in codes_of(x)]), tok_list(gv), tok_exact(x.upper), tok_exact(x.lower), tok_exact(x.precision),
                tok_bool(st['overflow']), tok_bool(st['underflow']), tok_bool(st['inaccuracy'])]
    except Exception as e:
        return [exc_token(e)]


def exec_SCI(t):
    sg, sc, bi = t[0], frac(t[1]), frac(t[2])
    vs = [frac(v) for v in parse_list(t[3])]
    kw = {} if sg == 'n' else {'signed': sg == 's'}
    try:
        vals = [num(v, 'float') for v in vs]
        v_in = vals[0] if len(vals) == 1 else vals
        if all(v.denominator == 1 for v in vs) and (len(vs) + int(vs[0])) % 2:
            # integer values in integer-typed carriers (python int, NumPy integer scalar / array): what is sized is (v - b) / s, which need
            # not be an integer
            iv = [int(v) for v in vs]
            k_ = (len(vs) + int(vs[-1])) % 3
            v_in = (iv[0] if k_ == 0 else np.int64(iv[0]) if k_ == 1 else np.array(iv[0])) if len(iv) == 1 else (np.array(iv) if k_ else np.array(iv, dtype=np.int32))
        x = Fxp(v_in, scale=num(sc, 'float'), bias=num(bi, 'float'), **kw)
        return fmt_of(x).split() + [tok_list([str(c) for c in codes_of(x)])]
    except Exception as e:
        return [exc_token(e)]


EXEC = {'SC': exec_SC, 'SCI': exec_SCI}


def generate(tier, rng):
    V = lambda vs: tok_list([tok_frac(v) for v in vs])
    n_c = 5000 if tier == 'quick' else 120000
    for _ in range(n_c):
        s = rng.random() < 0.5
        n = rng.randint(1 + int(s), 16)
        f = rng.randint(0, n) if rng.random() < 0.7 else rng.randint(-3, n + 3)
        r, o = rng.choice(ROUNDS), rng.choice(OVFS)
        sc = Fraction(rng.choice([1, 2, 3, 5, -1, -2, -3, 7, 10]), 1 << rng.choice([0, 0, 1, 2, 3]))
        bi = Fraction(rng.choice([0, 1, -1, 2, -2, 5, -7, 100, -100, 3]), 1 << rng.choice([0, 0, 1, 2]))
        if sc == 1 and bi == 0:
            bi = Fraction(-2)
        sp = rng.choice(['int', 'float', 'npint'])
        lo, hi = lims(s, n)
        k = rng.choice([1, 1, 3])
        vs = []
        sliver = rng.random() < 0.25
        for _ in range(k):
            x = G.rand_scaled(rng, s, n)           # inner scaled value in quarter LSBs
            if sliver:
                # a code plus or minus a sliver of an LSB (2^-12 .. 2^-36): still inexact — the flag is owed however small the residual
                x = Fraction(int(x)) + rng.choice([1, -1]) * Fraction(1, 1 << rng.choice([12, 20, 28, 33, 36]))
            inner = x / Fraction(2) ** f
            v = sc * inner + bi
            vs.append(v)
        ok = all(is_exact_float(v) and is_exact_float((v - bi)) and is_exact_float((v - bi) / sc) and abs(v) < 2 ** 40 for v in vs)
        lims_ok = all(is_exact_float(sc * Fraction(c) / Fraction(2) ** f) and is_exact_float(sc * Fraction(c) / Fraction(2) ** f + bi) for c in (lo, hi, 1))
        if not (ok and lims_ok):
            continue
        yield 'SC %s %d %d %s %s %s %s %s %s' % ('s' if s else 'u', n, f, r, o, tok_frac(sc), tok_frac(bi), sp, V(vs))
    # integer values at the edge of a narrow NumPy integer type with a bias of the opposite sign: v - bias leaves that type
    for _ in range(60 if tier == 'quick' else 1500):
        edge = rng.choice([127, -128, 255, 32767, -32768, 65535, 100, -100, 200, 30000])
        v = edge + rng.choice([0, 0, -1, 1]) * (abs(edge) not in (127, 128, 255, 32767, 32768, 65535))
        bi = Fraction(-1 if v > 0 else 1) * rng.choice([1, 28, 100, 200, 40000])
        sc = Fraction(rng.choice([1, 1, 2, -1]))
        n = rng.randint(12, 16); f = rng.choice([0, 0, 1])
        inner = (Fraction(v) - bi) / sc
        lo, hi = lims(True, 20)
        if not (lo < inner * 2 ** f < hi):
            continue
        yield 'SC s 20 %d %s %s %s %s npint %s' % (f, rng.choice(ROUNDS), rng.choice(OVFS), tok_frac(sc), tok_frac(bi), V([Fraction(v)] * rng.choice([1, 2])))
    for _ in range(600 if tier == 'quick' else 15000):
        sc = Fraction(rng.choice([1, 2, 3, -1, 5]), 1 << rng.choice([0, 1, 2]))
        bi = Fraction(rng.choice([0, 1, -1, 4, -9]), 1 << rng.choice([0, 1]))
        if sc == 1 and bi == 0:
            bi = Fraction(3)
        sg = rng.choice(['n', 's', 'u'])
        vs = []
        for _ in range(rng.choice([1, 2])):
            inner = Fraction(rng.randint(-(1 << 12), 1 << 12), 1 << rng.randint(0, 8))
            if sg == 'u':
                inner = abs(inner)
            v = sc * inner + bi
            if is_exact_float(v) and is_exact_float(v - bi) and is_exact_float((v - bi) / sc):
                vs.append(v)
        if vs:
            yield 'SCI %s %s %s %s' % (sg, tok_frac(sc), tok_frac(bi), V(vs))


def nontrivial(full_line, model):
    return True


def kf_class(t):
    return None


def debug_class(t):
    if t[0] == 'SC':
        return 'SC %s sp=%s scale%s bias%s' % (t[1], t[8], '<0' if t[6].startswith('-') else '>0', '<0' if t[7].startswith('-') else '>=0')
    return t[0]


def stats(verdicts):
    return base.generic_stats(verdicts, lambda t: ['op:' + t[0]] + (['spelling:' + t[8], 'round:' + t[4], 'ovf:' + t[5], 'signed:' + t[1]] if t[0] == 'SC' else []),
                              lambda t: len(parse_list(t[-1])), [])
