import FxpVerif.Model.Core
import Mathlib.Data.Rat.Floor
import Mathlib.Tactic.Linarith
import Mathlib.Tactic.Ring
import Mathlib.Tactic.Positivity
import Mathlib.Tactic.FieldSimp
import Mathlib.Algebra.Order.Ring.Abs

/-! Helper lemmas on `scale` and `roundR` (bridges from the executable model to Mathlib's `⌊·⌋`, `⌈·⌉`, `zpow`). -/
namespace Fxp

theorem floor_eq (x : ℚ) : x.floor = ⌊x⌋ := rfl

theorem ceil_eq (x : ℚ) : x.ceil = ⌈x⌉ := by
  rw [Rat.ceil_eq_neg_floor_neg, floor_eq, Int.floor_neg, neg_neg]

theorem scale_eq (v : ℚ) (e : ℤ) : scale v e = v * (2:ℚ) ^ e := by
  unfold scale
  split
  · rename_i h
    obtain ⟨n, rfl⟩ := Int.eq_ofNat_of_zero_le h
    simp [zpow_natCast]
  · rename_i h
    have h' : e < 0 := by omega
    obtain ⟨n, hn⟩ := Int.exists_eq_neg_ofNat (le_of_lt h')
    subst hn
    simp [zpow_neg, zpow_natCast, div_eq_mul_inv]

theorem two_zpow_pos (e : ℤ) : (0:ℚ) < (2:ℚ) ^ e := zpow_pos (by norm_num) e

theorem scale_int_cancel (c : ℤ) (e : ℤ) : scale (scale (c:ℚ) (-e)) e = c := by
  rw [scale_eq, scale_eq, mul_assoc, ← zpow_add₀ (by norm_num : (2:ℚ) ≠ 0)]
  simp

theorem scale_scale_neg (v : ℚ) (e : ℤ) : scale (scale v e) (-e) = v := by
  rw [scale_eq, scale_eq, mul_assoc, ← zpow_add₀ (by norm_num : (2:ℚ) ≠ 0)]
  simp

theorem scale_mono (e : ℤ) {v w : ℚ} (h : v ≤ w) : scale v e ≤ scale w e := by
  rw [scale_eq, scale_eq]; exact mul_le_mul_of_nonneg_right h (le_of_lt (two_zpow_pos e))

theorem scale_lt (e : ℤ) {v w : ℚ} (h : v < w) : scale v e < scale w e := by
  rw [scale_eq, scale_eq]; exact mul_lt_mul_of_pos_right h (two_zpow_pos e)

/-! ### rounding -/

theorem roundR_floor (x : ℚ) : roundR .floor x = ⌊x⌋ := rfl
theorem roundR_ceil (x : ℚ) : roundR .ceil x = ⌈x⌉ := ceil_eq x
theorem roundR_trunc (x : ℚ) : roundR .trunc x = if x < 0 then ⌈x⌉ else ⌊x⌋ := by
  simp [roundR, ceil_eq, floor_eq]
theorem roundR_fix (x : ℚ) : roundR .fix x = roundR .trunc x := rfl

theorem roundHalfEven_of_lt (x : ℚ) (h : x - (⌊x⌋:ℚ) < 1/2) : roundHalfEven x = ⌊x⌋ := by
  have h' : x - (x.floor : ℚ) < 1/2 := h
  show roundHalfEven x = x.floor
  unfold roundHalfEven; simp only []; rw [if_pos h']

theorem roundHalfEven_of_gt (x : ℚ) (h : 1/2 < x - (⌊x⌋:ℚ)) : roundHalfEven x = ⌊x⌋ + 1 := by
  have h' : 1/2 < x - (x.floor : ℚ) := h
  show roundHalfEven x = x.floor + 1
  unfold roundHalfEven; simp only []
  rw [if_neg (by linarith), if_pos h']

theorem roundHalfEven_of_tie (x : ℚ) (h : x - (⌊x⌋:ℚ) = 1/2) :
    roundHalfEven x = if ⌊x⌋ % 2 = 0 then ⌊x⌋ else ⌊x⌋ + 1 := by
  have h' : x - (x.floor : ℚ) = 1/2 := h
  show roundHalfEven x = if x.floor % 2 = 0 then x.floor else x.floor + 1
  unfold roundHalfEven; simp only []
  rw [if_neg (by linarith), if_neg (by linarith)]

/-- `around` lands within one half, and on an even integer on exact ties. -/
theorem roundHalfEven_spec (x : ℚ) :
    |(roundHalfEven x : ℚ) - x| ≤ 1/2 ∧ (|(roundHalfEven x : ℚ) - x| = 1/2 → roundHalfEven x % 2 = 0) := by
  have h1 := Int.floor_le x
  have h2 := Int.lt_floor_add_one x
  rcases lt_trichotomy (x - (⌊x⌋:ℚ)) (1/2) with ha | ha | ha
  · rw [roundHalfEven_of_lt x ha]
    refine ⟨by rw [abs_le]; constructor <;> linarith, fun h => ?_⟩
    have : |((⌊x⌋:ℤ):ℚ) - x| < 1/2 := by rw [abs_lt]; constructor <;> linarith
    linarith
  · rw [roundHalfEven_of_tie x ha]
    split
    · rename_i hc
      exact ⟨by rw [abs_le]; constructor <;> linarith, fun _ => hc⟩
    · exact ⟨by push_cast; rw [abs_le]; constructor <;> linarith, fun _ => by omega⟩
  · rw [roundHalfEven_of_gt x ha]
    refine ⟨by push_cast; rw [abs_le]; constructor <;> linarith, fun h => ?_⟩
    have : |((⌊x⌋ + 1 : ℤ):ℚ) - x| < 1/2 := by push_cast; rw [abs_lt]; constructor <;> linarith
    linarith

/-- uniqueness: any integer within one half of `x`, even on ties, is what `around` returns. -/
theorem roundHalfEven_unique (x : ℚ) (q : ℤ) (h1 : |(q:ℚ) - x| ≤ 1/2)
    (h2 : |(q:ℚ) - x| = 1/2 → q % 2 = 0) : q = roundHalfEven x := by
  obtain ⟨s1, s2⟩ := roundHalfEven_spec x
  generalize roundHalfEven x = p at *
  rw [abs_le] at h1 s1
  have hlt : |((q - p : ℤ) : ℚ)| ≤ 1 := by
    push_cast; rw [abs_le]; constructor <;> linarith [h1.1, h1.2, s1.1, s1.2]
  have hqp : -1 ≤ q - p ∧ q - p ≤ 1 := by
    rw [abs_le] at hlt
    constructor
    · have := hlt.1; exact_mod_cast this
    · have := hlt.2; exact_mod_cast this
  rcases (by omega : q - p = -1 ∨ q - p = 0 ∨ q - p = 1) with h | h | h
  · -- q = p - 1: then both are ties, both even: contradiction
    have hq0 : q = p - 1 := by omega
    have hq : (q:ℚ) = p - 1 := by subst hq0; push_cast; ring
    have e1 : |(q:ℚ) - x| = 1/2 := by
      rw [abs_eq (by norm_num)]; right; linarith [h1.1, s1.2]
    have e2 : |(p:ℚ) - x| = 1/2 := by
      rw [abs_eq (by norm_num)]; left; linarith [h1.1, s1.2]
    have := h2 e1; have := s2 e2; omega
  · omega
  · have hq0 : q = p + 1 := by omega
    have hq : (q:ℚ) = p + 1 := by subst hq0; push_cast; ring
    have e1 : |(q:ℚ) - x| = 1/2 := by
      rw [abs_eq (by norm_num)]; left; linarith [h1.2, s1.1]
    have e2 : |(p:ℚ) - x| = 1/2 := by
      rw [abs_eq (by norm_num)]; right; linarith [h1.2, s1.1]
    have := h2 e1; have := s2 e2; omega

theorem roundHalfEven_add_int (x : ℚ) (t : ℤ) (ht : t % 2 = 0) :
    roundHalfEven (x + t) = roundHalfEven x + t := by
  symm
  apply roundHalfEven_unique
  · obtain ⟨s1, _⟩ := roundHalfEven_spec x
    have : ((roundHalfEven x + t : ℤ) : ℚ) - (x + t) = (roundHalfEven x : ℚ) - x := by push_cast; ring
    rw [this]; exact s1
  · obtain ⟨_, s2⟩ := roundHalfEven_spec x
    have : ((roundHalfEven x + t : ℤ) : ℚ) - (x + t) = (roundHalfEven x : ℚ) - x := by push_cast; ring
    rw [this]; intro h; have := s2 h; omega

/-- every mode returns an integer strictly within 1 of the input. -/
theorem roundR_err_lt_one (r : Rounding) (x : ℚ) : |(roundR r x : ℚ) - x| < 1 := by
  have h1 := Int.floor_le x
  have h2 := Int.lt_floor_add_one x
  have h3 := Int.le_ceil x
  have h4 := Int.ceil_lt_add_one x
  cases r
  case around =>
    have := (roundHalfEven_spec x).1
    show |(roundHalfEven x : ℚ) - x| < 1
    linarith
  all_goals
    simp only [roundR, floor_eq, ceil_eq]
    try split
    all_goals (rw [abs_lt]; constructor <;> linarith)

/-- an integer is returned unchanged by every rounding mode. -/
theorem roundR_int (r : Rounding) (k : ℤ) : roundR r (k : ℚ) = k := by
  cases r
  case around =>
    show roundHalfEven (k:ℚ) = k
    symm; apply roundHalfEven_unique <;> simp
  all_goals simp [roundR, floor_eq, ceil_eq]

theorem roundHalfEven_mono {x y : ℚ} (h : x ≤ y) : roundHalfEven x ≤ roundHalfEven y := by
  obtain ⟨a1, a2⟩ := roundHalfEven_spec x
  obtain ⟨b1, b2⟩ := roundHalfEven_spec y
  generalize roundHalfEven x = p at *
  generalize roundHalfEven y = q at *
  by_contra hlt
  have hpq : q + 1 ≤ p := by omega
  have hpq' : (q:ℚ) + 1 ≤ p := by exact_mod_cast hpq
  rw [abs_le] at a1 b1
  -- p - 1/2 ≤ x ≤ y ≤ q + 1/2 ≤ p - 1/2: all equalities
  have e1 : (p:ℚ) - x = 1/2 := by linarith [a1.2, b1.1]
  have e2 : (q:ℚ) - y = -(1/2) := by linarith [a1.2, b1.1]
  have e3 : (p:ℚ) = q + 1 := by linarith [a1.2, b1.1]
  have hp := a2 (by rw [e1]; norm_num)
  have hq := b2 (by rw [e2]; norm_num)
  have : p = q + 1 := by exact_mod_cast e3
  omega

theorem roundR_mono (r : Rounding) {x y : ℚ} (h : x ≤ y) : roundR r x ≤ roundR r y := by
  cases r
  case around => exact roundHalfEven_mono h
  case floor => exact Int.floor_le_floor h
  case ceil => simp only [roundR, ceil_eq]; exact Int.ceil_le_ceil h
  all_goals
    simp only [roundR, floor_eq, ceil_eq]
    split <;> split
    · exact Int.ceil_le_ceil h
    · rename_i hx hy
      have : ⌈x⌉ ≤ 0 := Int.ceil_le.mpr (by exact_mod_cast le_of_lt hx)
      have : 0 ≤ ⌊y⌋ := Int.floor_nonneg.mpr (not_lt.mp hy)
      omega
    · rename_i hx hy; exfalso; exact hx (lt_of_le_of_lt h hy)
    · exact Int.floor_le_floor h

/-- rounding commutes with adding an integer (an even one for `around`'s tie rule to be preserved). -/
theorem roundR_add_int (r : Rounding) (x : ℚ) (t : ℤ) (ht : r = .around → t % 2 = 0)
    (hs : (r = .trunc ∨ r = .fix) → (x < 0 ↔ x + t < 0)) :
    roundR r (x + t) = roundR r x + t := by
  cases r
  case around => exact roundHalfEven_add_int x t (ht rfl)
  case floor => simp [roundR, floor_eq]
  case ceil => simp [roundR, ceil_eq]
  case trunc =>
    have := hs (Or.inl rfl)
    simp only [roundR, floor_eq, ceil_eq]
    by_cases hx : x < 0
    · rw [if_pos hx, if_pos (this.mp hx)]; simp
    · rw [if_neg hx, if_neg (fun h => hx (this.mpr h))]; simp
  case fix =>
    have := hs (Or.inr rfl)
    simp only [roundR, floor_eq, ceil_eq]
    by_cases hx : x < 0
    · rw [if_pos hx, if_pos (this.mp hx)]; simp
    · rw [if_neg hx, if_neg (fun h => hx (this.mpr h))]; simp

end Fxp
