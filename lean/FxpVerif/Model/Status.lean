import FxpVerif.Model.Convert
/-!
# Status record and callback trace as a state machine
(`objects.py` `_overflow_action` 1093-1100, `set_val` 924-930, `reset` 1652-1657, `resize` 493-500;
`functions.py` 132-134, 184-186)

A *write* raises `overflow` / `underflow` from comparing the rounded values with the limits, `inaccuracy` when
some stored element differs from its input, runs the callback of each condition that occurred **in this write**
(in the order overflow, underflow, inaccuracy) and then the value-change callback. Flags are only ever set
by writes and cleared by `reset`.
-/
namespace Fxp

structure Obj where
  fmt : Fmt
  r : Rounding
  o : Overflow
  codes : List Int
  ov : Bool
  un : Bool
  inacc : Bool
deriving Repr

inductive Step
  | write (vs : List Rat)              -- whole-value write (`x(v)`, `set_val`)
  | windex (i : Nat) (v : Rat)         -- indexed write `x[i] = v`
  | reset
  | resize (g : Fmt)                   -- re-stores the shifted codes, raw
  | derive (yInacc : Bool)             -- observe `x + y` for an exact `y` (or one carrying the inaccuracy flag)
deriving Repr

/-- events of one write, in the order the code fires them. -/
def events (ov un ia : Bool) : String :=
  (if ov then "o" else "") ++ (if un then "u" else "") ++ (if ia then "i" else "") ++ "c"

/-- conditions of storing the (already scaled when `raw`) carriers `xs` into `fmt`. -/
def conds (fmt : Fmt) (r : Rounding) (o : Overflow) (xs : List Rat) : List Int × Bool × Bool × Bool :=
  let ks := xs.map (roundR r)
  let cs := ks.map (ovf o fmt)
  (cs, ks.any (fun k => decide (fmt.hi < k)), ks.any (fun k => decide (k < fmt.lo)),
   (List.zipWith (fun (c : Int) (x : Rat) => decide ((c : Rat) ≠ x)) cs xs).any id)

def setAt {α} (l : List α) (i : Nat) (v : α) : List α := l.set i v

/-- one step: new object state and what is observed (`flags:events`, or the derived object's flags). -/
def step (x : Obj) : Step → Obj × String
  | .write vs =>
    let (cs, ov, un, ia) := conds x.fmt x.r x.o (vs.map (fun v => scale v x.fmt.nfrac))
    -- inaccuracy compares value with code/conv_factor, i.e. scaled input with code
    ({ x with codes := cs, ov := x.ov || ov, un := x.un || un, inacc := x.inacc || ia }, events ov un ia)
  | .windex i v =>
    let (cs, ov, un, ia) := conds x.fmt x.r x.o [scale v x.fmt.nfrac]
    ({ x with codes := setAt x.codes i (cs.headD 0), ov := x.ov || ov, un := x.un || un, inacc := x.inacc || ia }, events ov un ia)
  | .reset => ({ x with ov := false, un := false, inacc := false }, "")
  | .resize g =>
    let (cs, ov, un, ia) := conds g x.r x.o (x.codes.map (shiftedCode x.fmt g))
    ({ x with fmt := g, codes := cs, ov := x.ov || ov, un := x.un || un, inacc := x.inacc || ia }, events ov un ia)
  | .derive yInacc => (x, if x.inacc || yInacc then "z1" else "z0")

def showFlags (x : Obj) : String :=
  (if x.ov then "1" else "0") ++ (if x.un then "1" else "0") ++ (if x.inacc then "1" else "0")

/-- run a history; per step: `flags:observed`. -/
def run (x : Obj) : List Step → List String
  | [] => []
  | s :: rest => let (x', ev) := step x s; (showFlags x' ++ ":" ++ ev) :: run x' rest

/-- final state of a history. -/
def runState (x : Obj) : List Step → Obj
  | [] => x
  | s :: rest => runState (step x s).1 rest

end Fxp
