"""./check <ID> <quick|thorough>            decide one property on the current /repo tree
   ./check <ID> --replay <file>             re-execute a recorded failing input

Decision procedure (DESIGN §5): build + scan + axiom audit of the property's theorems, then the
correspondence: generated protocol lines are executed on the real fxpmath (in-process, public API), the
observed outputs are appended, and the Lean driver answers for every line with
    <A> <S> <model observables>
A = observed agrees with the model on the property's projection, S = the checker of the property's Spec
(proved equivalent to / implied by the Spec in Lean) accepts the observed output.
Exit 0 = held on everything explored, 1 = VIOLATION (line printed), 2 = infrastructure failure/timeouts."""
import importlib, json, os, random, sys, time, traceback, hashlib
import multiprocessing as mp

from . import lean

VERIF = lean.VERIF
KF_PATH = os.path.join(VERIF, 'known_findings.json')


def load_known():
    if not os.path.exists(KF_PATH):
        return []
    return json.load(open(KF_PATH))['findings']


def source_changed():
    """files of $FXP_REPO/fxpmath whose normalised AST differs from anchors.lock.json (escalation only, never a verdict)."""
    import ast, hashlib
    repo = os.environ.get('FXP_REPO', '/repo')
    try:
        lock = json.load(open(os.path.join(VERIF, 'anchors.lock.json')))
    except Exception:
        return []
    changed = []
    for fn, h in lock.items():
        try:
            src = open(os.path.join(repo, 'fxpmath', fn)).read()
            cur = hashlib.sha256(ast.dump(ast.parse(src), include_attributes=False).encode()).hexdigest()
        except Exception:
            cur = None
        if cur != h:
            changed.append(fn)
    return changed


def load_corpus(pid):
    path = os.path.join(VERIF, 'corpus', pid + '.jsonl')
    out = []
    if os.path.exists(path):
        for l in open(path):
            l = l.strip()
            if l and not l.startswith('#'):
                out.append(json.loads(l))
    return out


# ------------------------------------------------------------------ executing lines on the implementation
_MOD = None


class _LineTimeout(Exception):
    pass


def _alarm(signum, frame):
    raise _LineTimeout()


def _exec_one(line):
    from . import env
    import signal
    env.reset_class_state()
    toks = line.split()
    # a line takes milliseconds; one that does not come back within the limit (a loop that no longer terminates) is an
    # observable of the implementation like any other exception, not a hang of the check
    limit = int(os.environ.get('VERIF_LINE_TIMEOUT', '60'))
    old = signal.signal(signal.SIGALRM, _alarm)
    signal.alarm(limit)
    try:
        obs = _MOD.EXEC[toks[0]](toks[1:])
    except _LineTimeout:
        obs = ['EXC:Timeout']
    except Exception as e:  # an exception escaping the executor is an observable of the implementation
        obs = [env.exc_token(e)]
    finally:
        signal.alarm(0)
        signal.signal(signal.SIGALRM, old)
        env.reset_class_state()
    return line + ' | ' + ' '.join(obs)


def _exec_chunk(lines):
    return [_exec_one(l) for l in lines]


def exec_lines(mod, lines, procs):
    global _MOD
    _MOD = mod
    if procs <= 1 or len(lines) < 64:
        return _exec_chunk(lines)
    n = max(1, min(len(lines) // (procs * 4) + 1, 2000))
    chunks = [lines[i:i + n] for i in range(0, len(lines), n)]
    ctx = mp.get_context('fork')
    with ctx.Pool(procs) as pool:
        res = pool.map(_exec_chunk, chunks)
    return [x for c in res for x in c]


def judge(full_lines):
    outs = lean.run_driver(full_lines)
    res = []
    for fl, o in zip(full_lines, outs):
        t = o.split()
        if not t or t[0] == 'ERR':
            res.append(('ERR', fl, o))
        elif t[0] == 'SKIP':
            res.append(('SKIP', fl, o))
        else:
            res.append((t[0] + t[1], fl, ' '.join(t[2:])))
    return res


def generic_shrink(line, fails):
    """reduce parallel list arguments `[a,b,c]` to the single position that still fails (greedy)."""
    toks = line.split()
    lists = [(i, t[1:-1].split(',')) for i, t in enumerate(toks) if t.startswith('[') and t.endswith(']') and len(t) > 2]
    if not lists:
        return line
    n = max(len(l) for _, l in lists)
    if n <= 1:
        return line
    for k in range(n):
        cand = list(toks)
        for i, l in lists:
            if len(l) == n:
                cand[i] = '[' + l[k] + ']'
        c = ' '.join(cand)
        try:
            if fails(c):
                return c
        except Exception:
            pass
    return line


def write_replay(pid, seed, tier, kind, entries, note):
    os.makedirs(os.path.join(VERIF, 'replays'), exist_ok=True)
    h = hashlib.sha1(('\n'.join(e['line'] for e in entries) + kind).encode()).hexdigest()[:10]
    path = os.path.join(VERIF, 'replays', '%s_%s_%s.json' % (pid, kind, h))
    json.dump({'property': pid, 'seed': seed, 'tier': tier, 'kind': kind, 'note': note, 'cases': entries},
              open(path, 'w'), indent=1)
    return path


def main(argv):
    t0 = time.time()
    if len(argv) < 2:
        print(__doc__); return 2
    pid = argv[0].upper()
    from . import env  # imports the fxpmath under test ($FXP_REPO first on sys.path) before any property module does
    mod = importlib.import_module('harness.props.' + pid.lower())
    seed = int(os.environ.get('VERIF_SEED', '0'))
    procs = int(os.environ.get('VERIF_PROCS', str(min(16, os.cpu_count() or 1))))
    replay = None
    if argv[1] == '--replay':
        replay = json.load(open(argv[2]))
        tier = replay.get('tier', 'quick')
    else:
        tier = argv[1]
        if tier not in ('quick', 'thorough'):
            print('tier must be quick or thorough'); return 2

    os.environ.setdefault('VERIF_LINE_TIMEOUT', '60' if tier == 'quick' else '600')
    # ---------------------------------------------------------------- 0/1: proof obligations
    ok_build, build_s, build_log = lean.build()
    if not ok_build:
        sys.stdout.write(build_log[-4000:])
        print('INFRA: lake build failed (the Lean sources live in /verif and do not depend on /repo)')
        return 2
    hits = lean.scan_sources()
    from . import srctie
    ok_audit, axioms, audit_log = lean.audit(pid, srctie.audit_names(pid))
    theorems = lean.theorems_of(pid)
    if hits or not ok_audit:
        print('INFRA: proof audit failed for %s: forbidden=%s axioms=%s' % (pid, hits, axioms))
        sys.stdout.write(audit_log[-3000:])
        return 2
    if tier == 'thorough' and replay is None and os.environ.get('VERIF_SKIP_LEANCHECKER') != '1':
        import subprocess
        mods = ['FxpVerif.Props.' + pid]
        p = subprocess.run(['lake', 'env', 'leanchecker'] + mods, cwd=lean.LEAN_DIR, stdout=subprocess.PIPE,
                           stderr=subprocess.STDOUT, text=True, timeout=3000)
        leanchecker = 'ok' if p.returncode == 0 else 'FAILED: ' + p.stdout[-500:]
        if p.returncode != 0:
            print('INFRA: leanchecker rejected', mods, p.stdout[-2000:]); return 2
    else:
        leanchecker = 'not run (quick tier)'

    # ---------------------------------------------------------------- 2: correspondence
    from . import env  # imports the fxpmath under test
    known = [k for k in load_known() if k['property'] == pid]
    known_open = [k for k in known if k['status'] == 'known']

    # ---------------------------------------------------------------- 1b: source tie (DESIGN §14)
    # the decision logic of functions.py is translated to Lean again from the tree under test; the tie theorems are
    # re-checked against it.  broken = the generated rule is no longer the one the property theorems speak about.
    try:
        import fxpmath as _fx
        if getattr(_fx, '_n_word_max', None) != 64:
            # the translator reads `_n_word_max` as 64 (the value fxpmath/__init__.py detects on this platform)
            raise RuntimeError('fxpmath._n_word_max is %r, the source tie assumes 64' % (getattr(_fx, '_n_word_max', None),))
        tie = srctie.check()
    except Exception as e:
        # the translator / the re-check itself failed: the source tie is an additional tie — it is reported as not established
        # for every rule (the registered tie, the correspondence, decides alone), never as a verdict and never as a failed run
        print('NOTE: source tie could not be evaluated (%r): treated as not established' % (e,))
        tie = {'status': {t: 'not-established: translator error %r' % (e,) for t in srctie.THEOREMS}, 'problems': {}, 'diffs': {},
               'generated_sha256': '', 'identical_to_committed': False, 'log': ''}
    tie_mine, tie_broken, tie_missing, tie_transfer = srctie.for_property(pid, tie)

    changed = []
    if replay is not None:
        arg_lines = [c['line'] for c in replay['cases']]
        corpus_n = 0
    else:
        corpus = load_corpus(pid)
        arg_lines = [c['line'] for c in corpus]
        corpus_n = len(arg_lines)
        rng = random.Random('%s/%d/%s' % (pid, seed, tier))
        arg_lines += list(mod.generate(tier, rng))
        if tier == 'thorough':
            # the thorough tier repeats the random part with further generator seeds (exhaustive lines are de-duplicated)
            seen = set(arg_lines)
            for k in range(1, int(os.environ.get('VERIF_THOROUGH_ROUNDS', '4'))):
                rng_x = random.Random('%s/%d/%s' % (pid, seed + 10000 * k, tier))
                for l in mod.generate(tier, rng_x):
                    if l not in seen:
                        seen.add(l); arg_lines.append(l)
            del seen
        changed = source_changed()
        if tier == 'quick':
            # the quick tier draws its random part from three generator streams (a few seconds each); when the source differs from
            # the tree the model was validated against, from six; when a source-tie theorem of this property is broken or could
            # not be established, from nine. Exhaustive lines repeat across streams and are executed once.
            streams = (1000, 2000)
            if changed:
                streams += (3000, 4000, 5000)
            if tie_broken or tie_missing:
                streams += (6000, 7000, 8000)
            seen = set(arg_lines)
            for extra in streams:
                rng_x = random.Random('%s/%d/%s' % (pid, seed + extra, tier))
                for l in mod.generate(tier, rng_x):
                    if l not in seen:
                        seen.add(l); arg_lines.append(l)
            del seen

    full = exec_lines(mod, arg_lines, procs)
    verdicts = judge(full)

    errs = [v for v in verdicts if v[0] == 'ERR']
    if errs:
        for v in errs[:5]:
            print('INFRA: driver error on', v[1], '->', v[2])
        return 2

    fails, disagree = [], []
    for v in verdicts:
        if v[0] == 'SKIP':
            continue
        a, s = v[0][0], v[0][1]
        if s == '0':
            fails.append(v)
        elif a == '0':
            disagree.append(v)

    # directed search when the correspondence is broken but no failing input is known yet
    searched = 0
    if disagree and not fails and replay is None and hasattr(mod, 'search'):
        rng2 = random.Random('%s/%d/search' % (pid, seed))
        extra = list(mod.search([d[1].split(' | ')[0] for d in disagree[:50]], rng2))
        searched = len(extra)
        if extra:
            v2 = judge(exec_lines(mod, extra, procs))
            for v in v2:
                if v[0] not in ('ERR', 'SKIP') and v[0][1] == '0':
                    fails.append(v)
            verdicts += [v for v in v2 if v[0] != 'ERR']

    # known findings: only a failing case of exactly the listed class is suppressed
    kf_hit = {}
    new_fails = []
    for v in fails:
        cls = mod.kf_class(v[1].split(' | ')[0].split()) if hasattr(mod, 'kf_class') else None
        k = next((k for k in known_open if cls is not None and k['class'] == cls), None)
        if k is not None:
            kf_hit.setdefault(k['id'], []).append(v[1])
        else:
            new_fails.append(v)
    for k in known_open:
        print('KNOWN-FINDING: property=%s %s [%s; reproduced on %d generated case(s) in this run]'
              % (pid, k['what'], k['id'], len(kf_hit.get(k['id'], []))))

    rc = 0
    violation_lines = []
    if os.environ.get('VERIF_DEBUG'):
        dbg = {}
        for v in new_fails + disagree:
            key = mod.debug_class(v[1].split()) if hasattr(mod, 'debug_class') else v[1].split()[0]
            dbg.setdefault(key, []).append(v)
        for k, vs in sorted(dbg.items(), key=lambda kv: -len(kv[1])):
            print(('DEBUG class %s %d | e.g. %s => model %s' % (k, len(vs), vs[0][1][:300], vs[0][2][:200]))[:700])
    if new_fails:
        shr = getattr(mod, 'shrink', generic_shrink)
        entries = []
        for v in new_fails[:20]:
            line = v[1].split(' | ')[0]
            if shr is not None:
                try:
                    def _still_fails(l):
                        fl_ = exec_lines(mod, [l], 1)[0]
                        ex_ = [w for w in fl_.split() if w.startswith('EXC:')]
                        if ex_ and ex_[0] not in v[1].split():
                            return False      # the shrunk line fails differently (e.g. it violates a precondition of the harness itself)
                        return judge([fl_])[0][0][1:2] == '0'
                    line = shr(line, _still_fails)
                except Exception:
                    pass
            fl = exec_lines(mod, [line], 1)[0]
            jv = judge([fl])[0]
            entries.append({'line': line, 'observed': fl.split(' | ')[1] if ' | ' in fl else '',
                            'model': jv[2], 'verdict': jv[0]})
        path = write_replay(pid, seed, tier, 'failing-input', entries,
                            'the implementation output violates the Spec checker of %s on these inputs '
                            '(observed vs. model shown); theorems: %s' % (pid, ', '.join(theorems)))
        print('VIOLATION property=%s replay=%s' % (pid, os.path.relpath(path, VERIF)))
        violation_lines.append(path)
        for e in entries[:5]:
            print(('  failing input: %s | observed %s | model %s' % (e['line'], e['observed'], e['model']))[:700])
        rc = 1
    if tie_broken and not new_fails and replay is None:
        # a proof obligation about the regenerated rules no longer checks and no failing input was found on the implementation
        entries = [{'line': 'TIE ' + t, 'observed': '; '.join(tie['diffs'].get(t, [])[:5]) or 'no differing formats found on the grid',
                    'model': 'theorem Fxp.Gen.Tie.%s (lean/FxpVerif/Gen/Tie.lean) about %s generated from fxpmath/functions.py'
                             % (t, srctie.THEOREMS[t][0]), 'verdict': 'broken'} for t in tie_broken]
        path = write_replay(pid, seed, tier, 'source-tie', entries,
                            'proof obligation(s) %s no longer check against the definitions regenerated from the current '
                            'fxpmath/functions.py (python -m harness.srctie shows the Lean errors): the rule in the source is no longer '
                            'the rule the theorems of %s are about. The implementation was searched with the escalated budget '
                            '(%d lines) and no input violating the property itself was found.'
                            % (', '.join(tie_broken), pid, len(full)))
        print('VIOLATION property=%s replay=%s no-failing-input-found' % (pid, os.path.relpath(path, VERIF)))
        violation_lines.append(path)
        rc = 1
    elif disagree and not fails:
        entries = [{'line': v[1].split(' | ')[0], 'observed': v[1].split(' | ')[1] if ' | ' in v[1] else '',
                    'model': v[2], 'verdict': v[0]} for v in disagree[:20]]
        path = write_replay(pid, seed, tier, 'correspondence', entries,
                            'correspondence obligation corr_%s no longer checks: the implementation differs from '
                            'the Lean model on these lines although the Spec checker accepts its output; the '
                            'theorems %s therefore no longer speak about this code. Directed search tried %d more '
                            'inputs without finding a failing one.' % (pid, ', '.join(theorems), searched))
        print('VIOLATION property=%s replay=%s no-failing-input-found' % (pid, os.path.relpath(path, VERIF)))
        violation_lines.append(path)
        rc = 1

    if replay is not None:
        print('replay: %d case(s), %d failing, %d disagreeing' % (len(full), len(fails), len(disagree)))
        return rc

    # ---------------------------------------------------------------- 5: evidence
    stats = mod.stats(verdicts) if hasattr(mod, 'stats') else {}
    judged = [v for v in verdicts if v[0] not in ('SKIP',)]
    nontriv = set()
    for v in judged:
        if mod.nontrivial(v[1], v[2]):
            nontriv.add(v[1].split(' | ')[0])
    corr_obl = sorted(set(v[1].split()[0] for v in judged))
    tie_obl = [t for t in tie_mine if t not in tie_missing]          # rules the translator could regenerate
    n_obl = len(theorems) + len(corr_obl) + 2 + len(tie_obl) + len(tie_transfer)
    discharged = n_obl - (1 if (disagree and not fails) or new_fails else 0) - len(tie_broken)
    samples = [{'line': v[1], 'driver': v[0] + ' ' + v[2]} for v in judged[:3] + judged[len(judged) // 2:len(judged) // 2 + 3] + judged[-2:]]
    ev = {
        'property_id': pid, 'tier': tier, 'seed': seed, 'level': 'proof',
        'coverage': {
            'obligations': n_obl, 'discharged': discharged,
            'checker_cmd': 'cd lean && lake build && lake env lean <#print axioms of every theorem in FxpVerif/Props/%s.lean>; '
                           './check %s %s (correspondence of the model with /repo)' % (pid, pid, tier),
            'trusted_base': mod.TRUSTED_BASE,
            'theorems': {t: axioms.get(t, []) for t in theorems},
            'source_tie': {
                'what': 'decision rules of fxpmath/functions.py translated to Lean on this run (harness/srcgen.py) and the tie theorems of '
                        'lean/FxpVerif/Gen/Tie.lean checked against the translation',
                'generated_sha256': tie['generated_sha256'],
                'identical_to_committed_translation': tie['identical_to_committed'],
                'theorems': {t: tie['status'].get(t, 'n/a') for t in tie_mine},
                'restated_property_theorems': tie_transfer,
                'axioms': {k: v for k, v in axioms.items() if k.startswith('Gen.Tie.')},
                'not_established': tie_missing,
                'differing_formats': {t: tie['diffs'].get(t, []) for t in tie_broken},
            },
            'correspondence_ops': corr_obl,
            'leanchecker': leanchecker,
            'evaluations': int(stats.get('elements', len(judged))),
            'lines': len(judged),
            'skipped_out_of_domain': sum(1 for v in verdicts if v[0] == 'SKIP'),
            'distinct_nontrivial': len(nontriv),
            'rule': mod.RULE,
            'samples': samples,
            'traces_validated_against_impl': len(judged),
            'exhaustive': bool(stats.get('exhaustive', False)),
            'exhaustive_subdomains': stats.get('exhaustive_subdomains', []),
            'distribution': stats.get('distribution', {}),
            'corpus_cases': corpus_n,
            'source_files_changed_since_lock': changed,
            'directed_search_cases': searched,
            'known_findings_printed': [k['id'] for k in known_open],
            'known_finding_hits': {k: len(v) for k, v in kf_hit.items()},
            'fixed_findings': [k['id'] for k in known if k['status'] == 'fixed'],
            'build_s': round(build_s, 2),
            'repo': env.REPO,
        },
        'assumptions': mod.ASSUMPTIONS,
        'wall_s': round(time.time() - t0, 2),
        'violations': len(violation_lines),
    }
    # evidence/ records runs against /repo itself; a run against another tree (FXP_REPO=<scratch worktree>: seeded changes,
    # refactorings) is kept apart under .work/ so that it can never be committed as evidence of the registered check
    ev_dir = os.path.join(VERIF, 'evidence') if os.path.realpath(env.REPO) == os.path.realpath('/repo') else os.path.join(VERIF, '.work', 'evidence-other-tree')
    os.makedirs(ev_dir, exist_ok=True)
    json.dump(ev, open(os.path.join(ev_dir, pid + '.json'), 'w'), indent=1)
    print('%s %s: %d theorems (axioms ok), %d lines / %d evaluations, %d distinct non-trivial, %d failing, %d disagreeing, %.1fs'
          % (pid, tier, len(theorems), len(judged), ev['coverage']['evaluations'], len(nontriv), len(new_fails), len(disagree), time.time() - t0))
    return rc


if __name__ == '__main__':
    try:
        sys.exit(main(sys.argv[1:]))
    except lean.LeanError as e:
        print('INFRA:', e); sys.exit(2)
    except Exception:
        traceback.print_exc(); sys.exit(2)
