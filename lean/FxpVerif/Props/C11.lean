import FxpVerif.Model.Strings
import FxpVerif.Lemmas.Digits
import FxpVerif.Lemmas.Overflow
import FxpVerif.Props.C05
/-! # C11 — binary and hex strings are faithful images of the code and parse back to it -/
namespace Fxp.C11
open Fxp

theorem pattern_cast (f : Fmt) (c : ℤ) : ((pattern f c : ℕ) : ℤ) = c % 2 ^ f.nword := by
  unfold pattern
  exact Int.toNat_of_nonneg (Int.emod_nonneg c (by positivity))

theorem pattern_lt (f : Fmt) (c : ℤ) : pattern f c < 2 ^ f.nword := by
  have h := pattern_cast f c
  have h2 := Int.emod_lt_of_pos c (by positivity : (0:ℤ) < 2 ^ f.nword)
  have : ((pattern f c : ℕ) : ℤ) < ((2 ^ f.nword : ℕ) : ℤ) := by rw [h]; push_cast; exact h2
  exact_mod_cast this

/-- the pattern of an in-range code is its two's-complement image. -/
theorem pattern_of_inRange (f : Fmt) (hw : 0 < f.nword) (c : ℤ) (h : f.InRange c) :
    ((pattern f c : ℕ) : ℤ) = if c < 0 then 2 ^ f.nword + c else c := by
  rw [pattern_cast]
  have hp := two_pow_pred f.nword hw
  have hP : (0:ℤ) < 2 ^ (f.nword - 1) := by positivity
  unfold Fmt.InRange Fmt.lo Fmt.hi at h
  split
  · rename_i hneg
    have hs : f.signed = true := by
      by_contra hns; simp [hns] at h; omega
    simp [hs] at h
    rw [← Int.add_emod_right c (2 ^ f.nword), add_comm, Int.emod_eq_of_lt (by omega) (by omega)]
  · rename_i hnn
    apply Int.emod_eq_of_lt (by omega)
    cases hs : f.signed <;> simp [hs] at h <;> omega

/-- `bin()` has exactly `n_word` digits … -/
theorem bin_length (f : Fmt) (c : ℤ) : (binBits f c).length = f.nword := length_renderFixed 2 _ _

/-- … each 0 or 1 … -/
theorem bin_bits_lt (f : Fmt) (c : ℤ) : ∀ d ∈ binBits f c, d < 2 := renderFixed_lt 2 (by norm_num) _ _

/-- … whose value is the two's-complement image `code mod 2^n_word`. -/
theorem bin_is_pattern (f : Fmt) (c : ℤ) : parseDigits 2 (binBits f c) = pattern f c :=
  parse_renderFixed_of_lt 2 _ _ (pattern_lt f c)

/-- the rendered string without point and prefix has `n_word` characters. -/
theorem binStr_length (f : Fmt) (c : ℤ) : (binStr f c false []).length = f.nword := by
  unfold binStr; simp [bin_length]

/-- the binary point sits `n_frac` digits from the right (0 < n_frac < n_word). -/
theorem bin_point_position (ds : List Char) (nf : ℕ) (h0 : 0 < nf) (h1 : nf < ds.length) :
    insertFracPoint ds nf = ds.take (ds.length - nf) ++ ['.'] ++ ds.drop (ds.length - nf) ∧
    (ds.drop (ds.length - nf)).length = nf := by
  unfold insertFracPoint
  have : (0:ℤ) < (nf:ℤ) ∧ (nf:ℤ) < ((ds.length : ℕ) : ℤ) := ⟨by exact_mod_cast h0, by exact_mod_cast h1⟩
  simp only [this, and_self, if_true, Int.toNat_natCast]
  refine ⟨trivial, ?_⟩
  simp; omega

theorem bin_point_edges (ds : List Char) :
    insertFracPoint ds 0 = ds ++ ['.'] ∧ (ds ≠ [] → insertFracPoint ds ds.length = '.' :: ds) := by
  unfold insertFracPoint
  constructor
  · simp
  · intro hne
    have hl : 0 < ds.length := List.length_pos_iff.mpr hne
    have h1 : ¬ ((0:ℤ) < (ds.length:ℤ) ∧ (ds.length:ℤ) < (ds.length:ℤ)) := by omega
    have h2 : ¬ ((ds.length:ℤ) = 0) := by omega
    have h3 : ¬ ((ds.length:ℤ) < 0) := by omega
    simp only [h1, h2, h3, if_false, if_true]

/-- `hex()` has `ceil(n_word/4)` digits whose value is the same pattern. -/
theorem hex_length (f : Fmt) (c : ℤ) : (renderFixed 16 (hexWidth f) (pattern f c)).length = (f.nword + 3) / 4 :=
  length_renderFixed 16 _ _

theorem hex_is_pattern (f : Fmt) (c : ℤ) :
    parseDigits 16 (renderFixed 16 (hexWidth f) (pattern f c)) = pattern f c := by
  apply parse_renderFixed_of_lt
  have h := pattern_lt f c
  have : 2 ^ f.nword ≤ 16 ^ hexWidth f := by
    unfold hexWidth
    rw [show (16:ℕ) = 2 ^ 4 by norm_num, ← pow_mul]
    apply Nat.pow_le_pow_right (by norm_num)
    omega
  omega

/-- `base_repr(b)` is the sign followed by the magnitude's base-`b` numeral. -/
theorem base_repr_signmag (b : ℕ) (hb : 2 ≤ b) (c : ℤ) :
    baseRepr b c = (if c < 0 then ['-'] else []) ++ (natDigits b c.natAbs).map digitChar ∧
    parseDigits b (natDigits b c.natAbs) = c.natAbs :=
  ⟨rfl, parse_natDigits b hb _⟩

/-! ### parsing back -/

/-- `strbin2int` on the `n_word` rendered bits returns the code (two's-complement reading). -/
theorem strbin2int_render (f : Fmt) (hw : 1 ≤ f.nword) (hs2 : f.signed = true → 2 ≤ f.nword) (c : ℤ)
    (h : f.InRange c) : strbin2int f.signed f.nword (binBits f c) = some c := by
  have hlen := bin_length f c
  have hpat := pattern_of_inRange f hw c h
  have hplt := pattern_lt f c
  unfold strbin2int
  rw [hlen, if_neg (by omega)]
  obtain ⟨w, hw'⟩ : ∃ w, f.nword = w + 1 := ⟨f.nword - 1, by omega⟩
  have hb : binBits f c = (pattern f c / 2 ^ w % 2) :: renderFixed 2 w (pattern f c % 2 ^ w) := by
    unfold binBits; rw [hw', renderFixed_succ_head]
  rw [hb]
  simp only [Nat.sub_self, List.replicate_zero, List.nil_append]
  have hpw : pattern f c < 2 ^ w * 2 := by rw [← pow_succ, ← hw']; exact hplt
  have hmsb : pattern f c / 2 ^ w < 2 := Nat.div_lt_of_lt_mul hpw
  have hrest : parseDigits 2 (renderFixed 2 w (pattern f c % 2 ^ w)) = pattern f c % 2 ^ w :=
    parse_renderFixed_of_lt 2 _ _ (Nat.mod_lt _ (by positivity))
  have hsplit : pattern f c = 2 ^ w * (pattern f c / 2 ^ w) + pattern f c % 2 ^ w := (Nat.div_add_mod _ _).symm
  cases hs : f.signed
  · -- unsigned
    simp only [Bool.false_eq_true, if_false]
    have hp : parseDigits 2 ((pattern f c / 2 ^ w % 2) :: renderFixed 2 w (pattern f c % 2 ^ w)) = pattern f c := by
      rw [← hb]; exact bin_is_pattern f c
    rw [hp]
    congr 1
    rw [hpat, if_neg]
    unfold Fmt.InRange Fmt.lo at h; simp [hs] at h; omega
  · have h2 := hs2 hs
    simp only [if_true]
    have hl2 : ¬ (((pattern f c / 2 ^ w % 2) :: renderFixed 2 w (pattern f c % 2 ^ w)).length < 2) := by
      simp [length_renderFixed]; omega
    rw [if_neg hl2, hrest]
    congr 1
    have hm2 : pattern f c / 2 ^ w % 2 = pattern f c / 2 ^ w := Nat.mod_eq_of_lt hmsb
    rw [hm2]
    unfold Fmt.InRange Fmt.lo Fmt.hi at h
    simp [hs] at h
    have e1 : f.nword - 1 = w := by omega
    rw [e1] at h ⊢
    have e2 : (2:ℤ) ^ f.nword = 2 * 2 ^ w := by rw [hw', pow_succ]; ring
    rw [e2] at hpat
    have hsplitZ : ((pattern f c : ℕ) : ℤ) = 2 ^ w * ((pattern f c / 2 ^ w : ℕ) : ℤ) + ((pattern f c % 2 ^ w : ℕ) : ℤ) := by
      exact_mod_cast hsplit
    have hmodlt : ((pattern f c % 2 ^ w : ℕ) : ℤ) < 2 ^ w := by
      exact_mod_cast Nat.mod_lt _ (by positivity : 0 < 2 ^ w)
    have hmod0 : (0:ℤ) ≤ ((pattern f c % 2 ^ w : ℕ) : ℤ) := by positivity
    have hP : (0:ℤ) < 2 ^ w := by positivity
    rcases (by omega : pattern f c / 2 ^ w = 0 ∨ pattern f c / 2 ^ w = 1) with hm | hm
    · rw [hm] at hsplitZ ⊢
      simp only [Nat.cast_zero, mul_zero, zero_add] at hsplitZ
      simp only [zero_ne_one, if_false]
      split at hpat <;> omega
    · rw [hm] at hsplitZ ⊢
      simp only [Nat.cast_one, mul_one] at hsplitZ
      simp only [if_true]
      split at hpat <;> omega

theorem bitsOfChars_map (ds : List ℕ) (h : ∀ d ∈ ds, d < 2) : bitsOfChars (ds.map digitChar) = some ds := by
  unfold bitsOfChars
  induction ds with
  | nil => rfl
  | cons d ds ih =>
    have hd := h d (by simp)
    have := ih (fun x hx => h x (by simp [hx]))
    rcases (by omega : d = 0 ∨ d = 1) with rfl | rfl
    · simp only [List.map_cons, List.mapM_cons]
      have e : digitChar 0 = '0' := by decide
      rw [e]; simp only [if_true]; rw [this]; rfl
    · simp only [List.map_cons, List.mapM_cons]
      have e : digitChar 1 = '1' := by decide
      have e0 : ('1' : Char) ≠ '0' := by decide
      rw [e]; simp only [e0, if_false, if_true]; rw [this]; rfl

theorem bitChars_no_dot (ds : List ℕ) (h : ∀ d ∈ ds, d < 2) : ∀ ch ∈ ds.map digitChar, ch ≠ '.' := by
  intro ch hch
  obtain ⟨d, hd, rfl⟩ := List.mem_map.mp hch
  have := h d hd
  rcases (by omega : d = 0 ∨ d = 1) with rfl | rfl <;> decide

theorem filter_no_dot (cs : List Char) (h : ∀ ch ∈ cs, ch ≠ '.') : cs.filter (· ≠ '.') = cs := by
  rw [List.filter_eq_self]; intro a ha; simpa using h a ha

/-- **binary round trip, raw mode**: the prefixed `n_word`-digit rendering parses back to the same code, for
every in-range code of every format with `n_word ≥ 2` (signed) / `≥ 1` (unsigned), any word length. -/
theorem bin_roundtrip_raw (f : Fmt) (hw : 1 ≤ f.nword) (hs2 : f.signed = true → 2 ≤ f.nword) (c : ℤ)
    (h : f.InRange c) : parseBinCode f.signed f.nword (binStr f c false ['0', 'b']) = some c := by
  unfold parseBinCode binStr stripPrefix
  simp only [Bool.false_eq_true, if_false]
  have : (['0', 'b'] : List Char).isPrefixOf (['0', 'b'] ++ (binBits f c).map digitChar) = true := by
    simp [List.isPrefixOf]
  rw [if_pos this]
  simp only [List.length_cons, List.length_nil, List.drop_append_of_le_length, List.cons_append, List.nil_append,
    List.drop_succ_cons, List.drop_zero]
  rw [filter_no_dot _ (bitChars_no_dot _ (bin_bits_lt f c)), bitsOfChars_map _ (bin_bits_lt f c)]
  exact strbin2int_render f hw hs2 c h

theorem filter_insertFracPoint (ds : List Char) (hd : ∀ ch ∈ ds, ch ≠ '.') (nf : ℤ) (h0 : 0 ≤ nf)
    (h1 : nf ≤ ds.length) : (insertFracPoint ds nf).filter (· ≠ '.') = ds := by
  unfold insertFracPoint
  have hf := filter_no_dot ds hd
  have hdot : (['.'] : List Char).filter (· ≠ '.') = [] := by decide
  by_cases c1 : 0 < nf ∧ nf < (ds.length : ℤ)
  · rw [if_pos c1]
    have a : (ds.take (ds.length - nf.toNat)).filter (· ≠ '.') = ds.take (ds.length - nf.toNat) :=
      filter_no_dot _ (fun ch hch => hd ch (List.mem_of_mem_take hch))
    have b : (ds.drop (ds.length - nf.toNat)).filter (· ≠ '.') = ds.drop (ds.length - nf.toNat) :=
      filter_no_dot _ (fun ch hch => hd ch (List.mem_of_mem_drop hch))
    rw [List.filter_append, List.filter_append, a, b, hdot, List.append_nil, List.take_append_drop]
  · rw [if_neg c1]
    by_cases c2 : nf = 0
    · rw [if_pos c2, List.filter_append, hf, hdot, List.append_nil]
    · rw [if_neg c2, if_neg (by omega), if_pos (by omega)]
      rw [List.filter_cons, hf]; simp

/-- **binary round trip with the binary point** (`0 ≤ n_frac ≤ n_word`): the point is ignored by the code
reading (the value reading divides by `2^n_frac`, which the store multiplies back — see `value_mode`). -/
theorem bin_roundtrip_dot (f : Fmt) (hw : 1 ≤ f.nword) (hs2 : f.signed = true → 2 ≤ f.nword)
    (hf0 : 0 ≤ f.nfrac) (hf1 : f.nfrac ≤ f.nword) (c : ℤ) (h : f.InRange c) :
    parseBinCode f.signed f.nword (binStr f c true ['0', 'b']) = some c := by
  unfold parseBinCode binStr stripPrefix
  simp only [if_true]
  have : (['0', 'b'] : List Char).isPrefixOf (['0', 'b'] ++ insertFracPoint ((binBits f c).map digitChar) f.nfrac) = true := by
    simp [List.isPrefixOf]
  rw [if_pos this]
  simp only [List.length_cons, List.length_nil, List.cons_append, List.nil_append, List.drop_succ_cons, List.drop_zero]
  rw [filter_insertFracPoint _ (bitChars_no_dot _ (bin_bits_lt f c)) f.nfrac hf0 (by simp [bin_length]; exact hf1),
      bitsOfChars_map _ (bin_bits_lt f c)]
  exact strbin2int_render f hw hs2 c h

/-- **hex round trip, raw mode**. -/
theorem hex_roundtrip_raw (f : Fmt) (hw : 1 ≤ f.nword) (hs2 : f.signed = true → 2 ≤ f.nword) (c : ℤ)
    (h : f.InRange c) : parseHexCode f.signed f.nword (hexStr f c ['0', 'x']) = some c := by
  unfold parseHexCode hexStr stripPrefix
  have : (['0', 'x'] : List Char).isPrefixOf (['0', 'x'] ++ (renderFixed 16 (hexWidth f) (pattern f c)).map digitChar) = true := by
    simp [List.isPrefixOf]
  rw [if_pos this]
  simp only [List.length_cons, List.length_nil, List.cons_append, List.nil_append, List.drop_succ_cons, List.drop_zero]
  rw [parseChars_digits 16 (by norm_num) _ (renderFixed_lt 16 (by norm_num) _ _), hex_is_pattern]
  simp only [Option.bind_some]
  have hbits : (if pattern f c = 0 then List.replicate (max f.nword 1) 0 else
      List.replicate (f.nword - (natDigits 2 (pattern f c)).length) 0 ++ natDigits 2 (pattern f c)) = binBits f c := by
    split
    · rename_i h0
      unfold binBits; rw [h0]
      have : max f.nword 1 = f.nword := by omega
      rw [this]
      clear this h0
      generalize f.nword = n
      induction n with
      | zero => rfl
      | succ n ih => rw [renderFixed, Nat.zero_div, ← ih]; simp [List.replicate_succ']
    · exact pad_natDigits 2 (by norm_num) _ _ hw (pattern_lt f c)
  rw [hbits]
  exact strbin2int_render f hw hs2 c h

/-- **value mode**: the parsed code `c` is turned into the value `c·2^-n_frac` and stored by value, which
gives `c` again in all ten mode combinations (no flag). -/
theorem value_mode (f : Fmt) (hw : 0 < f.nword) (r : Rounding) (o : Overflow) (c : ℤ) (h : f.InRange c) :
    quantize f r o (valueOf f c) = c := (C05.store_idempotent f hw r o c h).1

/-- arrays are rendered and parsed element-wise. -/
theorem pointwise (f : Fmt) (cs : List ℤ) :
    (cs.map (fun c => binStr f c false [])).length = cs.length := by simp

/-! non-vacuity -/
example : String.ofList (binStr ⟨true, 5, 2⟩ (-3) true ['0', 'b']) = "0b111.01" := by decide +kernel
example : String.ofList (hexStr ⟨true, 5, 2⟩ (-3) ['0', 'x']) = "0x1D" := by decide +kernel
example : parseHexCode true 5 "0x1D".toList = some (-3) := by decide +kernel
example : String.ofList (baseRepr 3 (-7)) = "-21" := by decide +kernel

end Fxp.C11
