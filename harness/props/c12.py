"""C12 — dtype strings and formats determine each other in every notation."""
import numpy as np
import fxpmath
from ..env import Fxp, Config, exc_token, tok_bool
from . import base

TRUSTED_BASE = base.TRUSTED_BASE + ['Python `str(int)`/`int(str)` and the two `re` patterns of _parseformatstr are modelled by hand-written digit and prefix parsers (Model/Digits.lean, Model/Dtype.lean)']
ASSUMPTIONS = base.ASSUMPTIONS + ['fxp_sum(x, dtype=...) is counted as a construction route (it is the anchored user of utils.get_sizes_from_dtype)',
                                  'Q-notation parsing is demanded only when m = n_word - n_frac >= 0 (as the property says)']
RULE = ('DR lines: (configured notation, format, complex) -> dtype attribute and get_dtype("Q"/"fxp") of an object that reached the format directly, by resize(signed=), by a full resize or through like=+signed=; DP lines: a format string through constructor / resize(dtype=) / fxp_sum(dtype=). Enumeration: signed x n_word 1..256 '
        '(every 3rd word in quick) x n_frac in -8..n_word+8 (all for n_word<=12, boundary and random ones above) x complex (n_word<=52) x both notations x both configured defaults x upper/lower case x S/U and Q/UQ spellings x explicit + sign; '
        'a small malformed stream. non-trivial = negative or oversized n_frac, complex suffix, Q notation, or non-default case/spelling')
TECHNIQUE = 'Lean 4 theorems (parse(render f) = f for fxp and Q/UQ/S/U notations incl. negative and oversized n_frac and the complex suffix, case-insensitivity, get_dtype(notation) independent of the default, render injective) + differential correspondence'
LEVEL_TEXT = ('Machine-checked on hand-written models of the renderer and of the two regex parsers: parsing a rendered dtype returns exactly the format (every n_word, every n_frac in Z, complex suffix), in Q notation m.n denotes n_word=m+n whenever m>=0, '
              'parsing is invariant under ASCII case, and get_dtype(n) is the rendering in notation n whatever the configured default. The implementation is compared with the model on the complete enumeration of formats up to 256 bits through construction, resize and fxp_sum.')
LEVEL_NOTE = 'Trusted: Lean kernel + standard axioms; decimal conversion and regex semantics are modelled, not verified, and tied to Python only by correspondence.'


def exec_DR(t):
    cfg, s, n, f, cx = t[0], t[1] == 's', int(t[2]), int(t[3]), t[4] == '1'
    try:
        v0 = 0j if cx else None
        h = ((n + f) % 9 if n <= 52 else (n + f) % 4) if n <= 200 else 0
        def mk():
            # the format is reached directly or through a history that ends in it (the dtype string must follow the format)
            if h == 0 and cx and n % 2 and n + 2 <= 52:
                # a complex object that was computed, not declared: converted from a complex object of another size, or its conjugate;
                # every imaginary part is zero, and it is a complex object all the same (its codes are complex)
                src = Fxp(0j, s, n + 2, f)
                return Fxp(src, s, n, f, dtype_notation=cfg) if f % 2 else Fxp(Fxp(0j, s, n, f, dtype_notation=cfg).conj(), s, n, f, dtype_notation=cfg)
            if h == 0:
                return Fxp(v0, s, n, f, dtype_notation=cfg)
            if h == 1:
                x = Fxp(v0, not s, n, f, dtype_notation=cfg); x.resize(signed=s); return x
            if h == 2:
                x = Fxp(v0, not s, n + 3, f - 1, dtype_notation=cfg); _ = x.dtype; x.resize(s, n, f); return x
            if h == 8 and cx:
                # a complex value held by a scaled object (scale and bias belong to the value, not to the format)
                return Fxp(0j, s, n, f, dtype_notation=cfg, scale=2, bias=0.5)
            if h >= 6:
                # an object taken out of an array of the format: an element, a slice, an iteration step
                arr = Fxp([0j, 0j, 0j] if cx else [0.0, 0.0, 0.0], s, n, f, dtype_notation=cfg)
                return arr[1] if h == 6 else arr[0:2] if h == 7 else next(iter(arr))
            if h >= 4:
                # an object that held the other kind of value first (a complex one, then a real one stored by call / set_val, or the
                # reverse): the string follows what the object is now
                x = Fxp(0.0 if cx else 0j, s, n, f, dtype_notation=cfg); _ = x.dtype
                if h == 4:
                    x(0j if cx else 0.0)
                else:
                    x.set_val(0j if cx else 0.0)
                return x
            ref = Fxp(v0, not s, n, f, dtype_notation=cfg); _ = ref.dtype
            return Fxp(v0, like=ref, signed=s)
        a = mk().dtype
        b = mk().get_dtype('Q')
        c = mk().get_dtype('fxp')
        # asking for a rendering does not change the attribute: it stays what it was, before and after either request, and it follows
        # a later change of the configured notation
        x_ = mk()
        a0 = x_.dtype; x_.get_dtype('Q'); a1 = x_.dtype; x_.get_dtype('fxp'); a2 = x_.dtype
        if not (a0 == a1 == a2 == a):
            return ['DTYPE_ATTRIBUTE_MOVED:%s,%s,%s' % (a0, a1, a2)]
        other = 'Q' if cfg == 'fxp' else 'fxp'
        x_.config.dtype_notation = other
        if x_.dtype != (b if other == 'Q' else c):
            return ['DTYPE_ATTRIBUTE_STALE:%s' % x_.dtype]
    except Exception as e:
        return [exc_token(e)]
    return [a, b, c]


def exec_DP(t):
    route, st = t
    try:
        if route == 'ctor':
            y = Fxp(None, dtype=st)
        elif route == 'resize':
            y = Fxp(None, True, 7, 3)
            y.resize(dtype=st)
        elif route == 'resize_val':
            y = Fxp(0.5, True, 7, 3)
            y.resize(dtype=st)
        elif route in ('resize_int', 'resize_intval'):
            # an object holding integers (n_frac = 0: its value type is int) takes the format of the string
            y = Fxp(None if route == 'resize_int' else 3, False, 4, 0)
            y.resize(dtype=st)
        elif route in ('ctor_like', 'ctor_like_val'):
            # the format string together with a template of another (real) format and other modes: the string decides the format
            ref = Fxp(0.25, True, 12, 3, rounding='around', overflow='wrap')
            y = Fxp(None if route == 'ctor_like' else 0.5, like=ref, dtype=st)
            if (y.config.rounding, y.config.overflow) != ('around', 'wrap'):
                return ['TEMPLATE_CONFIG_LOST']
        elif route == 'fxpsum':
            y = fxpmath.fxp_sum(Fxp([1, 2], True, 8, 0), dtype=st)
            return ['s' if y.signed else 'u', str(y.n_word), str(y.n_frac), '-']
        else:
            raise ValueError(route)
    except Exception as e:
        return [exc_token(e)]
    return ['s' if y.signed else 'u', str(y.n_word), str(y.n_frac), tok_bool(y.vdtype == complex)]


EXEC = {'DR': exec_DR, 'DP': exec_DP}


def spellings(rng, s, n, f, cx):
    out = []
    base_ = 'fxp-%s%d/%d%s' % ('s' if s else 'u', n, f, '-complex' if cx else '')
    out.append(base_)
    out.append(base_.upper())
    if f >= 0:
        out.append('fxp-%s%d/+%d%s' % ('s' if s else 'u', n, f, '-complex' if cx else ''))
    if n - f >= 0 and not cx:
        m = n - f
        for tag in (['Q', 'q', 'S', 's'] if s else ['UQ', 'uq', 'U', 'u', 'QU', 'Uq']):
            out.append('%s%d.%d' % (tag, m, f))
        if f == 0:
            out.append('%s%d' % ('Q' if s else 'UQ', m))
        if f > 0:
            out.append('%s%d.+%d' % ('S' if s else 'U', m, f))
    return out


def generate(tier, rng):
    words = list(range(1, 257)) if tier == 'thorough' else sorted(set(list(range(1, 257, 3)) + [1, 2, 8, 16, 32, 52, 53, 63, 64, 65, 128, 256]))
    for s in (True, False):
        for n in words:
            if n <= 12:
                fr = list(range(-8, n + 9))
            else:
                fr = sorted(set([-8, -1, 0, 1, n // 2, n - 1, n, n + 1, n + 8] + [rng.randint(-8, n + 8) for _ in range(3 if tier == 'quick' else 12)]))
            for f in fr:
                for cx in ((False, True) if n <= 52 else (False,)):
                    if tier == 'quick' and n > 12 and rng.random() < 0.5:
                        continue
                    yield 'DR %s %s %d %d %s' % (rng.choice(['fxp', 'Q']), 's' if s else 'u', n, f, '1' if cx else '0')
                    sp = spellings(rng, s, n, f, cx)
                    picks = sp if n <= 8 or tier == 'thorough' else [sp[0], rng.choice(sp)]
                    for st in picks:
                        routes = ['ctor', 'resize', 'resize_val', 'resize_int', 'resize_intval', 'ctor_like', 'ctor_like_val'] + (['fxpsum'] if f <= 60 else [])   # fxp_sum(dtype=): every spelling (the docstring recommends dtype=x.dtype, which is a Q string under that default)
                        for route in (routes if (n <= 6 or tier == 'thorough') else [rng.choice(routes)]):
                            if route in ('resize_val', 'resize_intval', 'ctor_like_val') and (n > 52 or f > 60 or cx):
                                continue        # (a real value stored under a -complex string stays a real object: the value decides, not demanded here)
                            yield 'DP %s %s' % (route, st)
    # malformed stream
    for st in ['fxp', 'fxp-', 'fxp-x8/2', 'fxp-s/2', 'fxp-s8', 'fxp-s8/', 'abc', 'Q', 'UQ.3', 'Q-2.10', 'fxp-s8/2-complexx', 'Q8.', 'S8.x', '8.2', 'fxp-S8/2', 'fxp-s8/-2', 'Q8.2junk']:
        for route in ('ctor', 'resize'):
            yield 'DP %s %s' % (route, st)


def nontrivial(full_line, model):
    return True


def kf_class(t):
    return None


def debug_class(t):
    if t[0] == 'DP':
        st = t[2].lower()
        return 'DP %s %s%s%s' % (t[1], 'fxp' if st.startswith('fxp') else 'Q', ' neg' if '/-' in st or '.-' in st else '', ' cx' if 'complex' in st else '')
    return 'DR ' + t[1] + (' cx' if t[5] == '1' else '')


def stats(verdicts):
    return base.generic_stats(verdicts, lambda t: ['op:' + t[0] + ':' + t[1]], None,
                              ['DR/DP: signed x n_word 1..256 (every 3rd in quick) x n_frac -8..n_word+8 (all for n_word<=12; boundaries + random above)'])
