import FxpVerif.Model.Digits
import Mathlib.Tactic.Ring
import Mathlib.Tactic.Linarith
import Mathlib.Data.List.Induction
/-! Lemmas on digit lists and digit characters. -/
namespace Fxp

theorem charDigit_digitChar : ∀ d, d < 36 → charDigit (digitChar d) = some d := by decide +kernel

theorem isDecDigit_digitChar : ∀ d, d < 10 → isDecDigit (digitChar d) = true := by decide +kernel

theorem parseDigits_append (b : Nat) (xs : List Nat) (d : Nat) :
    parseDigits b (xs ++ [d]) = parseDigits b xs * b + d := by
  simp [parseDigits, List.foldl_append]

theorem length_renderFixed (b w k : Nat) : (renderFixed b w k).length = w := by
  induction w generalizing k with
  | zero => simp [renderFixed]
  | succ w ih => simp [renderFixed, ih]

theorem renderFixed_lt (b : Nat) (hb : 0 < b) (w k : Nat) : ∀ d ∈ renderFixed b w k, d < b := by
  induction w generalizing k with
  | zero => simp [renderFixed]
  | succ w ih =>
    intro d hd
    simp only [renderFixed, List.mem_append, List.mem_singleton] at hd
    rcases hd with hd | hd
    · exact ih _ d hd
    · rw [hd]; exact Nat.mod_lt _ hb

/-- fixed-width rendering followed by parsing gives the low `w` digits. -/
theorem parse_renderFixed (b : Nat) (w k : Nat) :
    parseDigits b (renderFixed b w k) = k % b ^ w := by
  induction w generalizing k with
  | zero => simp [renderFixed, parseDigits, Nat.mod_one]
  | succ w ih =>
    simp only [renderFixed, parseDigits_append, ih]
    rw [pow_succ', Nat.mod_mul]
    ring

theorem parse_renderFixed_of_lt (b w k : Nat) (h : k < b ^ w) : parseDigits b (renderFixed b w k) = k := by
  rw [parse_renderFixed, Nat.mod_eq_of_lt h]

theorem natDigitsAux_spec (b : Nat) (hb : 2 ≤ b) (fuel k : Nat) (hf : k < fuel) :
    parseDigits b (natDigitsAux b fuel k) = k ∧ (∀ d ∈ natDigitsAux b fuel k, d < b) ∧
    natDigitsAux b fuel k ≠ [] := by
  induction fuel generalizing k with
  | zero => omega
  | succ fuel ih =>
    unfold natDigitsAux
    split
    · rename_i h
      refine ⟨by simp [parseDigits], ?_, by simp⟩
      intro d hd; simp at hd; omega
    · rename_i h
      have hk : k / b < fuel := by
        have : k / b < k := Nat.div_lt_self (by omega) (by omega)
        omega
      obtain ⟨h1, h2, _⟩ := ih (k / b) hk
      refine ⟨?_, ?_, by simp⟩
      · rw [parseDigits_append, h1]; exact Nat.div_add_mod' k b
      · intro d hd
        simp only [List.mem_append, List.mem_singleton] at hd
        rcases hd with hd | hd
        · exact h2 d hd
        · rw [hd]; exact Nat.mod_lt _ (by omega)

theorem parse_natDigits (b : Nat) (hb : 2 ≤ b) (k : Nat) : parseDigits b (natDigits b k) = k :=
  (natDigitsAux_spec b hb (k + 1) k (by omega)).1

theorem natDigits_lt (b : Nat) (hb : 2 ≤ b) (k : Nat) : ∀ d ∈ natDigits b k, d < b :=
  (natDigitsAux_spec b hb (k + 1) k (by omega)).2.1

theorem natDigits_ne_nil (b : Nat) (hb : 2 ≤ b) (k : Nat) : natDigits b k ≠ [] :=
  (natDigitsAux_spec b hb (k + 1) k (by omega)).2.2

/-- parsing digit characters of digits `< b ≤ 36`. -/
theorem parseChars_map (b : Nat) (hb : b ≤ 36) (ds : List Nat) (h : ∀ d ∈ ds, d < b) (acc : Nat) :
    (ds.map digitChar).foldlM (fun acc c => match charDigit c with
      | some d => if d < b then some (acc * b + d) else none
      | none => none) acc = some (ds.foldl (fun acc d => acc * b + d) acc) := by
  induction ds generalizing acc with
  | nil => rfl
  | cons d ds ih =>
    have hd : d < b := h d (by simp)
    simp only [List.map_cons, List.foldlM_cons, List.foldl_cons]
    rw [charDigit_digitChar d (by omega)]
    simp only [hd, if_true]
    exact ih (fun x hx => h x (by simp [hx])) _

theorem parseChars_digits (b : Nat) (hb : b ≤ 36) (ds : List Nat) (h : ∀ d ∈ ds, d < b) :
    parseChars b (ds.map digitChar) = some (parseDigits b ds) := by
  unfold parseChars parseDigits
  exact parseChars_map b hb ds h 0

/-- `\d+` is greedy: it consumes exactly the rendered digits when the next character is not a digit. -/
theorem spanDec_digits (ds : List Nat) (h : ∀ d ∈ ds, d < 10) (rest : List Char)
    (hr : ∀ c, rest.head? = some c → isDecDigit c = false) :
    spanDec (ds.map digitChar ++ rest) = (ds.map digitChar, rest) := by
  induction ds with
  | nil =>
    cases rest with
    | nil => rfl
    | cons c cs =>
      have := hr c rfl
      simp [spanDec, this]
  | cons d ds ih =>
    have hd := isDecDigit_digitChar d (h d (by simp))
    simp only [List.map_cons, List.cons_append, spanDec, hd, if_true]
    rw [ih (fun x hx => h x (by simp [hx]))]

end Fxp

namespace Fxp

/-- most-significant-first view of fixed-width rendering. -/
theorem renderFixed_succ_head (b w k : Nat) :
    renderFixed b (w + 1) k = (k / b ^ w % b) :: renderFixed b w (k % b ^ w) := by
  induction w generalizing k with
  | zero => simp [renderFixed, Nat.mod_one]
  | succ w ih =>
    rw [renderFixed, ih (k / b)]
    simp only [List.cons_append]
    congr 1
    · rw [Nat.div_div_eq_div_mul, ← pow_succ']
    · rw [renderFixed]
      congr 1
      · congr 1
        rw [pow_succ', Nat.mod_mul_right_div_self]
      · congr 1
        rw [pow_succ', Nat.mod_mul_right_mod]

theorem parseDigits_replicate_zero (b k : Nat) (ds : List Nat) :
    parseDigits b (List.replicate k 0 ++ ds) = parseDigits b ds := by
  unfold parseDigits
  rw [List.foldl_append]
  congr 1
  induction k with
  | zero => rfl
  | succ k ih => simp [List.replicate_succ, ih]

theorem parseDigits_lt (b : Nat) (hb : 0 < b) (ds : List Nat) (h : ∀ d ∈ ds, d < b) :
    parseDigits b ds < b ^ ds.length := by
  induction ds using List.reverseRecOn with
  | nil => simp [parseDigits]
  | append_singleton ds d ih =>
    rw [parseDigits_append, List.length_append, List.length_singleton, pow_succ]
    have h1 := ih (fun x hx => h x (by simp [hx]))
    have h2 : d < b := h d (by simp)
    nlinarith

/-- rendering the value of a digit list at the list's own width gives the list back. -/
theorem render_parse (b : Nat) (hb : 0 < b) (ds : List Nat) (h : ∀ d ∈ ds, d < b) :
    renderFixed b ds.length (parseDigits b ds) = ds := by
  induction ds using List.reverseRecOn with
  | nil => simp [renderFixed]
  | append_singleton ds d ih =>
    have h2 : d < b := h d (by simp)
    rw [List.length_append, List.length_singleton, renderFixed, parseDigits_append]
    have e1 : (parseDigits b ds * b + d) / b = parseDigits b ds := by
      rw [Nat.add_comm, Nat.add_mul_div_right _ _ hb, Nat.div_eq_of_lt h2, Nat.zero_add]
    have e2 : (parseDigits b ds * b + d) % b = d := by
      rw [Nat.add_comm, Nat.add_mul_mod_self_right, Nat.mod_eq_of_lt h2]
    rw [e1, e2, ih (fun x hx => h x (by simp [hx]))]

theorem natDigitsAux_length_le (b : Nat) (hb : 2 ≤ b) (fuel k w : Nat) (hf : k < fuel) (hw : 1 ≤ w) (hk : k < b ^ w) :
    (natDigitsAux b fuel k).length ≤ w := by
  induction fuel generalizing k w with
  | zero => omega
  | succ fuel ih =>
    unfold natDigitsAux
    split
    · simp; omega
    · rename_i h
      have hk' : k / b < fuel := by
        have : k / b < k := Nat.div_lt_self (by omega) (by omega)
        omega
      have hw2 : 2 ≤ w := by
        by_contra hc
        have : w = 1 := by omega
        subst this; simp at hk; omega
      have hkb : k / b < b ^ (w - 1) := by
        rw [Nat.div_lt_iff_lt_mul (by omega), ← pow_succ]
        have : w - 1 + 1 = w := by omega
        rw [this]; exact hk
      have := ih (k / b) (w - 1) hk' (by omega) hkb
      simp; omega

theorem natDigits_length_le (b : Nat) (hb : 2 ≤ b) (k w : Nat) (hw : 1 ≤ w) (hk : k < b ^ w) :
    (natDigits b k).length ≤ w :=
  natDigitsAux_length_le b hb (k + 1) k w (by omega) hw hk

/-- zero-padded variable-width digits are the fixed-width rendering. -/
theorem pad_natDigits (b : Nat) (hb : 2 ≤ b) (k w : Nat) (hw : 1 ≤ w) (hk : k < b ^ w) :
    List.replicate (w - (natDigits b k).length) 0 ++ natDigits b k = renderFixed b w k := by
  have hl := natDigits_length_le b hb k w hw hk
  have hd : ∀ d ∈ List.replicate (w - (natDigits b k).length) 0 ++ natDigits b k, d < b := by
    intro d hd
    rcases List.mem_append.mp hd with h | h
    · have := List.eq_of_mem_replicate h; omega
    · exact natDigits_lt b hb k d h
  have hp : parseDigits b (List.replicate (w - (natDigits b k).length) 0 ++ natDigits b k) = k := by
    rw [parseDigits_replicate_zero, parse_natDigits b hb]
  have hlen : (List.replicate (w - (natDigits b k).length) 0 ++ natDigits b k).length = w := by
    simp; omega
  have := render_parse b (by omega) _ hd
  rw [hp, hlen] at this
  exact this.symm

end Fxp
