import FxpVerif.Model.Store
/-!
# Arithmetic: sizing policies, optimal growth rules and raw kernels

Follows `fxpmath/functions.py`: `_get_sizing` (47-86), `_function_over_two_vars` (138-188) and the
operator functions `add/sub/mul/floordiv/truediv/mod` (313-479).
Every result goes through the store pipeline exactly once, with the configuration of the first
operand (or of `out` / `out_like`).
-/
namespace Fxp

def bsig (b : Bool) : Int := if b then 1 else 0

/-- `Fxp(..., signed, n_int=, n_frac=)`: `n_word = n_int + n_frac + sign`; `resize` raises for a
negative shift count (`1 << (n_word-1)` / `1 << n_word`). -/
def mkFmt (signed : Bool) (nint nfrac : Int) : Option Fmt :=
  let w := bsig signed + nint + nfrac
  if w < 0 ∨ (signed ∧ w = 0) then none else some ⟨signed, w.toNat, nfrac⟩

inductive Policy | optimal | same | largest | smallest
deriving Repr, DecidableEq

inductive BinOp | add | sub | mul | truediv | floordiv | mod
deriving Repr, DecidableEq

/-- the operator's own growth rule (`optimal_size`). Returns `(signed, n_int, n_frac)`. -/
def optimalSize (op : BinOp) (x y : Fmt) : Bool × Int × Int :=
  let s := x.signed || y.signed
  match op with
  | .add | .sub => (s, max x.nint y.nint + 1, max x.nfrac y.nfrac)
  | .mul =>
    let nf := x.nfrac + y.nfrac
    let nw : Int := x.nword + y.nword
    (s, nw - bsig s - nf, nf)
  | .floordiv => (s, max (x.nint + y.nfrac + bsig s) 0, 0)
  | .truediv => (s, x.nint + y.nfrac + bsig s, x.nfrac + y.nint)
  | .mod => (s, if s then max x.nint y.nint else min x.nint y.nint, max x.nfrac y.nfrac)

/-- `_get_sizing([x, y], sizing, ...)`. -/
def sizing (p : Policy) (op : BinOp) (x y : Fmt) : Bool × Int × Int :=
  let s := x.signed || y.signed
  match p with
  | .optimal  => optimalSize op x y
  | .same     => (s, x.nint, x.nfrac)
  | .largest  => (s, max x.nint y.nint, max x.nfrac y.nfrac)
  | .smallest => (s, min x.nint y.nint, min x.nfrac y.nfrac)

/-- result format when neither `out` nor `out_like` is given. -/
def resultFmt (p : Policy) (op : BinOp) (x y : Fmt) : Option Fmt :=
  let (s, ni, nf) := sizing p op x y
  mkFmt s ni nf

/-- floor division of rationals (Python `//` on ints or floats). -/
def fdivR (a b : Rat) : Int := (a / b).floor

/-- the raw kernel: the value handed to the raw store for result fraction length `F`, as an exact
rational (an integer whenever every alignment shift is non-negative). `a`, `b` are the operand codes. -/
def rawKernel (op : BinOp) (F : Int) (x y : Fmt) (a b : Int) : Rat :=
  match op with
  | .add => scale a (F - x.nfrac) + scale b (F - y.nfrac)
  | .sub => scale a (F - x.nfrac) - scale b (F - y.nfrac)
  | .mul => scale ((a * b : Int) : Rat) (F - x.nfrac - y.nfrac)
  | .truediv => (fdivR (scale a (F - x.nfrac + y.nfrac)) b : Int)
  | .floordiv => scale ((fdivR (scale a (F - x.nfrac)) (scale b (F - y.nfrac)) : Int) : Rat) F
  | .mod =>
    let a' := scale a (F - x.nfrac)
    let b' := scale b (F - y.nfrac)
    a' - b' * (fdivR a' b' : Int)

/-- the exact mathematical result on values (the `repr` method computes this in floats). -/
def exactOp (op : BinOp) (vx vy : Rat) : Rat :=
  match op with
  | .add => vx + vy
  | .sub => vx - vy
  | .mul => vx * vy
  | .truediv => vx / vy
  | .floordiv => ((vx / vy).floor : Int)
  | .mod => vx - vy * ((vx / vy).floor : Int)

/-- `method='raw'`: kernel on codes, then one raw store into the target under the governing config. -/
def arithRaw (op : BinOp) (t : Fmt) (r : Rounding) (o : Overflow) (x y : Fmt) (a b : Int) : Int :=
  storeRawFloat t r o (rawKernel op t.nfrac x y a b)

/-- `method='repr'`: exact value, then one store by value. -/
def arithRepr (op : BinOp) (t : Fmt) (r : Rounding) (o : Overflow) (x y : Fmt) (a b : Int) : Int :=
  storeFloat t r o (exactOp op (valueOf x a) (valueOf y b))

/-- flags of the result's own store (from a clean status). -/
def arithFlags (t : Fmt) (k : Int) : Bool × Bool := (decide (t.hi < k), decide (k < t.lo))

/-- expression trees over stored operands (`+ - *`, optimal sizing at every node). -/
inductive Expr
  | leaf (f : Fmt) (c : Int)
  | add (l r : Expr)
  | sub (l r : Expr)
  | mul (l r : Expr)
deriving Repr

/-- exact mathematical value of a tree. -/
def Expr.value : Expr → Rat
  | .leaf f c => valueOf f c
  | .add l r => l.value + r.value
  | .sub l r => l.value - r.value
  | .mul l r => l.value * r.value

/-- fixed-point evaluation with optimal sizing (config `(rd, o)` at every node). `none` = format error. -/
def Expr.eval (rd : Rounding) (o : Overflow) : Expr → Option (Fmt × Int)
  | .leaf f c => some (f, c)
  | .add l r => do
      let (x, a) ← l.eval rd o; let (y, b) ← r.eval rd o
      let t ← resultFmt .optimal .add x y
      pure (t, arithRaw .add t rd o x y a b)
  | .sub l r => do
      let (x, a) ← l.eval rd o; let (y, b) ← r.eval rd o
      let t ← resultFmt .optimal .sub x y
      pure (t, arithRaw .sub t rd o x y a b)
  | .mul l r => do
      let (x, a) ← l.eval rd o; let (y, b) ← r.eval rd o
      let t ← resultFmt .optimal .mul x y
      pure (t, arithRaw .mul t rd o x y a b)

def Expr.hasSigned : Expr → Bool
  | .leaf f _ => f.signed
  | .add l r => l.hasSigned || r.hasSigned
  | .sub l r => l.hasSigned || r.hasSigned
  | .mul l r => l.hasSigned || r.hasSigned

/-- unary minus / plus / abs: `Fxp(-self.val, same format, raw=True)` with the **default** config
(trunc, saturate). -/
def negM (f : Fmt) (c : Int) : Int := sat f (-c)
def posM (f : Fmt) (c : Int) : Int := sat f c
def absM (f : Fmt) (c : Int) : Int := sat f (if c < 0 then -c else c)

end Fxp
