#!/usr/bin/env python3
"""tools/confirm_seeds.py [name-prefix…] — final confirmation of kept seeds on /repo itself: git -C /repo apply <patch>, run the
property's own check and the checks listed in caught_by_quick (quick tier), git -C /repo checkout -- . ; writes the outcome into
meta.json ("confirmed_on_repo"). /repo must be clean before and is clean afterwards."""
import json, os, glob, subprocess, sys
root = os.path.join(os.path.dirname(os.path.abspath(__file__)), '..')
def sh(*a, **k):
    return subprocess.run(a, capture_output=True, text=True, **k)
assert sh('git', '-C', '/repo', 'status', '--porcelain').stdout.strip() == '', '/repo not clean'
head = sh('git', '-C', '/repo', 'rev-parse', '--short', 'HEAD').stdout.strip()
own_only = '--own' in sys.argv
sel = [a for a in sys.argv[1:] if a != '--own']
bad = 0
for d in sorted(glob.glob(os.path.join(root, 'seeded', '*'))):
    name = os.path.basename(d)
    if sel and not any(name.startswith(p) for p in sel):
        continue
    m = json.load(open(os.path.join(d, 'meta.json')))
    ids = [m['property']] if own_only else sorted(set([m['property']] + m['caught_by_quick']))
    r = sh('git', '-C', '/repo', 'apply', os.path.join(d, 'patch.diff'))
    if r.returncode != 0:
        print(name, 'PATCH DOES NOT APPLY', r.stderr[:200]); bad += 1
        continue
    res = {}
    try:
        from concurrent.futures import ThreadPoolExecutor
        def run(i):
            c = sh(os.path.join(root, 'check'), i, 'quick', env=dict(os.environ, VERIF_SKIP_LEANCHECKER='1'), cwd=root)
            v = [l for l in c.stdout.splitlines() if l.startswith('VIOLATION')]
            return i, {'rc': c.returncode, 'violation': (v[0].split(' replay=')[0] + (' no-failing-input-found' if v[0].endswith('no-failing-input-found') else '')) if v else None}
        with ThreadPoolExecutor(max_workers=5) as ex:
            for i, r_ in ex.map(run, ids):
                res[i] = r_
    finally:
        sh('git', '-C', '/repo', 'checkout', '--', '.')
        subprocess.run(['git', '-C', '/repo', 'clean', '-fdq', 'fxpmath'])
    own = res[m['property']]['rc'] == 1
    if not own_only:
        m['confirmed_on_repo'] = {'repo_head': head, 'results': res, 'own_check_catches': own}
        m['caught_by_quick'] = [i for i in ids if res[i]['rc'] == 1]
        json.dump(m, open(os.path.join(d, 'meta.json'), 'w'), indent=1)
    print(name, ' '.join('%s:%d' % (i, res[i]['rc']) for i in ids), '' if own else '   <-- own check silent')
    if not own:
        bad += 1
assert sh('git', '-C', '/repo', 'status', '--porcelain').stdout.strip() == '', '/repo left dirty'
print('not caught by own check / not applying:', bad)
