#!/bin/bash
# tools/eval_seed5.sh <worktree> <demo> — confirm a seeded change (tests, demo with/without; no git stash) and run ALL 20 quick checks against it (FXP_REPO).
wt=$1; demo=$2
cd "$(dirname "$0")/.."
name=$(basename $wt)
git -C $wt diff > ${OUT:-/root/r7}/$name.diff
b=$(tools/baseline.py $wt | tail -1)
w=$(cd $wt && PYTHONPATH=$wt timeout 900 /venv/bin/python $demo >/dev/null 2>&1; echo $?)
wo=$(cd $wt && git apply -R ${OUT:-/root/r7}/$name.diff && PYTHONPATH=$wt timeout 900 /venv/bin/python $demo >/dev/null 2>&1; echo $?; git apply ${OUT:-/root/r7}/$name.diff)
fired=$(printf "%s\n" C01 C02 C03 C04 C05 C06 C07 C08 C09 C10 C11 C12 C13 C14 C15 C16 C17 C18 C19 C20 | xargs -P 8 -I{} bash -c "FXP_REPO=$wt VERIF_SKIP_LEANCHECKER=1 ./check {} quick >${OUT:-/root/r7}/$name.{}.log 2>&1; echo {}:\$?" | grep -v ":0" | sort | tr '\n' ' ')
echo "$name [$b] demo with=$w without=$wo  FIRED: $fired"
