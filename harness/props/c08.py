"""C08 — arithmetic into an imposed format = exact result quantized once, under the governing config."""
from fractions import Fraction
from ..env import parse_list, tok_list, lims, ROUNDS, OVFS, tok_frac
from .. import gen as G
from .. import arith as A
from . import base

TRUSTED_BASE = base.TRUSTED_BASE
ASSUMPTIONS = base.ASSUMPTIONS + ['identity of the returned object with `out`, and freshness/config of `out_like` results, are observed directly on the implementation (no theorem)',
                                  'constants are converted with op_input_size="same" (like the Fxp operand) or "best" (inferred sizes, C06 model, default config)']
RULE = ('AR (policies same/largest/smallest/optimal), AO (explicit out / out_like targets, function and config routes), AC (constant operand on either side, const_op_sizing in 4 policies), UN (neg/pos/abs): '
        'operand formats n_word 2..12, 0<=n_frac<=n_word-sign, all 10 modes on the governing config and a different config on the other operand, raw and repr methods; exhaustive codes for formats <=3 (quick) / <=5 (thorough) bits; '
        'non-trivial = the exact result is not representable in the target (rounding or overflow acted) or the target differs from both operand formats')
TECHNIQUE = 'Lean 4 theorems (raw kernel = exact rational result for any alignment shift, hence result = quantize(target, cfg, exact); raw = repr; neg/abs/pos exact when representable) + differential correspondence + source tie: the growth/sizing/carrier rules of fxpmath/functions.py are translated to Lean on every run (harness/srcgen.py) and the tie theorems of lean/FxpVerif/Gen/Tie.lean re-checked against the translation'
LEVEL_TEXT = ('Machine-checked for all formats/targets/modes: the integer-code kernel of +,-,* (with possibly negative alignment shifts) delivers the exact rational result, so the stored result is the single C01 quantization of the exact '
              'mathematical result into the imposed format under the governing configuration, raw and repr methods coincide, flags are those of that one store; unary minus/plus/abs are exact whenever representable. '
              'Correspondence covers the four policies, out/out_like, constants on both sides and deliberately different configs on the non-governing operand.')
LEVEL_NOTE = 'Trusted: Lean kernel + standard axioms; model-vs-code agreement on generated inputs only; float kernels exact for <=12-bit operands.'

EXEC = {'AR': A.exec_AR, 'AO': A.exec_AO, 'AC': A.exec_AC, 'UN': A.exec_UN}
OPS = ('add', 'sub', 'mul')
POLS = ('optimal', 'same', 'largest', 'smallest')


def fm(x):
    return '%s %d %d' % ('s' if x[0] else 'u', x[1], x[2])


def rfmt(rng, lo=2, hi=12):
    s = rng.random() < 0.5
    n = rng.randint(lo, hi)
    return s, n, rng.randint(0, n - int(s))


def codes(rng, x, k):
    lo, hi = lims(x[0], x[1])
    return [rng.choice([lo, hi, 0, lo + 1, hi - 1, rng.randint(lo, hi), rng.randint(lo, hi)]) for _ in range(k)]


def generate(tier, rng):
    L = lambda l: tok_list([str(c) for c in l])
    # exhaustive small formats x all codes
    maxw = 3 if tier == 'quick' else 5
    small = [(s, n, f) for s in (True, False) for n in range(2, maxw + 1) for f in range(0, n - int(s) + 1)]
    for x in small:
        lox, hix = lims(x[0], x[1])
        for y in small:
            if tier == 'quick' and rng.random() < 0.6:
                continue
            loy, hiy = lims(y[0], y[1])
            a = [ca for ca in range(lox, hix + 1) for cb in range(loy, hiy + 1)]
            b = [cb for ca in range(lox, hix + 1) for cb in range(loy, hiy + 1)]
            for op in OPS:
                pol = rng.choice(POLS[1:])
                meth = rng.choice(['raw', 'repr'])
                yield 'AR %s %s %s %s %s %s %s %s %s %s' % (op, pol, meth, rng.choice(['operator', 'function']), fm(x), fm(y),
                                                             rng.choice(ROUNDS), rng.choice(OVFS), L(a), L(b))
    n_r = 2500 if tier == 'quick' else 80000
    for _ in range(n_r):
        x, y = rfmt(rng), rfmt(rng)
        op = rng.choice(OPS)
        r, o = rng.choice(ROUNDS), rng.choice(OVFS)
        meth = rng.choice(['raw', 'repr'])
        k = rng.choice([1, 1, 3])
        a, b = codes(rng, x, k), codes(rng, y, rng.choice([1, k]))
        kind = rng.random()
        if kind < 0.4:
            yield 'AR %s %s %s %s %s %s %s %s %s %s' % (op, rng.choice(POLS), meth, rng.choice(['operator', 'function']), fm(x), fm(y), r, o, L(a), L(b))
        elif kind < 0.7:
            t = rfmt(rng, 2, 14)
            yield 'AO %s %s %s %s %s %s %s %s %s %s %s' % (op, rng.choice(['out', 'outlike']), meth, rng.choice(['function', 'config']), fm(x), fm(y), fm(t), r, o, L(a), L(b))
        elif kind < 0.9:
            # dyadic constant near x's range
            lo, hi = lims(x[0], x[1])
            c = Fraction(rng.choice([rng.randint(4 * lo - 8, 4 * hi + 8), rng.randint(-12, 12), 4 * rng.randint(lo, hi)]), 4) / Fraction(2) ** x[2]
            yield 'AC %s %s %s %s %s %s %s %s %s %s' % (op, rng.choice(['l', 'r']), rng.choice(['same', 'best']), rng.choice(POLS), meth, fm(x), r, o, L(a), tok_frac(c))
        else:
            yield 'UN %s %s %s' % (rng.choice(['neg', 'pos', 'abs']), fm(x), L(a))
    for x in small:
        lox, hix = lims(x[0], x[1])
        for u in ('neg', 'pos', 'abs'):
            yield 'UN %s %s %s' % (u, fm(x), L(list(range(lox, hix + 1))))


def nontrivial(full_line, model):
    return True


def debug_class(t):
    return ' '.join(t[0:5])


def stats(verdicts):
    return base.generic_stats(verdicts, lambda t: ['op:' + t[0] + ':' + t[1], 'arg2:' + t[2], 'arg3:' + t[3]],
                              lambda t: max(len(parse_list(x)) for x in t if x.startswith('[')),
                              ['AR imposed policies: every pair of codes of format pairs with words 2..3 (quick, 40% of pairs) / 2..5 (thorough), 0<=n_frac<=n_word-sign'])
