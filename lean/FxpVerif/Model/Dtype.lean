import FxpVerif.Model.Core
import FxpVerif.Model.Digits
/-!
# dtype strings (`objects.py` 297-352, 777-800; `utils.get_sizes_from_dtype` 441-465)

`_update_dtype` renders `fxp-<s|u><n_word>/<n_frac>[-complex]` or `<Q|UQ><n_word-n_frac>.<n_frac>`;
`_parseformatstr` casefolds and tries the regexes
`(s|u|q|uq|qu)(\d+)(\.[+-]?\d+)?` and `fxp-(s|u)(\d+)/([+-]?\d+)(-complex)?` with `re.match` (prefix match).
-/
namespace Fxp

inductive Notation | fxp | Q
deriving Repr, DecidableEq

def complexSuffix : List Char := ['-', 'c', 'o', 'm', 'p', 'l', 'e', 'x']

def renderFxp (f : Fmt) (cx : Bool) : List Char :=
  'f' :: 'x' :: 'p' :: '-' :: (if f.signed then 's' else 'u') ::
    (natStr f.nword ++ ('/' :: (intStr f.nfrac ++ (if cx then complexSuffix else []))))

def renderQ (f : Fmt) : List Char :=
  (if f.signed then ['Q'] else ['U', 'Q']) ++ (intStr ((f.nword : Int) - f.nfrac) ++ ('.' :: intStr f.nfrac))

/-- `get_dtype(notation)` / the `dtype` attribute under a configured notation. -/
def renderDtype (n : Notation) (f : Fmt) (cx : Bool) : List Char :=
  match n with
  | .fxp => renderFxp f cx
  | .Q => renderQ f

/-- ASCII casefold. -/
def lowerChar (c : Char) : Char := if 65 ≤ c.toNat ∧ c.toNat ≤ 90 then Char.ofNat (c.toNat + 32) else c

/-- `\d+` at the head of the input. -/
def parseDec (cs : List Char) : Option (Nat × List Char) :=
  match spanDec cs with
  | ([], _) => none
  | (d :: ds, rest) => (parseChars 10 (d :: ds)).map (fun v => (v, rest))

/-- `[+-]?\d+` at the head of the input: signed integer and rest. -/
def parseSignedDec : List Char → Option (Int × List Char)
  | '-' :: r => (parseDec r).map (fun p => (-(p.1 : Int), p.2))
  | '+' :: r => (parseDec r).map (fun p => ((p.1 : Int), p.2))
  | r => (parseDec r).map (fun p => ((p.1 : Int), p.2))

/-- after the tag of the Q/S regex: `(\d+)(\.[+-]?\d+)?`. Returns `(n_word, n_frac)`. -/
def parseQBody (cs : List Char) : Option (Int × Int) :=
  match parseDec cs with
  | none => none
  | some (m, '.' :: r) =>
    match parseSignedDec r with
    | some (n, _) => some ((m : Int) + n, n)
    | none => some ((m : Int), 0)          -- the optional group does not match: n_frac = 0
  | some (m, _) => some ((m : Int), 0)

/-- one alternative of `(s|u|q|uq|qu)`. -/
def tryTag (tag : List Char) (signed : Bool) (cs : List Char) : Option (Bool × Int × Int) :=
  if tag.isPrefixOf cs then (parseQBody (cs.drop tag.length)).map (fun p => (signed, p.1, p.2)) else none

/-- the Q/S regex: tag alternatives are tried in the regex's order `s|u|q|uq|qu`, backtracking when no digit
follows. Returns `(signed, n_word, n_frac)`. -/
def parseQ (cs : List Char) : Option (Bool × Int × Int) :=
  match tryTag ['s'] true cs with
  | some r => some r
  | none =>
  match tryTag ['u'] false cs with
  | some r => some r
  | none =>
  match tryTag ['q'] true cs with
  | some r => some r
  | none =>
  match tryTag ['u', 'q'] false cs with
  | some r => some r
  | none => tryTag ['q', 'u'] false cs

/-- after `fxp-(s|u)`: `(\d+)/([+-]?\d+)(-complex)?`. -/
def parseFxpTail (c : Char) (r : List Char) : Option (Bool × Int × Int × Bool) :=
  match parseDec r with
  | some (w, '/' :: r2) =>
    match parseSignedDec r2 with
    | some (f, rest) => some (c = 's', (w : Int), f, complexSuffix.isPrefixOf rest)
    | none => none
  | _ => none

/-- after `fxp-`: `(s|u)(\d+)/([+-]?\d+)(-complex)?`. -/
def parseFxpBody : List Char → Option (Bool × Int × Int × Bool)
  | c :: r => if c = 's' ∨ c = 'u' then parseFxpTail c r else none
  | [] => none

/-- the fxp regex. Returns `(signed, n_word, n_frac, complex)`. -/
def parseFxp : List Char → Option (Bool × Int × Int × Bool)
  | 'f' :: 'x' :: 'p' :: '-' :: r => parseFxpBody r
  | _ => none

/-- `_parseformatstr`: casefold, Q regex first, then fxp regex; `none` = `ValueError`. -/
def parseFormatStr (s : List Char) : Option (Bool × Int × Int × Bool) :=
  match parseQ (s.map lowerChar) with
  | some (sg, w, f) => some (sg, w, f, false)
  | none => parseFxp (s.map lowerChar)

end Fxp
