/-!
# Digit strings

Positional numerals as lists of digit values and as characters: fixed-width rendering (`np.binary_repr(x, width)`,
`'{:0{w}X}'.format`), variable-width rendering (`str(int)`, `np.base_repr`), parsing (`int(s, base)`).
-/
namespace Fxp

/-- digit value → character, upper-case letters above 9 (`'{:X}'`, `np.base_repr`). -/
def digitChar (d : Nat) : Char :=
  if d < 10 then Char.ofNat (48 + d) else Char.ofNat (55 + d)

/-- character → digit value; both letter cases accepted (as `int(s, base)` does). -/
def charDigit (c : Char) : Option Nat :=
  let n := c.toNat
  if 48 ≤ n ∧ n ≤ 57 then some (n - 48)
  else if 65 ≤ n ∧ n ≤ 90 then some (n - 55)
  else if 97 ≤ n ∧ n ≤ 122 then some (n - 87)
  else none

def isDecDigit (c : Char) : Bool := 48 ≤ c.toNat && c.toNat ≤ 57

/-- fixed-width base-`b` digits of `k`, most significant first (low `w` digits of `k`). -/
def renderFixed (b : Nat) : Nat → Nat → List Nat
  | 0, _ => []
  | w + 1, k => renderFixed b w (k / b) ++ [k % b]

/-- value of a digit list, most significant first. -/
def parseDigits (b : Nat) (ds : List Nat) : Nat := ds.foldl (fun acc d => acc * b + d) 0

/-- variable-width digits (no leading zeros, `[0]` for zero); `fuel` bounds the recursion. -/
def natDigitsAux (b : Nat) : Nat → Nat → List Nat
  | 0, _ => []
  | fuel + 1, k => if k < b then [k] else natDigitsAux b fuel (k / b) ++ [k % b]

def natDigits (b k : Nat) : List Nat := natDigitsAux b (k + 1) k

/-- `str(n)` for a natural number. -/
def natStr (k : Nat) : List Char := (natDigits 10 k).map digitChar

/-- `str(z)` for an integer. -/
def intStr (z : Int) : List Char := if z < 0 then '-' :: natStr z.natAbs else natStr z.natAbs

/-- longest prefix of decimal digits (regex `\d+`, greedy) and the rest. -/
def spanDec : List Char → List Char × List Char
  | [] => ([], [])
  | c :: cs => if isDecDigit c then let (d, r) := spanDec cs; (c :: d, r) else ([], c :: cs)

/-- value of a string of digit characters in base `b`; `none` on a non-digit or a digit ≥ b. -/
def parseChars (b : Nat) (cs : List Char) : Option Nat :=
  cs.foldlM (fun acc c => match charDigit c with
    | some d => if d < b then some (acc * b + d) else none
    | none => none) 0

end Fxp
