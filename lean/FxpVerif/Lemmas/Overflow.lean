import FxpVerif.Model.Core
import Mathlib.Tactic.Linarith
import Mathlib.Tactic.Ring
import Mathlib.Tactic.Positivity
import Mathlib.Algebra.Order.Ring.Abs

/-! Helper lemmas on `sat` and `wrap` for arbitrary word length (no 64 anywhere). -/
namespace Fxp
open Fmt

theorem two_pow_pred (n : Nat) (hw : 0 < n) : (2:Int) ^ n = 2 * 2 ^ (n - 1) := by
  conv_lhs => rw [show n = (n - 1) + 1 by omega]
  rw [pow_succ]; ring

theorem lo_le_hi (f : Fmt) : f.lo ≤ f.hi := by
  unfold lo hi
  have h1 : (0:Int) < 2 ^ (f.nword - 1) := by positivity
  have h2 : (0:Int) < 2 ^ f.nword := by positivity
  cases f.signed <;> simp <;> omega

/-! ### saturate -/

theorem sat_inRange (f : Fmt) (k : Int) : f.InRange (sat f k) := by
  have := lo_le_hi f
  unfold sat InRange; omega

theorem sat_of_inRange (f : Fmt) (k : Int) (h : f.InRange k) : sat f k = k := by
  unfold sat; unfold InRange at h; omega

theorem sat_above (f : Fmt) (k : Int) (h : f.hi < k) : sat f k = f.hi := by
  have := lo_le_hi f
  unfold sat; omega

theorem sat_below (f : Fmt) (k : Int) (h : k < f.lo) : sat f k = f.lo := by
  have := lo_le_hi f
  unfold sat; omega

theorem sat_mono (f : Fmt) {a b : Int} (h : a ≤ b) : sat f a ≤ sat f b := by
  unfold sat; omega

/-! ### wrap -/

theorem wrap_inRange (f : Fmt) (hw : 0 < f.nword) (k : Int) : f.InRange (wrap f k) := by
  unfold wrap InRange lo hi
  have hm : (0:Int) < 2 ^ f.nword := by positivity
  have h1 := Int.emod_nonneg k (ne_of_gt hm)
  have h2 := Int.emod_lt_of_pos k hm
  have hp := two_pow_pred f.nword hw
  simp only
  generalize (2:Int) ^ (f.nword - 1) = P at *
  generalize (2:Int) ^ f.nword = M at *
  generalize k % M = x at *
  cases f.signed <;> simp <;> (try split) <;> constructor <;> omega

/-- unsigned formats are in range even for `n_word = 0`. -/
theorem wrap_inRange_unsigned (f : Fmt) (hs : f.signed = false) (k : Int) : f.InRange (wrap f k) := by
  unfold wrap InRange lo hi
  have hm : (0:Int) < 2 ^ f.nword := by positivity
  have h1 := Int.emod_nonneg k (ne_of_gt hm)
  have h2 := Int.emod_lt_of_pos k hm
  simp only [hs]
  simp
  omega

theorem wrap_congr (f : Fmt) (k : Int) : (wrap f k - k) % (2 ^ f.nword) = 0 := by
  unfold wrap
  simp only
  split
  · split
    · simp [Int.sub_emod, Int.emod_emod_of_dvd]
    · have : (k % 2 ^ f.nword - 2 ^ f.nword - k) = (k % 2 ^ f.nword - k) + (-1) * 2 ^ f.nword := by ring
      rw [this, Int.add_mul_emod_self_right]
      simp [Int.sub_emod, Int.emod_emod_of_dvd]
  · simp [Int.sub_emod, Int.emod_emod_of_dvd]

/-- two in-range integers congruent modulo `2^n_word` are equal. -/
theorem inRange_congr_eq (f : Fmt) (hw : 0 < f.nword ∨ f.signed = false) (a b : Int)
    (ha : f.InRange a) (hb : f.InRange b) (h : (a - b) % (2 ^ f.nword) = 0) : a = b := by
  obtain ⟨t, ht⟩ := Int.dvd_of_emod_eq_zero h
  unfold InRange lo hi at ha hb
  have hM : (0:Int) < 2 ^ f.nword := by positivity
  have hP : (0:Int) < 2 ^ (f.nword - 1) := by positivity
  have hp : f.signed = true → (2:Int) ^ f.nword = 2 * 2 ^ (f.nword - 1) := by
    intro hs
    rcases hw with hw | hw
    · exact two_pow_pred f.nword hw
    · simp [hs] at hw
  generalize (2:Int) ^ (f.nword - 1) = P at *
  generalize (2:Int) ^ f.nword = M at *
  have : t = 0 := by
    by_contra hne
    rcases lt_or_gt_of_ne hne with h | h
    · have : M * t ≤ M * (-1) := by apply Int.mul_le_mul_of_nonneg_left <;> omega
      cases hs : f.signed <;> simp [hs] at ha hb hp <;> omega
    · have : M * 1 ≤ M * t := by apply Int.mul_le_mul_of_nonneg_left <;> omega
      cases hs : f.signed <;> simp [hs] at ha hb hp <;> omega
  subst this
  omega

/-- uniqueness: an in-range value congruent to `k` is `wrap f k`. -/
theorem wrap_unique (f : Fmt) (hw : 0 < f.nword) (k c : Int) (hc : f.InRange c)
    (hcong : (c - k) % (2 ^ f.nword) = 0) : c = wrap f k := by
  apply inRange_congr_eq f (Or.inl hw) _ _ hc (wrap_inRange f hw k)
  have hk := wrap_congr f k
  have : c - wrap f k = (c - k) - (wrap f k - k) := by ring
  rw [this, Int.sub_emod, hcong, hk]; simp

theorem wrap_of_inRange (f : Fmt) (hw : 0 < f.nword) (k : Int) (h : f.InRange k) : wrap f k = k := by
  symm; apply wrap_unique f hw k k h; simp

/-- wrapping depends only on the residue. -/
theorem wrap_congr_arg (f : Fmt) (a b : Int) (h : (a - b) % (2 ^ f.nword) = 0) :
    wrap f a = wrap f b := by
  have : a % 2 ^ f.nword = b % 2 ^ f.nword := by
    obtain ⟨t, ht⟩ := Int.dvd_of_emod_eq_zero h
    have : a = b + 2 ^ f.nword * t := by linarith
    rw [this]; simp
  unfold wrap; simp only [this]

theorem wrap_add_mul (f : Fmt) (k t : Int) : wrap f (k + t * 2 ^ f.nword) = wrap f k := by
  apply wrap_congr_arg
  have : k + t * 2 ^ f.nword - k = t * 2 ^ f.nword := by ring
  rw [this]; simp

theorem sub_emod_zero_of (m a b c d : Int) (h1 : (a - c) % m = 0) (h2 : (b - d) % m = 0) :
    ((a + b) - (c + d)) % m = 0 := by
  have : a + b - (c + d) = (a - c) + (b - d) := by ring
  rw [this, Int.add_emod, h1, h2]; simp

/-- register behaviour: wrapping a sum is wrapping the sum of wrapped operands. -/
theorem wrap_add_hom (f : Fmt) (a b : Int) : wrap f (a + b) = wrap f (wrap f a + wrap f b) := by
  apply wrap_congr_arg
  have h1 := Int.dvd_of_emod_eq_zero (wrap_congr f a)
  have h2 := Int.dvd_of_emod_eq_zero (wrap_congr f b)
  apply Int.emod_eq_zero_of_dvd
  have : a + b - (wrap f a + wrap f b) = -((wrap f a - a) + (wrap f b - b)) := by ring
  rw [this]; exact (Int.dvd_neg).mpr (Int.dvd_add h1 h2)

theorem wrap_sub_hom (f : Fmt) (a b : Int) : wrap f (a - b) = wrap f (wrap f a - wrap f b) := by
  apply wrap_congr_arg
  have h1 := Int.dvd_of_emod_eq_zero (wrap_congr f a)
  have h2 := Int.dvd_of_emod_eq_zero (wrap_congr f b)
  apply Int.emod_eq_zero_of_dvd
  have : a - b - (wrap f a - wrap f b) = (wrap f b - b) - (wrap f a - a) := by ring
  rw [this]; exact Int.dvd_sub h2 h1

theorem wrap_mul_hom (f : Fmt) (a b : Int) : wrap f (a * b) = wrap f (wrap f a * wrap f b) := by
  apply wrap_congr_arg
  obtain ⟨s, hs⟩ := Int.dvd_of_emod_eq_zero (wrap_congr f a)
  obtain ⟨t, ht⟩ := Int.dvd_of_emod_eq_zero (wrap_congr f b)
  apply Int.emod_eq_zero_of_dvd
  have ea : wrap f a = a + 2 ^ f.nword * s := by linarith
  have eb : wrap f b = b + 2 ^ f.nword * t := by linarith
  rw [ea, eb]
  exact ⟨-(a * t + s * b + 2 ^ f.nword * s * t), by ring⟩

/-- signed wrap is the balanced remainder. -/
theorem wrap_eq_bmod (f : Fmt) (hw : 0 < f.nword) (hs : f.signed = true) (k : Int) :
    wrap f k = Int.bmod k (2 ^ f.nword) := by
  symm
  apply wrap_unique f hw k _
  · unfold InRange lo hi
    simp only [hs, if_true]
    have hp := two_pow_pred f.nword hw
    have h1 := @Int.le_bmod k (2 ^ f.nword) (by positivity)
    have h2 := @Int.bmod_lt k (2 ^ f.nword) (by positivity)
    have e : (((2 ^ f.nword : Nat) : Int)) = (2:Int) ^ f.nword := by push_cast; rfl
    rw [e] at h1 h2
    have hP : (0:Int) < 2 ^ (f.nword - 1) := by positivity
    generalize (2:Int) ^ (f.nword - 1) = P at *
    generalize (2:Int) ^ f.nword = M at *
    subst hp
    constructor <;> omega
  · have e : (((2 ^ f.nword : Nat) : Int)) = (2:Int) ^ f.nword := by push_cast; rfl
    rw [← e]
    apply Int.emod_eq_zero_of_dvd
    have := @Int.bmod_emod k (2 ^ f.nword)
    exact Int.dvd_of_emod_eq_zero (by rw [Int.sub_emod, this]; simp)

end Fxp
