import FxpVerif.Model.Dtype
import FxpVerif.Lemmas.Digits
/-! # C12 — dtype strings and formats determine each other in every notation -/
namespace Fxp.C12
open Fxp

/-- "the next character is not a decimal digit" (where greedy `\d+` stops). -/
def NoDigitHead (rest : List Char) : Prop := ∀ c, rest.head? = some c → isDecDigit c = false

theorem natStr_cons (n : Nat) : ∃ d tl, d < 10 ∧ natStr n = digitChar d :: tl := by
  unfold natStr
  have hne := natDigits_ne_nil 10 (by norm_num) n
  have hlt := natDigits_lt 10 (by norm_num) n
  cases h : natDigits 10 n with
  | nil => exact absurd h hne
  | cons d ds => exact ⟨d, ds.map digitChar, hlt d (by rw [h]; simp), by simp⟩

theorem parseDec_natStr (n : Nat) (rest : List Char) (hr : NoDigitHead rest) :
    parseDec (natStr n ++ rest) = some (n, rest) := by
  unfold parseDec natStr
  rw [spanDec_digits _ (natDigits_lt 10 (by norm_num) n) rest hr]
  have hne := natDigits_ne_nil 10 (by norm_num) n
  have hpc := parseChars_digits 10 (by norm_num) _ (natDigits_lt 10 (by norm_num) n)
  rw [parse_natDigits 10 (by norm_num)] at hpc
  cases h : natDigits 10 n with
  | nil => exact absurd h hne
  | cons d ds =>
    rw [h] at hpc
    simp only [List.map_cons] at hpc ⊢
    rw [hpc]; rfl

theorem digitChar_ne_sign : ∀ d, d < 10 → digitChar d ≠ '-' ∧ digitChar d ≠ '+' := by decide +kernel

theorem parseSignedDec_natStr (n : Nat) (rest : List Char) (hr : NoDigitHead rest) :
    parseSignedDec (natStr n ++ rest) = some ((n : Int), rest) := by
  obtain ⟨d, tl, hd, he⟩ := natStr_cons n
  have hp := parseDec_natStr n rest hr
  obtain ⟨h1, h2⟩ := digitChar_ne_sign d hd
  rw [he] at hp ⊢
  simp only [List.cons_append] at hp ⊢
  unfold parseSignedDec
  split
  · rename_i heq; injection heq with hc _; exact absurd hc h1
  · rename_i heq; injection heq with hc _; exact absurd hc h2
  · rw [hp]; rfl

theorem parseSignedDec_intStr (z : Int) (rest : List Char) (hr : NoDigitHead rest) :
    parseSignedDec (intStr z ++ rest) = some (z, rest) := by
  unfold intStr
  split
  · rename_i hneg
    show (parseDec (natStr z.natAbs ++ rest)).map (fun p => (-(p.1 : Int), p.2)) = some (z, rest)
    rw [parseDec_natStr z.natAbs rest hr]
    simp only [Option.map_some, Option.some.injEq, Prod.mk.injEq, and_true]
    omega
  · rename_i hnn
    rw [parseSignedDec_natStr _ rest hr]
    congr 2; omega

theorem noDigit_nil : NoDigitHead [] := by intro c h; simp at h
theorem noDigit_slash (r : List Char) : NoDigitHead ('/' :: r) := by
  intro c h; simp at h; rw [← h]; decide
theorem noDigit_dot (r : List Char) : NoDigitHead ('.' :: r) := by
  intro c h; simp at h; rw [← h]; decide
theorem noDigit_complex : NoDigitHead complexSuffix := by
  intro c h; simp [complexSuffix] at h; rw [← h]; decide

theorem lower_digit : ∀ d, d < 10 → lowerChar (digitChar d) = digitChar d := by decide +kernel

theorem lower_natStr (n : Nat) : (natStr n).map lowerChar = natStr n := by
  unfold natStr
  have hlt := natDigits_lt 10 (by norm_num) n
  generalize natDigits 10 n = ds at hlt
  induction ds with
  | nil => rfl
  | cons d ds ih =>
    simp only [List.map_cons]
    rw [lower_digit d (hlt d (by simp))]
    have := ih (fun x hx => hlt x (by simp [hx]))
    simp only [List.map_map] at this ⊢
    rw [this]

theorem lower_intStr (z : Int) : (intStr z).map lowerChar = intStr z := by
  unfold intStr
  split
  · simp only [List.map_cons, lower_natStr]; rfl
  · exact lower_natStr _

theorem parseFxpBody_cons (c : Char) (r : List Char) (hsu : c = 's' ∨ c = 'u') :
    parseFxpBody (c :: r) = parseFxpTail c r := by
  show (if c = 's' ∨ c = 'u' then _ else none) = _
  rw [if_pos hsu]

theorem tryTag_f (tag : List Char) (sg : Bool) (c : Char) (hc : c ≠ 'f') (tl r : List Char) (ht : tag = c :: tl) :
    tryTag tag sg ('f' :: r) = none := by
  unfold tryTag; rw [ht]
  have : (c == 'f') = false := by simpa using hc
  simp [List.isPrefixOf, this]

/-- **fxp notation round trip**: parsing the rendered dtype returns exactly the format — every word length,
every fraction length in ℤ (negative and oversized included), with or without the complex suffix. -/
theorem parse_render_fxp (f : Fmt) (cx : Bool) :
    parseFormatStr (renderFxp f cx) = some (f.signed, (f.nword : Int), f.nfrac, cx) := by
  unfold parseFormatStr
  have hlow : (renderFxp f cx).map lowerChar = renderFxp f cx := by
    unfold renderFxp
    simp only [List.map_cons, List.map_append, lower_natStr, lower_intStr]
    have h1 : lowerChar 'f' = 'f' := by decide
    have h2 : lowerChar 'x' = 'x' := by decide
    have h3 : lowerChar 'p' = 'p' := by decide
    have h4 : lowerChar '-' = '-' := by decide
    have h5 : lowerChar '/' = '/' := by decide
    have h6 : lowerChar (if f.signed then 's' else 'u') = (if f.signed then 's' else 'u') := by
      cases f.signed <;> decide
    have h7 : List.map lowerChar (if cx then complexSuffix else []) = (if cx then complexSuffix else []) := by
      cases cx <;> decide
    rw [h1, h2, h3, h4, h5, h6, h7]
  rw [hlow]
  unfold renderFxp
  have hq : parseQ ('f' :: 'x' :: 'p' :: '-' :: (if f.signed then 's' else 'u') ::
        (natStr f.nword ++ ('/' :: (intStr f.nfrac ++ (if cx then complexSuffix else []))))) = none := by
    unfold parseQ
    rw [tryTag_f ['s'] true 's' (by decide) [] _ rfl, tryTag_f ['u'] false 'u' (by decide) [] _ rfl,
        tryTag_f ['q'] true 'q' (by decide) [] _ rfl, tryTag_f ['u', 'q'] false 'u' (by decide) ['q'] _ rfl,
        tryTag_f ['q', 'u'] false 'q' (by decide) ['u'] _ rfl]
  rw [hq]
  show parseFxpBody ((if f.signed then 's' else 'u') ::
        (natStr f.nword ++ ('/' :: (intStr f.nfrac ++ (if cx then complexSuffix else []))))) = _
  have hsu : ((if f.signed then 's' else 'u') = 's' ∨ (if f.signed then 's' else 'u') = 'u') := by
    cases f.signed <;> simp
  rw [parseFxpBody_cons _ _ hsu]
  unfold parseFxpTail
  rw [parseDec_natStr f.nword _ (noDigit_slash _)]
  simp only
  have hnd : NoDigitHead (if cx then complexSuffix else []) := by
    cases cx
    · exact noDigit_nil
    · exact noDigit_complex
  rw [parseSignedDec_intStr f.nfrac _ hnd]
  cases hs : f.signed <;> cases cx <;> simp [List.isPrefixOf, complexSuffix]

theorem parseQBody_render (m : Nat) (n : Int) :
    parseQBody (natStr m ++ ('.' :: (intStr n ++ []))) = some ((m : Int) + n, n) := by
  unfold parseQBody
  rw [parseDec_natStr m _ (noDigit_dot _)]
  simp only
  rw [parseSignedDec_intStr n [] noDigit_nil]

theorem parseDec_q (r : List Char) : parseDec ('q' :: r) = none := by
  unfold parseDec spanDec
  have : isDecDigit 'q' = false := by decide
  simp [this]

/-- **Q / UQ notation**: `m.n` denotes `n_word = m + n` with the sign bit counted in `m`; the rendered string
parses back whenever `m = n_word - n_frac ≥ 0`. -/
theorem parse_render_Q (f : Fmt) (hm : f.nfrac ≤ (f.nword : Int)) :
    parseFormatStr (renderQ f) = some (f.signed, (f.nword : Int), f.nfrac, false) := by
  unfold parseFormatStr
  obtain ⟨m, hm'⟩ := Int.eq_ofNat_of_zero_le (by omega : 0 ≤ (f.nword : Int) - f.nfrac)
  have hstr : intStr ((f.nword : Int) - f.nfrac) = natStr m := by
    unfold intStr; rw [hm']; simp
  have hw : (m : Int) + f.nfrac = (f.nword : Int) := by omega
  have key : parseQ ((renderQ f).map lowerChar) = some (f.signed, (f.nword : Int), f.nfrac) := by
    unfold renderQ
    rw [hstr]
    simp only [List.map_append, List.map_cons, lower_natStr, lower_intStr]
    have hdot : lowerChar '.' = '.' := by decide
    rw [hdot]
    cases hs : f.signed
    · have e : (List.map lowerChar (if false = true then ['Q'] else ['U', 'Q']) ++ (natStr m ++ '.' :: intStr f.nfrac)) =
          'u' :: 'q' :: (natStr m ++ ('.' :: (intStr f.nfrac ++ []))) := by
        have h1 : lowerChar 'U' = 'u' := by decide
        have h2 : lowerChar 'Q' = 'q' := by decide
        simp [h1, h2]
      rw [e]
      unfold parseQ
      have t1 : tryTag ['s'] true ('u' :: 'q' :: (natStr m ++ ('.' :: (intStr f.nfrac ++ [])))) = none := by
        unfold tryTag; simp [List.isPrefixOf]
      have t2 : tryTag ['u'] false ('u' :: 'q' :: (natStr m ++ ('.' :: (intStr f.nfrac ++ [])))) = none := by
        unfold tryTag
        simp only [List.isPrefixOf, List.drop, List.length, beq_self_eq_true, Bool.and_self, if_true]
        unfold parseQBody; rw [parseDec_q]; rfl
      have t3 : tryTag ['q'] true ('u' :: 'q' :: (natStr m ++ ('.' :: (intStr f.nfrac ++ [])))) = none := by
        unfold tryTag; simp [List.isPrefixOf]
      have t4 : tryTag ['u', 'q'] false ('u' :: 'q' :: (natStr m ++ ('.' :: (intStr f.nfrac ++ [])))) =
          some (false, (f.nword : Int), f.nfrac) := by
        unfold tryTag
        simp only [List.isPrefixOf, List.drop, List.length, beq_self_eq_true, Bool.and_self, if_true]
        rw [parseQBody_render, hw]; rfl
      rw [t1, t2, t3, t4]
    · have e : (List.map lowerChar (if true = true then ['Q'] else ['U', 'Q']) ++ (natStr m ++ '.' :: intStr f.nfrac)) =
          'q' :: (natStr m ++ ('.' :: (intStr f.nfrac ++ []))) := by
        have h2 : lowerChar 'Q' = 'q' := by decide
        simp [h2]
      rw [e]
      unfold parseQ
      have t1 : tryTag ['s'] true ('q' :: (natStr m ++ ('.' :: (intStr f.nfrac ++ [])))) = none := by
        unfold tryTag; simp [List.isPrefixOf]
      have t2 : tryTag ['u'] false ('q' :: (natStr m ++ ('.' :: (intStr f.nfrac ++ [])))) = none := by
        unfold tryTag; simp [List.isPrefixOf]
      have t3 : tryTag ['q'] true ('q' :: (natStr m ++ ('.' :: (intStr f.nfrac ++ [])))) =
          some (true, (f.nword : Int), f.nfrac) := by
        unfold tryTag
        simp only [List.isPrefixOf, List.drop, List.length, beq_self_eq_true, Bool.and_self, if_true]
        rw [parseQBody_render, hw]; rfl
      rw [t1, t2, t3]
  rw [key]

/-- parsing is case-insensitive: the string is ASCII-casefolded first, so any mix of cases parses alike. -/
theorem parse_casefold (s t : List Char) (h : s.map lowerChar = t.map lowerChar) :
    parseFormatStr s = parseFormatStr t := by
  unfold parseFormatStr; rw [h]

/-- `get_dtype(notation)` renders the requested notation, whatever the configured default. -/
theorem get_dtype_notation (n : Notation) (f : Fmt) (cx : Bool) :
    renderDtype n f cx = match n with | .fxp => renderFxp f cx | .Q => renderQ f := by
  cases n <;> rfl

/-- the fxp dtype string determines the format (render is injective). -/
theorem render_injective (f g : Fmt) (cf cg : Bool) (h : renderFxp f cf = renderFxp g cg) : f = g ∧ cf = cg := by
  have h1 := parse_render_fxp f cf
  rw [h, parse_render_fxp g cg] at h1
  simp only [Option.some.injEq, Prod.mk.injEq] at h1
  obtain ⟨a, b, c, d⟩ := h1
  refine ⟨?_, d.symm⟩
  cases f; cases g
  simp only [Fmt.mk.injEq]
  simp only at a b c
  exact ⟨a.symm, by omega, c.symm⟩

/-! non-vacuity -/
example : String.ofList (renderFxp ⟨true, 16, -3⟩ true) = "fxp-s16/-3-complex" := by decide +kernel
example : String.ofList (renderQ ⟨false, 8, 3⟩) = "UQ5.3" := by decide +kernel
example : parseFormatStr "S5.3".toList = some (true, 8, 3, false) := by decide +kernel
example : parseFormatStr "Q-2.10".toList = none := by decide +kernel

end Fxp.C12
