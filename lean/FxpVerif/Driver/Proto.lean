import FxpVerif.Model.Chk
import FxpVerif.Model.Arith
import FxpVerif.Model.Convert
import FxpVerif.Model.Compare
import FxpVerif.Model.Dtype
import FxpVerif.Model.Strings
import FxpVerif.Model.Bits
import FxpVerif.Model.Infer
import FxpVerif.Model.Scale
import FxpVerif.Model.Reduce
import FxpVerif.Model.Status
import FxpVerif.Model.Heap
/-! Line-protocol helpers for the correspondence driver (core Lean only). -/
namespace Fxp.Proto

abbrev P := Except String

def pInt (s : String) : P Int :=
  match s.toInt? with
  | some k => pure k
  | none => throw s!"bad int '{s}'"

def pNat (s : String) : P Nat :=
  match s.toNat? with
  | some k => pure k
  | none => throw s!"bad nat '{s}'"

def pRat (s : String) : P Rat :=
  match s.splitOn "/" with
  | [a] => do let n ← pInt a; pure (n : Rat)
  | [a, b] => do
      let n ← pInt a
      let d ← pNat b
      if d = 0 then throw "zero denominator" else pure (mkRat n d)
  | _ => throw s!"bad rat '{s}'"

def pBool (s : String) : P Bool :=
  match s with
  | "1" => pure true
  | "0" => pure false
  | _ => throw s!"bad bool '{s}'"

def pOptInt (s : String) : P (Option Int) :=
  if s == "-" then pure none else do let k ← pInt s; pure (some k)

def pSigned (s : String) : P Bool :=
  match s with
  | "s" => pure true
  | "u" => pure false
  | _ => throw s!"bad signedness '{s}'"

def pFmt (s n f : String) : P Fmt := do
  pure { signed := ← pSigned s, nword := ← pNat n, nfrac := ← pInt f }

def pRounding (s : String) : P Rounding :=
  match s with
  | "trunc" => pure .trunc
  | "fix" => pure .fix
  | "floor" => pure .floor
  | "ceil" => pure .ceil
  | "around" => pure .around
  | _ => throw s!"bad rounding '{s}'"

def pOverflow (s : String) : P Overflow :=
  match s with
  | "saturate" => pure .saturate
  | "wrap" => pure .wrap
  | _ => throw s!"bad overflow '{s}'"

def pPolicy (s : String) : P Policy :=
  match s with
  | "optimal" => pure .optimal
  | "same" => pure .same
  | "largest" => pure .largest
  | "smallest" => pure .smallest
  | _ => throw s!"bad policy '{s}'"

def pBinOp (s : String) : P BinOp :=
  match s with
  | "add" => pure .add
  | "sub" => pure .sub
  | "mul" => pure .mul
  | "truediv" => pure .truediv
  | "floordiv" => pure .floordiv
  | "mod" => pure .mod
  | _ => throw s!"bad op '{s}'"

/-- lists are written `[a,b,c]` without blanks; `[]` is empty. -/
def pList {α} (p : String → P α) (s : String) : P (List α) := do
  if s.length < 2 || s.front != '[' || s.back != ']' then throw s!"bad list '{s}'"
  let inner := ((s.drop 1).dropEnd 1).toString
  if inner.isEmpty then pure [] else (inner.splitOn ",").mapM p

def showRat (q : Rat) : String := if q.den = 1 then toString q.num else s!"{q.num}/{q.den}"
def showBool (b : Bool) : String := if b then "1" else "0"
def showSigned (b : Bool) : String := if b then "s" else "u"
def showFmt (f : Fmt) : String := s!"{showSigned f.signed} {f.nword} {f.nfrac}"
def showList {α} (sh : α → String) (l : List α) : String := "[" ++ ",".intercalate (l.map sh) ++ "]"

end Fxp.Proto
