import FxpVerif.Model.Compare
import FxpVerif.Lemmas.Round
import FxpVerif.Lemmas.Overflow
/-! # C16 — comparisons and numeric conversions agree with the exact stored value -/
namespace Fxp.C16
open Fxp

theorem two_ne : (2:ℚ) ≠ 0 := by norm_num

/-- codes of two formats aligned to the finer fraction length. -/
def alignL (x y : Fmt) (a : ℤ) : ℤ := a * 2 ^ (max x.nfrac y.nfrac - x.nfrac).toNat
def alignR (x y : Fmt) (b : ℤ) : ℤ := b * 2 ^ (max x.nfrac y.nfrac - y.nfrac).toNat

theorem value_align (x y : Fmt) (a : ℤ) :
    valueOf x a = ((alignL x y a : ℤ) : ℚ) * (2:ℚ) ^ (-(max x.nfrac y.nfrac)) := by
  unfold valueOf alignL
  rw [scale_eq]; push_cast
  have : ((2:ℚ) ^ (max x.nfrac y.nfrac - x.nfrac).toNat) = (2:ℚ) ^ (max x.nfrac y.nfrac - x.nfrac) := by
    rw [← zpow_natCast]; congr 1; omega
  rw [this, mul_assoc, ← zpow_add₀ two_ne]; congr 2; ring

theorem value_alignR (x y : Fmt) (b : ℤ) :
    valueOf y b = ((alignR x y b : ℤ) : ℚ) * (2:ℚ) ^ (-(max x.nfrac y.nfrac)) := by
  unfold valueOf alignR
  rw [scale_eq]; push_cast
  have : ((2:ℚ) ^ (max x.nfrac y.nfrac - y.nfrac).toNat) = (2:ℚ) ^ (max x.nfrac y.nfrac - y.nfrac) := by
    rw [← zpow_natCast]; congr 1; omega
  rw [this, mul_assoc, ← zpow_add₀ two_ne]; congr 2; ring

/-- **order of values = order of aligned integer codes**, for any two formats. -/
theorem lt_iff (x y : Fmt) (a b : ℤ) : valueOf x a < valueOf y b ↔ alignL x y a < alignR x y b := by
  rw [value_align x y a, value_alignR x y b, mul_lt_mul_iff_of_pos_right (two_zpow_pos _)]
  exact Int.cast_lt

theorem le_iff (x y : Fmt) (a b : ℤ) : valueOf x a ≤ valueOf y b ↔ alignL x y a ≤ alignR x y b := by
  rw [value_align x y a, value_alignR x y b, mul_le_mul_iff_of_pos_right (two_zpow_pos _)]
  exact Int.cast_le

theorem eq_iff (x y : Fmt) (a b : ℤ) : valueOf x a = valueOf y b ↔ alignL x y a = alignR x y b := by
  rw [value_align x y a, value_alignR x y b]
  constructor
  · intro h
    have := mul_right_cancel₀ (ne_of_gt (two_zpow_pos (-(max x.nfrac y.nfrac)))) h
    exact_mod_cast this
  · intro h; rw [h]

/-- the six operators return the truth value of the relation between the exact values. -/
theorem cmp_iff (x y : Fmt) (a b : ℤ) :
    ((cmpFxp x y a b).lt = true ↔ valueOf x a < valueOf y b) ∧
    ((cmpFxp x y a b).le = true ↔ valueOf x a ≤ valueOf y b) ∧
    ((cmpFxp x y a b).eq = true ↔ valueOf x a = valueOf y b) ∧
    ((cmpFxp x y a b).ne = true ↔ valueOf x a ≠ valueOf y b) ∧
    ((cmpFxp x y a b).gt = true ↔ valueOf x a > valueOf y b) ∧
    ((cmpFxp x y a b).ge = true ↔ valueOf x a ≥ valueOf y b) := by
  unfold cmpFxp cmpRat
  simp [decide_eq_true_eq]

/-- within one format the value is strictly monotone in the code. -/
theorem valueOf_strictMono (f : Fmt) (a b : ℤ) : valueOf f a < valueOf f b ↔ a < b := by
  unfold valueOf; rw [scale_eq, scale_eq, mul_lt_mul_iff_of_pos_right (two_zpow_pos _)]; exact Int.cast_lt

/-- `get_val` / `astype(float)` / `float()`: exactly `code · 2^-n_frac`. -/
theorem get_val_exact (f : Fmt) (c : ℤ) : valueOf f c = (c:ℚ) * (2:ℚ) ^ (-f.nfrac) := by
  unfold valueOf; rw [scale_eq]

/-- `astype(int)` / `int()`: the floor of the value. -/
theorem astype_int_floor (f : Fmt) (c : ℤ) : astypeInt f c = ⌊(c:ℚ) * (2:ℚ) ^ (-f.nfrac)⌋ := by
  unfold astypeInt; rw [floor_eq, get_val_exact]

/-- `bool()` is true iff the code is non-zero. -/
theorem bool_iff_nonzero (f : Fmt) (c : ℤ) : toBool f c = true ↔ c ≠ 0 := by
  unfold toBool valueOf
  rw [decide_eq_true_eq, scale_eq]
  have hp := ne_of_gt (two_zpow_pos (-f.nfrac))
  constructor
  · intro h hc; apply h; rw [hc]; simp
  · intro h hv
    rcases mul_eq_zero.mp hv with h0 | h0
    · exact h (by exact_mod_cast h0)
    · exact hp h0

/-- `uraw()` is the n_word-bit two's-complement image: in `[0, 2^n)` and congruent to the code. -/
theorem uraw_pattern (f : Fmt) (hw : 0 < f.nword) (c : ℤ) (h : f.InRange c) :
    0 ≤ urawM f c ∧ urawM f c < 2 ^ f.nword ∧ (urawM f c - c) % 2 ^ f.nword = 0 ∧ urawM f c = c % 2 ^ f.nword := by
  have hp := two_pow_pred f.nword hw
  have hP : (0:ℤ) < 2 ^ (f.nword - 1) := by positivity
  unfold Fmt.InRange Fmt.lo Fmt.hi at h
  unfold urawM
  have key : ∀ u : ℤ, 0 ≤ u → u < 2 ^ f.nword → (u - c) % 2 ^ f.nword = 0 → u = c % 2 ^ f.nword := by
    intro u h0 h1 h2
    have hd := Int.dvd_of_emod_eq_zero h2
    obtain ⟨k, hk⟩ := hd
    have : c = u + 2 ^ f.nword * (-k) := by linarith
    rw [this, Int.add_mul_emod_self_left, Int.emod_eq_of_lt h0 h1]
  split
  · rename_i hneg
    have hs : f.signed = true := by
      by_contra hns
      simp [hns] at h; omega
    simp [hs] at h
    have a1 : 0 ≤ 2 ^ f.nword + c := by omega
    have a2 : 2 ^ f.nword + c < 2 ^ f.nword := by omega
    have a3 : (2 ^ f.nword + c - c) % 2 ^ f.nword = 0 := by simp
    exact ⟨a1, a2, a3, key _ a1 a2 a3⟩
  · rename_i hnn
    have a1 : 0 ≤ c := by omega
    have a2 : c < 2 ^ f.nword := by
      cases hs : f.signed <;> simp [hs] at h <;> omega
    exact ⟨a1, a2, by simp, key _ a1 a2 (by simp)⟩

/-! non-vacuity -/
example : (cmpFxp ⟨true, 8, 2⟩ ⟨false, 5, 4⟩ 3 12).eq = true := by decide +kernel
example : astypeInt ⟨true, 8, 2⟩ (-5) = -2 := by decide +kernel
example : urawM ⟨true, 8, 2⟩ (-5) = 251 := by decide +kernel

end Fxp.C16
