import FxpVerif.Model.Status
import FxpVerif.Lemmas.Round
import FxpVerif.Lemmas.Overflow
/-! # C04 — status flags and callbacks report exactly what happened, and are sticky -/
namespace Fxp.C04
open Fxp

/-- the three conditions of one write of the values `vs` (as the property words them). -/
def OvCond (f : Fmt) (r : Rounding) (vs : List ℚ) : Prop := ∃ v ∈ vs, f.hi < roundR r (scale v f.nfrac)
def UnCond (f : Fmt) (r : Rounding) (vs : List ℚ) : Prop := ∃ v ∈ vs, roundR r (scale v f.nfrac) < f.lo
def InaccCond (f : Fmt) (r : Rounding) (o : Overflow) (vs : List ℚ) : Prop :=
  ∃ v ∈ vs, valueOf f (quantize f r o v) ≠ v

theorem any_zipWith_map (f : Fmt) (r : Rounding) (o : Overflow) (xs : List ℚ) :
    (List.zipWith (fun (c : ℤ) (x : ℚ) => decide ((c : ℚ) ≠ x)) ((xs.map (roundR r)).map (ovf o f)) xs).any id = true ↔
      ∃ x ∈ xs, ((ovf o f (roundR r x) : ℤ) : ℚ) ≠ x := by
  induction xs with
  | nil => simp
  | cons a t ih =>
    simp only [List.map_cons, List.zipWith_cons_cons, List.any_cons, Bool.or_eq_true, ih, List.mem_cons]
    constructor
    · rintro (h | ⟨x, hx, hne⟩)
      · exact ⟨a, Or.inl rfl, by simpa using h⟩
      · exact ⟨x, Or.inr hx, hne⟩
    · rintro ⟨x, rfl | hx, hne⟩
      · left; simpa using hne
      · right; exact ⟨x, hx, hne⟩

/-- **flags of one write from a clean state**: overflow iff some rounded element exceeded the maximum, underflow iff
some was below the minimum, inaccuracy iff some stored element differs from its input. -/
theorem write_flags_iff (x : Obj) (hclean : x.ov = false ∧ x.un = false ∧ x.inacc = false) (vs : List ℚ) :
    ((step x (.write vs)).1.ov = true ↔ OvCond x.fmt x.r vs) ∧
    ((step x (.write vs)).1.un = true ↔ UnCond x.fmt x.r vs) ∧
    ((step x (.write vs)).1.inacc = true ↔ InaccCond x.fmt x.r x.o vs) := by
  obtain ⟨h1, h2, h3⟩ := hclean
  simp only [step, conds, h1, h2, h3, Bool.false_or]
  refine ⟨?_, ?_, ?_⟩
  · unfold OvCond; simp [List.any_eq_true]
  · unfold UnCond; simp [List.any_eq_true]
  · unfold InaccCond
    rw [any_zipWith_map]
    simp only [List.mem_map]
    constructor
    · rintro ⟨_, ⟨v, hv, rfl⟩, hne⟩
      refine ⟨v, hv, ?_⟩
      intro heq
      apply hne
      unfold quantize at heq
      -- code·2^-f = v  ⇒  code = v·2^f
      have := congrArg (fun q => scale q x.fmt.nfrac) heq
      simp only [valueOf, scale_int_cancel] at this
      exact this
    · rintro ⟨v, hv, hne⟩
      refine ⟨_, ⟨v, hv, rfl⟩, ?_⟩
      intro heq
      apply hne
      unfold quantize valueOf
      rw [heq, scale_scale_neg]

/-- **callback trace of one write**: exactly the conditions that occurred in this write — each at most once, in the
order overflow, underflow, inaccuracy — followed by exactly one value-change notification. -/
theorem write_trace_exact (ov un ia : Bool) :
    events ov un ia = (if ov then "o" else "") ++ (if un then "u" else "") ++ (if ia then "i" else "") ++ "c" ∧
    (events ov un ia).toList.count 'c' = 1 ∧
    (events ov un ia).toList.count 'o' = (if ov then 1 else 0) ∧
    (events ov un ia).toList.count 'u' = (if un then 1 else 0) ∧
    (events ov un ia).toList.count 'i' = (if ia then 1 else 0) := by
  cases ov <;> cases un <;> cases ia <;> decide

/-- a step other than `reset` never lowers a flag. -/
theorem step_monotone (x : Obj) (s : Step) (hs : s ≠ .reset) :
    (x.ov = true → (step x s).1.ov = true) ∧ (x.un = true → (step x s).1.un = true) ∧
    (x.inacc = true → (step x s).1.inacc = true) := by
  cases s with
  | reset => exact absurd rfl hs
  | write vs => simp only [step]; refine ⟨?_, ?_, ?_⟩ <;> intro h <;> simp [h]
  | windex i v => simp only [step]; refine ⟨?_, ?_, ?_⟩ <;> intro h <;> simp [h]
  | resize g => simp only [step]; refine ⟨?_, ?_, ?_⟩ <;> intro h <;> simp [h]
  | derive y => simp only [step]; exact ⟨id, id, id⟩

/-- **stickiness**: along any history without `reset`, a raised flag stays raised (induction over the history). -/
theorem flags_sticky (x : Obj) (hist : List Step) (hnr : ∀ s ∈ hist, s ≠ .reset) :
    (x.ov = true → (runState x hist).ov = true) ∧ (x.un = true → (runState x hist).un = true) ∧
    (x.inacc = true → (runState x hist).inacc = true) := by
  induction hist generalizing x with
  | nil => exact ⟨id, id, id⟩
  | cons s rest ih =>
    obtain ⟨m1, m2, m3⟩ := step_monotone x s (hnr s (by simp))
    obtain ⟨i1, i2, i3⟩ := ih (step x s).1 (fun t ht => hnr t (by simp [ht]))
    exact ⟨fun h => i1 (m1 h), fun h => i2 (m2 h), fun h => i3 (m3 h)⟩

/-- a flag raised at step `i` of a reset-free history is raised after every later step. -/
theorem flags_sticky_prefix (x : Obj) (pre post : List Step) (hnr : ∀ s ∈ post, s ≠ .reset) :
    ((runState x pre).ov = true → (runState x (pre ++ post)).ov = true) ∧
    ((runState x pre).un = true → (runState x (pre ++ post)).un = true) ∧
    ((runState x pre).inacc = true → (runState x (pre ++ post)).inacc = true) := by
  have happ : ∀ (y : Obj) (a b : List Step), runState y (a ++ b) = runState (runState y a) b := by
    intro y a; induction a generalizing y with
    | nil => intro b; rfl
    | cons s t ih => intro b; exact ih (step y s).1 b
  rw [happ]
  exact flags_sticky _ post hnr

/-- **reset** clears the three flags and leaves everything else (format, configuration, value) as it was. -/
theorem reset_clears (x : Obj) :
    (step x .reset).1.ov = false ∧ (step x .reset).1.un = false ∧ (step x .reset).1.inacc = false ∧
    (step x .reset).1.fmt = x.fmt ∧ (step x .reset).1.codes = x.codes ∧ (step x .reset).1.r = x.r ∧ (step x .reset).1.o = x.o ∧
    (step x .reset).2 = "" := ⟨rfl, rfl, rfl, rfl, rfl, rfl, rfl, rfl⟩

/-- **arithmetic results carry the inaccuracy flag** whenever an operand carried it. -/
theorem derive_inacc_propagates (x : Obj) (yInacc : Bool) :
    (x.inacc = true ∨ yInacc = true) → (step x (.derive yInacc)).2 = "z1" := by
  intro h; simp only [step]
  rcases h with h | h <;> simp [h]

/-! non-vacuity: a history that raises, keeps and clears flags -/
def x0 : Obj := ⟨⟨true, 4, 0⟩, .trunc, .saturate, [0], false, false, false⟩
example : (runState x0 [.write [9]]).ov = true ∧ (runState x0 [.write [9]]).inacc = true := by decide +kernel
example : (runState x0 [.write [9], .write [1], .write [-20]]).ov = true ∧
    (runState x0 [.write [9], .write [1], .write [-20]]).un = true := by decide +kernel
example : (runState x0 [.write [9], .reset, .write [3]]).ov = false ∧
    (runState x0 [.write [9], .reset, .write [3]]).inacc = false := by decide +kernel
example : (runState x0 [.write [1/2]]).inacc = true ∧ (runState x0 [.write [1/2]]).codes = [0] := by decide +kernel

end Fxp.C04
