"""Executors for the arithmetic protocol ops (AR, AO, AC, UN) on the real fxpmath."""
import numpy as np
import fxpmath
from .env import Fxp, parse_list, tok_list, codes_of, tok_bool, exc_token, fmt_of, ROUNDS, OVFS

FUNCS = {'add': fxpmath.add, 'sub': fxpmath.sub, 'mul': fxpmath.mul, 'truediv': fxpmath.truediv,
         'floordiv': fxpmath.floordiv, 'mod': fxpmath.mod}
NPFUNCS = {'add': np.add, 'sub': np.subtract, 'mul': np.multiply, 'truediv': np.true_divide,
           'floordiv': np.floor_divide, 'mod': np.mod}
OPER = {'add': lambda a, b: a + b, 'sub': lambda a, b: a - b, 'mul': lambda a, b: a * b,
        'truediv': lambda a, b: a / b, 'floordiv': lambda a, b: a // b, 'mod': lambda a, b: a % b}


import operator as _op
IOPER = {'add': _op.iadd, 'sub': _op.isub, 'mul': _op.imul, 'truediv': _op.itruediv, 'floordiv': _op.ifloordiv, 'mod': _op.imod}


def other_mode(r, o):
    """a configuration different from (r, o) for the operand whose config must NOT govern."""
    return ROUNDS[(ROUNDS.index(r) + 2) % 5], OVFS[1 - OVFS.index(o)]


def hist_of(*key):
    """deterministic history selector (0 = built directly): derived from the line's own content, so a replay reproduces it."""
    h = 0
    for k in key:
        h = (h * 131 + (int(k) if not isinstance(k, str) else sum(map(ord, k)))) % 1000003
    return h % 12


def empty_via_history(h, init, signed, n, f, **cfg):
    """an object of format (signed, n, f) holding `init` (None / zeros array), reached through a history of in-place format changes.
    The properties quantify over objects however produced: h=0 direct; 1 resize(signed,n_word,n_frac) from the opposite signedness;
    2 resize(dtype='fxp-..') from the opposite signedness; 3 resize(n_int=, n_frac=) from another word; 4 like= a template that was itself resized;
    5 born holding the integer 0 in an integer format (n_frac = 0), then resized to the format (the object remembers it was given integers)."""
    if h == 4 and ('op_out' in cfg or 'op_out_like' in cfg):
        h = 2       # like= deep-copies the template's config, so an op_out target would (rightly) be a copy: not this route
    if h == 0:
        return Fxp(init, signed, n, f, **cfg)
    if h == 1:
        x = Fxp(init, not signed, max(n - 1, 2), f, **cfg)
        x.resize(signed, n, f)
    elif h == 2:
        x = Fxp(init, not signed, n + 1, f, **cfg)
        x.resize(dtype='fxp-%s%d/%d' % ('s' if signed else 'u', n, f))
    elif h == 3:
        x = Fxp(init, signed, n + 2, f + 1, **cfg)
        x.resize(n_int=n - f - (1 if signed else 0), n_frac=f)
    elif h == 5:
        x = Fxp(0 if init is None else init, signed, n + 1, 0, **cfg)
        x.resize(n_word=n, n_frac=f)
    else:
        t = Fxp(None, not signed, n + 3, f - 1, **cfg)
        t.resize(dtype='fxp-%s%d/%d' % ('s' if signed else 'u', n, f))
        x = Fxp(init, like=t)
    assert (x.signed, x.n_word, x.n_frac) == (signed, n, f), 'history did not reach the format: %s' % x.dtype
    return x


def _dirty(x, h, signed, n):
    """histories 1 and 3 leave the operand with raised overflow and underflow flags (sticky, C04): out-of-range codes were
    stored into it before the codes under test. A result must never inherit them (only inaccuracy propagates)."""
    x.reset()
    if h in (1, 3):
        hi = (1 << (n - 1)) - 1 if signed else (1 << n) - 1
        lo = -(1 << (n - 1)) if signed else 0
        x.set_val(hi + 5, raw=True)
        x.set_val(lo - 5, raw=True)
        assert x.status['overflow'] and x.status['underflow']


def mk(codes, signed, n, f, dirty_ok=False, **cfg):
    """Fxp holding exactly these codes (scalar when one code, 1-D array otherwise; '2d:' handled by caller).
    Small-word operands are reached through a content-determined history (see empty_via_history); histories 6 and 7 obtain the
    operand from a larger object: 6 = an element / a slice of a longer array, 7 = flatten() of a 2-D array (and its element)."""
    h = hist_of(n, f, int(signed), len(codes), *[c % 97 for c in codes[:4]]) if n <= 60 else 0
    # options that only mean something to other operations (NumPy array conversion, the spelling of the dtype string) are set on
    # every fourth operand (content-determined): they change nothing of what the properties speak about
    if (n * 3 + f + len(codes) + codes[0]) % 4 == 0:
        cfg.setdefault('array_op_method', 'raw')
        cfg.setdefault('dtype_notation', 'Q')
    if h in (6, 7, 11) and ('op_out' in cfg or 'op_out_like' in cfg):
        h = 1       # indexing / flatten / a keep-mode shift deep-copy the configuration, so an op_out target would (rightly) be a copy: not this route
    if h in (8, 9):
        return primed(h, codes, signed, n, f, **cfg)
    if h == 11 and 'shifting' not in cfg:
        # the operand is the result of a shift by zero in trunc mode (the identity, C14): an object whose value was assigned by
        # the keep-mode shift rather than by a store
        x0 = mk(codes, signed, n, f, dirty_ok=False, shifting='trunc', **cfg) if False else Fxp(codes[0] if len(codes) == 1 else np.array(codes, dtype=np.int64), signed, n, f, raw=True, shifting='trunc', **cfg)
        x = x0 >> 0
        x.config.shifting = 'expand'
        assert codes_of(x) == list(codes) and (x.signed, x.n_word, x.n_frac) == (signed, n, f)
        return x
    if h == 10:
        # the codes arrive as the outcome of storing integers far beyond 64 bits (exactly: the overflow action folds them
        # onto the codes under test): under wrap any code, under saturate the two bounds. Whatever carrier such a store
        # used internally, the object is an ordinary holder of its codes afterwards.
        lo = -(1 << (n - 1)) if signed else 0
        hi = (1 << (n - 1)) - 1 if signed else (1 << n) - 1
        if cfg.get('overflow', 'saturate') == 'wrap':
            far = [c + (1 << (n + 70)) * (1 if k % 2 else -1) for k, c in enumerate(codes)]
        elif all(c in (lo, hi) for c in codes) and lo != hi:
            far = [c + (1 << 90) if c == hi else c - (1 << 90) for c in codes]
        else:
            far = None
        if far is not None:
            x = Fxp(None if len(codes) == 1 else np.zeros(len(codes), dtype=int), signed, n, f, **cfg)
            x.set_val(far[0] if len(codes) == 1 else np.array(far, dtype=object), raw=True)
            if not dirty_ok:
                x.reset()
            assert codes_of(x) == list(codes), 'the overflow action did not fold onto the codes'
            return x
        h = 0
    if h in (6, 7):
        lo = -(1 << (n - 1)) if signed else 0
        pad = [lo, (1 << (n - 1)) - 1 if signed else (1 << n) - 1]
        if h == 6:
            big = Fxp(np.array([pad[0]] + list(codes) + [pad[1]], dtype=np.int64), signed, n, f, raw=True, **cfg)
            if len(codes) == 1 and (n + f + codes[0]) % 2:
                x = list(big)[1] if codes[0] % 3 else [e for e in big][1]      # the element as iteration over the array delivers it
            else:
                x = big[1] if len(codes) == 1 else big[1:1 + len(codes)]
        else:
            big = Fxp(np.array([list(codes)], dtype=np.int64), signed, n, f, raw=True, **cfg)
            x = big.flatten()
            if len(codes) == 1:
                x = x[0]
        assert codes_of(x) == list(codes), 'derivation did not deliver the codes'
        return x
    if len(codes) == 1:
        if h == 0:
            return Fxp(codes[0], signed, n, f, raw=True, **cfg)
        x = empty_via_history(h, None, signed, n, f, **cfg)
        _dirty(x, h if dirty_ok else 0, signed, n)
        x.set_val(codes[0], raw=True)
        return x
    n_obj = n >= 64 or any(abs(c) >= 2 ** 63 for c in codes)
    arr = np.array(codes, dtype=object) if n_obj else np.array(codes, dtype=np.int64)
    if h == 0:
        return Fxp(arr, signed, n, f, raw=True, **cfg)
    x = empty_via_history(h, np.zeros(len(codes), dtype=int), signed, n, f, **cfg)
    _dirty(x, h if dirty_ok else 0, signed, n)
    x.set_val(arr, raw=True)
    return x


def primed(h, codes, signed, n, f, **cfg):
    """an object that has been *used* before it holds the codes under test: it is born with other codes in a neighbouring format,
    every kind of read-only operation is applied to it (whatever an implementation may remember about an object is remembered now),
    its format is changed in place (8: resize(n_word=, n_int=) — the fraction length follows; 9: resize(n_frac=)) and the codes are
    written into the existing buffer element by element. The properties speak about the stored value, not about the object's past."""
    lo = -(1 << (n - 1)) if signed else 0
    hi = (1 << (n - 1)) - 1 if signed else (1 << n) - 1
    f0 = f + 1 if h == 8 else f - 1
    other = [lo if k % 2 else hi - (hi > 4) * 4 for k in range(len(codes))]
    init = other[0] if len(codes) == 1 else np.array(other, dtype=np.int64)
    x = Fxp(init, signed, n, f0, raw=True, **cfg)
    def use():
        old_out = (x.config.op_out, x.config.op_out_like)
        x.config.op_out, x.config.op_out_like = None, None
        for g in (lambda: ~x, lambda: x & 1, lambda: x | 1, lambda: x >> 1, lambda: x << 1, lambda: x.bin(), lambda: x.hex(),
                  lambda: x.get_val(), lambda: x.astype(int), lambda: x.uraw(), lambda: x < 0, lambda: x == x, lambda: x + x, lambda: x * x,
                  lambda: x // x if lo else None, lambda: np.sum(x), lambda: np.max(x), lambda: x.like(x), lambda: bool(x) if x.ndim == 0 else None):
            try:
                g()
            except Exception:
                pass
        x.config.op_out, x.config.op_out_like = old_out
    use()
    if h == 8:
        x.resize(n_word=n, n_int=n - f - (1 if signed else 0))
    else:
        x.resize(n_frac=f)
    use()           # ... and again in the final format, still with the other codes
    x.reset()
    if len(codes) == 1:
        x.set_val(codes[0], raw=True, index=())
    else:
        for i, c in enumerate(codes):
            x.set_val(c, raw=True, index=i)
    assert (x.signed, x.n_word, x.n_frac) == (signed, n, f) and codes_of(x) == list(codes), 'priming did not deliver the operand'
    return x


def _quiet(g):
    import contextlib, io
    with contextlib.redirect_stdout(io.StringIO()):
        return g()


def warm(x, extra=()):
    """apply every kind of read-only operation to x (errors ignored): whatever an implementation remembers about an object, it remembers now."""
    old_out = (x.config.op_out, x.config.op_out_like)
    x.config.op_out, x.config.op_out_like = None, None
    for g in (lambda: ~x, lambda: x & 1, lambda: x >> 1, lambda: x << 1, lambda: x.bin(), lambda: x.hex(), lambda: x.base_repr(10),
              lambda: x.get_val(), lambda: x.astype(int), lambda: x.uraw(), lambda: x < 0, lambda: x + x, lambda: x * x,
              lambda: np.sum(x), lambda: np.cumsum(x), lambda: np.max(x), lambda: np.min(x), lambda: np.sort(x), lambda: np.transpose(x),
              lambda: np.prod(x) if x.size * x.n_word <= 60 else None, lambda: x.like(x),
              # looking at the object: printing and describing it in every verbosity, its status, its dtype in both notations
              lambda: str(x), lambda: repr(x), lambda: x.get_status(), lambda: x.get_status(format=str), lambda: x.get_dtype('Q'), lambda: x.get_dtype('fxp'),
              lambda: _quiet(lambda: [x.info(verbose=v) for v in (0, 1, 2, 3)])) + tuple(extra):
        try:
            g()
        except Exception:
            pass
    x.config.op_out, x.config.op_out_like = old_out


def overwrite_in_place(x, codes):
    """write the codes (row-major over x's logical shape) into the existing value buffer, element by element."""
    if x.ndim == 0:
        x.set_val(codes[0], raw=True, index=())
    else:
        for k, idx in enumerate(np.ndindex(*x.shape)):
            x.set_val(codes[k], raw=True, index=idx)
    x.reset()
    assert codes_of(x) == list(codes), 'in-place stores did not deliver the codes'
    return x


def disturb(x, y):
    """further results of the same operands are produced (and dropped) before the result under test is observed: a result
    is a value of its own — nothing that happens afterwards to objects the caller no longer holds may change it (C20, and the
    flags C04/C07 claim for it)."""
    for g in (fxpmath.sub, fxpmath.add, fxpmath.mul):
        try:
            g(x, y)
        except Exception:
            pass


def parse_fmt(t, i):
    return t[i] == 's', int(t[i + 1]), int(t[i + 2])


def observe(z, x=None, y=None):
    """format, codes, overflow, underflow of the result; with the operands given also `ia(x) ia(y) ia(z)`:
    the result must carry the inaccuracy flag iff an operand carried it or its own store was inexact."""
    if not isinstance(z, Fxp):
        return ['NOTFXP:' + type(z).__name__]
    cs = codes_of(z)
    st = z.status
    out = fmt_of(z).split() + [tok_list([str(c) for c in cs]) if cs is not None else 'nonint',
                               tok_bool(st['overflow']), tok_bool(st['underflow'])]
    if x is not None and y is not None and max(z.n_word, x.n_word, y.n_word) <= 52:      # the flags are claimed for core-domain formats (C04)
        out += [tok_bool(x.status['inaccuracy']), tok_bool(y.status['inaccuracy']), tok_bool(st['inaccuracy'])]
    return out


def exec_AR(t, ia=False):
    op, pol, meth, route = t[0:4]
    sx, nx, fx = parse_fmt(t, 4)
    sy, ny, fy = parse_fmt(t, 7)
    r, o = t[10], t[11]
    a = [int(c) for c in parse_list(t[12])]
    b = [int(c) for c in parse_list(t[13])]
    r2, o2 = other_mode(r, o)
    try:
        x = mk(a, sx, nx, fx, rounding=r, overflow=o, op_sizing=pol, op_method=meth, dirty_ok=True)
        y = mk(b, sy, ny, fy, rounding=r2, overflow=o2, op_sizing='optimal' if pol != 'optimal' else 'same', op_method='raw' if meth != 'raw' else 'repr', dirty_ok=True)
        lay = hist_of(nx, ny, fx, len(a), a[-1] % 61, b[0] % 59) % 4
        if len(a) == len(b) and len(a) >= 4 and len(a) % 2 == 0 and lay and max(nx, ny) <= 60:
            # the same codes as 2-D operands in other memory layouts (content-determined): a transposed object, a column-major input,
            # a reversed view — elementwise results do not depend on how the operands lie in memory
            def as2d(codes, which, sg, n, f, **cfg):
                arr = np.array(codes, dtype=np.int64).reshape(2, -1)
                if which == 1:
                    w = Fxp(np.ascontiguousarray(arr.T), sg, n, f, raw=True, **cfg).T
                elif which == 2:
                    w = Fxp(np.asfortranarray(arr), sg, n, f, raw=True, **cfg)
                else:
                    w = Fxp(np.ascontiguousarray(arr[::-1, ::-1]), sg, n, f, raw=True, **cfg)[::-1, ::-1]
                assert codes_of(w) == list(codes) and w.shape == arr.shape, 'layout changed the logical content'
                return w
            x = as2d(a, lay, sx, nx, fx, rounding=r, overflow=o, op_sizing=pol, op_method=meth)
            y = as2d(b, 1 + (lay + b[-1]) % 3, sy, ny, fy, rounding=r2, overflow=o2)
        if len(a) == 1 and len(b) == 1 and max(nx, ny) <= 60 and hist_of(nx, fx, ny, a[0] % 53, b[0] % 47) % 4 == 1:
            # (content-determined) the two codes as one-element pieces of longer arrays (x[1:2], a row of one element): arrays of
            # one element are arrays — the result is elementwise with the broadcast shape of the operands, here (1,) or (1, 1)
            xa = Fxp(np.array([a[0]] * 3, dtype=np.int64), sx, nx, fx, raw=True, rounding=r, overflow=o, op_sizing=pol, op_method=meth)
            ya = Fxp(np.array([b[0]] * 3, dtype=np.int64), sy, ny, fy, raw=True, rounding=r2, overflow=o2)
            x = xa[1:2] if (a[0] + nx) % 2 else xa[None, 1:2]
            y = ya[0:1]
            assert codes_of(x) == a and codes_of(y) == b
        # content-determined: the operation runs while a class-level template of another format and the opposite modes is active
        # (the documented `Fxp.template` pattern); a result is sized by the operator and configured by its first operand all the same
        tmpl = hist_of(nx, fy, len(a), a[0] % 83, b[0] % 79) % 4 == 0
        if tmpl:
            Fxp.template = Fxp(None, True, 40, 7, rounding=r2, overflow=o2)
        try:
            if route == 'operator':
                # the in-place spelling of the operator on every third line (content-determined): `z = x; z += y`
                z = IOPER[op](x, y) if (nx + ny + a[0]) % 3 == 0 else OPER[op](x, y)
            elif route == 'function':
                z = FUNCS[op](x, y, sizing=pol, method=meth)
            elif route == 'numpy':
                assert pol == 'optimal' and meth == 'raw'
                z = NPFUNCS[op](x, y)
            else:
                raise ValueError(route)
        finally:
            Fxp.template = None
        if isinstance(z, Fxp) and np.shape(z.val) != np.broadcast_shapes(np.shape(x.val), np.shape(y.val)):
            return ['SHAPE:%s' % (np.shape(z.val),)]
        disturb(x, y)
    except Exception as e:
        return [exc_token(e)]
    return observe(z, x, y) if ia else observe(z)


def exec_AO(t, ia=False):
    op, kind, meth, route = t[0:4]
    sx, nx, fx = parse_fmt(t, 4)
    sy, ny, fy = parse_fmt(t, 7)
    st, nt, ft = parse_fmt(t, 10)
    r, o = t[13], t[14]
    a = [int(c) for c in parse_list(t[15])]
    b = [int(c) for c in parse_list(t[16])]
    r2, o2 = other_mode(r, o)
    try:
        tgt = Fxp(None, st, nt, ft, rounding=r, overflow=o)
        if kind == 'outlike' and hist_of(nt, ft, len(a), a[0] % 89) % 2 == 1:
            # a template with a past: its own (sticky) overflow / underflow / inaccuracy flags are raised; a result shaped like it
            # starts from a clean status
            _dirty(tgt, 1, st, nt)
            tgt.status['inaccuracy'] = True
        if route == 'config':
            kw = {'op_out': tgt} if kind == 'out' else {'op_out_like': tgt}
            # a sizing policy on the operand is beside the point when a holder / template decides the format (content-determined)
            kw['op_sizing'] = ['optimal', 'same', 'largest', 'smallest'][(nx + ny + nt + a[0]) % 4]
            x = mk(a, sx, nx, fx, rounding=r2, overflow=o2, op_method=meth, dirty_ok=True, **kw)
            y = mk(b, sy, ny, fy, rounding=r2, overflow=o2, dirty_ok=True)
            z = OPER[op](x, y)
        else:
            x = mk(a, sx, nx, fx, rounding=r2, overflow=o2, dirty_ok=True)
            y = mk(b, sy, ny, fy, rounding=r2, overflow=o2, dirty_ok=True)
            kw = {'out': tgt} if kind == 'out' else {'out_like': tgt}
            kw['sizing'] = ['optimal', 'same', 'largest', 'smallest'][(nx + ny + nt + b[0]) % 4]      # (likewise)
            z = FUNCS[op](x, y, method=meth, **kw)
        if kind == 'out' and z is not tgt:
            return ['NOTOUT']
        if kind == 'outlike' and (z is tgt or z.config is tgt.config or z.status is tgt.status):
            return ['SHARED']
        if kind == 'outlike' and (z.config.rounding, z.config.overflow) != (r, o):
            return ['CONFIG:%s,%s' % (z.config.rounding, z.config.overflow)]
        if kind == 'outlike':
            disturb(x, y)
    except Exception as e:
        return [exc_token(e)]
    return observe(z, x, y) if ia else observe(z)


def exec_UN(t):
    op = t[0]
    sx, nx, fx = parse_fmt(t, 1)
    cs = [int(c) for c in parse_list(t[4])]
    try:
        x = mk(cs, sx, nx, fx, rounding='around', overflow='wrap')
        before = codes_of(x)
        z = {'neg': lambda v: -v, 'pos': lambda v: +v, 'abs': abs}[op](x)
        if codes_of(x) != before:
            return ['MUTATED']
    except Exception as e:
        return [exc_token(e)]
    return fmt_of(z).split() + [tok_list([str(c) for c in codes_of(z)])]


def exec_AC(t):
    from fractions import Fraction
    from .env import to_float
    op, side, insize, csz, meth = t[0:5]
    sx, nx, fx = parse_fmt(t, 5)
    r, o = t[8], t[9]
    a = [int(c) for c in parse_list(t[10])]
    c = Fraction(t[11])
    cv = int(c) if c.denominator == 1 else to_float(c)
    # the constant as a python number or (content-determined) as the NumPy scalar of the same value: np.int64 / np.float64 — what a
    # number taken out of a NumPy array is; on the left of the operator NumPy dispatches the operation
    if (nx + fx + len(a) + a[0] + int(c * 8)) % 3 == 0 and (c.denominator != 1 or abs(c) < 2 ** 62):
        cv = np.int64(cv) if c.denominator == 1 else np.float64(cv)
    try:
        x = mk(a, sx, nx, fx, rounding=r, overflow=o, op_input_size=insize, const_op_sizing=csz, op_method=meth,
               op_sizing='optimal' if csz != 'optimal' else 'same', dirty_ok=True)
        # the same constant was used a moment ago with another object of the same format but the opposite configuration:
        # nothing of that operation may survive into this one (constants are converted afresh for every operand)
        r0, o0 = other_mode(r, o)
        x0 = mk(a, sx, nx, fx, rounding=r0, overflow=o0, op_input_size=insize, const_op_sizing=csz, op_method=meth)
        _ = OPER[op](x0, cv) if side == 'l' else OPER[op](cv, x0)
        z = OPER[op](x, cv) if side == 'l' else OPER[op](cv, x)
    except Exception as e:
        return [exc_token(e)]
    return observe(z)


def mk_born(codes, signed, n, f, **cfg):
    """like mk; (content-determined) an array operand of at most 24 bits is born from single-precision data that holds its values
    exactly: what the object computes later does not depend on the NumPy type it was created from"""
    if len(codes) > 1 and n <= 24 and -20 <= f <= 40 and (n + f + codes[0] + len(codes)) % 3 == 0:
        from fractions import Fraction
        vals = [Fraction(c) / Fraction(2) ** f for c in codes]
        arr = np.array([float(v) for v in vals], dtype=np.float32)
        if [Fraction(float(v)) for v in arr] == vals:
            x = Fxp(arr, signed, n, f, **cfg)
            if codes_of(x) == list(codes) and not any(x.status[k] for k in ('overflow', 'underflow', 'inaccuracy')):
                return x
    return mk(codes, signed, n, f, **cfg)


def exec_DV(t):
    op, meth, route = t[0:3]
    sx, nx, fx = parse_fmt(t, 3)
    sy, ny, fy = parse_fmt(t, 6)
    r, o = t[9], t[10]
    a = [int(c) for c in parse_list(t[11])]
    b = [int(c) for c in parse_list(t[12])]
    r2, o2 = other_mode(r, o)
    try:
        x = mk_born(a, sx, nx, fx, rounding=r, overflow=o, op_method=meth)
        y = mk_born(b, sy, ny, fy, rounding=r2, overflow=o2, op_method='raw' if meth != 'raw' else 'repr')
        if route == 'operator':
            z = OPER[op](x, y)
        elif route == 'function':
            z = FUNCS[op](x, y, method=meth)
        else:
            z = NPFUNCS[op](x, y)
    except Exception as e:
        return [exc_token(e)]
    return observe(z)


def exec_EXPR(t):
    """EXPR <rounding> <overflow> <prefix expression>: leaves `L:s:n:f:code`, nodes + - * ; every leaf carries the config (r, o)."""
    from .env import tok_frac
    from fractions import Fraction
    r, o = t[0], t[1]
    toks = list(t[2:])

    def build():
        k = toks.pop(0)
        if k in '+-*' and len(k) == 1:
            a = build(); b = build()
            return a + b if k == '+' else a - b if k == '-' else a * b
        _, s, n, f, c = k.split(':')
        return mk([int(c)], s == 's', int(n), int(f), dirty_ok=True, rounding=r, overflow=o)
    try:
        z = build()
        assert not toks
    except Exception as e:
        return [exc_token(e)]
    cs = codes_of(z)
    st = z.status
    val = Fraction(cs[0]) / Fraction(2) ** z.n_frac if cs is not None else None
    return fmt_of(z).split() + [str(cs[0]) if cs is not None else 'nonint', tok_frac(val) if val is not None else 'nan',
                                tok_bool(st['overflow']), tok_bool(st['underflow'])]
