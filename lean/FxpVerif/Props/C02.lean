import FxpVerif.Model.Chk
import FxpVerif.Model.Reduce
import FxpVerif.Model.Convert
import FxpVerif.Props.C14
import FxpVerif.Props.C15
import FxpVerif.Props.C12
import FxpVerif.Model.Resize
/-! # C02 — every produced object is well-formed -/
namespace Fxp.C02
open Fxp Fmt

/-- an object of the model: a format and its stored codes. -/
structure PObj where
  fmt : Fmt
  codes : List ℤ

/-- well-formed: a constructible format and every code inside its range. -/
def PObj.WF (x : PObj) : Prop := 0 < x.fmt.nword ∧ ∀ c ∈ x.codes, x.fmt.InRange c

theorem ovf_inRange (o : Overflow) (f : Fmt) (hw : 0 < f.nword) (k : ℤ) : f.InRange (ovf o f k) := by
  cases o
  · exact sat_inRange f k
  · exact wrap_inRange f hw k

/-- the operation set of the model. Targets of arithmetic are arbitrary formats, which covers the four sizing
policies, `out`, `out_like` and constants alike. -/
inductive POp
  | store (f : Fmt) (r : Rounding) (o : Overflow) (vs : List ℚ)
  | arith (op : BinOp) (i j : ℕ) (t : Fmt) (r : Rounding) (o : Overflow)
  | conv (i : ℕ) (g : Fmt) (r : Rounding) (o : Overflow)
  | neg (i : ℕ)
  | absv (i : ℕ)
  | inv (i : ℕ) (o : Overflow)
  | bitw (b : BitOp) (i : ℕ) (m : ℤ) (o : Overflow)
  | rshiftKeep (i n : ℕ)
  | lshiftKeep (i n : ℕ)
  | rshiftExp (i n : ℕ)
  | lshiftExp (i n : ℕ)
  | index (i k len : ℕ)
  | sum (i : ℕ) (o : Overflow)

/-- result of one operation on a pool of objects (`none`: the operation raises / the operand does not exist). -/
def stepP (pool : List PObj) : POp → Option PObj
  | .store f r o vs => if 0 < f.nword then some ⟨f, vs.map (quantize f r o)⟩ else none
  | .arith op i j t r o =>
    match pool[i]?, pool[j]? with
    | some x, some y =>
      if 0 < t.nword then some ⟨t, List.zipWith (arithRaw op t r o x.fmt y.fmt) x.codes y.codes⟩ else none
    | _, _ => none
  | .conv i g r o =>
    match pool[i]? with
    | some x => if 0 < g.nword then some ⟨g, x.codes.map (convertM x.fmt g r o)⟩ else none
    | none => none
  | .neg i => (pool[i]?).map (fun x => ⟨x.fmt, x.codes.map (negM x.fmt)⟩)
  | .absv i => (pool[i]?).map (fun x => ⟨x.fmt, x.codes.map (absM x.fmt)⟩)
  | .inv i o => (pool[i]?).map (fun x => ⟨x.fmt, x.codes.map (invertM x.fmt o)⟩)
  | .bitw b i m o => (pool[i]?).map (fun x => ⟨x.fmt, x.codes.map (fun c => bitwiseM b x.fmt o c m)⟩)
  | .rshiftKeep i n => (pool[i]?).map (fun x => ⟨x.fmt, rshiftKeep x.codes n⟩)
  | .lshiftKeep i n => (pool[i]?).map (fun x => ⟨x.fmt, lshiftKeep x.fmt x.codes n⟩)
  | .rshiftExp i n => (pool[i]?).map (fun x => let r := rshiftExpand x.fmt x.codes n; ⟨r.1, r.2⟩)
  | .lshiftExp i n => (pool[i]?).map (fun x => let r := lshiftExpand x.fmt x.codes n; ⟨r.1, r.2⟩)
  | .index i k len => (pool[i]?).map (fun x => ⟨x.fmt, (x.codes.drop k).take len⟩)
  | .sum i o => (pool[i]?).map (fun x => ⟨sumFmt x.fmt x.codes.length, [ovf o (sumFmt x.fmt x.codes.length) (sumL x.codes)]⟩)

/-- run a program: every produced object joins the pool. -/
def runP (pool : List PObj) : List POp → List PObj
  | [] => pool
  | op :: rest =>
    match stepP pool op with
    | some x => runP (pool ++ [x]) rest
    | none => runP pool rest

/-- **one step**: from well-formed operands every operation of the model produces a well-formed object. -/
theorem wf_step (pool : List PObj) (hp : ∀ x ∈ pool, x.WF) (hwf : ∀ x ∈ pool, x.fmt.WF) (op : POp) (z : PObj)
    (hz : stepP pool op = some z) : z.WF := by
  have getWF : ∀ (i : ℕ) (x : PObj), pool[i]? = some x → x.WF ∧ x.fmt.WF := by
    intro i x hx
    have := List.mem_of_getElem? hx
    exact ⟨hp x this, hwf x this⟩
  cases op with
  | store f r o vs =>
    simp only [stepP] at hz
    split at hz
    · rename_i hw
      cases hz
      refine ⟨hw, fun c hc => ?_⟩
      obtain ⟨v, _, rfl⟩ := List.mem_map.mp hc
      exact ovf_inRange o f hw _
    · cases hz
  | arith op i j t r o =>
    simp only [stepP] at hz
    split at hz
    · split at hz
      · rename_i hw
        cases hz
        refine ⟨hw, fun c hc => ?_⟩
        obtain ⟨k, hk, rfl⟩ := List.mem_iff_getElem.mp hc
        simp only [List.getElem_zipWith]
        exact ovf_inRange o t hw _
      · cases hz
    · cases hz
  | conv i g r o =>
    simp only [stepP] at hz
    split at hz
    · split at hz
      · rename_i hw
        cases hz
        refine ⟨hw, fun c hc => ?_⟩
        obtain ⟨v, _, rfl⟩ := List.mem_map.mp hc
        exact ovf_inRange o g hw _
      · cases hz
    · cases hz
  | neg i =>
    simp only [stepP, Option.map_eq_some_iff] at hz
    obtain ⟨x, hx, rfl⟩ := hz
    refine ⟨(getWF i x hx).1.1, fun c hc => ?_⟩
    obtain ⟨v, _, rfl⟩ := List.mem_map.mp hc
    exact sat_inRange _ _
  | absv i =>
    simp only [stepP, Option.map_eq_some_iff] at hz
    obtain ⟨x, hx, rfl⟩ := hz
    refine ⟨(getWF i x hx).1.1, fun c hc => ?_⟩
    obtain ⟨v, _, rfl⟩ := List.mem_map.mp hc
    exact sat_inRange _ _
  | inv i o =>
    simp only [stepP, Option.map_eq_some_iff] at hz
    obtain ⟨x, hx, rfl⟩ := hz
    refine ⟨(getWF i x hx).1.1, fun c hc => ?_⟩
    obtain ⟨v, _, rfl⟩ := List.mem_map.mp hc
    exact ovf_inRange o _ (getWF i x hx).1.1 _
  | bitw b i m o =>
    simp only [stepP, Option.map_eq_some_iff] at hz
    obtain ⟨x, hx, rfl⟩ := hz
    refine ⟨(getWF i x hx).1.1, fun c hc => ?_⟩
    obtain ⟨v, _, rfl⟩ := List.mem_map.mp hc
    exact ovf_inRange o _ (getWF i x hx).1.1 _
  | rshiftKeep i n =>
    simp only [stepP, Option.map_eq_some_iff] at hz
    obtain ⟨x, hx, rfl⟩ := hz
    obtain ⟨⟨hw, hr⟩, hf⟩ := getWF i x hx
    refine ⟨hw, fun c hc => ?_⟩
    simp only [C14.rshift_keep_spec] at hc
    obtain ⟨v, hv, rfl⟩ := List.mem_map.mp hc
    exact C14.rshift_keep_inRange x.fmt hf v n (hr v hv)
  | lshiftKeep i n =>
    simp only [stepP, Option.map_eq_some_iff] at hz
    obtain ⟨x, hx, rfl⟩ := hz
    refine ⟨(getWF i x hx).1.1, fun c hc => ?_⟩
    unfold lshiftKeep at hc
    obtain ⟨v, _, rfl⟩ := List.mem_map.mp hc
    exact sat_inRange _ _
  | rshiftExp i n =>
    simp only [stepP, Option.map_eq_some_iff] at hz
    obtain ⟨x, hx, rfl⟩ := hz
    obtain ⟨⟨hw, _⟩, _⟩ := getWF i x hx
    unfold rshiftExpand
    simp only
    refine ⟨by show 0 < x.fmt.nword + _; omega, fun c hc => ?_⟩
    obtain ⟨v, _, rfl⟩ := List.mem_map.mp hc
    exact sat_inRange _ _
  | lshiftExp i n =>
    simp only [stepP, Option.map_eq_some_iff] at hz
    obtain ⟨x, hx, rfl⟩ := hz
    obtain ⟨⟨hw, _⟩, _⟩ := getWF i x hx
    unfold lshiftExpand
    simp only
    refine ⟨?_, fun c hc => ?_⟩
    · show 0 < Int.toNat _
      have := le_max_left (x.fmt.nword : ℤ) (maxInt (x.codes.map bitlen) + lshiftExpand.bsigI x.fmt.signed + n)
      omega
    · obtain ⟨v, _, rfl⟩ := List.mem_map.mp hc
      exact sat_inRange _ _
  | index i k len =>
    simp only [stepP, Option.map_eq_some_iff] at hz
    obtain ⟨x, hx, rfl⟩ := hz
    obtain ⟨⟨hw, hr⟩, _⟩ := getWF i x hx
    exact ⟨hw, fun c hc => hr c (List.mem_of_mem_drop (List.mem_of_mem_take hc))⟩
  | sum i o =>
    simp only [stepP, Option.map_eq_some_iff] at hz
    obtain ⟨x, hx, rfl⟩ := hz
    obtain ⟨⟨hw, _⟩, _⟩ := getWF i x hx
    have hw' : 0 < (sumFmt x.fmt x.codes.length).nword := by show 0 < clog2 _ + x.fmt.nword; omega
    refine ⟨hw', fun c hc => ?_⟩
    simp only [List.mem_singleton] at hc; subst hc
    exact ovf_inRange o _ hw' _

/-- formats stay constructible (a signed format keeps its sign bit): needed by the floor shift. -/
theorem fmtWF_of_pos (f : Fmt) (h : 0 < f.nword) : f.WF := fun _ => h

/-- **every reachable object is well-formed**: induction over programs of any length. -/
theorem wf_reachable (prog : List POp) : ∀ x ∈ runP [] prog, x.WF := by
  have key : ∀ (pool : List PObj), (∀ x ∈ pool, x.WF) → ∀ x ∈ runP pool prog, x.WF := by
    induction prog with
    | nil => intro pool hp; exact hp
    | cons op rest ih =>
      intro pool hp
      unfold runP
      split
      · rename_i z hz
        apply ih
        intro x hx
        rcases List.mem_append.mp hx with h | h
        · exact hp x h
        · simp only [List.mem_singleton] at h; subst h
          exact wf_step pool hp (fun y hy => fmtWF_of_pos _ (hp y hy).1) op _ hz
      · exact ih pool hp
  exact key [] (by simp)

/-- **saturation picks the input's own side**, for inputs of any magnitude and every rounding mode. -/
theorem sat_own_side (f : Fmt) (r : Rounding) (v : ℚ) :
    (valueOf f f.hi < v → quantize f r .saturate v = f.hi) ∧ (v < valueOf f f.lo → quantize f r .saturate v = f.lo) := by
  constructor
  · intro h
    have hs : scale (valueOf f f.hi) f.nfrac ≤ scale v f.nfrac := scale_mono _ (le_of_lt h)
    unfold valueOf at hs; rw [scale_int_cancel] at hs
    have hk := roundR_mono r hs
    rw [roundR_int] at hk
    unfold quantize ovf
    rcases lt_or_eq_of_le hk with hlt | heq
    · exact sat_above f _ hlt
    · rw [← heq]; exact sat_of_inRange f _ ⟨lo_le_hi f, le_refl _⟩
  · intro h
    have hs : scale v f.nfrac ≤ scale (valueOf f f.lo) f.nfrac := scale_mono _ (le_of_lt h)
    unfold valueOf at hs; rw [scale_int_cancel] at hs
    have hk := roundR_mono r hs
    rw [roundR_int] at hk
    unfold quantize ovf
    rcases lt_or_eq_of_le hk with hlt | heq
    · exact sat_below f _ hlt
    · rw [heq]; exact sat_of_inRange f _ ⟨le_refl _, lo_le_hi f⟩

/-- the checker run on the implementation's objects says exactly: codes in range and metadata as the format dictates. -/
theorem chk_iff (f : Fmt) (cx : Bool) (sc bi : ℚ) (nint : ℤ) (up lo pr : ℚ) (dt : String) (cs : List ℤ) :
    Chk.c02 f cx sc bi nint up lo pr dt cs = true ↔
      (∀ c ∈ cs, f.InRange c) ∧ nint = f.nint ∧ up = sc * valueOf f f.hi + bi ∧ lo = sc * valueOf f f.lo + bi ∧
      pr = sc * valueOf f 1 ∧ dt.toList = renderFxp f cx := by
  unfold Chk.c02 InRange
  simp only [Bool.and_eq_true, List.all_eq_true, decide_eq_true_eq]
  constructor
  · rintro ⟨⟨⟨⟨⟨h1, h2⟩, h3⟩, h4⟩, h5⟩, h6⟩; exact ⟨h1, h2, h3, h4, h5, h6⟩
  · rintro ⟨h1, h2, h3, h4, h5, h6⟩; exact ⟨⟨⟨⟨⟨h1, h2⟩, h3⟩, h4⟩, h5⟩, h6⟩

theorem chk_side_sound (f : Fmt) (v : ℚ) (c : ℤ) (h : Chk.c02side f v c = true) :
    (valueOf f f.hi < v → c = f.hi) ∧ (v < valueOf f f.lo → c = f.lo) ∧ f.InRange c := by
  unfold Chk.c02side at h
  simp only [Bool.and_eq_true, decide_eq_true_eq] at h
  obtain ⟨⟨h1, h2⟩, h3⟩ := h
  refine ⟨fun hv => ?_, fun hv => ?_, h3⟩
  · rw [if_pos hv] at h1; simpa using h1
  · rw [if_pos hv] at h2; simpa using h2

/-! non-vacuity -/
example : quantize ⟨true, 8, 0⟩ .trunc .saturate (2 ^ 1000) = 127 := by decide +kernel
example : quantize ⟨true, 8, 0⟩ .trunc .saturate (-(2 ^ 63)) = -128 := by decide +kernel
example : (runP [] [.store ⟨true, 4, 0⟩ .trunc .saturate [100, -3], .neg 0, .sum 1 .wrap]).length = 3 := by decide +kernel

/-! ### `resize`: the size attributes stay consistent whatever combination of arguments is used -/

/-- **n_int = n_word − n_frac − sign bit** after every successful `resize`, for every combination of `signed`, `n_word`,
`n_frac`, `n_int` and `dtype=` arguments and every previous state (consistent or not). -/
theorem resize_nint_consistent (old m : Meta) (a : ResizeArgs) (h : resizeMeta old a = some m) :
    m.nint = m.nword - m.nfrac - signBit m.signed := by
  unfold resizeMeta at h
  split at h
  · split at h
    · exact absurd h (by simp)
    · split at h
      · exact absurd h (by simp)
      · simp only [Option.some.injEq] at h; subst h; simp [storeSizes]
  · simp only [Option.some.injEq] at h; subst h; simp [storeSizes]

/-- **`resize(dtype=x.dtype)` reproduces x's format**, sign bit included, from any previous state — in particular when
the string flips the signedness of the object. -/
theorem resize_dtype_render (old : Meta) (f : Fmt) (cx : Bool) :
    resizeMeta old { dtype := some (renderFxp f cx) } = some f.meta := by
  unfold resizeMeta
  simp only [Option.isSome_none, Bool.or_self, Bool.false_eq_true, if_false]
  rw [C12.parse_render_fxp]
  simp [resolveNInt, storeSizes, Fmt.meta, Fmt.nint, signBit]

/-- all three of `signed`, `n_word`, `n_frac` given: they are what the object has afterwards. -/
theorem resize_positional (old : Meta) (s : Bool) (w f : ℤ) :
    resizeMeta old { signed := some s, nword := some w, nfrac := some f } = some ⟨s, w, f, w - f - signBit s⟩ := by
  simp [resizeMeta, resolveNInt, storeSizes]

/-- `resize(signed=s, n_int=i, n_frac=f)`: the word is `i + f + sign bit of s` and `n_int` is the `i` asked for. -/
theorem resize_nint_nfrac (old : Meta) (s : Bool) (i f : ℤ) :
    resizeMeta old { signed := some s, nint := some i, nfrac := some f } = some ⟨s, i + f + signBit s, f, i⟩ := by
  simp only [resizeMeta, resolveNInt, storeSizes, Option.getD_some, Option.some.injEq, Meta.mk.injEq, true_and]
  omega

/-- `resize(signed=s, n_word=w, n_int=i)`: the fraction is `w − i − sign bit of s` and `n_int` is the `i` asked for. -/
theorem resize_nword_nint (old : Meta) (s : Bool) (w i : ℤ) :
    resizeMeta old { signed := some s, nword := some w, nint := some i } = some ⟨s, w, w - i - signBit s, i⟩ := by
  simp only [resizeMeta, resolveNInt, storeSizes, Option.getD_some, Option.some.injEq, Meta.mk.injEq, true_and]
  omega

/-- `dtype=` excludes every other size argument. -/
theorem resize_dtype_exclusive (old : Meta) (str : List Char) (s : Bool) :
    resizeMeta old { dtype := some str, signed := some s } = none := by
  simp [resizeMeta]

/-- a sign-only resize keeps word and fraction and moves exactly one bit between sign and integer part. -/
theorem resize_sign_only (old : Meta) (s : Bool) :
    resizeMeta old { signed := some s } = some ⟨s, old.nword, old.nfrac, old.nword - old.nfrac - signBit s⟩ := by
  simp [resizeMeta, resolveNInt, storeSizes]

example : resizeMeta ⟨true, 16, 4, 11⟩ { dtype := some "fxp-u12/4".toList } = some ⟨false, 12, 4, 8⟩ := by decide +kernel
example : resizeMeta ⟨false, 8, 4, 4⟩ { dtype := some "S4.4".toList } = some ⟨true, 8, 4, 3⟩ := by decide +kernel

end Fxp.C02
