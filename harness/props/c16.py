"""C16 — comparisons and numeric conversions agree with the exact stored value."""
import operator
from fractions import Fraction
import numpy as np
from ..env import Fxp, parse_list, tok_list, lims, codes_of, tok_bool, exc_token, to_float, tok_exact, flat
from ..arith import mk
from . import base

TRUSTED_BASE = base.TRUSTED_BASE
ASSUMPTIONS = base.ASSUMPTIONS + ['objects are built by the constructor (raw or by value); default get_val() of an object whose vdtype was set by a raw write is not probed',
                                  'n_word<=24 so every value is an exact double (float comparison exact)']
RULE = ('CMP lines: format pairs with n_word<=24 (n_frac -1..n_word+1), codes chosen adjacent across formats (the neighbours of x in y\'s grid, equal values, extremes), Fxp vs Fxp / Fxp vs number / number vs Fxp, scalars and arrays; '
        'NC lines: every code of every format n_word<=5 (quick) / <=8 (thorough), n_frac -1..n_word+1, objects created raw and by value: get_val, astype(float), float(), astype(int), int(), bool(), raw(), uraw(). '
        'non-trivial = formats differ (CMP) or negative code / non-zero fraction length (NC)')
TECHNIQUE = 'Lean 4 theorems (value order = order of aligned integer codes for any two formats; conversions characterised) + differential correspondence'
LEVEL_TEXT = ('Machine-checked: for any two formats the six relations between exact stored values are decided by the aligned integer codes (valueOf strictly monotone, cross-format alignment exact); astype(int) is the floor, bool is code != 0, '
              'uraw is the n_word-bit two\'s-complement image. The implementation\'s operators and conversion methods are compared with the model on adjacent-across-formats values and on every code of small formats.')
LEVEL_NOTE = 'Trusted: Lean kernel + standard axioms; model-vs-code agreement on generated inputs only; float comparison exact because n_word<=24.'

OPS = [operator.lt, operator.le, operator.eq, operator.ne, operator.gt, operator.ge]


def _val(codes, f):
    vs = [Fraction(c) / Fraction(2) ** f for c in codes]
    return [int(v) if v.denominator == 1 else to_float(v) for v in vs]


def exec_CMP(t):
    kind = t[0]
    sx, nx, fx = t[1] == 's', int(t[2]), int(t[3])
    sy, ny, fy = t[4] == 's', int(t[5]), int(t[6])
    a = [int(c) for c in parse_list(t[7])]
    b = [int(c) for c in parse_list(t[8])]
    try:
        # (a NumPy scalar on the left makes NumPy dispatch the comparison; `array_op_method='raw'` is the documented way to ask NumPy
        # operations for raw codes, so that option stays at its default for the Fxp operand of such a line)
        keep = {}       # (comparisons compare values under every array_op_method: D73)
        def mk16(codes, s_, n_, f_, **kw_):
            # (content-determined) an array object born from single-precision data, the values being exact in it (n_word <= 24)
            if len(codes) > 1 and (n_ + f_ + codes[0]) % 3 == 0 and -20 <= f_ <= 40:
                arr = np.array([float(v) for v in _val(codes, f_)], dtype=np.float32)
                if [Fraction(float(v)) for v in arr] == [Fraction(c) / Fraction(2) ** f_ for c in codes]:
                    x_ = Fxp(arr, s_, n_, f_, **kw_)
                    if codes_of(x_) == list(codes):
                        return x_
            return mk(codes, s_, n_, f_, **kw_)
        X = mk16(a, sx, nx, fx) if kind != 'nf' else (_val(a, fx)[0] if len(a) == 1 else np.array([float(v) for v in _val(a, fx)]))
        Y = mk16(b, sy, ny, fy, **keep) if kind != 'fn' else (_val(b, fy)[0] if len(b) == 1 else np.array([float(v) for v in _val(b, fy)]))
        # the plain number is a Python scalar or (content-determined) the NumPy scalar of the same value: np.float64 / np.int64 are
        # the numbers NumPy code has in its hands
        npnum = lambda v: (np.int64(v) if isinstance(v, int) else np.float64(v)) if not isinstance(v, np.ndarray) and (a[0] + b[0] + nx) % 2 else v
        if kind == 'nf':
            X = npnum(X)
        if kind == 'fn':
            Y = npnum(Y)
        if (nx + ny + fx + a[0] + b[-1]) % 2 == 0:
            from ..arith import warm
            for w_ in (X, Y):
                if isinstance(w_, Fxp):
                    warm(w_)        # looked at and used in every read-only way before the comparison
        out = []
        for op in OPS:
            r = op(X, Y)
            out.append(tok_list([tok_bool(v) for v in flat(r)]))
    except Exception as e:
        return [exc_token(e)]
    return out


def exec_NC(t):
    mode = t[0]
    s, n, f = t[1] == 's', int(t[2]), int(t[3])
    codes = [int(c) for c in parse_list(t[4])]
    try:
        if mode == 'raw':
            x = mk(codes, s, n, f)
        else:
            v = _val(codes, f)
            x = Fxp(v[0] if len(v) == 1 else v, s, n, f)
            if len(v) == 1 and (codes[0] + n + f) % 3 == 0:
                # (content-determined) the one value sits in a one-element array of one or two dimensions: float(), int(), bool() of it
                # are the conversions of that element (D72)
                x = Fxp([v[0]] if codes[0] % 2 else [[v[0]]], s, n, f)
            if codes_of(x) != codes:
                return ['SRCFAIL']
        if (n + f + len(codes) + codes[0]) % 2 == 0:
            # (content-determined) the object has been looked at and used in every read-only way before it is read here
            from ..arith import warm
            warm(x)
        gv = [tok_exact(v) for v in flat(x.get_val())]
        af = [tok_exact(v) for v in flat(x.astype(float))]
        ai = [str(int(v)) for v in flat(x.astype(int))]
        raw = [str(int(v)) for v in flat(x.raw())]
        uraw = [str(int(v)) for v in flat(x.uraw())]
        if len(codes) > 1:
            # the same conversions asked for one element (index= / item=, the first element included)
            for i_ in sorted({0, len(codes) - 1, len(codes) // 2}):
                if [tok_exact(x.get_val(index=i_)), tok_exact(x.astype(float, index=i_)), str(int(x.astype(int, index=i_))), tok_exact(x.get_val(item=i_))] != [gv[i_], af[i_], ai[i_], gv[i_]]:
                    return ['INDEXED_READ_DIFFERS:%d' % i_]
        if len(codes) == 1:
            if tok_exact(float(x)) != af[0]:
                return ['FLOAT_MISMATCH']
            if str(int(x)) != ai[0]:
                return ['INT_MISMATCH:%s' % int(x)]
            bl = [tok_bool(bool(x))]
        else:
            bl = [tok_bool(bool(x[i])) for i in range(len(codes))]
    except Exception as e:
        return [exc_token(e)]
    return [tok_list(gv), tok_list(af), tok_list(ai), tok_list(bl), tok_list(raw), tok_list(uraw)]


EXEC = {'CMP': exec_CMP, 'NC': exec_NC}


def fm(x):
    return '%s %d %d' % ('s' if x[0] else 'u', x[1], x[2])


def generate(tier, rng):
    L = lambda l: tok_list([str(c) for c in l])
    maxw = 5 if tier == 'quick' else 8
    for s in (True, False):
        for n in range(1, maxw + 1):
            lo, hi = lims(s, n)
            for f in range(-1, n + 2):
                allc = list(range(lo, hi + 1))
                yield 'NC raw %s %s' % (fm((s, n, f)), L(allc))
                yield 'NC value %s %s' % (fm((s, n, f)), L(allc))
                for c in ([lo, hi, 0, -1 if s else 1] if n > 3 else allc):
                    if lo <= c <= hi:
                        yield 'NC %s %s %s' % (rng.choice(['raw', 'value']), fm((s, n, f)), L([c]))
    for _ in range(4000 if tier == 'quick' else 100000):
        sx, sy = rng.random() < 0.5, rng.random() < 0.5
        nx, ny = rng.randint(1, 24), rng.randint(1, 24)
        x = (sx, nx, rng.randint(-1, nx + 1)); y = (sy, ny, rng.randint(-1, ny + 1))
        lox, hix = lims(sx, nx); loy, hiy = lims(sy, ny)
        k = rng.choice([1, 1, 3, 4])
        a, b = [], []
        for _ in range(k):
            ca = rng.choice([lox, hix, 0, rng.randint(lox, hix)])
            # neighbour of x's value in y's grid
            q = Fraction(ca) * Fraction(2) ** (y[2] - x[2])
            cb = (q.numerator // q.denominator) + rng.choice([-1, 0, 0, 1, 1])
            cb = max(loy, min(hiy, cb))
            a.append(ca); b.append(cb)
        kind = rng.choice(['ff', 'ff', 'fn', 'nf'])
        if kind != 'ff' and rng.random() < 0.35:
            # the plain number is any double: a hair (far less than an LSB of the object, less than single precision resolves) off a
            # stored value, written as a code of a much finer grid
            fine = rng.randint(1, 26)
            if kind == 'fn':
                y = (sy, 52, x[2] + fine)
                b = [max(-(2 ** 51) if sy else 0, min(2 ** 51 - 1, (ca << fine) + rng.choice([-1, 1, 1, -3, 0]))) for ca in a]
            else:
                x = (sx, 52, y[2] + fine)
                a = [max(-(2 ** 51) if sx else 0, min(2 ** 51 - 1, (cb << fine) + rng.choice([-1, 1, 1, -3, 0]))) for cb in b]
        if kind != 'ff' and not all(abs(v) < 2 ** 53 for v in a + b):
            continue
        if rng.random() < 0.2 and k > 1:
            b = b[:1]
        # the "plain number" side is a Python scalar (an ndarray on the left dispatches to NumPy, not to Fxp)
        if kind == 'fn':
            b = b[:1]
        if kind == 'nf':
            a = a[:1]
        yield 'CMP %s %s %s %s %s' % (kind, fm(x), fm(y), L(a), L(b))


def nontrivial(full_line, model):
    t = full_line.split(' | ')[0].split()
    return t[2:5] != t[5:8] if t[0] == 'CMP' else True


def debug_class(t):
    return ' '.join(t[0:2])


def stats(verdicts):
    return base.generic_stats(verdicts, lambda t: ['op:' + t[0] + ':' + t[1]], lambda t: len(parse_list(t[-1])),
                              ['NC: every code of every format n_word<=5 (quick) / <=8 (thorough), n_frac -1..n_word+1, raw- and value-created'])
