import FxpVerif.Model.Core
import FxpVerif.Driver.Ops
import FxpVerif.Lemmas.Round
import FxpVerif.Lemmas.Overflow
import FxpVerif.Props.C01
import FxpVerif.Props.C03
import FxpVerif.Props.C05
