"""C06 — size inference picks the smallest format that holds the values exactly."""
from fractions import Fraction
import numpy as np
from ..env import Fxp, parse_list, tok_list, codes_of, fmt_of, exc_token, tok_bool, tok_frac, to_float, is_exact_float, frac
from . import base

TRUSTED_BASE = base.TRUSTED_BASE + ['the float arithmetic of the two search loops is exact for dyadic inputs with <=20 fraction bits and |k|<2^40 (every intermediate is a dyadic with <=63 significant bits... below 2^53 in magnitude)']
ASSUMPTIONS = base.ASSUMPTIONS + ['reading: "fewest word bits with non-negative integer length" is literal - an unsigned 0 infers fxp-u0/0',
                                  'unsigned inference is exercised with non-negative values only (a negative value cannot be exact in an unsigned format)',
                                  ]
RULE = ('INF lines: scalars and arrays (<=4 elements) of dyadic k/2^f, f<=20, |k|<2^40, heavy on +-2^k, 2^k-LSB, -2^k-LSB; signedness None/True/False; each subset of {n_word, n_frac, n_int} given or left unspecified; '
        'exhaustive k in [-2^6,2^6] (quick) / [-2^9,2^9] (thorough), f<=4 / <=6; INC lines: random non-dyadic doubles (capped case, relational only). non-trivial = value is not an integer or is negative or more than one element')
TECHNIQUE = 'Lean 4 theorems (fraction-bit loop = least i with v*2^i integral; integer-bit loop = least width holding the scaled extremes; inferred format exact and minimal; given-size cases; cap) + verified relational checker (exact + minimal) on the implementation'
LEVEL_TEXT = ('Machine-checked on the model of both search loops (structural recursion with fuel): for dyadic inputs the fraction loop returns the least number of fraction bits making the value integral, the integer loop the least two\'s-complement width of the scaled extremes, '
              'hence the inferred format stores every value exactly, raises no flag, and no format with fewer fraction bits (then fewer word bits) does; the n_word-only / n_frac-only / n_int cases and the 64-bit cap are characterised. '
              'The implementation is judged on generated inputs by a relational checker (exactness and minimality) that does not depend on the model\'s loops.')
LEVEL_NOTE = 'Trusted: Lean kernel + standard axioms; float exactness of the loops for the stated input domain; model-vs-code agreement on generated inputs only.'


def mkvals(vs):
    """the values as Python numbers / a list, or (content-determined) in a NumPy carrier: the narrowest integer or float dtype that
    holds every value exactly, or the 64-bit one; scalars as NumPy scalars. What is inferred does not depend on the carrier."""
    out = [int(v) if v.denominator == 1 else to_float(v) for v in vs]
    h = (len(vs) * 7 + sum(int(v * 16) % 1013 for v in vs)) % 3
    if h:
        if all(v.denominator == 1 for v in vs):
            cands = [np.int8, np.uint8, np.int16, np.uint16, np.int32, np.int64] if h == 1 else [np.int64]
            dt = next((d for d in cands if all(np.iinfo(d).min <= int(v) <= np.iinfo(d).max for v in vs)), None)
        else:
            cands = [np.float16, np.float32, np.float64] if h == 1 else [np.float64]
            def exact_in(d, v):
                with np.errstate(all='ignore'):
                    w = float(d(to_float(v)))
                return np.isfinite(w) and Fraction(*w.as_integer_ratio()) == v
            dt = next((d for d in cands if all(exact_in(d, v) for v in vs)), None)
        if dt is not None:
            if len(out) > 1 and (len(vs) + sum(int(v * 8) % 7 for v in vs)) % 2:
                return [dt(o) for o in out]       # a python list of NumPy scalars
            return dt(out[0]) if len(out) == 1 else np.array(out, dtype=dt)
    return out[0] if len(out) == 1 else out


def observe(x):
    st = x.status
    return fmt_of(x).split() + [tok_list([str(c) for c in codes_of(x)]), tok_bool(st['overflow']), tok_bool(st['underflow']), tok_bool(st['inaccuracy'])]


def exec_INF(t):
    sg, w, f, i = t[0], t[1], t[2], t[3]
    vs = [frac(v) for v in parse_list(t[4])]
    kw = {}
    if sg != 'n':
        kw['signed'] = sg == 's'
    if w != '-':
        kw['n_word'] = int(w)
    if f != '-':
        kw['n_frac'] = int(f)
    if i != '-':
        kw['n_int'] = int(i)
    carrier = mkvals(vs)          # (built outside the try: an error of the harness must never pass for one of the library)
    if sg != 'n' and not (sg == 'u' and any(v < 0 for v in vs)) and (len(vs) * 3 + sum(int(v * 32) % 1009 for v in vs)) % 4 == 0:
        # (content-determined) the values arrive inside another fixed-point object that holds them exactly in a roomier format, with
        # spare fraction bits: what is inferred is the smallest format for the values, not the format of the object that carried them
        fs = max([v.denominator.bit_length() - 1 for v in vs]) + 1 + (len(vs) % 3) * 5
        ws = max([abs(int(v * 2 ** fs)).bit_length() for v in vs]) + 2 + (len(vs) % 2) * 9
        if ws <= 62:
            pv = [int(v) if v.denominator == 1 else to_float(v) for v in vs]
            src = Fxp(pv[0] if len(pv) == 1 else pv, sg == 's', ws, fs)
            assert [Fraction(c, 2 ** fs) for c in codes_of(src)] == list(vs) and not any(src.status[k] for k in ('overflow', 'underflow', 'inaccuracy')), 'source not exact'
            carrier = src
    if (len(vs) + sum(int(v * 4) % 11 for v in vs)) % 5 == 0:
        # (content-determined) somewhere else in the program an object was just built from a template given by keyword: that is
        # that object's business, inference for the next object starts from nothing
        _ = Fxp(1.5, template=Fxp(None, True, 16, 8))
    try:
        x = Fxp(carrier, **kw)
    except Exception as e:
        return [exc_token(e)]
    return observe(x)


def exec_INC(t):
    sg = t[0]
    vs = [frac(v) for v in parse_list(t[1])]
    kw = {} if sg == 'n' else {'signed': sg == 's'}
    carrier = mkvals(vs)
    try:
        x = Fxp(carrier, **kw)
    except Exception as e:
        return [exc_token(e)]
    return observe(x)


EXEC = {'INF': exec_INF, 'INC': exec_INC}


def bits_needed(vs, signed):
    """reference sizes used only to build the 'given' arguments of a case (not an oracle)."""
    f = max((v.denominator.bit_length() - 1) for v in vs)
    ks = [int(v * 2 ** f) for v in vs]
    n = 0
    while not all((-(1 << n) <= k < (1 << n)) if signed else (0 <= k < (1 << n)) for k in ks):
        n += 1
    return n + int(signed), f


def generate(tier, rng):
    V = lambda vs: tok_list([tok_frac(v) for v in vs])
    K, FM = (6, 4) if tier == 'quick' else (9, 6)
    for f in range(0, FM + 1):
        for k in range(-(1 << K), (1 << K) + 1):
            v = Fraction(k, 1 << f)
            for sg in ('n', 's', 'u'):
                if sg == 'u' and v < 0:
                    continue
                if tier == 'quick' and rng.random() < 0.5:
                    continue
                yield 'INF %s - - - %s' % (sg, V([v]))
    nr = 5000 if tier == 'quick' else 150000
    for _ in range(nr):
        size = rng.choice([1, 1, 1, 2, 3, 4])
        vs = []
        for _ in range(size):
            f = rng.randint(0, 20)
            e = rng.randint(0, 39)
            k = rng.choice([1 << e, (1 << e) - 1, -(1 << e), -(1 << e) - 1, (1 << e) + 1, rng.randint(-(1 << e), 1 << e), 0, 1, -1])
            v = Fraction(k, 1 << f)
            if abs(k) < 2 ** 40 and is_exact_float(v):
                vs.append(v)
        if not vs:
            continue
        sg = rng.choice(['n', 's', 'u'])
        if sg == 'u':
            vs = [abs(v) for v in vs]
        signed = sg != 'u'
        nw, nf = bits_needed(vs, signed)
        ni = nw - nf - int(signed)
        mode = rng.choice(['none', 'none', 'w', 'f', 'iw', 'if', 'i'])
        w = f_ = i = '-'
        if mode == 'w':
            w = str(max(1 + int(signed), nw + rng.choice([-3, -1, 0, 0, 1, 4])))
        elif mode == 'f':
            # a given fraction length: near the exact one, far beyond it (the word reaches the 64-bit cap), or negative
            f_ = str(rng.choice([max(0, nf + rng.choice([-2, -1, 0, 0, 1, 3])), max(0, nf + rng.choice([-2, -1, 0, 0, 1, 3])),
                                 rng.randint(nf, max(nf, 64 - int(signed) - max(ni, 0))), 64 - int(signed) - max(ni, 0), -rng.randint(1, 6)]))
        elif mode == 'iw':
            w = str(nw + rng.choice([0, 0, 1, 2])); i = str(max(ni, 0) + rng.choice([0, 0, 1]))
        elif mode == 'if':
            f_ = str(nf + rng.choice([0, 0, 1])); i = str(max(ni, 0) + rng.choice([0, 0, 1, 2]))
        elif mode == 'i':
            i = str(max(ni, 0))
        yield 'INF %s %s %s %s %s' % (sg, w, f_, i, V(vs))
    for _ in range(300 if tier == 'quick' else 10000):
        vs = [Fraction(rng.uniform(-1, 1) * 10 ** rng.randint(-6, 6)) for _ in range(rng.choice([1, 1, 2]))]
        sg = rng.choice(['n', 's', 'u'])
        if sg == 'u':
            vs = [abs(v) for v in vs]
        yield 'INC %s %s' % (sg, V(vs))


def nontrivial(full_line, model):
    t = full_line.split(' | ')[0].split()
    vs = parse_list(t[-1])
    return len(vs) > 1 or '/' in vs[0] or vs[0].startswith('-')


def debug_class(t):
    return ' '.join(t[0:5]) if t[0] == 'INF' else t[0]


def stats(verdicts):
    return base.generic_stats(verdicts, lambda t: ['op:' + t[0], 'signed:' + t[1]] + (['given:' + ''.join('wfi'[j] for j in range(3) if t[2 + j] != '-')] if t[0] == 'INF' else []),
                              lambda t: len(parse_list(t[-1])),
                              ['INF with nothing given: every k/2^f, |k|<=2^6, f<=4 (quick, half sampled) / |k|<=2^9, f<=6 (thorough)'])
