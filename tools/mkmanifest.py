#!/venv/bin/python
"""Regenerate MANIFEST.json from harness/props/*.py (claimed) and properties.jsonl (everything else -> not_applicable)."""
import importlib, json, os, sys
VERIF = os.path.dirname(os.path.dirname(os.path.abspath(__file__)))
sys.path.insert(0, VERIF)
os.environ.setdefault('FXP_REPO', '/repo')
props = [json.loads(l) for l in open(os.path.join(VERIF, 'properties.jsonl'))]
checks, na = [], []
for p in props:
    pid = p['id']
    path = os.path.join(VERIF, 'harness', 'props', pid.lower() + '.py')
    if not os.path.exists(path):
        na.append({'property_id': pid, 'reason': 'check not built yet in this round (planned: Lean model + theorems + correspondence, DESIGN §6 %s)' % pid})
        continue
    mod = importlib.import_module('harness.props.' + pid.lower())
    checks.append({
        'property_id': pid,
        'quick_cmd': './check %s quick' % pid,
        'thorough_cmd': './check %s thorough' % pid,
        'evidence_file': 'evidence/%s.json' % pid,
        'replay_cmd_template': './check %s --replay {path}' % pid,
        'engine': 'lean4+correspondence',
        'level_claimed': {'category': 'proof', 'text': mod.LEVEL_TEXT, 'design_ref': 'DESIGN.md §6 ' + pid},
        'level_note': mod.LEVEL_NOTE,
        'technique': mod.TECHNIQUE,
    })
man = {
    'version': 1,
    'setup_cmd': 'cd lean && lake build && cd .. && /venv/bin/python -m harness.selfcheck',
    'hooks': {'guard': 'FXPMATH_VERIF', 'enable': 'no source hooks are needed: every observable is public API (the harness sets FXPMATH_VERIF=1, nothing reads it)',
              'baseline_off_cmd': 'cd /repo && /venv/bin/python -m pytest -ra -q -p no:cacheprovider --timeout=900 --continue-on-collection-errors',
              'source_commits': [], 'add_only': True},
    'engines': [{'name': 'lean4+correspondence', 'path': 'lean/ + harness/', 'serves_properties': [c['property_id'] for c in checks],
                 'kind_free_text': 'Lean 4 theorems about a hand-written executable model (lean/FxpVerif), tied to /repo on every run (a) by a differential correspondence check through the public API (harness/), with verified checkers as oracle, and (b) for the integer decision rules of functions.py (growth rules, sizing policies, carrier selection) by a translator that regenerates their Lean definitions from the source and re-checks the tie theorems (lean/FxpVerif/Gen)'}],
    'checks': checks,
    'not_applicable': na,
    'notes': 'fix: commits in /repo are listed in known_findings.json (status fixed). Exit codes: 0 held, 1 VIOLATION, 2 infrastructure/timeout.',
}
json.dump(man, open(os.path.join(VERIF, 'MANIFEST.json'), 'w'), indent=1)
print('claimed', [c['property_id'] for c in checks], 'not_applicable', [n['property_id'] for n in na])
