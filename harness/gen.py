"""Shared generator building blocks (DESIGN §4.3)."""
from fractions import Fraction
from .env import lims, ROUNDS, OVFS, tok_frac, tok_list

BOUNDARY_WORDS = [1, 2, 3, 7, 8, 9, 15, 16, 17, 24, 31, 32, 33, 47, 48, 51, 52]
WIDE_WORDS = [64, 65, 66, 72, 96, 127, 128, 129, 200, 256]


def small_formats(max_word, fmin=-8, fextra=8):
    for signed in (True, False):
        for n in range(1, max_word + 1):
            for f in range(fmin, n + fextra + 1):
                yield signed, n, f


def quarter_points(signed, n, f):
    """every quarter-LSB input over three times the representable range."""
    lo, hi = lims(signed, n)
    span = hi - lo + 1
    lsb4 = Fraction(1, 4) * Fraction(2) ** (-f)
    return [j * lsb4 for j in range(4 * (lo - span), 4 * (hi + span) + 1)]


def rand_format(rng, max_word=52, min_word=1, fmin=-8, fextra=8):
    signed = rng.random() < 0.5
    if rng.random() < 0.35:
        n = rng.choice([w for w in BOUNDARY_WORDS if min_word <= w <= max_word])
    else:
        n = rng.randint(min_word, max_word)
    f = rng.randint(fmin, n + fextra)
    return signed, n, f


def rand_scaled(rng, signed, n):
    """a scaled input x = v*2^f near something interesting, in quarter LSBs."""
    lo, hi = lims(signed, n)
    span = hi - lo + 1
    bases = [lo, hi, 0, lo - 1, hi + 1, rng.randint(lo, hi), rng.randint(lo - span, hi + span), span, -span,
             rng.randint(lo, hi) | 1, (rng.randint(lo, hi) >> 1) << 1]
    b = rng.choice(bases)
    d = rng.randint(-6, 6)
    return Fraction(4 * b + d, 4)


def rand_scaled_wide(rng, f):
    """a scaled input far outside the range: +-m*2^e with a (up to) 53-bit mantissa, |x| < 2^62 and |x/2^f| < 2^53
    (the whole core domain, not only the neighbourhood of the format's range)."""
    for _ in range(20):
        mb = rng.choice([1, 2, 8, 24, 30, 52, 53, rng.randint(1, 53)])
        m = rng.getrandbits(mb) | 1 | (1 << (mb - 1))
        e = rng.randint(-2, 61 - mb) if mb <= 61 else 0
        x = Fraction(m) * Fraction(2) ** e * rng.choice([1, -1])
        if rng.random() < 0.3:
            x += Fraction(rng.choice([1, 2, 3]), 4)      # quarter-LSB offsets (only representable when small)
        v = x / Fraction(2) ** f
        if abs(x) < 2 ** 62 and abs(v) < 2 ** 53:
            return x
    return Fraction(0)


def in_c01_domain(n, f, v, float_sat=False):
    if not (1 <= n <= 52 and -8 <= f <= n + 8):
        return False
    if float_sat:
        return f >= 0
    return abs(v) < 2 ** 53 and abs(v * Fraction(2) ** f) < 2 ** 62


def modes():
    for r in ROUNDS:
        for o in OVFS:
            yield r, o


def vals_tok(vals):
    return tok_list([tok_frac(v) for v in vals])
