import FxpVerif.Model.Carrier
import FxpVerif.Props.C07
import FxpVerif.Props.C01
import Mathlib.Tactic.FieldSimp
/-! # C19 — no silent wrap at the 64-bit machine boundary -/
namespace Fxp.C19
open Fxp Fmt C07

theorem wrapI64_of_fits (z : ℤ) (h : FitsI64 z) : wrapI64 z = z := by
  unfold wrapI64 FitsI64 at *
  apply Int.bmod_eq_of_le
  · omega
  · omega

theorem wrapI64_wrapU64 (z : ℤ) (h : FitsI64 z) : wrapI64 (wrapU64 z) = z := by
  have e : (2:ℤ) ^ 64 = ((2 ^ 64 : ℕ) : ℤ) := by norm_num
  unfold wrapU64
  rw [e]
  unfold wrapI64
  rw [Int.emod_bmod]
  exact wrapI64_of_fits z h

theorem mag_le_nword (f : Fmt) : f.mag ≤ f.nword := by unfold mag; omega

/-- magnitude bound of the aligned sum/difference in terms of `addBits`. -/
theorem aligned_bounds (x y : Fmt) (hx : x.WF) (hy : y.WF) (a b : ℤ) (ha : x.InRange a) (hb : y.InRange b)
    (N : ℕ) (hN : addBits x y (max x.nfrac y.nfrac) ≤ N) :
    -(2:ℤ) ^ N ≤ sumCode x y a b ∧ sumCode x y a b ≤ 2 ^ N ∧
    -(2:ℤ) ^ N ≤ diffCode x y a b ∧ diffCode x y a b ≤ 2 ^ N ∧
    -(2:ℤ) ^ N ≤ a * 2 ^ kx x y ∧ a * 2 ^ kx x y ≤ 2 ^ N ∧
    -(2:ℤ) ^ N ≤ b * 2 ^ ky x y ∧ b * 2 ^ ky x y ≤ 2 ^ N := by
  have hax := (inRange_iff_mag x hx a).mp ha
  have hby := (inRange_iff_mag y hy b).mp hb
  set M := max (x.mag + kx x y) (y.mag + ky x y) + 1 with hM
  have hadd := add_bound x.signed y.signed x.mag y.mag (kx x y) (ky x y) M a b hax hby rfl
  have hsub := sub_bound x.signed y.signed x.mag y.mag (kx x y) (ky x y) M a b hax hby rfl
  obtain ⟨a1, a2⟩ := shifted_bounds x.signed x.mag (kx x y) a hax
  obtain ⟨b1, b2⟩ := shifted_bounds y.signed y.mag (ky x y) b hby
  have hmx := mag_le_nword x
  have hmy := mag_le_nword y
  have hkx : kx x y = (max x.nfrac y.nfrac - x.nfrac).toNat := rfl
  have hky : ky x y = (max x.nfrac y.nfrac - y.nfrac).toNat := rfl
  have hMN : M ≤ N := by
    unfold addBits at hN
    have A1 := le_max_left ((x.nword : ℤ) + max (max x.nfrac y.nfrac - x.nfrac) 0) ((y.nword : ℤ) + max (max x.nfrac y.nfrac - y.nfrac) 0)
    have A2 := le_max_right ((x.nword : ℤ) + max (max x.nfrac y.nfrac - x.nfrac) 0) ((y.nword : ℤ) + max (max x.nfrac y.nfrac - y.nfrac) 0)
    have B1 : ((x.mag + kx x y : ℕ) : ℤ) ≤ (x.nword : ℤ) + max (max x.nfrac y.nfrac - x.nfrac) 0 := by
      rw [hkx]; push_cast; omega
    have B2 : ((y.mag + ky x y : ℕ) : ℤ) ≤ (y.nword : ℤ) + max (max x.nfrac y.nfrac - y.nfrac) 0 := by
      rw [hky]; push_cast; omega
    have C1 : x.mag + kx x y + 1 ≤ N := by omega
    have C2 : y.mag + ky x y + 1 ≤ N := by omega
    rw [hM]
    have := max_le (Nat.le_of_succ_le_succ (Nat.succ_le_succ (Nat.le_sub_one_of_lt C1))) (Nat.le_sub_one_of_lt C2)
    omega
  have hp : (2:ℤ) ^ M ≤ 2 ^ N := pow_mono2 hMN
  have hpx : (2:ℤ) ^ (x.mag + kx x y) ≤ 2 ^ N := pow_mono2 (by omega)
  have hpy : (2:ℤ) ^ (y.mag + ky x y) ≤ 2 ^ N := pow_mono2 (by omega)
  have hbs : ∀ s : Bool, 0 ≤ bsig s ∧ bsig s ≤ 1 := by intro s; unfold bsig; split <;> omega
  have h1 := hbs x.signed; have h2 := hbs y.signed; have h3 := hbs (x.signed || y.signed)
  have pM : (0:ℤ) < 2 ^ M := by positivity
  have pX : (0:ℤ) < 2 ^ (x.mag + kx x y) := by positivity
  have pY : (0:ℤ) < 2 ^ (y.mag + ky x y) := by positivity
  have k1 := one_le_two_pow (kx x y)
  have k2 := one_le_two_pow (ky x y)
  unfold sumCode diffCode
  refine ⟨by nlinarith [hadd.1], by linarith [hadd.2], by linarith [hsub.1], by linarith [hsub.2],
          by nlinarith, by linarith, by nlinarith, by linarith⟩

/-- **add / sub**: whenever the selection rule keeps a machine carrier, every intermediate fits it, so the
machine result is the exact aligned sum / difference (for optimal sizing, `F = max n_frac`). -/
theorem add_path_exact (x y : Fmt) (hx : x.WF) (hy : y.WF) (a b : ℤ) (ha : x.InRange a) (hb : y.InRange b) :
    machineResult (machinePath (addNeedsPyInt x y (max x.nfrac y.nfrac)) x y) (sumCode x y a b) = some (sumCode x y a b) ∧
    machineResult (machinePath (addNeedsPyInt x y (max x.nfrac y.nfrac)) x y) (diffCode x y a b) = some (diffCode x y a b) := by
  by_cases hpy : (addNeedsPyInt x y (max x.nfrac y.nfrac) || decide (64 ≤ x.nword) || decide (64 ≤ y.nword)) = true
  · have : machinePath (addNeedsPyInt x y (max x.nfrac y.nfrac)) x y = .pyint := by simp only [machinePath, hpy, if_true]
    rw [this]; exact ⟨rfl, rfl⟩
  · have hnp : addNeedsPyInt x y (max x.nfrac y.nfrac) = false := by
      cases h : addNeedsPyInt x y (max x.nfrac y.nfrac) <;> simp_all
    unfold addNeedsPyInt at hnp
    simp only [Bool.or_eq_false_iff, decide_eq_false_iff_not, Bool.and_eq_false_iff, bne_eq_false_iff_eq] at hnp
    obtain ⟨⟨_, h63⟩, hmix⟩ := hnp
    have hb62 := aligned_bounds x y hx hy a b ha hb 62 (by omega)
    have fits : ∀ z : ℤ, -(2:ℤ) ^ 62 ≤ z → z ≤ 2 ^ 62 → FitsI64 z := by
      intro z h1 h2; unfold FitsI64; constructor <;> [linarith [show (2:ℤ)^62 ≤ 2^63 by norm_num]; linarith [show (2:ℤ)^62 < 2^63 by norm_num]]
    have fs := fits _ hb62.1 hb62.2.1
    have fd := fits _ hb62.2.2.1 hb62.2.2.2.1
    simp only [machinePath]
    rw [if_neg hpy]
    cases hsx : x.signed <;> cases hsy : y.signed <;> simp only [Bool.and_self, Bool.and_false, Bool.false_and,
      Bool.not_false, Bool.not_true, Bool.and_true, if_true, if_false, Bool.false_eq_true, machineResult]
    · exact ⟨by rw [wrapI64_wrapU64 _ fs], by rw [wrapI64_wrapU64 _ fd]⟩
    · -- mixed: float64, needs ≤ 2^53
      have h53 : ¬ (53 ≤ addBits x y (max x.nfrac y.nfrac)) := by
        rcases hmix with h | h
        · rw [hsx, hsy] at h; simp at h
        · exact h
      have hb52 := aligned_bounds x y hx hy a b ha hb 52 (by omega)
      have f53 : ∀ z : ℤ, -(2:ℤ) ^ 52 ≤ z → z ≤ 2 ^ 52 → FitsF53 z := by
        intro z h1 h2; unfold FitsF53; constructor <;> [linarith [show (2:ℤ)^52 ≤ 2^53 by norm_num]; linarith [show (2:ℤ)^52 ≤ 2^53 by norm_num]]
      exact ⟨by rw [if_pos (f53 _ hb52.1 hb52.2.1)], by rw [if_pos (f53 _ hb52.2.2.1 hb52.2.2.2.1)]⟩
    · have h53 : ¬ (53 ≤ addBits x y (max x.nfrac y.nfrac)) := by
        rcases hmix with h | h
        · rw [hsx, hsy] at h; simp at h
        · exact h
      have hb52 := aligned_bounds x y hx hy a b ha hb 52 (by omega)
      have f53 : ∀ z : ℤ, -(2:ℤ) ^ 52 ≤ z → z ≤ 2 ^ 52 → FitsF53 z := by
        intro z h1 h2; unfold FitsF53; constructor <;> [linarith [show (2:ℤ)^52 ≤ 2^53 by norm_num]; linarith [show (2:ℤ)^52 ≤ 2^53 by norm_num]]
      exact ⟨by rw [if_pos (f53 _ hb52.1 hb52.2.1)], by rw [if_pos (f53 _ hb52.2.2.1 hb52.2.2.2.1)]⟩
    · exact ⟨by rw [wrapI64_of_fits _ fs], by rw [wrapI64_of_fits _ fd]⟩

/-- the Python-style remainder of two integers (sign of the divisor), as an integer. -/
def pyMod (A B : ℤ) : ℤ := A - B * ⌊(A : ℚ) / (B : ℚ)⌋

theorem pyMod_bounds (A B : ℤ) (hB : B ≠ 0) : (0 < B → 0 ≤ pyMod A B ∧ pyMod A B < B) ∧ (B < 0 → B < pyMod A B ∧ pyMod A B ≤ 0) := by
  have hq : (B : ℚ) ≠ 0 := by exact_mod_cast hB
  have h1 := Int.floor_le ((A : ℚ) / B)
  have h2 := Int.lt_floor_add_one ((A : ℚ) / B)
  have e : (A : ℚ) = (A : ℚ) / B * B := by field_simp
  have cast : ((pyMod A B : ℤ) : ℚ) = (A : ℚ) - B * (⌊(A : ℚ) / (B : ℚ)⌋ : ℤ) := by unfold pyMod; push_cast; ring
  constructor
  · intro hp
    have hpq : (0 : ℚ) < B := by exact_mod_cast hp
    have l : (0 : ℚ) ≤ (pyMod A B : ℤ) := by rw [cast]; nlinarith
    have u : ((pyMod A B : ℤ) : ℚ) < B := by rw [cast]; nlinarith
    exact ⟨by exact_mod_cast l, by exact_mod_cast u⟩
  · intro hn
    have hnq : (B : ℚ) < 0 := by exact_mod_cast hn
    have l : (B : ℚ) < (pyMod A B : ℤ) := by rw [cast]; nlinarith
    have u : ((pyMod A B : ℤ) : ℚ) ≤ 0 := by rw [cast]; nlinarith
    exact ⟨by exact_mod_cast l, by exact_mod_cast u⟩

/-- **mod** (`_mod_raw` with the selection rule of add/sub, repair D20): whenever a machine carrier is kept, both aligned
operands and their remainder fit it, so `x % y` is computed exactly; beyond that Python integers are used. -/
theorem mod_path_exact (x y : Fmt) (hx : x.WF) (hy : y.WF) (a b : ℤ) (ha : x.InRange a) (hb : y.InRange b) (hb0 : b ≠ 0) :
    let p := machinePath (addNeedsPyInt x y (max x.nfrac y.nfrac)) x y
    let A := a * 2 ^ kx x y
    let B := b * 2 ^ ky x y
    machineResult p A = some A ∧ machineResult p B = some B ∧ machineResult p (pyMod A B) = some (pyMod A B) := by
  intro p A B
  have hBne : B ≠ 0 := by
    show b * 2 ^ ky x y ≠ 0
    exact mul_ne_zero hb0 (by positivity)
  have hR := pyMod_bounds A B hBne
  -- the remainder lies between 0 and B
  have hRb : ∀ N : ℕ, -(2:ℤ) ^ N ≤ B → B ≤ 2 ^ N → -(2:ℤ) ^ N ≤ pyMod A B ∧ pyMod A B ≤ 2 ^ N := by
    intro N h1 h2
    have pN : (0:ℤ) < 2 ^ N := by positivity
    rcases lt_or_gt_of_ne hBne with hneg | hpos
    · obtain ⟨l, u⟩ := hR.2 hneg; constructor <;> omega
    · obtain ⟨l, u⟩ := hR.1 hpos; constructor <;> omega
  by_cases hpy : (addNeedsPyInt x y (max x.nfrac y.nfrac) || decide (64 ≤ x.nword) || decide (64 ≤ y.nword)) = true
  · have : p = .pyint := by simp only [p, machinePath, hpy, if_true]
    rw [this]; exact ⟨rfl, rfl, rfl⟩
  · have hnp : addNeedsPyInt x y (max x.nfrac y.nfrac) = false := by
      cases h : addNeedsPyInt x y (max x.nfrac y.nfrac) <;> simp_all
    unfold addNeedsPyInt at hnp
    simp only [Bool.or_eq_false_iff, decide_eq_false_iff_not, Bool.and_eq_false_iff, bne_eq_false_iff_eq] at hnp
    obtain ⟨⟨_, h63⟩, hmix⟩ := hnp
    have hb62 := aligned_bounds x y hx hy a b ha hb 62 (by omega)
    have fits : ∀ z : ℤ, -(2:ℤ) ^ 62 ≤ z → z ≤ 2 ^ 62 → FitsI64 z := by
      intro z h1 h2; unfold FitsI64; constructor <;> [linarith [show (2:ℤ)^62 ≤ 2^63 by norm_num]; linarith [show (2:ℤ)^62 < 2^63 by norm_num]]
    have fA := fits A hb62.2.2.2.2.1 hb62.2.2.2.2.2.1
    have fB := fits B hb62.2.2.2.2.2.2.1 hb62.2.2.2.2.2.2.2
    have fR := fits _ (hRb 62 hb62.2.2.2.2.2.2.1 hb62.2.2.2.2.2.2.2).1 (hRb 62 hb62.2.2.2.2.2.2.1 hb62.2.2.2.2.2.2.2).2
    have hp : p = (if x.signed && y.signed then Path.int64 else if !x.signed && !y.signed then Path.uint64 else Path.float64) := by
      simp only [p, machinePath]; rw [if_neg hpy]
    rw [hp]
    cases hsx : x.signed <;> cases hsy : y.signed <;> simp only [Bool.and_self, Bool.and_false, Bool.false_and,
      Bool.not_false, Bool.not_true, Bool.and_true, if_true, if_false, Bool.false_eq_true, machineResult]
    · exact ⟨by rw [wrapI64_wrapU64 _ fA], by rw [wrapI64_wrapU64 _ fB], by rw [wrapI64_wrapU64 _ fR]⟩
    · have h53 : ¬ (53 ≤ addBits x y (max x.nfrac y.nfrac)) := by
        rcases hmix with h | h
        · rw [hsx, hsy] at h; simp at h
        · exact h
      have hb52 := aligned_bounds x y hx hy a b ha hb 52 (by omega)
      have f53 : ∀ z : ℤ, -(2:ℤ) ^ 52 ≤ z → z ≤ 2 ^ 52 → FitsF53 z := by
        intro z h1 h2; unfold FitsF53; constructor <;> [linarith [show (2:ℤ)^52 ≤ 2^53 by norm_num]; linarith [show (2:ℤ)^52 ≤ 2^53 by norm_num]]
      have r := hRb 52 hb52.2.2.2.2.2.2.1 hb52.2.2.2.2.2.2.2
      exact ⟨by rw [if_pos (f53 A hb52.2.2.2.2.1 hb52.2.2.2.2.2.1)], by rw [if_pos (f53 B hb52.2.2.2.2.2.2.1 hb52.2.2.2.2.2.2.2)],
             by rw [if_pos (f53 _ r.1 r.2)]⟩
    · have h53 : ¬ (53 ≤ addBits x y (max x.nfrac y.nfrac)) := by
        rcases hmix with h | h
        · rw [hsx, hsy] at h; simp at h
        · exact h
      have hb52 := aligned_bounds x y hx hy a b ha hb 52 (by omega)
      have f53 : ∀ z : ℤ, -(2:ℤ) ^ 52 ≤ z → z ≤ 2 ^ 52 → FitsF53 z := by
        intro z h1 h2; unfold FitsF53; constructor <;> [linarith [show (2:ℤ)^52 ≤ 2^53 by norm_num]; linarith [show (2:ℤ)^52 ≤ 2^53 by norm_num]]
      have r := hRb 52 hb52.2.2.2.2.2.2.1 hb52.2.2.2.2.2.2.2
      exact ⟨by rw [if_pos (f53 A hb52.2.2.2.2.1 hb52.2.2.2.2.2.1)], by rw [if_pos (f53 B hb52.2.2.2.2.2.2.1 hb52.2.2.2.2.2.2.2)],
             by rw [if_pos (f53 _ r.1 r.2)]⟩
    · exact ⟨by rw [wrapI64_of_fits _ fA], by rw [wrapI64_of_fits _ fB], by rw [wrapI64_of_fits _ fR]⟩

/-- the raw `%` kernel with optimal sizing **is** the Python remainder of the aligned codes. -/
theorem mod_kernel_eq_pyMod (x y : Fmt) (a b : ℤ) :
    rawKernel .mod (max x.nfrac y.nfrac) x y a b = ((pyMod (a * 2 ^ kx x y) (b * 2 ^ ky x y) : ℤ) : ℚ) := by
  have hx : max x.nfrac y.nfrac - x.nfrac = ((kx x y : ℕ) : ℤ) := by unfold kx; omega
  have hy : max x.nfrac y.nfrac - y.nfrac = ((ky x y : ℕ) : ℤ) := by unfold ky; omega
  have ea : scale (a : ℚ) (max x.nfrac y.nfrac - x.nfrac) = ((a * 2 ^ kx x y : ℤ) : ℚ) := by
    rw [scale_eq, hx, zpow_natCast]; push_cast; ring
  have eb : scale (b : ℚ) (max x.nfrac y.nfrac - y.nfrac) = ((b * 2 ^ ky x y : ℤ) : ℚ) := by
    rw [scale_eq, hy, zpow_natCast]; push_cast; ring
  unfold rawKernel fdivR pyMod
  simp only [ea, eb]
  push_cast
  rfl

/-- old rule of `_mod_raw` (Python integers only for `n_frac ≥ 64`): `u30/5 % u40/40` aligns the dividend by 35 bits on
uint64 and wraps (D20's witness). -/
theorem old_mod_rule_wraps :
    machineResult (machinePath (oldAddNeedsPyInt ⟨false, 30, 5⟩ ⟨false, 40, 40⟩ 40) ⟨false, 30, 5⟩ ⟨false, 40, 40⟩)
      (585797695 * 2 ^ 35) ≠ some (585797695 * 2 ^ 35) := by decide +kernel

/-- **mul**: the same for the product (no alignment shift with optimal sizing). -/
theorem mul_path_exact (x y : Fmt) (hx : x.WF) (hy : y.WF) (a b : ℤ) (ha : x.InRange a) (hb : y.InRange b) :
    machineResult (machinePath (mulNeedsPyInt x y (x.nfrac + y.nfrac)) x y) (a * b) = some (a * b) := by
  by_cases hpy : (mulNeedsPyInt x y (x.nfrac + y.nfrac) || decide (64 ≤ x.nword) || decide (64 ≤ y.nword)) = true
  · have : machinePath (mulNeedsPyInt x y (x.nfrac + y.nfrac)) x y = .pyint := by simp only [machinePath, hpy, if_true]
    rw [this]; rfl
  · have hnp : mulNeedsPyInt x y (x.nfrac + y.nfrac) = false := by
      cases h : mulNeedsPyInt x y (x.nfrac + y.nfrac) <;> simp_all
    unfold mulNeedsPyInt at hnp
    simp only [Bool.or_eq_false_iff, decide_eq_false_iff_not, Bool.and_eq_false_iff, bne_eq_false_iff_eq] at hnp
    obtain ⟨⟨_, h63⟩, hmix⟩ := hnp
    have hbits : mulBits x y (x.nfrac + y.nfrac) = (x.nword : ℤ) + y.nword := by unfold mulBits; simp
    rw [hbits] at h63 hmix
    have hm := mul_bound x.signed y.signed x.mag y.mag a b
      ((inRange_iff_mag x hx a).mp ha) ((inRange_iff_mag y hy b).mp hb)
    have hmx := mag_le_nword x
    have hmy := mag_le_nword y
    -- exponent of the product bound
    have hEle : x.mag + y.mag + (if (x.signed && y.signed) = true then 1 else 0) ≤ x.nword + y.nword := by
      unfold mag
      cases hsx : x.signed <;> cases hsy : y.signed <;> simp <;>
        first | omega | (have := hx hsx; have := hy hsy; omega) | (have := hx hsx; omega) | (have := hy hsy; omega)
    set E := x.mag + y.mag + (if (x.signed && y.signed) = true then 1 else 0) with hE
    have hbs : 0 ≤ bsig (x.signed || y.signed) ∧ bsig (x.signed || y.signed) ≤ 1 := by unfold bsig; split <;> omega
    have pE : (0:ℤ) < 2 ^ E := by positivity
    simp only [machinePath]
    rw [if_neg hpy]
    have bound : ∀ N : ℕ, x.nword + y.nword ≤ N → -(2:ℤ) ^ N ≤ a * b ∧ a * b ≤ 2 ^ N := by
      intro N hN
      have hp : (2:ℤ) ^ E ≤ 2 ^ N := pow_mono2 (by omega)
      constructor
      · nlinarith [hm.1]
      · linarith [hm.2]
    cases hsx : x.signed <;> cases hsy : y.signed <;> simp only [Bool.and_self, Bool.and_false, Bool.false_and,
      Bool.not_false, Bool.not_true, Bool.and_true, if_true, if_false, Bool.false_eq_true, machineResult]
    · have := bound 62 (by omega)
      have f : FitsI64 (a * b) := by unfold FitsI64; constructor <;> [linarith [show (2:ℤ)^62 ≤ 2^63 by norm_num]; linarith [show (2:ℤ)^62 < 2^63 by norm_num]]
      rw [wrapI64_wrapU64 _ f]
    · have h53 : ¬ (53 ≤ (x.nword : ℤ) + y.nword) := by
        rcases hmix with h | h
        · rw [hsx, hsy] at h; simp at h
        · exact h
      have := bound 52 (by omega)
      have f : FitsF53 (a * b) := by unfold FitsF53; constructor <;> linarith [show (2:ℤ)^52 ≤ 2^53 by norm_num]
      rw [if_pos f]
    · have h53 : ¬ (53 ≤ (x.nword : ℤ) + y.nword) := by
        rcases hmix with h | h
        · rw [hsx, hsy] at h; simp at h
        · exact h
      have := bound 52 (by omega)
      have f : FitsF53 (a * b) := by unfold FitsF53; constructor <;> linarith [show (2:ℤ)^52 ≤ 2^53 by norm_num]
      rw [if_pos f]
    · have := bound 62 (by omega)
      have f : FitsI64 (a * b) := by unfold FitsI64; constructor <;> [linarith [show (2:ℤ)^62 ≤ 2^63 by norm_num]; linarith [show (2:ℤ)^62 < 2^63 by norm_num]]
      rw [wrapI64_of_fits _ f]

/-- **storing a Python integer of any size** (`n_frac ≥ 0`) follows C01 exactly on the carrier the code selects. -/
theorem store_bigint_exact (f : Fmt) (hf : 0 ≤ f.nfrac) (r : Rounding) (o : Overflow) (v : ℤ) :
    machineStoreInt f o v = quantize f r o (v : ℚ) := by
  have hq : quantize f r o (v : ℚ) = ovf o f (v * 2 ^ f.nfrac.toNat) := by
    have := C01.storeInt_eq f r o v
    unfold storeInt storeIntShift at this
    rw [if_pos hf] at this
    exact this.symm
  rw [hq]
  unfold machineStoreInt machineScaled
  split
  · rfl
  · rename_i hnp
    -- int64 path: both the integer and its scaled value fit
    have hnp' : storeNeedsPyInt f v = false := by simpa using hnp
    unfold storeNeedsPyInt at hnp'
    simp only [Bool.or_eq_false_iff, Bool.not_eq_false', decide_eq_true_eq, Bool.and_eq_false_iff,
      decide_eq_false_iff_not] at hnp'
    obtain ⟨⟨⟨hv, _⟩, hsc⟩, _⟩ := hnp'
    have : FitsI64 (v * 2 ^ f.nfrac.toNat) := by
      rcases hsc with h | h
      · have : f.nfrac.toNat = 0 := by omega
        rw [this]; simpa using hv
      · exact h
    rw [wrapI64_of_fits _ this]

/-! ### the defect of the pinned tree, exhibited on the old selection rules -/

/-- old rule: two sub-64-bit signed operands whose aligned sum needs 65 bits stay on int64 and wrap. -/
theorem old_add_rule_wraps :
    let x : Fmt := ⟨true, 60, 28⟩; let y : Fmt := ⟨true, 53, 11⟩
    machinePath (oldAddNeedsPyInt x y 28) x y = .int64 ∧
    machineResult .int64 (sumCode x y 269628599017038369 (-4503599627370495)) ≠
      some (sumCode x y 269628599017038369 (-4503599627370495)) := by
  decide +kernel

/-- old rule: `2^62` stored with `n_frac = 4` was scaled in int64 and wrapped to 0. -/
theorem old_store_rule_wraps :
    oldStoreNeedsPyInt ⟨true, 8, 4⟩ (2 ^ 62) = false ∧ wrapI64 (2 ^ 62 * 2 ^ 4) = 0 ∧
    storeNeedsPyInt ⟨true, 8, 4⟩ (2 ^ 62) = true := by
  decide +kernel

/-! non-vacuity: a machine path that is actually kept -/
example : machinePath (addNeedsPyInt ⟨true, 30, 10⟩ ⟨true, 20, 4⟩ 10) ⟨true, 30, 10⟩ ⟨true, 20, 4⟩ = .int64 := by decide +kernel
example : machinePath (addNeedsPyInt ⟨true, 60, 10⟩ ⟨true, 20, 4⟩ 10) ⟨true, 60, 10⟩ ⟨true, 20, 4⟩ = .int64 := by decide +kernel
example : machinePath (addNeedsPyInt ⟨true, 62, 10⟩ ⟨true, 20, 4⟩ 10) ⟨true, 62, 10⟩ ⟨true, 20, 4⟩ = .pyint := by decide +kernel

end Fxp.C19
