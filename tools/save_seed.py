#!/usr/bin/env python3
"""tools/save_seed.py <worktree> <name> <demo> <property> <caught_by csv> <history> <needs...> — keep a confirmed seeded change."""
import sys, os, json, shutil, subprocess
wt, name, demo, prop, caught, history = sys.argv[1:7]
needs = " ".join(sys.argv[7:])
d = os.path.join(os.path.dirname(os.path.abspath(__file__)), "..", "seeded", name)
os.makedirs(d, exist_ok=True)
diff = subprocess.run(["git", "-C", wt, "diff", "--", "fxpmath"], capture_output=True, text=True, check=True).stdout
assert diff.strip(), "empty diff"
open(os.path.join(d, "patch.diff"), "w").write(diff)
shutil.copy(os.path.join(wt, demo), os.path.join(d, demo))
base = subprocess.run(["git", "-C", wt, "rev-parse", "--short", "HEAD"], capture_output=True, text=True).stdout.strip()
meta = {"property": prop, "needs_to_manifest": needs,
        "confirmed": f"tools/eval_seed.sh {wt} {demo}: 86 baseline tests pass with the change; demo exits 1 with the change and 0 without it",
        "repo_commit_base": base, "caught_by_quick": [c for c in caught.split(",") if c],
        "ran": "FXP_REPO=<scratch worktree> ./check <ID> quick for the listed checks (and final confirmation with git -C /repo apply, see DESIGN §13)",
        "history": history}
json.dump(meta, open(os.path.join(d, "meta.json"), "w"), indent=1)
print("saved", d)
