import FxpVerif.Lemmas.Arith
import FxpVerif.Props.C01
/-! # C08 — arithmetic into an imposed format equals the exact result quantized into it (once) -/
namespace Fxp.C08
open Fxp

theorem two_ne : (2:ℚ) ≠ 0 := by norm_num

/-- the integer-code kernels deliver the exact rational result scaled to the target fraction length,
for **any** target `F` — negative alignment shifts included (no intermediate rounding). -/
theorem rawKernel_add_exact (F : ℤ) (x y : Fmt) (a b : ℤ) :
    rawKernel .add F x y a b = scale (exactOp .add (valueOf x a) (valueOf y b)) F := by
  unfold rawKernel exactOp valueOf
  simp only [scale_eq]
  rw [add_mul, mul_assoc, mul_assoc, ← zpow_add₀ two_ne, ← zpow_add₀ two_ne]
  congr 2 <;> ring_nf

theorem rawKernel_sub_exact (F : ℤ) (x y : Fmt) (a b : ℤ) :
    rawKernel .sub F x y a b = scale (exactOp .sub (valueOf x a) (valueOf y b)) F := by
  unfold rawKernel exactOp valueOf
  simp only [scale_eq]
  rw [sub_mul, mul_assoc, mul_assoc, ← zpow_add₀ two_ne, ← zpow_add₀ two_ne]
  congr 2 <;> ring_nf

theorem rawKernel_mul_exact (F : ℤ) (x y : Fmt) (a b : ℤ) :
    rawKernel .mul F x y a b = scale (exactOp .mul (valueOf x a) (valueOf y b)) F := by
  unfold rawKernel exactOp valueOf
  simp only [scale_eq]
  push_cast
  have : (2:ℚ) ^ (F - x.nfrac - y.nfrac) = (2:ℚ) ^ (-x.nfrac) * (2:ℚ) ^ (-y.nfrac) * (2:ℚ) ^ F := by
    rw [← zpow_add₀ two_ne, ← zpow_add₀ two_ne]; congr 1; ring
  rw [this]; ring

theorem rawKernel_exact (op : BinOp) (hop : op = .add ∨ op = .sub ∨ op = .mul) (F : ℤ) (x y : Fmt) (a b : ℤ) :
    rawKernel op F x y a b = scale (exactOp op (valueOf x a) (valueOf y b)) F := by
  rcases hop with h | h | h <;> subst h
  · exact rawKernel_add_exact F x y a b
  · exact rawKernel_sub_exact F x y a b
  · exact rawKernel_mul_exact F x y a b

/-- **C08**: for every target format `t` (whatever policy, `out` or `out_like` produced it) and governing
configuration `(r, o)`, the stored result of `+ - *` is the C01 quantization of the exact result. -/
theorem imposed_single_rounding (op : BinOp) (hop : op = .add ∨ op = .sub ∨ op = .mul)
    (t : Fmt) (r : Rounding) (o : Overflow) (x y : Fmt) (a b : ℤ) :
    arithRaw op t r o x y a b = quantize t r o (exactOp op (valueOf x a) (valueOf y b)) := by
  unfold arithRaw storeRawFloat quantize
  rw [rawKernel_exact op hop]

/-- consequently it satisfies the relational C01 statement for the exact result. -/
theorem imposed_spec (op : BinOp) (hop : op = .add ∨ op = .sub ∨ op = .mul)
    (t : Fmt) (ht : 0 < t.nword) (r : Rounding) (o : Overflow) (x y : Fmt) (a b : ℤ) :
    C01.Spec t r o (exactOp op (valueOf x a) (valueOf y b)) (arithRaw op t r o x y a b) := by
  rw [imposed_single_rounding op hop]; exact C01.quantize_spec t ht r o _

/-- the integer-code (`raw`) and value (`repr`) methods give identical results. -/
theorem raw_eq_repr (op : BinOp) (hop : op = .add ∨ op = .sub ∨ op = .mul)
    (t : Fmt) (r : Rounding) (o : Overflow) (x y : Fmt) (a b : ℤ) :
    arithRaw op t r o x y a b = arithRepr op t r o x y a b := by
  rw [imposed_single_rounding op hop]; rfl

/-- overflow / underflow flags are those of that one store: raised iff the rounded exact result is
above the maximum / below the minimum code of the target. -/
theorem imposed_flags (op : BinOp) (hop : op = .add ∨ op = .sub ∨ op = .mul)
    (t : Fmt) (r : Rounding) (x y : Fmt) (a b : ℤ) :
    arithFlags t (roundR r (rawKernel op t.nfrac x y a b)) =
      (decide (t.hi < roundR r (scale (exactOp op (valueOf x a) (valueOf y b)) t.nfrac)),
       decide (roundR r (scale (exactOp op (valueOf x a) (valueOf y b)) t.nfrac) < t.lo)) := by
  rw [rawKernel_exact op hop]; rfl

/-- a constant operand is first converted like any stored value (`op_input_size = 'same'`: into the
Fxp operand's format under its configuration); the operation then is an ordinary imposed-format one. -/
theorem const_operand (op : BinOp) (hop : op = .add ∨ op = .sub ∨ op = .mul)
    (t : Fmt) (r : Rounding) (o : Overflow) (x : Fmt) (a : ℤ) (c : ℚ) :
    arithRaw op t r o x x a (quantize x r o c) =
      quantize t r o (exactOp op (valueOf x a) (valueOf x (quantize x r o c))) :=
  imposed_single_rounding op hop t r o x x a _

/-! ### unary operators -/

theorem valueOf_neg (f : Fmt) (c : ℤ) : valueOf f (-c) = -valueOf f c := by
  unfold valueOf; rw [scale_eq, scale_eq]; push_cast; ring

/-- unary minus is exact whenever its result is representable in the operand's format. -/
theorem neg_exact_if_repr (f : Fmt) (c : ℤ) (h : f.InRange (-c)) :
    negM f c = -c ∧ valueOf f (negM f c) = -valueOf f c := by
  have : negM f c = -c := sat_of_inRange f _ h
  exact ⟨this, by rw [this, valueOf_neg]⟩

/-- unary plus is the identity on stored codes. -/
theorem pos_id (f : Fmt) (c : ℤ) (h : f.InRange c) : posM f c = c := sat_of_inRange f _ h

/-- abs is exact whenever representable. -/
theorem abs_exact_if_repr (f : Fmt) (c : ℤ) (h : f.InRange |c|) :
    absM f c = |c| ∧ valueOf f (absM f c) = |valueOf f c| := by
  have e : (if c < 0 then -c else c) = |c| := by
    split
    · rename_i h; rw [abs_of_neg h]
    · rename_i h; rw [abs_of_nonneg (not_lt.mp h)]
  have : absM f c = |c| := by unfold absM; rw [e]; exact sat_of_inRange f _ h
  refine ⟨this, ?_⟩
  rw [this]; unfold valueOf; rw [scale_eq, scale_eq, abs_mul, abs_of_pos (two_zpow_pos _)]
  push_cast; rfl

/-- otherwise (only the most negative code of a signed format) the result is clamped to the maximum. -/
theorem neg_most_negative (f : Fmt) (hs : f.signed = true) (hw : 0 < f.nword) : negM f f.lo = f.hi := by
  unfold negM
  apply sat_above
  unfold Fmt.lo Fmt.hi; simp [hs]

/-! non-vacuity -/
example : arithRaw .add ⟨true, 4, 1⟩ .around .saturate ⟨true, 6, 3⟩ ⟨true, 5, 2⟩ 5 3 = 3 := by decide +kernel
example : rawKernel .add 1 ⟨true, 6, 3⟩ ⟨true, 5, 2⟩ 5 3 = 11/4 := by decide +kernel

end Fxp.C08
