import Mathlib.Data.Int.Bitwise
import Mathlib.Tactic.Ring
import Mathlib.Tactic.Linarith
/-! # Python's `&` and `|` on integers (two's complement, unbounded): masking is `mod`, or-ing `-2^n` is sign extension
`Int.land` / `Int.lor` are Mathlib's bitwise operations on ℤ; these two lemmas replace the identities that the model used to
*assume* (`x & (2^n-1) = x mod 2^n`, `x | -2^n = x - 2^n` for an `n`-bit pattern) by theorems. -/

namespace Fxp.BitsInt
open Int

theorem land_zero' (x : ℤ) : Int.land x 0 = 0 := by
  cases x with
  | ofNat m => show Int.land (m:ℤ) ((0:ℕ):ℤ) = 0; simp [Int.land]
  | negSucc m => show Int.land (Int.negSucc m) ((0:ℕ):ℤ) = 0; simp [Int.land, Nat.ldiff]

theorem two_pow_succ_sub_one (n : ℕ) : (2:ℤ) ^ (n + 1) - 1 = Int.bit true (2 ^ n - 1) := by
  rw [Int.bit_val]; simp; ring

theorem neg_two_pow_succ (n : ℕ) : -(2:ℤ) ^ (n + 1) = Int.bit false (-(2 ^ n)) := by
  rw [Int.bit_val]; simp; ring

theorem bit_emod (b : Bool) (m p : ℤ) (hp : 0 < p) : (2 * m + cond b 1 0) % (2 * p) = 2 * (m % p) + cond b 1 0 := by
  have h1 := Int.emod_add_mul_ediv m p
  have h2 := Int.emod_nonneg m (ne_of_gt hp)
  have h3 := Int.emod_lt_of_pos m hp
  have e : 2 * m + cond b 1 0 = (2 * (m % p) + cond b 1 0) + (2 * p) * (m / p) := by
    have : m = m % p + p * (m / p) := by linarith
    cases b <;> simp <;> linarith
  rw [e, Int.add_mul_emod_self_left]
  apply Int.emod_eq_of_lt
  · cases b <;> simp <;> linarith
  · cases b <;> simp <;> linarith

/-- `x & (2^n - 1) = x mod 2^n` for every integer (Python's `&` on two's-complement integers). -/
theorem land_mask (n : ℕ) : ∀ x : ℤ, Int.land x (2 ^ n - 1) = x % 2 ^ n := by
  induction n with
  | zero => intro x; simp [land_zero']
  | succ n ih =>
    intro x
    rw [two_pow_succ_sub_one]
    conv_lhs => rw [← Int.bit_decomp x]
    rw [Int.land_bit, ih, Int.bit_val]
    conv_rhs => rw [← Int.bit_decomp x, Int.bit_val]
    have hp : (0:ℤ) < 2 ^ n := by positivity
    rw [pow_succ, mul_comm ((2:ℤ) ^ n) 2, Int.div2_val]
    simp only [Bool.and_true]
    rw [bit_emod _ _ _ hp]

/-- `x | -(2^n) = x - 2^n` for `0 ≤ x < 2^n` (sign extension of an `n`-bit pattern). -/
theorem lor_neg_pow (n : ℕ) : ∀ x : ℤ, 0 ≤ x → x < 2 ^ n → Int.lor x (-(2 ^ n)) = x - 2 ^ n := by
  induction n with
  | zero =>
    intro x h0 h1
    have : x = 0 := by simp at h1; omega
    subst this
    show Int.lor ((0:ℕ):ℤ) (-(2 ^ 0)) = 0 - 2 ^ 0
    have : (-(2:ℤ) ^ 0) = Int.negSucc 0 := by simp
    rw [this]; simp [Int.lor, Nat.ldiff]
  | succ n ih =>
    intro x h0 h1
    rw [neg_two_pow_succ]
    conv_lhs => rw [← Int.bit_decomp x]
    rw [Int.lor_bit, Int.div2_val]
    have hx := Int.bit_decomp x
    rw [Int.bit_val, Int.div2_val] at hx
    have hb : (0:ℤ) ≤ cond (Int.bodd x) 1 0 ∧ cond (Int.bodd x) 1 0 ≤ (1:ℤ) := by cases Int.bodd x <;> simp
    have hp : (2:ℤ) ^ (n + 1) = 2 * 2 ^ n := by ring
    rw [ih (x / 2) (by omega) (by omega), Int.bit_val]
    simp only [Bool.or_false]
    rw [hp]; linarith
end Fxp.BitsInt
