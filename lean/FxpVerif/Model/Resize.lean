import FxpVerif.Model.Dtype
/-!
# Size resolution of `Fxp.resize` / `Fxp._init_size`

`resize(signed, n_word, n_frac, n_int, dtype=…)` rewrites the four size attributes of an object. The statements are
modelled in source order (objects.py `resize`): the explicit `signed` is applied first, a `dtype` string excludes every
other size argument and is parsed by `_parseformatstr`, `n_int` resolves the missing one of `n_word`/`n_frac` **with the
signedness the object has at that moment**, then sign, word and fraction are stored and `n_int` is recomputed from them.
-/
namespace Fxp

/-- the size attributes `resize` rewrites. -/
structure Meta where
  signed : Bool
  nword : Int
  nfrac : Int
  nint : Int
deriving Repr, DecidableEq

structure ResizeArgs where
  signed : Option Bool := none
  nword : Option Int := none
  nfrac : Option Int := none
  nint : Option Int := none
  dtype : Option (List Char) := none
deriving Repr

def signBit (b : Bool) : Int := if b then 1 else 0

/-- "n_int defined": the missing one of `n_word`, `n_frac` from `n_int`, with the current signedness `cur`. -/
def resolveNInt (cur : Bool) (w f i : Option Int) : Option Int × Option Int :=
  match w, f, i with
  | none, some f, some i => (some (i + f + signBit cur), some f)
  | some w, none, some i => (some w, some (w - i - signBit cur))
  | w, f, _ => (w, f)

/-- store sign, word, fraction (each only when given) and recompute `n_int`. -/
def storeSizes (old : Meta) (cur : Bool) (sg : Option Bool) (w f : Option Int) : Meta :=
  let s' := sg.getD cur
  let w' := w.getD old.nword
  let f' := f.getD old.nfrac
  { signed := s', nword := w', nfrac := f', nint := w' - f' - signBit s' }

/-- `resize` on the size attributes; `none` = `ValueError` (dtype together with another size, unparsable dtype). -/
def resizeMeta (old : Meta) (a : ResizeArgs) : Option Meta :=
  let cur := a.signed.getD old.signed            -- "sign by default": an explicit `signed` is applied at once
  match a.dtype with
  | some str =>
    if a.signed.isSome || a.nword.isSome || a.nfrac.isSome || a.nint.isSome then none else
    match parseFormatStr str with
    | none => none
    | some (sg, w, f, _) =>
      -- `self.signed` is still the old one here; the parsed sign is stored below
      let (w', f') := resolveNInt cur (some w) (some f) none
      some (storeSizes old cur (some sg) w' f')
  | none =>
    let (w', f') := resolveNInt cur a.nword a.nfrac a.nint
    some (storeSizes old cur a.signed w' f')

/-- the `Meta` of a format. -/
def Fmt.meta (f : Fmt) : Meta := ⟨f.signed, f.nword, f.nfrac, f.nint⟩

end Fxp
