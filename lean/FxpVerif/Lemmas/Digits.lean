import FxpVerif.Model.Digits
import Mathlib.Tactic.Ring
import Mathlib.Tactic.Linarith
/-! Lemmas on digit lists and digit characters. -/
namespace Fxp

theorem charDigit_digitChar : ∀ d, d < 36 → charDigit (digitChar d) = some d := by decide +kernel

theorem isDecDigit_digitChar : ∀ d, d < 10 → isDecDigit (digitChar d) = true := by decide +kernel

theorem parseDigits_append (b : Nat) (xs : List Nat) (d : Nat) :
    parseDigits b (xs ++ [d]) = parseDigits b xs * b + d := by
  simp [parseDigits, List.foldl_append]

theorem length_renderFixed (b w k : Nat) : (renderFixed b w k).length = w := by
  induction w generalizing k with
  | zero => simp [renderFixed]
  | succ w ih => simp [renderFixed, ih]

theorem renderFixed_lt (b : Nat) (hb : 0 < b) (w k : Nat) : ∀ d ∈ renderFixed b w k, d < b := by
  induction w generalizing k with
  | zero => simp [renderFixed]
  | succ w ih =>
    intro d hd
    simp only [renderFixed, List.mem_append, List.mem_singleton] at hd
    rcases hd with hd | hd
    · exact ih _ d hd
    · rw [hd]; exact Nat.mod_lt _ hb

/-- fixed-width rendering followed by parsing gives the low `w` digits. -/
theorem parse_renderFixed (b : Nat) (w k : Nat) :
    parseDigits b (renderFixed b w k) = k % b ^ w := by
  induction w generalizing k with
  | zero => simp [renderFixed, parseDigits, Nat.mod_one]
  | succ w ih =>
    simp only [renderFixed, parseDigits_append, ih]
    rw [pow_succ', Nat.mod_mul]
    ring

theorem parse_renderFixed_of_lt (b w k : Nat) (h : k < b ^ w) : parseDigits b (renderFixed b w k) = k := by
  rw [parse_renderFixed, Nat.mod_eq_of_lt h]

theorem natDigitsAux_spec (b : Nat) (hb : 2 ≤ b) (fuel k : Nat) (hf : k < fuel) :
    parseDigits b (natDigitsAux b fuel k) = k ∧ (∀ d ∈ natDigitsAux b fuel k, d < b) ∧
    natDigitsAux b fuel k ≠ [] := by
  induction fuel generalizing k with
  | zero => omega
  | succ fuel ih =>
    unfold natDigitsAux
    split
    · rename_i h
      refine ⟨by simp [parseDigits], ?_, by simp⟩
      intro d hd; simp at hd; omega
    · rename_i h
      have hk : k / b < fuel := by
        have : k / b < k := Nat.div_lt_self (by omega) (by omega)
        omega
      obtain ⟨h1, h2, _⟩ := ih (k / b) hk
      refine ⟨?_, ?_, by simp⟩
      · rw [parseDigits_append, h1]; exact Nat.div_add_mod' k b
      · intro d hd
        simp only [List.mem_append, List.mem_singleton] at hd
        rcases hd with hd | hd
        · exact h2 d hd
        · rw [hd]; exact Nat.mod_lt _ (by omega)

theorem parse_natDigits (b : Nat) (hb : 2 ≤ b) (k : Nat) : parseDigits b (natDigits b k) = k :=
  (natDigitsAux_spec b hb (k + 1) k (by omega)).1

theorem natDigits_lt (b : Nat) (hb : 2 ≤ b) (k : Nat) : ∀ d ∈ natDigits b k, d < b :=
  (natDigitsAux_spec b hb (k + 1) k (by omega)).2.1

theorem natDigits_ne_nil (b : Nat) (hb : 2 ≤ b) (k : Nat) : natDigits b k ≠ [] :=
  (natDigitsAux_spec b hb (k + 1) k (by omega)).2.2

/-- parsing digit characters of digits `< b ≤ 36`. -/
theorem parseChars_map (b : Nat) (hb : b ≤ 36) (ds : List Nat) (h : ∀ d ∈ ds, d < b) (acc : Nat) :
    (ds.map digitChar).foldlM (fun acc c => match charDigit c with
      | some d => if d < b then some (acc * b + d) else none
      | none => none) acc = some (ds.foldl (fun acc d => acc * b + d) acc) := by
  induction ds generalizing acc with
  | nil => rfl
  | cons d ds ih =>
    have hd : d < b := h d (by simp)
    simp only [List.map_cons, List.foldlM_cons, List.foldl_cons]
    rw [charDigit_digitChar d (by omega)]
    simp only [hd, if_true]
    exact ih (fun x hx => h x (by simp [hx])) _

theorem parseChars_digits (b : Nat) (hb : b ≤ 36) (ds : List Nat) (h : ∀ d ∈ ds, d < b) :
    parseChars b (ds.map digitChar) = some (parseDigits b ds) := by
  unfold parseChars parseDigits
  exact parseChars_map b hb ds h 0

/-- `\d+` is greedy: it consumes exactly the rendered digits when the next character is not a digit. -/
theorem spanDec_digits (ds : List Nat) (h : ∀ d ∈ ds, d < 10) (rest : List Char)
    (hr : ∀ c, rest.head? = some c → isDecDigit c = false) :
    spanDec (ds.map digitChar ++ rest) = (ds.map digitChar, rest) := by
  induction ds with
  | nil =>
    cases rest with
    | nil => rfl
    | cons c cs =>
      have := hr c rfl
      simp [spanDec, this]
  | cons d ds ih =>
    have hd := isDecDigit_digitChar d (h d (by simp))
    simp only [List.map_cons, List.cons_append, spanDec, hd, if_true]
    rw [ih (fun x hx => h x (by simp [hx]))]

end Fxp
