import FxpVerif.Spec.C03
import FxpVerif.Lemmas.Round
import FxpVerif.Lemmas.Overflow
import FxpVerif.Lemmas.BitsInt
/-! # C03 — property theorems (every statement is for arbitrary `n_word ≥ 1`; there is no 64 here) -/
namespace Fxp.C03
open Fxp

/-- the model's `wrap` (mask, then sign-extend — `utils.wrap`) satisfies the Spec … -/
theorem wrap_spec (f : Fmt) (hw : 0 < f.nword) (k : ℤ) : Spec f k (wrap f k) :=
  ⟨wrap_inRange f hw k, wrap_congr f k⟩

/-- `utils.wrap` **as written**: mask with `& (2^n - 1)`, then `np.where(x < 2^(n-1), x, x | -2^n)` when signed — on
two's-complement integers of unbounded size (`Int.land` / `Int.lor`). -/
def wrapBits (f : Fmt) (k : ℤ) : ℤ :=
  let m : ℤ := 2 ^ f.nword
  let x := Int.land k (m - 1)
  if f.signed then (if x < 2 ^ (f.nword - 1) then x else Int.lor x (-m)) else x

/-- the bitwise formulation of the code and the arithmetic formulation of the model are the same function (this used to be a
trusted identity; it is a theorem now). -/
theorem wrapBits_eq_wrap (f : Fmt) (k : ℤ) : wrapBits f k = wrap f k := by
  unfold wrapBits wrap
  simp only [BitsInt.land_mask]
  have hp : (0:ℤ) < 2 ^ f.nword := by positivity
  have h0 := Int.emod_nonneg k (ne_of_gt hp)
  have h1 := Int.emod_lt_of_pos k hp
  cases f.signed
  · simp
  · simp only [if_true]
    split
    · rfl
    · exact BitsInt.lor_neg_pow f.nword _ h0 h1


/-- … and the Spec has exactly one solution: "the unique in-range integer congruent to the rounded input". -/
theorem wrap_spec_iff (f : Fmt) (hw : 0 < f.nword) (k c : ℤ) : Spec f k c ↔ c = wrap f k :=
  ⟨fun h => wrap_unique f hw k c h.1 h.2, fun h => h ▸ wrap_spec f hw k⟩

/-- the checker evaluated on the implementation's output is the Spec. -/
theorem chk_iff (f : Fmt) (k c : ℤ) : Chk.c03 f k c = true ↔ Spec f k c := by
  unfold Chk.c03 Spec Fmt.InRange
  rw [Bool.and_eq_true, decide_eq_true_eq, decide_eq_true_eq]

/-- signed: the low `n_word` bits reinterpreted in two's complement = balanced remainder. -/
theorem wrap_signed_bmod (f : Fmt) (hw : 0 < f.nword) (hs : f.signed = true) (k : ℤ) :
    wrap f k = Int.bmod k (2 ^ f.nword) := wrap_eq_bmod f hw hs k

/-- unsigned: plain remainder. -/
theorem wrap_unsigned_emod (f : Fmt) (hs : f.signed = false) (k : ℤ) : wrap f k = k % 2 ^ f.nword := by
  unfold wrap; simp [hs]

/-- both sides of the range: a value above the range by `j·2^n` or below it comes back to the same code. -/
theorem wrap_periodic (f : Fmt) (k t : ℤ) : wrap f (k + t * 2 ^ f.nword) = wrap f k := wrap_add_mul f k t

theorem two_zpow_sub (n : ℕ) (e : ℤ) : (2:ℚ) ^ ((n:ℤ) - e) * (2:ℚ) ^ e = ((2 ^ n : ℤ) : ℚ) := by
  rw [← zpow_add₀ (by norm_num : (2:ℚ) ≠ 0)]
  simp [zpow_natCast]

/-- **shift invariance** of the whole store pipeline under wrap: adding `t·2^(n_word-n_frac)` to the input
does not change the stored code — for floor, ceil and around unconditionally … -/
theorem quantize_wrap_shift (f : Fmt) (hw : 0 < f.nword) (r : Rounding) (v : ℚ) (t : ℤ)
    (hr : r = .floor ∨ r = .ceil ∨ r = .around) :
    quantize f r .wrap (v + t * (2:ℚ) ^ ((f.nword:ℤ) - f.nfrac)) = quantize f r .wrap v := by
  unfold quantize ovf
  rw [scale_eq, scale_eq, add_mul, mul_assoc, two_zpow_sub]
  have hcast : ((t:ℚ) * ((2 ^ f.nword : ℤ) : ℚ)) = ((t * 2 ^ f.nword : ℤ) : ℚ) := by push_cast; ring
  rw [hcast, roundR_add_int r _ _ ?_ ?_]
  · exact wrap_add_mul f _ t
  · intro _
    have : (2:ℤ) ^ f.nword = 2 * 2 ^ (f.nword - 1) := two_pow_pred _ hw
    rw [this, show t * (2 * 2 ^ (f.nword - 1)) = 2 * (t * 2 ^ (f.nword - 1)) by ring]
    exact Int.mul_emod_right 2 _
  · intro h; rcases hr with h' | h' | h' <;> rcases h with h | h <;> simp [h] at h'

/-- … and for trunc/fix whenever the shift does not move the scaled input across zero. -/
theorem quantize_wrap_shift_trunc (f : Fmt) (r : Rounding) (v : ℚ) (t : ℤ) (hr : r = .trunc ∨ r = .fix)
    (hs : v * (2:ℚ) ^ f.nfrac < 0 ↔ v * (2:ℚ) ^ f.nfrac + ((t * 2 ^ f.nword : ℤ) : ℚ) < 0) :
    quantize f r .wrap (v + t * (2:ℚ) ^ ((f.nword:ℤ) - f.nfrac)) = quantize f r .wrap v := by
  unfold quantize ovf
  rw [scale_eq, scale_eq, add_mul, mul_assoc, two_zpow_sub]
  have hcast : ((t:ℚ) * ((2 ^ f.nword : ℤ) : ℚ)) = ((t * 2 ^ f.nword : ℤ) : ℚ) := by push_cast; ring
  rw [hcast, roundR_add_int r _ _ ?_ ?_]
  · exact wrap_add_mul f _ t
  · intro h; rcases hr with h' | h' <;> simp [h'] at h
  · intro _; exact hs

/-- on-grid inputs (the scaled value is an integer) are shift-invariant in every mode. -/
theorem quantize_wrap_shift_grid (f : Fmt) (r : Rounding) (k t : ℤ) :
    quantize f r .wrap (valueOf f k + t * (2:ℚ) ^ ((f.nword:ℤ) - f.nfrac)) = quantize f r .wrap (valueOf f k) := by
  unfold quantize ovf
  rw [scale_eq, add_mul, mul_assoc, two_zpow_sub, ← scale_eq]
  unfold valueOf
  rw [scale_int_cancel]
  have hcast : ((k:ℚ) + (t:ℚ) * ((2 ^ f.nword : ℤ) : ℚ)) = ((k + t * 2 ^ f.nword : ℤ) : ℚ) := by push_cast; ring
  rw [hcast, roundR_int, roundR_int]
  exact wrap_add_mul f k t

/-- the literal "any shift, any mode" reading is false of C01's own arithmetic: trunc of -1/2 is 0 but
trunc of -1/2 + 8 is 7 (3-bit unsigned, n_frac = 0).  The code follows C01 here. -/
theorem shift_trunc_counterexample :
    quantize ⟨false, 3, 0⟩ .trunc .wrap (-1/2 + 1 * (2:ℚ) ^ ((3:ℤ) - 0)) ≠ quantize ⟨false, 3, 0⟩ .trunc .wrap (-1/2) := by
  have : (-1/2 + 1 * (2:ℚ) ^ ((3:ℤ) - 0)) = 15/2 := by norm_num
  rw [this]; decide +kernel

/-- **register behaviour**: storing a sum / difference / product with wrap equals the n_word-bit register
operation on the wrapped operands. -/
theorem wrap_add (f : Fmt) (a b : ℤ) : wrap f (a + b) = wrap f (wrap f a + wrap f b) := wrap_add_hom f a b
theorem wrap_sub (f : Fmt) (a b : ℤ) : wrap f (a - b) = wrap f (wrap f a - wrap f b) := wrap_sub_hom f a b
theorem wrap_mul (f : Fmt) (a b : ℤ) : wrap f (a * b) = wrap f (wrap f a * wrap f b) := wrap_mul_hom f a b

/-- in-range codes are fixed points. -/
theorem wrap_id (f : Fmt) (hw : 0 < f.nword) (k : ℤ) (h : f.InRange k) : wrap f k = k := wrap_of_inRange f hw k h

/-! non-vacuity -/
example : wrap ⟨true, 8, 0⟩ 200 = -56 := by decide +kernel
example : wrap ⟨false, 8, 0⟩ (-1) = 255 := by decide +kernel
example : wrap ⟨true, 128, 0⟩ (2^127) = -2^127 := by decide +kernel
example : Spec ⟨true, 8, 0⟩ 200 (-56) := by unfold Spec Fmt.InRange Fmt.lo Fmt.hi; decide +kernel

end Fxp.C03
