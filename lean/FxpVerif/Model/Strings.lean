import FxpVerif.Model.Core
import FxpVerif.Model.Digits
/-!
# Binary / hex / base-n strings (`objects.py` 1556-1635, `utils.py` 65-340)

Rendering: `bin()` = `np.binary_repr(code, width=n_word)` (two's-complement image) with optional binary
point and prefix; `hex()` = the same pattern in `ceil(n_word/4)` upper-case hex digits after the prefix;
`base_repr(b)` = sign-magnitude numeral.
Parsing: `utils.strbin2int` / `strhex2int` (sign extension to `n_word`, two's-complement reading).
-/
namespace Fxp

/-- the n_word-bit two's-complement image of a code (`uraw`). -/
def pattern (f : Fmt) (c : Int) : Nat := (c % 2 ^ f.nword).toNat

/-- `np.binary_repr(code, width=n_word)` as bit values, MSB first. -/
def binBits (f : Fmt) (c : Int) : List Nat := renderFixed 2 f.nword (pattern f c)

/-- `utils.insert_frac_point` on a digit string of length `len` (no sign, no prefix). -/
def insertFracPoint (ds : List Char) (nfrac : Int) : List Char :=
  if 0 < nfrac ∧ nfrac < (ds.length : Int) then
    ds.take (ds.length - nfrac.toNat) ++ ['.'] ++ ds.drop (ds.length - nfrac.toNat)
  else if nfrac = 0 then ds ++ ['.']
  else if nfrac < 0 then ds ++ List.replicate (-nfrac).toNat '#' ++ ['.']
  else if nfrac = (ds.length : Int) then '.' :: ds
  else '.' :: (List.replicate (nfrac - (ds.length : Int)).toNat '0' ++ ds)

/-- `Fxp.bin(frac_dot, prefix)`. -/
def binStr (f : Fmt) (c : Int) (dot : Bool) (pre : List Char) : List Char :=
  let ds := (binBits f c).map digitChar
  pre ++ (if dot then insertFracPoint ds f.nfrac else ds)

/-- number of hex digits: `int(np.ceil(n_word/4))`. -/
def hexWidth (f : Fmt) : Nat := (f.nword + 3) / 4

/-- `Fxp.hex()`: `prefix + '{:0{w}X}'.format(int(bin, 2), w)`. -/
def hexStr (f : Fmt) (c : Int) (pre : List Char) : List Char :=
  pre ++ (renderFixed 16 (hexWidth f) (pattern f c)).map digitChar

/-- `Fxp.base_repr(b)` = `np.base_repr(code, b)`: sign-magnitude. -/
def baseRepr (b : Nat) (c : Int) : List Char :=
  (if c < 0 then ['-'] else []) ++ (natDigits b c.natAbs).map digitChar

/-! ### parsing -/

/-- `utils.strbin2int` after prefix/blank removal: `bits` is the digit string (chars '0'/'1').
Shorter strings are extended with the first bit (signed) or zeros (unsigned); longer ones are an error;
signed strings are read in two's complement. -/
def strbin2int (signed : Bool) (nword : Nat) (bits : List Nat) : Option Int :=
  if nword < bits.length then none else
  match bits with
  | [] => none
  | b0 :: _ =>
    let ext := List.replicate (nword - bits.length) (if signed then b0 else 0) ++ bits
    if signed then
      if ext.length < 2 then none else
      match ext with
      | [] => none
      | s :: rest =>
        let v : Int := parseDigits 2 rest
        some (if s = 1 then -((2 ^ (nword - 1) : Int) - v) else v)
    else some (parseDigits 2 ext : Nat)

/-- characters of a binary numeral → bits; `none` on anything but '0'/'1'. -/
def bitsOfChars (cs : List Char) : Option (List Nat) :=
  cs.mapM (fun c => if c = '0' then some 0 else if c = '1' then some 1 else none)

def stripPrefix (p : List Char) (cs : List Char) : List Char := if p.isPrefixOf cs then cs.drop p.length else cs

/-- a binary string (optional `0b`, optional binary point) read as an integer code: the point is removed
(`strbin2float` then divides by `2^n_frac`, which the store multiplies back). -/
def parseBinCode (signed : Bool) (nword : Nat) (s : List Char) : Option Int :=
  let body := (stripPrefix ['0', 'b'] s).filter (· ≠ '.')
  (bitsOfChars body).bind (strbin2int signed nword)

/-- `utils.strhex2int`: hex digits → integer → binary string without leading zeros → padded → `strbin2int`. -/
def parseHexCode (signed : Bool) (nword : Nat) (s : List Char) : Option Int :=
  (parseChars 16 (stripPrefix ['0', 'x'] s)).bind fun v =>
    strbin2int signed nword (if v = 0 then List.replicate (max nword 1) 0 else
      let ds := natDigits 2 v
      List.replicate (nword - ds.length) 0 ++ ds)

end Fxp
