import FxpVerif.Spec.C01
import FxpVerif.Lemmas.Round
import FxpVerif.Lemmas.Overflow
/-! # C01 — property theorems -/
namespace Fxp.C01
open Fxp

/-- each rounding mode of the model satisfies its relational contract. -/
theorem roundR_spec (r : Rounding) (x : ℚ) : SpecRound r x (roundR r x) := by
  have h1 := Int.floor_le x
  have h2 := Int.lt_floor_add_one x
  have h3 := Int.le_ceil x
  have h4 := Int.ceil_lt_add_one x
  cases r
  case around => exact roundHalfEven_spec x
  case floor => exact ⟨h1, h2⟩
  case ceil => rw [SpecRound, roundR_ceil]; exact ⟨by linarith, h3⟩
  case trunc =>
    rw [SpecRound, roundR_trunc]
    constructor
    · intro h; rw [if_neg (not_lt.mpr h)]; exact ⟨h1, h2⟩
    · intro h; rw [if_pos h]; exact ⟨by linarith, h3⟩
  case fix =>
    rw [SpecRound, roundR_fix, roundR_trunc]
    constructor
    · intro h; rw [if_neg (not_lt.mpr h)]; exact ⟨h1, h2⟩
    · intro h; rw [if_pos h]; exact ⟨by linarith, h3⟩

/-- … and the contract determines the integer: ROUND *is* the configured rule. -/
theorem roundR_unique (r : Rounding) (x : ℚ) (q : ℤ) (h : SpecRound r x q) : q = roundR r x := by
  cases r
  case around => exact roundHalfEven_unique x q h.1 h.2
  case floor => rw [roundR_floor]; exact (Int.floor_eq_iff.mpr ⟨h.1, h.2⟩).symm
  case ceil => rw [roundR_ceil]; exact (Int.ceil_eq_iff.mpr ⟨h.1, h.2⟩).symm
  case trunc =>
    rw [roundR_trunc]
    by_cases hx : x < 0
    · rw [if_pos hx]; exact (Int.ceil_eq_iff.mpr (h.2 hx)).symm
    · rw [if_neg hx]; exact (Int.floor_eq_iff.mpr (h.1 (not_lt.mp hx))).symm
  case fix =>
    rw [roundR_fix, roundR_trunc]
    by_cases hx : x < 0
    · rw [if_pos hx]; exact (Int.ceil_eq_iff.mpr (h.2 hx)).symm
    · rw [if_neg hx]; exact (Int.floor_eq_iff.mpr (h.1 (not_lt.mp hx))).symm

theorem ovf_spec (o : Overflow) (f : Fmt) (hw : 0 < f.nword) (k : ℤ) : SpecOvf o f k (ovf o f k) := by
  cases o
  · exact ⟨sat_above f k, sat_below f k, sat_of_inRange f k⟩
  · exact ⟨wrap_inRange f hw k, wrap_congr f k⟩

theorem ovf_unique (o : Overflow) (f : Fmt) (hw : 0 < f.nword) (k c : ℤ) (h : SpecOvf o f k c) :
    c = ovf o f k := by
  cases o
  · obtain ⟨h1, h2, h3⟩ := h
    show c = sat f k
    by_cases ha : f.hi < k
    · rw [sat_above f k ha]; exact h1 ha
    · by_cases hb : k < f.lo
      · rw [sat_below f k hb]; exact h2 hb
      · have hr : f.InRange k := ⟨by omega, by omega⟩
        rw [sat_of_inRange f k hr]; exact h3 hr
  · exact wrap_unique f hw k c h.1 h.2

/-- **C01, existence**: the model's stored code is OVERFLOW(ROUND(v·2^n_frac)). -/
theorem quantize_spec (f : Fmt) (hw : 0 < f.nword) (r : Rounding) (o : Overflow) (v : ℚ) :
    Spec f r o v (quantize f r o v) :=
  ⟨roundR r (v * (2:ℚ) ^ f.nfrac), roundR_spec r _, by
    unfold quantize; rw [scale_eq]; exact ovf_spec o f hw _⟩

/-- **C01, uniqueness**: the relational statement determines the code, so "observed = quantize" is
equivalent to the property. -/
theorem spec_iff (f : Fmt) (hw : 0 < f.nword) (r : Rounding) (o : Overflow) (v : ℚ) (c : ℤ) :
    Spec f r o v c ↔ c = quantize f r o v := by
  constructor
  · rintro ⟨k, hk, hc⟩
    have := roundR_unique r _ k hk
    subst this
    unfold quantize; rw [scale_eq]; exact ovf_unique o f hw _ c hc
  · rintro rfl; exact quantize_spec f hw r o v

/-- the value read back is exactly `code · 2^-n_frac`. -/
theorem readback_exact (f : Fmt) (c : ℤ) : SpecRead f c (valueOf f c) := by
  unfold SpecRead valueOf; rw [scale_eq]

/-- the checker run on the implementation's output is equivalent to the Spec. -/
theorem chk_iff (f : Fmt) (hw : 0 < f.nword) (r : Rounding) (o : Overflow) (v : ℚ) (c : ℤ) (x : ℚ) :
    Chk.c01 f r o v c x = true ↔ Spec f r o v c ∧ SpecRead f c x := by
  unfold Chk.c01
  rw [Bool.and_eq_true, decide_eq_true_eq, decide_eq_true_eq, spec_iff f hw]
  constructor
  · rintro ⟨h1, h2⟩; exact ⟨h1, by rw [h2]; exact readback_exact f c⟩
  · rintro ⟨h1, h2⟩; exact ⟨h1, by rw [h2]; exact (readback_exact f c).symm⟩

/-! ### the code paths of `set_val` all compute `quantize` -/

theorem storeFloat_eq (f : Fmt) (r : Rounding) (o : Overflow) (v : ℚ) :
    storeFloat f r o v = quantize f r o v := rfl

/-- integer carriers are *not* rounded by `_round` when `n_frac ≥ 0`; that is harmless because the
scaled value is already an integer. -/
theorem storeInt_eq (f : Fmt) (r : Rounding) (o : Overflow) (k : ℤ) :
    storeInt f r o k = quantize f r o (k:ℚ) := by
  unfold storeInt quantize storeIntShift
  split
  · rename_i h
    have : scale (k:ℚ) f.nfrac = ((k * 2 ^ f.nfrac.toNat : ℤ) : ℚ) := by
      unfold scale; rw [if_pos h]; push_cast; ring
    rw [this, roundR_int]
  · rfl

/-- raw store of an integer is the overflow action alone, i.e. the quantization of the code's own value. -/
theorem storeRawInt_eq (f : Fmt) (r : Rounding) (o : Overflow) (k : ℤ) :
    storeRawInt f o k = quantize f r o (valueOf f k) := by
  unfold storeRawInt quantize valueOf
  rw [scale_int_cancel, roundR_int]

theorem storeComplex_componentwise (f : Fmt) (r : Rounding) (o : Overflow) (z : ℚ × ℚ) :
    storeComplex f r o z = (quantize f r o z.1, quantize f r o z.2) := rfl

theorem storeArray_pointwise (f : Fmt) (r : Rounding) (o : Overflow) (vs : List ℚ) :
    storeArray f r o vs = vs.map (quantize f r o) := rfl

/-! ### slivers: a scaled value that underflows the double range (D40)

With a negative fraction length the scaling `v·2^n_frac` of a subnormal double is smaller than any double.  What the rounding
rules make of such a sliver depends on its sign only — which is why the repair may replace the lost product by *any* tiny number
of the same sign (`Fxp._scale`), and why replacing it by `0` (the pinned behaviour) was wrong for `floor` and `ceil`. -/

theorem floor_of_sliver {x : ℚ} (h0 : 0 < x) (h1 : x < 1) : ⌊x⌋ = 0 := by
  rw [Int.floor_eq_iff]; constructor <;> simp <;> linarith

theorem ceil_of_sliver {x : ℚ} (h0 : 0 < x) (h1 : x < 1) : ⌈x⌉ = 1 := by
  rw [Int.ceil_eq_iff]; constructor <;> simp <;> linarith

theorem floor_of_neg_sliver {x : ℚ} (h0 : x < 0) (h1 : -1 < x) : ⌊x⌋ = -1 := by
  rw [Int.floor_eq_iff]; constructor <;> simp <;> linarith

theorem ceil_of_neg_sliver {x : ℚ} (h0 : x < 0) (h1 : -1 < x) : ⌈x⌉ = 0 := by
  rw [Int.ceil_eq_iff]; constructor <;> simp <;> linarith

/-- what each rule stores for a positive sliver (`0 < x < 1/2`): `ceil` goes up to 1, every other rule to 0. -/
theorem roundR_pos_sliver (r : Rounding) {x : ℚ} (h0 : 0 < x) (h1 : x < 1/2) :
    roundR r x = if r = .ceil then 1 else 0 := by
  have hx1 : x < 1 := by linarith
  have hf := floor_of_sliver h0 hx1
  have hc := ceil_of_sliver h0 hx1
  cases r
  · rw [roundR_trunc, if_neg (by linarith), hf]; simp
  · rw [roundR_fix, roundR_trunc, if_neg (by linarith), hf]; simp
  · rw [roundR_floor, hf]; simp
  · rw [roundR_ceil, hc]; simp
  · show roundHalfEven x = _
    rw [roundHalfEven_of_lt x (by rw [hf]; simpa using h1), hf]; simp

/-- … and for a negative one (`-1/2 < x < 0`): `floor` goes down to −1, every other rule to 0. -/
theorem roundR_neg_sliver (r : Rounding) {x : ℚ} (h0 : x < 0) (h1 : -1/2 < x) :
    roundR r x = if r = .floor then -1 else 0 := by
  have hx1 : -1 < x := by linarith
  have hf := floor_of_neg_sliver h0 hx1
  have hc := ceil_of_neg_sliver h0 hx1
  cases r
  · rw [roundR_trunc, if_pos h0, hc]; simp
  · rw [roundR_fix, roundR_trunc, if_pos h0, hc]; simp
  · rw [roundR_floor, hf]; simp
  · rw [roundR_ceil, hc]; simp
  · show roundHalfEven x = _
    have : 1/2 < x - ((⌊x⌋ : ℤ) : ℚ) := by rw [hf]; push_cast; linarith
    rw [roundHalfEven_of_gt x this, hf]; simp

/-- **the rounded value of a sliver depends on its sign only**: any two slivers of the same sign are stored alike. -/
theorem roundR_sliver_indep (r : Rounding) {x y : ℚ} (hx : 0 < x ∧ x < 1/2 ∨ x < 0 ∧ -1/2 < x)
    (hy : 0 < y ∧ y < 1/2 ∨ y < 0 ∧ -1/2 < y) (hs : 0 < x ↔ 0 < y) : roundR r x = roundR r y := by
  rcases hx with ⟨a, b⟩ | ⟨a, b⟩ <;> rcases hy with ⟨c, d⟩ | ⟨c, d⟩
  · rw [roundR_pos_sliver r a b, roundR_pos_sliver r c d]
  · exact absurd (hs.mp a) (by linarith)
  · exact absurd (hs.mpr c) (by linarith)
  · rw [roundR_neg_sliver r a b, roundR_neg_sliver r c d]

/-- the pinned behaviour (the product underflowed to 0) differs from the Spec exactly for `ceil` of a positive and `floor` of a negative sliver. -/
theorem zero_is_wrong_for_sliver : roundR .ceil (1/1000 : ℚ) ≠ roundR .ceil 0 ∧ roundR .floor (-1/1000 : ℚ) ≠ roundR .floor 0 := by
  have hc : roundR .ceil (0:ℚ) = 0 := by simpa using roundR_int .ceil 0
  have hf : roundR .floor (0:ℚ) = 0 := by simpa using roundR_int .floor 0
  constructor
  · rw [roundR_pos_sliver .ceil (by norm_num) (by norm_num), hc]; decide
  · rw [roundR_neg_sliver .floor (by norm_num) (by norm_num), hf]; decide

/-! ### non-vacuity -/
example : quantize ⟨true, 8, 2⟩ .around .saturate (27/8) = 14 := by decide +kernel
example : quantize ⟨true, 8, 2⟩ .around .saturate (29/8) = 14 := by decide +kernel   -- tie to even
example : quantize ⟨true, 8, -2⟩ .floor .wrap (-1030) = -2 := by decide +kernel      -- negative n_frac, wraps
example : quantize ⟨false, 4, 0⟩ .trunc .saturate (-3) = 0 := by decide +kernel      -- own-side bound
example : Spec ⟨true, 8, 2⟩ .around .saturate (27/8) 14 :=
  (spec_iff _ (by decide) _ _ _ _).mpr (by decide +kernel)

end Fxp.C01
