import FxpVerif.Model.Chk
import Mathlib.Data.Rat.Floor
import Mathlib.Algebra.Order.Ring.Abs
/-! # C05 — rounding contracts: statement (in value terms, LSB = 2^-n_frac) -/
namespace Fxp.C05
open Fxp

/-- value of a code. -/
def val (f : Fmt) (c : ℤ) : ℚ := (c:ℚ) * (2:ℚ) ^ (-f.nfrac)
def lsb (f : Fmt) : ℚ := (2:ℚ) ^ (-f.nfrac)

/-- `v` does not overflow: it lies between the smallest and the largest representable value. -/
def NoOverflow (f : Fmt) (v : ℚ) : Prop := val f f.lo ≤ v ∧ v ≤ val f f.hi

/-- the contract of one rounding mode for a stored code `q` of input `v`. -/
def Contract (f : Fmt) : Rounding → ℚ → ℤ → Prop
  | .floor,  v, q => val f q ≤ v ∧ ∀ c : ℤ, val f c ≤ v → c ≤ q                 -- largest representable ≤ v
  | .ceil,   v, q => v ≤ val f q ∧ ∀ c : ℤ, v ≤ val f c → q ≤ c                 -- smallest representable ≥ v
  | .trunc,  v, q => |val f q| ≤ |v| ∧ |v - val f q| < lsb f ∧ 0 ≤ val f q * v   -- nearest not farther from zero
  | .fix,    v, q => |val f q| ≤ |v| ∧ |v - val f q| < lsb f ∧ 0 ≤ val f q * v
  | .around, v, q => |val f q - v| ≤ lsb f / 2 ∧ (|val f q - v| = lsb f / 2 → q % 2 = 0)

def ErrLtLsb (f : Fmt) (v : ℚ) (q : ℤ) : Prop := |val f q - v| < lsb f

end Fxp.C05
