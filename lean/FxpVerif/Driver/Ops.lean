import FxpVerif.Driver.Proto
/-! One function per protocol op: parse arguments, run the model, print
`<A> <S> <model observables>` where `A` = the observed output agrees with the model on the property's
projection and `S` = the property's checker accepts the observed output.
For functional properties (the Spec is "observed = model function") `A = S`. -/
namespace Fxp.Ops
open Fxp Fxp.Proto

def reply (a s : Bool) (model : List String) : String :=
  s!"{showBool a} {showBool s} " ++ " ".intercalate model

/-- functional op: the observed tokens must equal the model's. -/
def functional (model obs : List String) : String :=
  let ok := decide (model = obs)
  reply ok ok model

def pow2 (e : Int) : Rat := scale 1 e

/-- the quantifier of C01/C03/C05 ("core domain"). -/
def inCoreDomain (f : Fmt) (v : Rat) : Bool :=
  decide (1 ≤ f.nword ∧ f.nword ≤ 52 ∧ -8 ≤ f.nfrac ∧ f.nfrac ≤ f.nword + 8 ∧
          (if v < 0 then -v else v) < pow2 53 ∧
          (let x := scale v f.nfrac; if x < 0 then -x else x) < pow2 62)

/-- `Q1 <fmt> <rounding> <overflow> <carrier> <route> [v...] | [codes] [readbacks]` -/
def opQ1 (args obs : List String) : P String := do
  match args with
  | [s, n, f, r, o, _carrier, _route, vs] =>
    let fmt ← pFmt s n f
    let r ← pRounding r
    let o ← pOverflow o
    let vs ← pList pRat vs
    let floatSat := o == .saturate && decide (0 ≤ fmt.nfrac) && decide (1 ≤ fmt.nword ∧ fmt.nword ≤ 52 ∧ fmt.nfrac ≤ fmt.nword + 8)
    if !(vs.all (fun v => inCoreDomain fmt v || floatSat)) then return "SKIP"
    let cs := vs.map (quantize fmt r o)
    pure (functional [showList toString cs, showList showRat (cs.map (valueOf fmt))] obs)
  | _ => throw "Q1: arity"

/-- `QC <fmt> <rounding> <overflow> <kind> <route> [re...] [im...] | [re codes] [im codes] [re vals] [im vals]` -/
def opQC (args obs : List String) : P String := do
  match args with
  | [s, n, f, r, o, _kind, _route, res, ims] =>
    let fmt ← pFmt s n f
    let r ← pRounding r
    let o ← pOverflow o
    let res ← pList pRat res
    let ims ← pList pRat ims
    if !((res ++ ims).all (inCoreDomain fmt)) then return "SKIP"
    let cr := res.map (quantize fmt r o)
    let ci := ims.map (quantize fmt r o)
    pure (functional [showList toString cr, showList toString ci,
                      showList showRat (cr.map (valueOf fmt)), showList showRat (ci.map (valueOf fmt))] obs)
  | _ => throw "QC: arity"

def zipAll {α β} (p : α → β → Bool) : List α → List β → Bool
  | [], [] => true
  | a :: as, b :: bs => p a b && zipAll p as bs
  | _, _ => false

def flagsTok (fl : List Flags) : List String :=
  [showBool (fl.any (·.ov)), showBool (fl.any (·.un)), showBool (fl.any (·.inacc))]

/-- `W3 <fmt> <rounding> <route> [ints] | [codes]` — wrap of Python integers of any size, any word length.
Relational checker: in range and congruent to the rounded scaled input. -/
def opW3 (args obs : List String) : P String := do
  match args with
  | [s, n, f, r, _route, vs] =>
    let fmt ← pFmt s n f
    let r ← pRounding r
    let vs ← pList pInt vs
    let ks := vs.map (fun (v : Int) => roundR r (scale (v:Rat) fmt.nfrac))
    let model := ks.map (wrap fmt)
    match obs with
    | [cs] =>
      match pList pInt cs with
      | .ok cs => pure (reply (decide (cs = model)) (zipAll (fun k c => Chk.c03 fmt k c) ks cs) [showList toString model])
      | .error _ => pure (reply false false [showList toString model])
    | _ => pure (reply false false [showList toString model])
  | _ => throw "W3: arity"

/-- `WS <fmt> <rounding> <v> <t> | code(v) code(v + t*2^(n_word-n_frac))` — shift invariance, judged on the
implementation alone (the two observed codes must be equal). -/
def opWS (args obs : List String) : P String := do
  match args with
  | [s, n, f, r, v, t] =>
    let fmt ← pFmt s n f
    let r ← pRounding r
    let v ← pRat v
    let t ← pInt t
    let v2 := v + (t:Rat) * scale 1 ((fmt.nword:Int) - fmt.nfrac)
    let c1 := quantize fmt r .wrap v
    let c2 := quantize fmt r .wrap v2
    let model := [toString c1, toString c2]
    match obs with
    | [a, b] => pure (reply (decide (model = obs)) (a == b && a.toInt?.isSome) model)
    | _ => pure (reply false false model)
  | _ => throw "WS: arity"

/-- `WR <fmt> <op> <a> <b> | code` — storing `a op b` (codes of two operands of the same format, n_frac = 0)
into the same format with wrap: an n_word-bit register. -/
def opWR (args obs : List String) : P String := do
  match args with
  | [s, n, f, op, a, b] =>
    let fmt ← pFmt s n f
    let a ← pInt a
    let b ← pInt b
    let exact ← match op with
      | "add" => pure (a + b)
      | "sub" => pure (a - b)
      | "mul" => pure (a * b)
      | _ => throw "WR: op"
    let model := wrap fmt exact
    match obs with
    | [c] =>
      match c.toInt? with
      | some c => pure (reply (decide (c = model)) (Chk.c03 fmt exact c) [toString model])
      | none => pure (reply false false [toString model])
    | _ => pure (reply false false [toString model])
  | _ => throw "WR: arity"

/-- `R5 <fmt> <rounding> <overflow> <carrier> <route> [v...] | [codes]` — C05 directional contracts judged
relationally on the observed codes (no reference quantizer in the checker). -/
def opR5 (args obs : List String) : P String := do
  match args with
  | [s, n, f, r, o, _carrier, _route, vs] =>
    let fmt ← pFmt s n f
    let r ← pRounding r
    let o ← pOverflow o
    let vs ← pList pRat vs
    if !(vs.all (inCoreDomain fmt)) then return "SKIP"
    let model := vs.map (quantize fmt r o)
    match obs with
    | [cs] =>
      match pList pInt cs with
      | .ok cs => pure (reply (decide (cs = model)) (zipAll (fun v c => Chk.c05 fmt r v c) vs cs) [showList toString model])
      | .error _ => pure (reply false false [showList toString model])
    | _ => pure (reply false false [showList toString model])
  | _ => throw "R5: arity"

/-- `I5 <fmt> <rounding> <overflow> <how> [codes] | [codes'] ov un inacc` — idempotence: storing the value of
every code gives the same code and no flag. -/
def opI5 (args obs : List String) : P String := do
  match args with
  | [s, n, f, r, o, _how, cs] =>
    let fmt ← pFmt s n f
    let r ← pRounding r
    let o ← pOverflow o
    let cs ← pList pInt cs
    if !(cs.all (fun c => decide (fmt.lo ≤ c ∧ c ≤ fmt.hi))) then return "SKIP"
    let vs := cs.map (valueOf fmt)
    let model := vs.map (quantize fmt r o)
    let fl := vs.map (storeFlags fmt r o)
    -- Spec: observed codes are the input codes, and no flag is raised
    let want := [showList toString cs, "0", "0", "0"]
    let m := showList toString model :: flagsTok fl
    pure (reply (decide (m = obs)) (decide (want = obs)) m)
  | _ => throw "I5: arity"

/-- `M5 <fmt> <rounding> <carrier> [v sorted...] | [codes]` — monotonicity under saturate. -/
def opM5 (args obs : List String) : P String := do
  match args with
  | [s, n, f, r, _carrier, vs] =>
    let fmt ← pFmt s n f
    let r ← pRounding r
    let vs ← pList pRat vs
    if !(vs.all (inCoreDomain fmt)) then return "SKIP"
    let model := vs.map (quantize fmt r .saturate)
    match obs with
    | [cs] =>
      match pList pInt cs with
      | .ok cs => pure (reply (decide (cs = model)) (Chk.sortedInt cs && cs.length == vs.length) [showList toString model])
      | .error _ => pure (reply false false [showList toString model])
    | _ => pure (reply false false [showList toString model])
  | _ => throw "M5: arity"

def dispatch (op : String) (args obs : List String) : P String :=
  match op with
  | "Q1" => opQ1 args obs
  | "QC" => opQC args obs
  | "W3" => opW3 args obs
  | "WS" => opWS args obs
  | "WR" => opWR args obs
  | "R5" => opR5 args obs
  | "I5" => opI5 args obs
  | "M5" => opM5 args obs
  | _ => throw s!"unknown op {op}"

end Fxp.Ops
