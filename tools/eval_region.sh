#!/bin/bash
# tools/eval_region.sh <worktree> <demo> — confirm a seeded change and run ALL 20 quick checks against it (FXP_REPO); prints the checks that fire.
wt=$1; demo=$2
cd "$(dirname "$0")/.."
b=$(tools/baseline.py $wt | tail -1)
w=$(cd $wt && PYTHONPATH=$wt /venv/bin/python $demo >/dev/null 2>&1; echo $?)
wo=$(cd $wt && git stash -q && PYTHONPATH=$wt /venv/bin/python $demo >/dev/null 2>&1; echo $?; git stash pop -q)
fired=$(printf "%s\n" C01 C02 C03 C04 C05 C06 C07 C08 C09 C10 C11 C12 C13 C14 C15 C16 C17 C18 C19 C20 | xargs -P 8 -I{} bash -c "FXP_REPO=$wt VERIF_SKIP_LEANCHECKER=1 ./check {} quick >/dev/null 2>&1; echo {}:\$?" | grep -v ":0" | sort | tr '\n' ' ')
echo "$(basename $wt) [$b] demo with=$w without=$wo  FIRED: $fired"
