"""C03 — wrap overflow is exact two's-complement modular arithmetic (any word length)."""
from fractions import Fraction
import numpy as np
from ..env import Fxp, frac, parse_list, tok_list, codes_of, lims, ROUNDS, exc_token, tok_frac, is_exact_float, to_float
from .. import carriers as C
from .. import gen as G
from . import base
from ..arith import hist_of
from .c01 import exec_Q1, _line as q1_line, _pick_carrier

TRUSTED_BASE = base.TRUSTED_BASE + ['`x & (2^n-1)` on a two\'s-complement integer is modelled as `x % 2^n`, `x | -2^n` (for 2^(n-1) <= x < 2^n) as `x - 2^n`']
ASSUMPTIONS = base.ASSUMPTIONS + [
    'reading: the "shift by a multiple of 2^(n_word-n_frac)" consequence is demanded for floor/ceil/around always and for trunc/fix when the scaled '
    'input is an integer or the shift does not change its sign (otherwise C01 itself dictates a different code; counter-example proved in Lean)']
RULE = ('Q1 lines with overflow=wrap: every quarter-LSB input over 3x range of every format n_word<=4 (quick)/<=6 (thorough), all roundings; random core-domain formats to 52 bits; '
        'W3: Python integers (+-2^k+-1, multiples of the modulus +- small, random up to 4x word) into n_word in 1..52 and 64..256; WS: shift invariance judged on the implementation alone; '
        'WR: add/sub/mul of two codes stored into the same n_frac=0 format with wrap (n_word<=52 and >=64); WQ: add/sub/mul of operands of any two formats (2..52 bits, 0<=n_frac<=n_word) landing in a wrap register with a fraction length of its own, in particular fewer fraction bits than the exact result has (out=, np.<op>(out=), config.op_out, or op_sizing=same), the exact result inside the core domain, all five roundings. non-trivial = the rounded input lies outside the range (wrap acted)')
TECHNIQUE = 'Lean 4 theorems (wrap in range + congruent + unique, = Int.bmod, shift invariance, add/sub/mul homomorphism, for every n_word) + differential correspondence incl. n_word 64..256'
LEVEL_TEXT = ('Machine-checked for every word length n>=1 (no 64 in any statement): the model wrap (mask then sign-extend, as utils.wrap) is in range, congruent mod 2^n and the unique such integer, equals the balanced '
              'remainder when signed, is invariant under input shifts by multiples of 2^(n_word-n_frac) (floor/ceil/around; trunc/fix under the stated side condition, with a proved counter-example otherwise) and is a ring homomorphism image '
              '(register behaviour). Tied to /repo by exhaustive small formats, core-domain random cases, and Python-int inputs of arbitrary size into words up to 256 bits, judged by the verified relational checker.')
LEVEL_NOTE = 'Trusted: Lean kernel + standard axioms; model-vs-code agreement only on generated inputs; the & and | of Python integers are Int.land / Int.lor of Mathlib (twos complement of unbounded width); that utils.wrap as written (mask, then or-ing -2^n) equals the arithmetic wrap of the model is the theorem wrapBits_eq_wrap, and the text of utils.wrap is re-translated on every run (source tie wrap_elem).'


def exec_W3(t):
    s, n, f, r, route, vt = t
    signed, n, f = s == 's', int(n), int(f)
    vals = [int(x) for x in parse_list(vt)]
    try:
        obj, zeros = (vals[0] if len(vals) == 1 else vals), (None if len(vals) == 1 else [0] * len(vals))
        if len(vals) >= 4 and len(vals) % 2 == 0 and route != 'setitem':
            # an even number of integers also travels as a 2-D array: row-major, column-major or a transposed view (content-determined)
            v = hist_of(n, f, len(vals), vals[0] % 97, vals[-1] % 89) % 4
            if v:
                arr = np.array(vals, dtype=object).reshape(2, -1)
                if all(-2 ** 63 <= q < 2 ** 63 for q in vals) and vals[1] % 2:
                    arr = arr.astype(np.int64)
                obj = arr if v == 1 else np.asfortranarray(arr) if v == 2 else np.ascontiguousarray(arr.T).T
                assert obj.shape == (2, len(vals) // 2)
                zeros = np.zeros(obj.shape, dtype=int)
        if route == 'ctor':
            x = Fxp(obj, signed, n, f, rounding=r, overflow='wrap')
        elif route == 'raw':
            raise ValueError
        else:
            x = Fxp(zeros, signed, n, f, rounding=r, overflow='wrap')
            if route == 'call':
                x(obj)
            elif route == 'setval':
                x.set_val(obj)
            else:
                if len(vals) == 1:
                    x[...] = vals[0]
                else:
                    for i, v in enumerate(vals):
                        x[i] = v
    except Exception as e:
        return [exc_token(e)]
    return [tok_list([str(c) for c in codes_of(x)])]


def _store_scalar(v, signed, n, f, r):
    v = Fraction(v)
    obj = int(v) if v.denominator == 1 else to_float(v)
    return codes_of(Fxp(obj, signed, n, f, rounding=r, overflow='wrap'))[0]


def exec_WS(t):
    s, n, f, r, v, k = t
    signed, n, f = s == 's', int(n), int(f)
    v, k = frac(v), int(k)
    v2 = v + k * Fraction(2) ** (n - f)
    try:
        return [str(_store_scalar(v, signed, n, f, r)), str(_store_scalar(v2, signed, n, f, r))]
    except Exception as e:
        return [exc_token(e)]


def exec_WR(t):
    s, n, f, op, a, b = t[:6]
    signed, n, f = s == 's', int(n), int(f)
    a, b = int(a), int(b)
    sr, nr, route = (t[6] == 's', int(t[7]), t[8]) if len(t) > 6 else (signed, n, 'out')
    import fxpmath
    try:
        x = Fxp(a, signed, n, f, raw=True)
        y = Fxp(b, signed, n, f, raw=True)
        out = Fxp(None, sr, nr, f, overflow='wrap')
        if route == 'out':
            z = {'add': fxpmath.add, 'sub': fxpmath.sub, 'mul': fxpmath.mul}[op](x, y, out=out)
        elif route == 'npout':
            z = {'add': np.add, 'sub': np.subtract, 'mul': np.multiply}[op](x, y, out=out)
        else:                     # the register is configured on the first operand: x + y lands in it
            x.config.op_out = out
            z = {'add': lambda: x + y, 'sub': lambda: x - y, 'mul': lambda: x * y}[op]()
        if z is not out:
            return ['NOTOUT']
        return [str(codes_of(z)[0])]
    except Exception as e:
        return [exc_token(e)]


def exec_WQ(t):
    sx, nx, fx, sy, ny, fy, op, a, b, sr, nr, fr, r, route = t
    import fxpmath
    try:
        x = Fxp(int(a), sx == 's', int(nx), int(fx), raw=True)
        y = Fxp(int(b), sy == 's', int(ny), int(fy), raw=True)
        out = Fxp(None, sr == 's', int(nr), int(fr), overflow='wrap', rounding=r)
        if route == 'out':
            z = {'add': fxpmath.add, 'sub': fxpmath.sub, 'mul': fxpmath.mul}[op](x, y, out=out)
        elif route == 'npout':
            z = {'add': np.add, 'sub': np.subtract, 'mul': np.multiply}[op](x, y, out=out)
        elif route == 'config':
            x.config.op_out = out
            z = {'add': lambda: x + y, 'sub': lambda: x - y, 'mul': lambda: x * y}[op]()
        elif route in ('outlike', 'config_like'):
            # the register is a template: the result is a new object like it (D65: this route calculated in floats)
            if route == 'outlike':
                z = {'add': fxpmath.add, 'sub': fxpmath.sub, 'mul': fxpmath.mul}[op](x, y, out_like=out)
            else:
                x.config.op_out_like = out
                z = {'add': lambda: x + y, 'sub': lambda: x - y, 'mul': lambda: x * y}[op]()
            if z is out or (z.signed, z.n_word, z.n_frac, z.config.overflow) != (out.signed, out.n_word, out.n_frac, 'wrap'):
                return ['NOTLIKE']
            out = z
        elif route in ('viaacc', 'viaacc_call', 'viaacc_like'):
            # the exact (optimally sized, possibly very wide) result is formed first and then moved into the register: an accumulator
            # followed by a store, the conversion routes of C10 at the end of an arithmetic chain
            fe_ = int(fx) + int(fy) if op == 'mul' else max(int(fx), int(fy))
            ie_ = (int(nx) - int(fx)) + (int(ny) - int(fy)) if op == 'mul' else max(int(nx) - int(fx), int(ny) - int(fy)) + 1
            if (int(a) + int(b)) % 2 or (op == 'sub' and sx == 'u' and sy == 'u'):
                # a signed accumulator object wide enough for the exact result (created empty, filled through out=): a negative
                # difference of unsigned operands is exact there too (the optimally sized result would be the unsigned exception of C07)
                acc = Fxp(None, True, ie_ + fe_ + 2, fe_)
                {'add': fxpmath.add, 'sub': fxpmath.sub, 'mul': fxpmath.mul}[op](x, y, out=acc)
            else:
                acc = {'add': lambda: x + y, 'sub': lambda: x - y, 'mul': lambda: x * y}[op]()
            if route == 'viaacc':
                z = out.set_val(acc)
            elif route == 'viaacc_call':
                z = out(acc)
            else:
                z = Fxp(acc, like=out)
                out = z
        else:
            # 'same': no holder at all - both operands have the register's format and the result is sized like them
            x.config.op_sizing = 'same'; x.config.overflow = 'wrap'; x.config.rounding = r
            z = {'add': lambda: x + y, 'sub': lambda: x - y, 'mul': lambda: x * y}[op]()
            if (z.signed, z.n_word, z.n_frac) != (sr == 's', int(nr), int(fr)):
                return ['NOTSAME']
            return [str(codes_of(z)[0])]
        if z is not out:
            return ['NOTOUT']
        return [str(codes_of(z)[0])]
    except Exception as e:
        return [exc_token(e)]


EXEC = {'Q1': exec_Q1, 'W3': exec_W3, 'WS': exec_WS, 'WR': exec_WR, 'WQ': exec_WQ}


def _big_ints(rng, n, f):
    m = 1 << n
    k = rng.randint(0, 4 * n + 8)
    cands = [(1 << k), (1 << k) - 1, (1 << k) + 1, -(1 << k), -(1 << k) - 1, -(1 << k) + 1,
             rng.randint(-3, 3) * m + rng.randint(-2, 2), rng.getrandbits(rng.randint(1, 4 * n)) * rng.choice([1, -1]),
             (m >> 1) - 1, (m >> 1), -(m >> 1), -(m >> 1) - 1, m - 1, m, 0]
    return rng.choice(cands)


def generate(tier, rng):
    maxw = 4 if tier == 'quick' else 6
    for signed, n, f in G.small_formats(maxw):
        pts = G.quarter_points(signed, n, f)
        for r in ROUNDS:
            yield q1_line(signed, n, f, r, 'wrap', 'arr.float64', 'ctor', pts)
    nrand = 3000 if tier == 'quick' else 60000
    for _ in range(nrand):
        signed, n, f = G.rand_format(rng)
        r = rng.choice(ROUNDS)
        scalar = rng.random() < 0.6
        k = 1 if scalar else rng.choice([2, 4])
        wide = rng.random() < 0.3
        vals = [(G.rand_scaled_wide(rng, f) if wide else G.rand_scaled(rng, signed, n)) / Fraction(2) ** f for _ in range(k)]
        if not all(G.in_c01_domain(n, f, v) for v in vals):
            continue
        c = _pick_carrier(rng, vals, scalar)
        if c:
            yield q1_line(signed, n, f, r, 'wrap', c, rng.choice(C.ROUTES), vals)
    # Python integers of any size, wide words (n_frac = 0 or small positive: integer value input)
    for _ in range(1500 if tier == 'quick' else 40000):
        signed = rng.random() < 0.5
        n = rng.choice(G.WIDE_WORDS + [64, 64, 128])
        f = rng.choice([0, 0, 0, 1, 3, n // 2, -1, -3, -8])     # (negative: the integers lose bits and must be divided exactly, D63)
        r = rng.choice(ROUNDS)
        k = rng.choice([1, 1, 1, 2, 3, 4, 6])   # mostly scalars (the quantifier); small arrays of wide integers as well (C11's D13 is repaired)
        vals = [_big_ints(rng, n, f) for _ in range(k)]
        yield 'W3 %s %d %d %s %s %s' % ('s' if signed else 'u', n, f, r, rng.choice(['ctor', 'call', 'setval', 'setitem']),
                                        tok_list([str(v) for v in vals]))
    # Python integers into core formats while v*2^f stays below 2^62 (beyond that: C19)
    for _ in range(1500 if tier == 'quick' else 30000):
        signed, n, f = G.rand_format(rng, fmin=0, fextra=3)
        r = rng.choice(ROUNDS)
        v = rng.getrandbits(rng.randint(1, max(1, 61 - f))) * rng.choice([1, -1])
        if abs(v) >= 2 ** 53 or abs(v) << f >= 2 ** 62:
            continue
        yield 'W3 %s %d %d %s %s %s' % ('s' if signed else 'u', n, f, r, rng.choice(['ctor', 'call', 'setval', 'setitem']), tok_list([str(v)]))
    # shift invariance on the implementation
    for _ in range(1500 if tier == 'quick' else 30000):
        signed, n, f = G.rand_format(rng, max_word=40)
        r = rng.choice(ROUNDS)
        x = G.rand_scaled(rng, signed, n)
        t = rng.choice([1, -1, 2, -2, 3, 5, -7])
        x2 = x + t * (1 << n)
        if r in ('trunc', 'fix') and x.denominator != 1 and (x < 0) != (x2 < 0):
            continue
        v = x / Fraction(2) ** f
        v2 = x2 / Fraction(2) ** f
        if not (G.in_c01_domain(n, f, v) and G.in_c01_domain(n, f, v2) and is_exact_float(v) and is_exact_float(v2)):
            continue
        yield 'WS %s %d %d %s %s %d' % ('s' if signed else 'u', n, f, r, tok_frac(v), t)
    # register behaviour
    for _ in range(1500 if tier == 'quick' else 30000):
        signed = rng.random() < 0.5
        n = rng.choice([1, 2, 3, 4, 8, 16, 24, 26] + ([64, 65, 96, 128, 256] if rng.random() < 0.4 else []))
        op = rng.choice(['add', 'sub', 'mul'])
        lo, hi = lims(signed, n)
        pick = lambda: rng.choice([lo, hi, lo + 1, hi - 1, 0, 1, -1 if signed else 1, rng.randint(lo, hi)])
        a, b = pick(), pick()
        if n <= 52 and op == 'mul' and n > 26:
            continue
        yield 'WR %s %d 0 %s %d %d' % ('s' if signed else 'u', n, op, max(lo, min(hi, a)), max(lo, min(hi, b)))
        # the same result landing in a register of another width / signedness (narrower: high bits dropped; wider: a negative
        # difference of unsigned operands still wraps to the register's modulus), by out=, np.<op>(out=) and config.op_out
        sr = rng.random() < 0.5
        if signed and not sr:
            continue      # a signed result is refused by an unsigned holder (ValueError): not a store
        nr = max(1 + int(sr), n + rng.choice([-3, -1, 1, 1, 2, 5, 20]))
        if nr <= 52 or n >= 64:
            yield 'WR %s %d 0 %s %d %d %s %d %s' % ('s' if signed else 'u', n, op, max(lo, min(hi, a)), max(lo, min(hi, b)),
                                                 's' if sr else 'u', nr, rng.choice(['out', 'out', 'npout', 'config']))
    yield from gen_WQ(tier, rng)
    yield from gen_WQ_aligned(tier, rng)


def gen_WQ(tier, rng):
    # registers with a fraction length of their own - in particular fewer fraction bits than the exact result has: the fixed-point
    # multiply s32/16 * s32/16 -> s32/16, and sums landing in a coarser register; the exact result stays in the core domain
    # (|v| < 2^53, |v * 2^n_frac| < 2^62)
    for _ in range(2500 if tier == 'quick' else 50000):
        op = rng.choice(['mul', 'mul', 'add', 'sub'])
        same = rng.random() < 0.3
        sx = rng.random() < 0.6
        sy = sx if same else rng.random() < 0.6
        nx = rng.choice([8, 16, 24, 30, 31, 32, 33, 40, 48, 52, rng.randint(2, 52)])
        ny = nx if same else rng.choice([8, 16, 24, 30, 31, 32, 33, 40, 48, 52, rng.randint(2, 52)])
        fx = rng.randint(0, nx)
        fy = fx if same else rng.randint(0, ny)
        ix, iy = nx - fx, ny - fy                   # integer bits (sign included)
        fe = fx + fy if op == 'mul' else max(fx, fy)
        ie = ix + iy if op == 'mul' else max(ix, iy) + 1
        if ie > 52:
            continue
        if same:
            sr, nr, fr = sx, nx, fx
            route = 'same'
        else:
            sr = True if (sx or sy or op == 'sub') else rng.random() < 0.5
            fr = rng.choice([fe, max(0, fe - rng.randint(1, fe)) if fe else 0, rng.randint(0, fe) if fe else 0, fx, fy, 0])
            nr = rng.choice([8, 16, 24, 32, 40, 52, rng.randint(max(2, min(fr, 52)), 52)])
            route = rng.choice(['out', 'out', 'npout', 'config', 'viaacc', 'viaacc_call', 'viaacc_like', 'outlike', 'config_like'])
        if ie + fr > 61 or not (-8 <= fr <= nr + 8):
            continue
        lox, hix = lims(sx, nx); loy, hiy = lims(sy, ny)
        big = lambda lo, hi: rng.choice([hi, lo, hi - rng.randint(0, 1 << 12), lo + rng.randint(0, 1 << 12), rng.randint(lo, hi), rng.randint(lo, hi),
                                         (hi >> 1) + rng.randint(0, 1 << 10), rng.randint(hi >> 1, hi)])
        a = max(lox, min(hix, big(lox, hix))); b = max(loy, min(hiy, big(loy, hiy)))
        yield 'WQ %s %d %d %s %d %d %s %d %d %s %d %d %s %s' % ('s' if sx else 'u', nx, fx, 's' if sy else 'u', ny, fy, op, a, b,
                                                                 's' if sr else 'u', nr, fr, rng.choice(ROUNDS), route)


def gen_WQ_aligned(tier, rng):
    # sums and differences whose wider *aligned* operand has exactly 52..55 or 62..65 bits (where the library changes carrier:
    # float64 for mixed signedness, int64, python integers), operands at the top of their range, odd sums included
    for _ in range(1500 if tier == 'quick' else 30000):
        W = rng.choice([52, 53, 53, 54, 54, 55, 62, 63, 64, 65])
        nx = rng.randint(max(2, W - 30), min(52, W))
        d = W - nx
        fx = rng.randint(0, min(nx, 12))
        fy = fx + d
        if fy > 52:
            continue
        ny = rng.randint(max(fy, 2), 52)
        sx, sy = rng.random() < 0.5, rng.random() < 0.5
        if rng.random() < 0.5:
            sx, sy = False, True
        op = rng.choice(['add', 'sub'])
        sr = True
        fr = rng.choice([fy, fy, fx, rng.randint(0, fy)])
        nr = rng.choice([16, 24, 32, 40, 52])
        ie = max(nx - fx, ny - fy) + 1
        if ie > 52 or ie + fr > 61 or fr > nr + 8:
            continue
        lox, hix = lims(sx, nx); loy, hiy = lims(sy, ny)
        a = rng.choice([hix, hix - rng.randint(0, 64), lox + rng.randint(0, 64) if sx else hix - rng.randint(0, 1 << 20), rng.randint(hix >> 1, hix)])
        b = rng.choice([hiy, loy, hiy - rng.randint(0, 64), loy + rng.randint(0, 64), rng.randint(loy, hiy), rng.randint(hiy >> 1, hiy) | 1])
        a = max(lox, min(hix, a)); b = max(loy, min(hiy, b))
        if rng.random() < 0.5:
            sx, nx, fx, a, sy, ny, fy, b = sy, ny, fy, b, sx, nx, fx, a
        yield 'WQ %s %d %d %s %d %d %s %d %d %s %d %d %s %s' % ('s' if sx else 'u', nx, fx, 's' if sy else 'u', ny, fy, op, a, b,
                                                                 's' if sr else 'u', nr, fr, rng.choice(ROUNDS), rng.choice(['out', 'npout', 'config', 'outlike', 'config_like']))


def nontrivial(full_line, model):
    t = full_line.split(' | ')[0].split()
    if t[0] == 'WQ':
        return True
    if t[0] == 'Q1':
        return parse_list(t[8]) != parse_list(model.split()[1]) if len(model.split()) > 1 else True
    if t[0] == 'W3':
        f = int(t[3])
        return [str(int(x) << f) if f >= 0 else x for x in parse_list(t[6])] != parse_list(model.split()[0])
    if t[0] == 'WS':
        return True
    if t[0] == 'WR':
        a, b = int(t[5]), int(t[6])
        ex = {'add': a + b, 'sub': a - b, 'mul': a * b}[t[4]]
        return str(ex) != model.strip()
    return True


def debug_class(t):
    if t[0] == 'WQ':
        return 'WQ %s %s fewer=%s' % (t[7], t[14], int(t[12]) < (int(t[3]) + int(t[6]) if t[7] == 'mul' else max(int(t[3]), int(t[6]))))
    return ' '.join([t[0], base.word_bucket(int(t[2]))] + ([t[6], t[7]] if t[0] == 'Q1' else [t[4] if t[0] in ('WR',) else t[5] if t[0] == 'W3' else '']))


def stats(verdicts):
    return base.generic_stats(verdicts, lambda t: ['op:' + t[0], 'word:' + base.word_bucket(int(t[2])), 'signed:' + t[1]] + (['wq:' + t[7], 'wq-route:' + t[14]] if t[0] == 'WQ' else []),
                              lambda t: len(parse_list(t[8])) if t[0] == 'Q1' else len(parse_list(t[6])) if t[0] == 'W3' else 1,
                              ['Q1/wrap: every quarter-LSB input over 3x range, every format n_word<=4 (quick) / <=6 (thorough), -8<=n_frac<=n_word+8, 5 roundings'])
