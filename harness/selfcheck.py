"""setup-time smoke test: the compiled driver answers a fixed protocol file as expected and the
fxpmath under test imports from $FXP_REPO."""
import sys
from . import lean

SMOKE = [
    ('Q1 s 8 2 around saturate pyfloat ctor [27/8] | [14] [7/2]', '1 1 [14] [7/2]'),
    ('Q1 s 8 2 around saturate pyfloat ctor [27/8] | [13] [13/4]', '0 0 [14] [7/2]'),
    ('Q1 u 4 0 trunc wrap pyint ctor [-3] | [13] [13]', '1 1 [13] [13]'),
]


def main():
    outs = lean.run_driver([l for l, _ in SMOKE])
    bad = [(l, o, e) for (l, e), o in zip(SMOKE, outs) if o != e]
    for b in bad:
        print('selfcheck mismatch:', b)
    from . import env
    print('selfcheck: driver ok=%s, fxpmath from %s' % (not bad, env.fxpmath.__file__))
    return 1 if bad else 0


if __name__ == '__main__':
    sys.exit(main())
