import FxpVerif.Model.Arith
/-!
# NumPy reductions and linear algebra (`functions.py` 545-738)

Growth rules of the accumulating functions and their raw kernels on codes; selection functions
(max, min, sort, clip, transpose, diagonal) keep the operand's format.
Arrays are `List Int` (1-D) or rows `List (List Int)` (2-D).
-/
namespace Fxp

/-- `int(np.ceil(np.log2(k)))` for `k ≥ 1`. -/
def clog2 (k : Nat) : Nat := if k ≤ 1 then 0 else Nat.log2 (k - 1) + 1

def chunks {α} (c : Nat) : Nat → List α → List (List α)
  | 0, _ => []
  | fuel + 1, l => if l.isEmpty then [] else l.take c :: chunks c fuel (l.drop c)

def toRows {α} (c : Nat) (l : List α) : List (List α) := if c = 0 then [] else chunks c l.length l

def transposeL {α} (rows : List (List α)) : List (List α) :=
  match rows with
  | [] => []
  | r :: _ => (List.range r.length).map (fun j => rows.filterMap (fun row => row[j]?))

def cumL (g : Int → Int → Int) : List Int → List Int
  | [] => []
  | a :: t => (t.foldl (fun (acc : List Int × Int) x => let v := g acc.2 x; (acc.1 ++ [v], v)) ([a], a)).1

def sumL (l : List Int) : Int := l.foldl (· + ·) 0
def prodL (l : List Int) : Int := l.foldl (· * ·) 1
def maxL : List Int → Int
  | [] => 0
  | a :: t => t.foldl max a
def minL : List Int → Int
  | [] => 0
  | a :: t => t.foldl min a

/-- insertion sort (what matters is: sorted permutation). -/
def insertSorted (x : Int) : List Int → List Int
  | [] => [x]
  | a :: t => if x ≤ a then x :: a :: t else a :: insertSorted x t
def sortL (l : List Int) : List Int := l.foldr insertSorted []

/-- formats of the accumulating functions (optimal sizing). -/
def sumFmt (f : Fmt) (size : Nat) : Fmt := ⟨f.signed, clog2 size + f.nword, f.nfrac⟩
def prodFmt (f : Fmt) (num : Nat) : Fmt := ⟨f.signed, num * f.nword, num * f.nfrac⟩
def dotFmt (x y : Fmt) (k : Nat) : Fmt := ⟨x.signed || y.signed, clog2 k + x.nword + y.nword, x.nfrac + y.nfrac⟩

/-- fraction length of `cumprod`'s result: every partial product is held in one format, the `k`-th has `k·n_frac` fraction bits. -/
def cumprodFrac (f : Fmt) (size : Nat) : Int := if 0 ≤ f.nfrac then size * f.nfrac else f.nfrac

/-- format of `cumprod` (optimal sizing): the `k`-th partial product needs `k·n_word` bits plus its rescaling to the common
fraction length; the maximum over `k = 1 … size` is at one of the two ends. -/
def cumprodFmt (f : Fmt) (size : Nat) : Fmt :=
  let F := cumprodFrac f size
  ⟨f.signed, (max ((f.nword : Int) + F - f.nfrac) ((size : Int) * f.nword + F - size * f.nfrac)).toNat, F⟩

/-- `cumprod` raw kernel: the `j`-th partial product is rescaled to the common fraction length. -/
def cumprodCodes (f : Fmt) (size : Nat) (l : List Int) : List Int :=
  (cumL (· * ·) l).zipIdx.map (fun (p : Int × Nat) => p.1 * 2 ^ (cumprodFrac f size - ((p.2 + 1 : Nat) : Int) * f.nfrac).toNat)

def dotL (a b : List Int) : Int := sumL (List.zipWith (· * ·) a b)

/-- matrix product on rows. -/
def matmulL (a : List (List Int)) (b : List (List Int)) : List (List Int) :=
  let bt := transposeL b
  a.map (fun row => bt.map (fun col => dotL row col))

def diagL (rows : List (List Int)) : List Int :=
  rows.zipIdx.filterMap (fun (p : List Int × Nat) => p.1[p.2]?)

/-- the `k`-th diagonal of a matrix given by its rows (`k > 0`: above the main diagonal, `k < 0`: below): the entries `rows[i][i+k]`
that exist. Taking the two axes in the other order is the diagonal of the transposed matrix, i.e. offset `-k` of this one. -/
def diagOffL (rows : List (List Int)) (k : Int) : List Int :=
  rows.zipIdx.filterMap (fun (p : List Int × Nat) =>
    if 0 ≤ (p.2 : Int) + k then p.1[((p.2 : Int) + k).toNat]? else none)

def clipL (lo hi : Option Int) (l : List Int) : List Int :=
  l.map (fun c => let c1 := match hi with | some h => min h c | none => c
                  match lo with | some l => max l c1 | none => c1)

end Fxp
