import FxpVerif.Lemmas.Arith
import Mathlib.Tactic.FieldSimp
/-! # C09 — division family -/
namespace Fxp.C09
open Fxp Fmt

theorem two_ne : (2:ℚ) ≠ 0 := by norm_num

/-- exact quotient of the stored values, scaled to the result's fraction length. -/
def Q (t x y : Fmt) (a b : ℤ) : ℚ := scale (valueOf x a / valueOf y b) t.nfrac

/-- the optimal `truediv` format `(s, x.n_int + y.n_frac + s, x.n_frac + y.n_int)` always exists; its
magnitude bits are `s + mag x + mag y`. -/
theorem truediv_fmt (x y : Fmt) (hx : x.WF) (hy : y.WF) :
    ∃ t, resultFmt .optimal .truediv x y = some t ∧ t.signed = (x.signed || y.signed) ∧
      t.nfrac = x.nfrac + (y.mag : ℤ) - y.nfrac ∧ t.WF ∧
      t.mag = (if (x.signed || y.signed) then 1 else 0) + x.mag + y.mag := by
  have ix := nint_eq_mag x hx
  have iy := nint_eq_mag y hy
  unfold resultFmt sizing optimalSize
  simp only
  unfold mkFmt
  rw [ix, iy]
  have hb : 0 ≤ bsig (x.signed || y.signed) ∧ bsig (x.signed || y.signed) ≤ 1 := by
    unfold bsig; split <;> omega
  have hbs : (x.signed || y.signed) = true → bsig (x.signed || y.signed) = 1 := by
    intro h; unfold bsig; rw [if_pos h]
  rw [if_neg]
  · refine ⟨_, rfl, rfl, by show x.nfrac + ((y.mag:ℤ) - y.nfrac) = _; ring, ?_, ?_⟩
    · intro h
      have := hbs h
      show 0 < Int.toNat _
      omega
    · show Int.toNat _ - (if (x.signed || y.signed) = true then 1 else 0) = _
      unfold bsig at *
      split <;> simp_all <;> omega
  · rintro (h | ⟨h1, h2⟩)
    · omega
    · have := hbs h1; omega

/-- the pre-scaled integer quotient of the raw method is the floor of the exact scaled quotient. -/
theorem truediv_kernel (t x y : Fmt) (hy : y.WF) (htf : t.nfrac = x.nfrac + (y.mag : ℤ) - y.nfrac)
    (a b : ℤ) (hb : b ≠ 0) :
    rawKernel .truediv t.nfrac x y a b = ((⌊Q t x y a b⌋ : ℤ) : ℚ) := by
  unfold rawKernel fdivR Q valueOf
  rw [floor_eq]
  congr 2
  simp only [scale_eq]
  have hbq : (b:ℚ) ≠ 0 := by exact_mod_cast hb
  have hp : (2:ℚ) ^ (-y.nfrac) ≠ 0 := ne_of_gt (two_zpow_pos _)
  rw [htf, show x.nfrac + (y.mag:ℤ) - y.nfrac - x.nfrac + y.nfrac = (y.mag:ℤ) by ring]
  rw [show x.nfrac + (y.mag:ℤ) - y.nfrac = x.nfrac + ((y.mag:ℤ) + -y.nfrac) by ring,
      zpow_add₀ two_ne, zpow_add₀ two_ne, zpow_neg, zpow_neg]
  have h1 : (2:ℚ) ^ x.nfrac ≠ 0 := ne_of_gt (two_zpow_pos _)
  have h2 : (2:ℚ) ^ y.nfrac ≠ 0 := ne_of_gt (two_zpow_pos _)
  field_simp

/-- **floor bounds**: `q·LSB ≤ x/y < (q+1)·LSB` in scaled units. -/
theorem truediv_floor_bounds (t x y : Fmt) (a b : ℤ) :
    ((⌊Q t x y a b⌋ : ℤ) : ℚ) ≤ Q t x y a b ∧ Q t x y a b < (⌊Q t x y a b⌋ : ℤ) + 1 :=
  ⟨Int.floor_le _, Int.lt_floor_add_one _⟩

/-- **exact whenever representable**: if the exact quotient is a multiple of the result LSB, it is stored. -/
theorem truediv_exact_if_repr (t x y : Fmt) (a b k : ℤ) (h : Q t x y a b = k) : ⌊Q t x y a b⌋ = k := by
  rw [h]; exact Int.floor_intCast k

/-- **error strictly below one LSB**, in value terms. -/
theorem truediv_err_lt_lsb (t x y : Fmt) (a b : ℤ) :
    |valueOf t ⌊Q t x y a b⌋ - valueOf x a / valueOf y b| < (2:ℚ) ^ (-t.nfrac) := by
  have h := truediv_floor_bounds t x y a b
  set q := ⌊Q t x y a b⌋
  have hQ : valueOf x a / valueOf y b = Q t x y a b * (2:ℚ) ^ (-t.nfrac) := by
    unfold Q; rw [scale_eq, mul_assoc, ← zpow_add₀ two_ne]; simp
  have hv : valueOf t q = (q:ℚ) * (2:ℚ) ^ (-t.nfrac) := by unfold valueOf; rw [scale_eq]
  rw [hv, hQ, ← sub_mul, abs_mul, abs_of_pos (two_zpow_pos _)]
  have : |(q:ℚ) - Q t x y a b| < 1 := by rw [abs_lt]; constructor <;> linarith [h.1, h.2]
  calc _ < 1 * (2:ℚ) ^ (-t.nfrac) := mul_lt_mul_of_pos_right this (two_zpow_pos _)
    _ = _ := one_mul _

/-- dividing by something of magnitude ≥ 1 does not leave an interval around 0. -/
theorem div_bounds_pos (A L U b : ℚ) (hb : 1 ≤ b) (hL : L ≤ 0) (hU : 0 ≤ U) (h1 : L ≤ A) (h2 : A ≤ U) :
    L ≤ A / b ∧ A / b ≤ U := by
  have hb0 : 0 < b := by linarith
  constructor
  · rw [le_div_iff₀ hb0]; nlinarith
  · rw [div_le_iff₀ hb0]; nlinarith

/-- **the optimal format never overflows**, including most-negative dividend over ±one LSB. -/
theorem truediv_fits (x y : Fmt) (hx : x.WF) (hy : y.WF) (a b : ℤ) (ha : x.InRange a) (hb : y.InRange b)
    (hb0 : b ≠ 0) (t : Fmt) (ht : resultFmt .optimal .truediv x y = some t) :
    t.InRange ⌊Q t x y a b⌋ := by
  obtain ⟨t', ht', hs, hf, hwf, hmag⟩ := truediv_fmt x y hx hy
  rw [ht] at ht'; cases ht'
  -- the scaled quotient is (a·2^my)/b
  have hQ : Q t x y a b = ((a * 2 ^ y.mag : ℤ) : ℚ) / (b:ℚ) := by
    have := truediv_kernel t x y hy hf a b hb0
    unfold rawKernel fdivR at this
    unfold Q valueOf
    simp only [scale_eq]
    have hbq : (b:ℚ) ≠ 0 := by exact_mod_cast hb0
    rw [hf, show x.nfrac + (y.mag:ℤ) - y.nfrac = x.nfrac + ((y.mag:ℤ) + -y.nfrac) by ring,
      zpow_add₀ two_ne, zpow_add₀ two_ne, zpow_neg, zpow_neg, zpow_natCast]
    have h1 : (2:ℚ) ^ x.nfrac ≠ 0 := ne_of_gt (two_zpow_pos _)
    have h2 : (2:ℚ) ^ y.nfrac ≠ 0 := ne_of_gt (two_zpow_pos _)
    push_cast
    field_simp
  rw [inRange_iff_mag t hwf, hs, hmag]
  obtain ⟨a1, a2⟩ := (inRange_iff_mag x hx a).mp ha
  obtain ⟨b1, b2⟩ := (inRange_iff_mag y hy b).mp hb
  obtain ⟨A1, A2⟩ := shifted_bounds x.signed x.mag y.mag a ⟨a1, a2⟩
  have pP : (1:ℤ) ≤ 2 ^ (x.mag + y.mag) := one_le_two_pow _
  have pK : (1:ℤ) ≤ 2 ^ y.mag := one_le_two_pow _
  set P : ℤ := 2 ^ (x.mag + y.mag) with hP
  set A : ℤ := a * 2 ^ y.mag with hA
  rw [hQ]
  have hbs : 0 ≤ bsig x.signed ∧ bsig x.signed ≤ 1 := by unfold bsig; split <;> omega
  -- |A| ≤ P, and A ≤ P - 1
  have A_lo : -P ≤ A := by nlinarith
  have A_hi : A ≤ P - 1 := by omega
  rcases lt_or_gt_of_ne hb0 with hneg | hpos
  · -- negative divisor: y signed, result signed
    have hsy : y.signed = true := by
      by_contra h
      have : y.signed = false := by simpa using h
      rw [this] at b1; simp [bsig] at b1; omega
    have hsgn : (x.signed || y.signed) = true := by rw [hsy]; simp
    rw [hsgn]; simp only [bsig, if_true]
    have hb' : (1:ℚ) ≤ -(b:ℚ) := by
      have : (1:ℤ) ≤ -b := by omega
      exact_mod_cast this
    have hdiv : ((A:ℤ):ℚ) / (b:ℚ) = (-(A:ℚ)) / (-(b:ℚ)) := by rw [neg_div_neg_eq]
    obtain ⟨d1, d2⟩ := div_bounds_pos (-(A:ℚ)) (-(P:ℚ)) (P:ℚ) (-(b:ℚ)) hb'
      (by have : (0:ℚ) ≤ (P:ℚ) := by exact_mod_cast (by omega : (0:ℤ) ≤ P)
          linarith)
      (by exact_mod_cast (by omega : (0:ℤ) ≤ P))
      (by have : ((A:ℤ):ℚ) ≤ (P:ℚ) := by exact_mod_cast (by omega : A ≤ P)
          linarith)
      (by have : (-(P:ℤ):ℚ) ≤ (A:ℚ) := by exact_mod_cast A_lo
          push_cast at this; linarith)
    rw [hdiv]
    have e : (2:ℤ) ^ (1 + x.mag + y.mag) = 2 * P := by rw [hP, add_assoc, pow_add]; ring
    rw [e]
    constructor
    · have : (-(P:ℤ)) ≤ ⌊(-(A:ℚ)) / (-(b:ℚ))⌋ := by
        apply Int.le_floor.mpr; push_cast; exact d1
      omega
    · have : ⌊(-(A:ℚ)) / (-(b:ℚ))⌋ ≤ P := by
        apply Int.floor_le_iff.mpr
        have : (-(A:ℚ)) / (-(b:ℚ)) ≤ P := d2
        linarith
      omega
  · -- positive divisor
    have hb' : (1:ℚ) ≤ (b:ℚ) := by exact_mod_cast (by omega : (1:ℤ) ≤ b)
    have hL : -(bsig x.signed) * P ≤ A := A1
    obtain ⟨d1, d2⟩ := div_bounds_pos (A:ℚ) ((-(bsig x.signed) * P : ℤ):ℚ) ((P - 1 : ℤ):ℚ) (b:ℚ) hb'
      (by have : -(bsig x.signed) * P ≤ 0 := by nlinarith
          exact_mod_cast this)
      (by exact_mod_cast (by omega : (0:ℤ) ≤ P - 1))
      (by exact_mod_cast hL) (by exact_mod_cast A_hi)
    have f1 : -(bsig x.signed) * P ≤ ⌊((A:ℤ):ℚ) / (b:ℚ)⌋ := Int.le_floor.mpr d1
    have f2 : ⌊((A:ℤ):ℚ) / (b:ℚ)⌋ ≤ P - 1 := by
      apply Int.floor_le_iff.mpr
      have : ((A:ℤ):ℚ) / (b:ℚ) ≤ ((P - 1 : ℤ):ℚ) := d2
      push_cast at this ⊢; linarith
    have e : (2:ℤ) ^ ((if (x.signed || y.signed) = true then 1 else 0) + x.mag + y.mag) =
        (if (x.signed || y.signed) = true then 2 else 1) * P := by
      rw [hP, add_assoc, pow_add]; split <;> simp
    rw [e]
    have hsx : bsig x.signed ≤ bsig (x.signed || y.signed) := by
      unfold bsig; cases x.signed <;> cases y.signed <;> simp
    have hbs2 : 0 ≤ bsig (x.signed || y.signed) ∧ bsig (x.signed || y.signed) ≤ 1 := by
      unfold bsig; split <;> omega
    constructor
    · by_cases hsg : (x.signed || y.signed) = true
      · rw [hsg]; simp only [bsig, if_true]; nlinarith
      · have hsg' : (x.signed || y.signed) = false := by simpa using hsg
        rw [hsg'] at hsx
        have h1 : bsig x.signed = 0 := by
          have h0 : bsig false = 0 := rfl
          rw [h0] at hsx; omega
        rw [hsg']; rw [h1] at f1; simp [bsig]; linarith
    · split <;> omega

/-! ### floor-division and modulo -/

/-- `x // y` computes `floor(x/y)` on the stored values (result fraction length `F`, raw method). -/
theorem floordiv_eq_floor (F : ℤ) (x y : Fmt) (a b : ℤ) (hb : b ≠ 0) :
    rawKernel .floordiv F x y a b = scale (((⌊valueOf x a / valueOf y b⌋ : ℤ)) : ℚ) F := by
  unfold rawKernel fdivR valueOf
  have e : scale (a:ℚ) (F - x.nfrac) / scale (b:ℚ) (F - y.nfrac) = scale (a:ℚ) (-x.nfrac) / scale (b:ℚ) (-y.nfrac) := by
    simp only [scale_eq]
    have hbq : (b:ℚ) ≠ 0 := by exact_mod_cast hb
    rw [show F - x.nfrac = F + -x.nfrac by ring, show F - y.nfrac = F + -y.nfrac by ring,
        zpow_add₀ two_ne, zpow_add₀ two_ne]
    have h0 : (2:ℚ) ^ F ≠ 0 := ne_of_gt (two_zpow_pos _)
    have h2 : (2:ℚ) ^ (-y.nfrac) ≠ 0 := ne_of_gt (two_zpow_pos _)
    field_simp
  rw [e]; rfl

theorem floordiv_raw_eq_repr (t : Fmt) (r : Rounding) (o : Overflow) (x y : Fmt) (a b : ℤ) (hb : b ≠ 0) :
    arithRaw .floordiv t r o x y a b = arithRepr .floordiv t r o x y a b := by
  unfold arithRaw arithRepr storeRawFloat storeFloat
  rw [floordiv_eq_floor t.nfrac x y a b hb]; rfl

/-- the optimal `floordiv` format `(s, max (x.n_int + y.n_frac + s) 0, 0)` exists for **every** pair of operand formats
(fraction lengths beyond the word, or negative ones, included — before D43 the integer length could come out negative and no
format existed). -/
theorem floordiv_fmt (x y : Fmt) (hx : x.WF) :
    ∃ t, resultFmt .optimal .floordiv x y = some t ∧ t.signed = (x.signed || y.signed) ∧ t.nfrac = 0 ∧ t.WF ∧
      (t.mag : ℤ) = max ((x.mag : ℤ) - x.nfrac + y.nfrac + bsig (x.signed || y.signed)) 0 := by
  have ix := nint_eq_mag x hx
  unfold resultFmt sizing optimalSize
  simp only
  unfold mkFmt
  rw [ix]
  have hb : 0 ≤ bsig (x.signed || y.signed) ∧ bsig (x.signed || y.signed) ≤ 1 := by
    unfold bsig; split <;> omega
  have hbs : (x.signed || y.signed) = true → bsig (x.signed || y.signed) = 1 := by
    intro h; unfold bsig; rw [if_pos h]
  have hbu : (x.signed || y.signed) = false → bsig (x.signed || y.signed) = 0 := by
    intro h; unfold bsig; rw [if_neg (by simp [h])]
  rw [if_neg]
  · refine ⟨_, rfl, rfl, rfl, ?_, ?_⟩
    · intro h
      have := hbs h
      show 0 < Int.toNat _
      omega
    · show ((Int.toNat _ - (if (x.signed || y.signed) = true then 1 else 0) : ℕ) : ℤ) = _
      cases hs : (x.signed || y.signed)
      · have := hbu hs; simp only [hs] at *; simp; omega
      · have := hbs hs; simp only [hs] at *; simp; omega
  · rintro (h | ⟨h1, h2⟩)
    · omega
    · have := hbs h1; omega

theorem abs_code_le (x : Fmt) (hx : x.WF) (a : ℤ) (ha : x.InRange a) : |(a:ℚ)| ≤ (2:ℚ) ^ (x.mag : ℤ) := by
  obtain ⟨a1, a2⟩ := (inRange_iff_mag x hx a).mp ha
  have hb : 0 ≤ bsig x.signed ∧ bsig x.signed ≤ 1 := by unfold bsig; split <;> omega
  have hp : (0:ℤ) < 2 ^ x.mag := by positivity
  have : |a| ≤ 2 ^ x.mag := by rw [abs_le]; constructor <;> nlinarith
  rw [zpow_natCast]
  exact_mod_cast this

/-- **`x // y` never overflows its optimal format**, for every pair of operand formats (any fraction lengths), every pair of
in-range codes and every non-zero divisor: `floor(x/y)` is a code of the format `floordiv` builds. With `floordiv_eq_floor`
this is "x//y equals floor(x/y) exactly". -/
theorem floordiv_fits (x y : Fmt) (hx : x.WF) (hy : y.WF) (a b : ℤ) (ha : x.InRange a) (hb : y.InRange b)
    (hb0 : b ≠ 0) (t : Fmt) (ht : resultFmt .optimal .floordiv x y = some t) :
    t.InRange ⌊valueOf x a / valueOf y b⌋ := by
  obtain ⟨t', ht', hs, _hf, hwf, hmag⟩ := floordiv_fmt x y hx
  rw [ht] at ht'; cases ht'
  rw [inRange_iff_mag t hwf, hs]
  set E : ℤ := (x.mag : ℤ) - x.nfrac + y.nfrac with hE
  set v : ℚ := valueOf x a / valueOf y b with hv
  -- the divisor's magnitude is at least one LSB, the dividend's at most 2^mag LSBs
  have hA : |valueOf x a| ≤ (2:ℚ) ^ (x.mag : ℤ) * (2:ℚ) ^ (-x.nfrac) := by
    unfold valueOf; rw [scale_eq, abs_mul, abs_of_pos (two_zpow_pos _)]
    exact mul_le_mul_of_nonneg_right (abs_code_le x hx a ha) (le_of_lt (two_zpow_pos _))
  have hb1 : (1:ℚ) ≤ |(b:ℚ)| := by
    have : (1:ℤ) ≤ |b| := Int.one_le_abs hb0
    exact_mod_cast this
  have hB : (2:ℚ) ^ (-y.nfrac) ≤ |valueOf y b| := by
    unfold valueOf; rw [scale_eq, abs_mul, abs_of_pos (two_zpow_pos _)]
    calc (2:ℚ) ^ (-y.nfrac) = 1 * (2:ℚ) ^ (-y.nfrac) := (one_mul _).symm
      _ ≤ |(b:ℚ)| * (2:ℚ) ^ (-y.nfrac) := mul_le_mul_of_nonneg_right hb1 (le_of_lt (two_zpow_pos _))
  have hBpos : 0 < |valueOf y b| := lt_of_lt_of_le (two_zpow_pos _) hB
  have hEsplit : (2:ℚ) ^ E * (2:ℚ) ^ (-y.nfrac) = (2:ℚ) ^ (x.mag : ℤ) * (2:ℚ) ^ (-x.nfrac) := by
    rw [← zpow_add₀ two_ne, ← zpow_add₀ two_ne]; congr 1; rw [hE]; ring
  -- |v| ≤ 2^E
  have hV : |v| ≤ (2:ℚ) ^ E := by
    rw [hv, abs_div, div_le_iff₀ hBpos]
    calc |valueOf x a| ≤ (2:ℚ) ^ (x.mag : ℤ) * (2:ℚ) ^ (-x.nfrac) := hA
      _ = (2:ℚ) ^ E * (2:ℚ) ^ (-y.nfrac) := hEsplit.symm
      _ ≤ (2:ℚ) ^ E * |valueOf y b| := mul_le_mul_of_nonneg_left hB (le_of_lt (two_zpow_pos _))
  obtain ⟨v1, v2⟩ := abs_le.mp hV
  set N : ℤ := max (E + bsig (x.signed || y.signed)) 0 with hN
  have hN0 : 0 ≤ N := le_max_right _ _
  have hmagN : (t.mag : ℤ) = N := hmag
  have hpowN : (((2:ℤ) ^ t.mag : ℤ) : ℚ) = (2:ℚ) ^ N := by
    rw [← hmagN, zpow_natCast]; push_cast; rfl
  cases hsg : (x.signed || y.signed)
  · -- unsigned result: both operands unsigned, the quotient is non-negative and strictly below 2^E ≤ 2^N
    have hxs : x.signed = false := by cases h : x.signed <;> simp_all
    have hys : y.signed = false := by cases h : y.signed <;> simp_all
    obtain ⟨a1, a2⟩ := (inRange_iff_mag x hx a).mp ha
    obtain ⟨b1, _⟩ := (inRange_iff_mag y hy b).mp hb
    rw [hxs] at a1; rw [hys] at b1
    simp only [bsig, Bool.false_eq_true, if_false, neg_zero, zero_mul] at a1 b1 ⊢
    have hbpos : (1:ℤ) ≤ b := by omega
    have hvx : 0 ≤ valueOf x a := by
      unfold valueOf; rw [scale_eq]; exact mul_nonneg (by exact_mod_cast a1) (le_of_lt (two_zpow_pos _))
    have hvy : 0 < valueOf y b := by
      unfold valueOf; rw [scale_eq]; exact mul_pos (by exact_mod_cast (by omega : (0:ℤ) < b)) (two_zpow_pos _)
    have hv0 : 0 ≤ v := div_nonneg hvx (le_of_lt hvy)
    have hENle : E ≤ N := by rw [hN, hsg]; simp [bsig]
    have hvlt : v < (2:ℚ) ^ N := by
      have h1 : valueOf x a < (2:ℚ) ^ (x.mag : ℤ) * (2:ℚ) ^ (-x.nfrac) := by
        unfold valueOf; rw [scale_eq]
        apply mul_lt_mul_of_pos_right _ (two_zpow_pos _)
        rw [zpow_natCast]
        have : a < 2 ^ x.mag := by omega
        exact_mod_cast this
      have h2 : (2:ℚ) ^ (-y.nfrac) ≤ valueOf y b := by rw [abs_of_pos hvy] at hB; exact hB
      have h3 : v < (2:ℚ) ^ E := by
        rw [hv, div_lt_iff₀ hvy]
        calc valueOf x a < (2:ℚ) ^ (x.mag : ℤ) * (2:ℚ) ^ (-x.nfrac) := h1
          _ = (2:ℚ) ^ E * (2:ℚ) ^ (-y.nfrac) := hEsplit.symm
          _ ≤ (2:ℚ) ^ E * valueOf y b := mul_le_mul_of_nonneg_left h2 (le_of_lt (two_zpow_pos _))
      exact lt_of_lt_of_le h3 (zpow_le_zpow_right₀ (by norm_num) hENle)
    constructor
    · exact Int.floor_nonneg.mpr hv0
    · have : ⌊v⌋ < 2 ^ t.mag := by
        rw [Int.floor_lt]; rw [hpowN]; exact hvlt
      omega
  · -- signed result: |v| ≤ 2^E < 2^(E+1) ≤ 2^N
    have hE1N : E + 1 ≤ N := by rw [hN, hsg]; simp [bsig]
    have hlt : (2:ℚ) ^ E < (2:ℚ) ^ N :=
      lt_of_lt_of_le (zpow_lt_zpow_right₀ (by norm_num) (by omega : E < E + 1)) (zpow_le_zpow_right₀ (by norm_num) hE1N)
    simp only [bsig, if_true]
    constructor
    · have : (-(2 ^ t.mag : ℤ)) ≤ ⌊v⌋ := by
        rw [Int.le_floor]; push_cast; rw [show ((2:ℚ) ^ t.mag) = (((2:ℤ) ^ t.mag : ℤ) : ℚ) by push_cast; rfl, hpowN]; linarith
      linarith
    · have : ⌊v⌋ < 2 ^ t.mag := by
        rw [Int.floor_lt]; rw [hpowN]; linarith
      omega

/-- `x % y = x - y·floor(x/y)` exactly (raw method, any result fraction length). -/
theorem mod_eq (F : ℤ) (x y : Fmt) (a b : ℤ) (hb : b ≠ 0) :
    rawKernel .mod F x y a b = scale (exactOp .mod (valueOf x a) (valueOf y b)) F := by
  unfold rawKernel fdivR exactOp valueOf
  have e : scale (a:ℚ) (F - x.nfrac) / scale (b:ℚ) (F - y.nfrac) = scale (a:ℚ) (-x.nfrac) / scale (b:ℚ) (-y.nfrac) := by
    simp only [scale_eq]
    have hbq : (b:ℚ) ≠ 0 := by exact_mod_cast hb
    rw [show F - x.nfrac = F + -x.nfrac by ring, show F - y.nfrac = F + -y.nfrac by ring,
        zpow_add₀ two_ne, zpow_add₀ two_ne]
    have h0 : (2:ℚ) ^ F ≠ 0 := ne_of_gt (two_zpow_pos _)
    have h2 : (2:ℚ) ^ (-y.nfrac) ≠ 0 := ne_of_gt (two_zpow_pos _)
    field_simp
  simp only []
  rw [e]
  generalize ((scale (a:ℚ) (-x.nfrac) / scale (b:ℚ) (-y.nfrac)).floor : ℤ) = k
  simp only [scale_eq]
  rw [show F - x.nfrac = -x.nfrac + F by ring, show F - y.nfrac = -y.nfrac + F by ring,
      zpow_add₀ two_ne, zpow_add₀ two_ne]
  ring

theorem mod_raw_eq_repr (t : Fmt) (r : Rounding) (o : Overflow) (x y : Fmt) (a b : ℤ) (hb : b ≠ 0) :
    arithRaw .mod t r o x y a b = arithRepr .mod t r o x y a b := by
  unfold arithRaw arithRepr storeRawFloat storeFloat
  rw [mod_eq t.nfrac x y a b hb]

/-- the remainder takes the divisor's sign and is smaller in magnitude. -/
theorem mod_sign_of_divisor (vx vy : ℚ) (hy : vy ≠ 0) :
    (0 < vy → 0 ≤ exactOp .mod vx vy ∧ exactOp .mod vx vy < vy) ∧
    (vy < 0 → vy < exactOp .mod vx vy ∧ exactOp .mod vx vy ≤ 0) := by
  unfold exactOp
  simp only [floor_eq]
  have h1 := Int.floor_le (vx / vy)
  have h2 := Int.lt_floor_add_one (vx / vy)
  constructor
  · intro hp
    have e : vx = vx / vy * vy := by field_simp
    constructor <;> nlinarith
  · intro hn
    have e : vx = vx / vy * vy := by field_simp
    constructor <;> nlinarith

/-- `(x // y)·y + x % y = x`. -/
theorem divmod_identity (vx vy : ℚ) : exactOp .floordiv vx vy * vy + exactOp .mod vx vy = vx := by
  unfold exactOp; ring

/-! non-vacuity -/
example : resultFmt .optimal .truediv ⟨true, 4, 2⟩ ⟨true, 3, 1⟩ = some ⟨true, 7, 3⟩ := by decide +kernel
example : arithRaw .truediv ⟨true, 7, 3⟩ .trunc .saturate ⟨true, 4, 2⟩ ⟨true, 3, 1⟩ (-8) (-1) = 32 := by decide +kernel
example : arithRaw .truediv ⟨true, 7, 3⟩ .trunc .saturate ⟨true, 4, 2⟩ ⟨true, 3, 1⟩ 7 3 = 9 := by decide +kernel

end Fxp.C09
