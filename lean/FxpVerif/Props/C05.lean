import FxpVerif.Spec.C05
import FxpVerif.Props.C01
import Mathlib.Tactic.FieldSimp
/-! # C05 — property theorems -/
namespace Fxp.C05
open Fxp

theorem lsb_pos (f : Fmt) : 0 < lsb f := two_zpow_pos _

theorem lsb_mul (f : Fmt) : lsb f * (2:ℚ) ^ f.nfrac = 1 := by
  unfold lsb; rw [← zpow_add₀ (by norm_num : (2:ℚ) ≠ 0)]; simp

theorem val_eq_valueOf (f : Fmt) (c : ℤ) : val f c = valueOf f c := by
  unfold val valueOf; rw [scale_eq]

/-- value-domain and scaled-domain orderings coincide. -/
theorem val_le_iff (f : Fmt) (c : ℤ) (v : ℚ) : val f c ≤ v ↔ (c:ℚ) ≤ v * (2:ℚ) ^ f.nfrac := by
  have hp := two_zpow_pos f.nfrac
  unfold val
  rw [zpow_neg, ← div_eq_mul_inv, div_le_iff₀ hp]

theorem le_val_iff (f : Fmt) (c : ℤ) (v : ℚ) : v ≤ val f c ↔ v * (2:ℚ) ^ f.nfrac ≤ (c:ℚ) := by
  have hp := two_zpow_pos f.nfrac
  unfold val
  rw [zpow_neg, ← div_eq_mul_inv, le_div_iff₀ hp]

theorem val_sub (f : Fmt) (q : ℤ) (v : ℚ) : val f q - v = ((q:ℚ) - v * (2:ℚ) ^ f.nfrac) * lsb f := by
  have h := lsb_mul f
  unfold val
  have : v = v * (lsb f * (2:ℚ) ^ f.nfrac) := by rw [h, mul_one]
  conv_lhs => rw [this]
  unfold lsb; ring

theorem abs_val_sub (f : Fmt) (q : ℤ) (v : ℚ) : |val f q - v| = |(q:ℚ) - v * (2:ℚ) ^ f.nfrac| * lsb f := by
  rw [val_sub, abs_mul, abs_of_pos (lsb_pos f)]

theorem trunc_value (x L : ℚ) (q : ℤ) (hL : 0 < L)
    (hp : 0 ≤ x → (q:ℚ) ≤ x ∧ x < q + 1) (hn : x < 0 → (q:ℚ) - 1 < x ∧ x ≤ q) :
    |(q:ℚ) * L| ≤ |x * L| ∧ |x * L - (q:ℚ) * L| < L ∧ 0 ≤ (q:ℚ) * L * (x * L) := by
  have e1 : x * L - (q:ℚ) * L = (x - q) * L := by ring
  have e2 : (q:ℚ) * L * (x * L) = ((q:ℚ) * x) * (L * L) := by ring
  rw [abs_mul, abs_mul, e1, abs_mul, e2, abs_of_pos hL]
  by_cases hx0 : 0 ≤ x
  · obtain ⟨a, b⟩ := hp hx0
    have hq0 : (0:ℚ) ≤ q := by
      by_contra hc
      have h1 : (q:ℚ) < 0 := not_le.mp hc
      have h2 : q < 0 := by exact_mod_cast h1
      have h3 : q + 1 ≤ 0 := by omega
      have h4 : (q:ℚ) + 1 ≤ 0 := by exact_mod_cast h3
      linarith
    refine ⟨?_, ?_, ?_⟩
    · rw [abs_of_nonneg hq0, abs_of_nonneg hx0]; exact mul_le_mul_of_nonneg_right a (le_of_lt hL)
    · rw [abs_of_nonneg (by linarith)]
      calc (x - q) * L < 1 * L := mul_lt_mul_of_pos_right (by linarith) hL
        _ = L := one_mul _
    · exact mul_nonneg (mul_nonneg hq0 hx0) (le_of_lt (mul_pos hL hL))
  · have hx1 : x < 0 := not_le.mp hx0
    obtain ⟨a, b⟩ := hn hx1
    have hq0 : (q:ℚ) ≤ 0 := by
      by_contra hc
      have h1 : (0:ℚ) < q := not_le.mp hc
      have h2 : 0 < q := by exact_mod_cast h1
      have h3 : 0 ≤ q - 1 := by omega
      have h4 : (0:ℚ) ≤ (q:ℚ) - 1 := by exact_mod_cast h3
      linarith
    refine ⟨?_, ?_, ?_⟩
    · rw [abs_of_nonpos hq0, abs_of_neg hx1]
      calc -(q:ℚ) * L ≤ -x * L := mul_le_mul_of_nonneg_right (by linarith) (le_of_lt hL)
        _ = -x * L := rfl
    · rw [abs_of_nonpos (by linarith)]
      calc -(x - q) * L < 1 * L := mul_lt_mul_of_pos_right (by linarith) hL
        _ = L := one_mul _
    · exact mul_nonneg (mul_nonneg_of_nonpos_of_nonpos hq0 (le_of_lt hx1)) (le_of_lt (mul_pos hL hL))

/-- the scaled relational contract of C01 implies the value-domain contract. -/
theorem contract_of_specRound (f : Fmt) (r : Rounding) (v : ℚ) (q : ℤ)
    (h : C01.SpecRound r (v * (2:ℚ) ^ f.nfrac) q) : Contract f r v q := by
  have hl := lsb_pos f
  cases r
  case floor =>
    obtain ⟨h1, h2⟩ := h
    refine ⟨(val_le_iff f q v).mpr h1, fun c hc => ?_⟩
    have := (val_le_iff f c v).mp hc
    have : (c:ℚ) < q + 1 := lt_of_le_of_lt this h2
    have : c < q + 1 := by exact_mod_cast this
    omega
  case ceil =>
    obtain ⟨h1, h2⟩ := h
    refine ⟨(le_val_iff f q v).mpr h2, fun c hc => ?_⟩
    have := (le_val_iff f c v).mp hc
    have : (q:ℚ) - 1 < c := lt_of_lt_of_le h1 this
    have : q - 1 < c := by exact_mod_cast this
    omega
  case around =>
    obtain ⟨h1, h2⟩ := h
    rw [Contract, abs_val_sub]
    constructor
    · calc |(q:ℚ) - v * (2:ℚ) ^ f.nfrac| * lsb f ≤ 1/2 * lsb f := mul_le_mul_of_nonneg_right h1 (le_of_lt hl)
        _ = lsb f / 2 := by ring
    · intro he
      apply h2
      have : |(q:ℚ) - v * (2:ℚ) ^ f.nfrac| * lsb f = 1/2 * lsb f := by rw [he]; ring
      exact mul_right_cancel₀ (ne_of_gt hl) this
  all_goals
    have key := trunc_value (v * (2:ℚ) ^ f.nfrac) (lsb f) q hl h.1 h.2
    have hv : v * (2:ℚ) ^ f.nfrac * lsb f = v := by
      rw [mul_assoc, mul_comm ((2:ℚ) ^ f.nfrac), lsb_mul, mul_one]
    rw [hv] at key
    exact key

/-- **direction**: what the model stores for a non-overflowing input satisfies the mode's contract. -/
theorem quantize_contract (f : Fmt) (hw : 0 < f.nword) (r : Rounding) (o : Overflow) (v : ℚ)
    (hin : f.InRange (roundR r (v * (2:ℚ) ^ f.nfrac))) : Contract f r v (quantize f r o v) := by
  have : quantize f r o v = roundR r (v * (2:ℚ) ^ f.nfrac) := by
    unfold quantize; rw [scale_eq]
    cases o
    · exact sat_of_inRange f _ hin
    · exact wrap_of_inRange f hw _ hin
  rw [this]
  exact contract_of_specRound f r v _ (C01.roundR_spec r _)

/-- a non-overflowing input (in the sense of the Spec) rounds into the range in every mode. -/
theorem round_inRange_of_noOverflow (f : Fmt) (r : Rounding) (v : ℚ) (h : NoOverflow f v) :
    f.InRange (roundR r (v * (2:ℚ) ^ f.nfrac)) := by
  obtain ⟨h1, h2⟩ := h
  have a := (val_le_iff f f.lo v).mp h1
  have b := (le_val_iff f f.hi v).mp h2
  have ma := roundR_mono r a
  have mb := roundR_mono r b
  rw [roundR_int] at ma mb
  exact ⟨ma, mb⟩

/-- **error bound**: in every mode the stored value is strictly within one LSB of a non-overflowing input. -/
theorem err_lt_lsb (f : Fmt) (hw : 0 < f.nword) (r : Rounding) (o : Overflow) (v : ℚ) (h : NoOverflow f v) :
    ErrLtLsb f v (quantize f r o v) := by
  have hin := round_inRange_of_noOverflow f r v h
  have : quantize f r o v = roundR r (v * (2:ℚ) ^ f.nfrac) := by
    unfold quantize; rw [scale_eq]
    cases o
    · exact sat_of_inRange f _ hin
    · exact wrap_of_inRange f hw _ hin
  unfold ErrLtLsb
  rw [this, abs_val_sub]
  have := roundR_err_lt_one r (v * (2:ℚ) ^ f.nfrac)
  calc _ < 1 * lsb f := mul_lt_mul_of_pos_right this (lsb_pos f)
    _ = lsb f := one_mul _

/-- **idempotence**: every representable value is stored unchanged, with no flag, in all ten mode pairs. -/
theorem store_idempotent (f : Fmt) (hw : 0 < f.nword) (r : Rounding) (o : Overflow) (c : ℤ) (h : f.InRange c) :
    quantize f r o (valueOf f c) = c ∧ storeFlags f r o (valueOf f c) = ⟨false, false, false⟩ := by
  have hq : quantize f r o (valueOf f c) = c := by
    unfold quantize valueOf
    rw [scale_int_cancel, roundR_int]
    cases o
    · exact sat_of_inRange f c h
    · exact wrap_of_inRange f hw c h
  refine ⟨hq, ?_⟩
  unfold storeFlags
  simp only [hq]
  have hk : roundR r (scale (valueOf f c) f.nfrac) = c := by
    unfold valueOf; rw [scale_int_cancel, roundR_int]
  rw [hk]
  obtain ⟨h1, h2⟩ := h
  simp [not_lt.mpr h1, not_lt.mpr h2]

/-- **monotonicity** under saturate. -/
theorem quantize_sat_monotone (f : Fmt) (r : Rounding) {v₁ v₂ : ℚ} (h : v₁ ≤ v₂) :
    quantize f r .saturate v₁ ≤ quantize f r .saturate v₂ := by
  unfold quantize ovf
  exact sat_mono f (roundR_mono r (scale_mono f.nfrac h))

/-- the decidable checker run on the implementation's code is the C01 relational contract … -/
theorem chk_round_iff (r : Rounding) (x : ℚ) (q : ℤ) : Chk.c05round r x q = true ↔ C01.SpecRound r x q := by
  have habs : ∀ y : ℚ, Chk.absR y = |y| := by
    intro y; unfold Chk.absR
    split
    · rename_i h; rw [abs_of_neg h]
    · rename_i h; rw [abs_of_nonneg (not_lt.mp h)]
  cases r <;> simp only [Chk.c05round, C01.SpecRound, habs, decide_eq_true_eq]

/-- … so an accepted observation of a non-overflowing input satisfies the value-domain contract. -/
theorem chk_sound (f : Fmt) (r : Rounding) (v : ℚ) (c : ℤ) (hno : NoOverflow f v) (h : Chk.c05 f r v c = true) :
    f.InRange c ∧ Contract f r v c ∧ ErrLtLsb f v c := by
  unfold Chk.c05 at h
  have a := (val_le_iff f f.lo v).mp hno.1
  have b := (le_val_iff f f.hi v).mp hno.2
  simp only [scale_eq] at h
  rw [if_pos ⟨a, b⟩] at h
  simp only [Bool.and_eq_true, decide_eq_true_eq] at h
  obtain ⟨⟨h1, h2⟩, h3⟩ := h
  refine ⟨h1, contract_of_specRound f r v c ((chk_round_iff r _ c).mp h2), ?_⟩
  unfold ErrLtLsb
  rw [abs_val_sub]
  have habs : ∀ y : ℚ, Chk.absR y = |y| := by
    intro y; unfold Chk.absR
    split
    · rename_i h; rw [abs_of_neg h]
    · rename_i h; rw [abs_of_nonneg (not_lt.mp h)]
  unfold Chk.c05err at h3
  rw [decide_eq_true_eq, habs] at h3
  calc _ < 1 * lsb f := mul_lt_mul_of_pos_right h3 (lsb_pos f)
    _ = lsb f := one_mul _

theorem sortedInt_iff (l : List ℤ) : Chk.sortedInt l = true ↔ l.Pairwise (· ≤ ·) := by
  induction l with
  | nil => simp [Chk.sortedInt]
  | cons a t ih =>
    cases t with
    | nil => simp [Chk.sortedInt]
    | cons b t =>
      simp only [Chk.sortedInt, Bool.and_eq_true, decide_eq_true_eq, ih, List.pairwise_cons]
      constructor
      · rintro ⟨hab, hb, ht⟩
        refine ⟨?_, hb, ht⟩
        intro c hc
        rcases List.mem_cons.mp hc with rfl | hc
        · exact hab
        · exact le_trans hab (hb c hc)
      · rintro ⟨ha, hb, ht⟩
        exact ⟨ha b (List.mem_cons_self), hb, ht⟩

/-! non-vacuity -/
example : NoOverflow ⟨true, 8, 2⟩ (27/8) := by
  unfold NoOverflow val Fmt.lo Fmt.hi; norm_num
example : Contract ⟨true, 8, 2⟩ .floor (27/8) 13 := by
  apply contract_of_specRound; unfold C01.SpecRound; norm_num

end Fxp.C05
