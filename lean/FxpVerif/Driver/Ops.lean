import FxpVerif.Driver.Proto
/-! One function per protocol op: parse arguments, run the model, print
`<A> <S> <model observables>` where `A` = the observed output agrees with the model on the property's
projection and `S` = the property's checker accepts the observed output.
For functional properties (the Spec is "observed = model function") `A = S`. -/
namespace Fxp.Ops
open Fxp Fxp.Proto

def reply (a s : Bool) (model : List String) : String :=
  s!"{showBool a} {showBool s} " ++ " ".intercalate model

/-- functional op: the observed tokens must equal the model's. -/
def functional (model obs : List String) : String :=
  let ok := decide (model = obs)
  reply ok ok model

def pow2 (e : Int) : Rat := scale 1 e

/-- the quantifier of C01/C03/C05 ("core domain"). -/
def inCoreDomain (f : Fmt) (v : Rat) : Bool :=
  decide (1 ≤ f.nword ∧ f.nword ≤ 52 ∧ -8 ≤ f.nfrac ∧ f.nfrac ≤ f.nword + 8 ∧
          (if v < 0 then -v else v) < pow2 53 ∧
          (let x := scale v f.nfrac; if x < 0 then -x else x) < pow2 62)

/-- `Q1 <fmt> <rounding> <overflow> <carrier> <route> [v...] | [codes] [readbacks]` -/
def opQ1 (args obs : List String) : P String := do
  match args with
  | [s, n, f, r, o, _carrier, _route, vs] =>
    let fmt ← pFmt s n f
    let r ← pRounding r
    let o ← pOverflow o
    let vs ← pList pRat vs
    let floatSat := o == .saturate && decide (0 ≤ fmt.nfrac) && decide (1 ≤ fmt.nword ∧ fmt.nword ≤ 52 ∧ fmt.nfrac ≤ fmt.nword + 8)
    if !(vs.all (fun v => inCoreDomain fmt v || floatSat)) then return "SKIP"
    let cs := vs.map (quantize fmt r o)
    pure (functional [showList toString cs, showList showRat (cs.map (valueOf fmt))] obs)
  | _ => throw "Q1: arity"

/-- `QC <fmt> <rounding> <overflow> <kind> <route> [re...] [im...] | [re codes] [im codes] [re vals] [im vals]` -/
def opQC (args obs : List String) : P String := do
  match args with
  | [s, n, f, r, o, _kind, _route, res, ims] =>
    let fmt ← pFmt s n f
    let r ← pRounding r
    let o ← pOverflow o
    let res ← pList pRat res
    let ims ← pList pRat ims
    if !((res ++ ims).all (inCoreDomain fmt)) then return "SKIP"
    let cr := res.map (quantize fmt r o)
    let ci := ims.map (quantize fmt r o)
    pure (functional [showList toString cr, showList toString ci,
                      showList showRat (cr.map (valueOf fmt)), showList showRat (ci.map (valueOf fmt))] obs)
  | _ => throw "QC: arity"

def dispatch (op : String) (args obs : List String) : P String :=
  match op with
  | "Q1" => opQ1 args obs
  | "QC" => opQC args obs
  | _ => throw s!"unknown op {op}"

end Fxp.Ops
