import FxpVerif.Gen.Sizing
import FxpVerif.Model.Carrier
import FxpVerif.Props.C07
import FxpVerif.Props.C09
import FxpVerif.Props.C15
import FxpVerif.Props.C19
import FxpVerif.Props.C18
import FxpVerif.Props.C14
import FxpVerif.Props.C20
import FxpVerif.Props.C03
import FxpVerif.Model.Resize
import FxpVerif.Model.Infer
/-!
# Source tie: the definitions generated from `fxpmath/functions.py` are the rules the theorems speak about

`FxpVerif/Gen/Sizing.lean` is *generated* from the Python source by `harness/srcgen.py` on every run of a check
(the committed copy is the translation of the validated tree; when the current source translates to a different
text, this file is re-checked against the new text with `lake env lean`).  Each theorem below is a proof
obligation about the generated definitions:

* `*_size`   — the generated `optimal_size` of an operator *is* the model's growth rule (`optimalSize`, `sumFmt`,
               `prodFmt`, `dotFmt`), so every theorem of C07 / C09 / C15 about the model's format is a theorem about
               the format the source computes;
* `sizing_*` — the generated `_get_sizing` policies are the model's `sizing` (C08);
* `needs_pyint`, `mul_needs_pyint` — the generated carrier rule is *at least as cautious* as the rule proved safe in
               `Props/C19.lean` (a more cautious rule is still safe: Python integers are exact), so
               `add_path_exact` / `mul_path_exact` / `mod_path_exact` transfer (`C19.add_path_exact_of_rule` …).

The proofs are deliberately a tactic cascade that does not depend on the exact shape of the generated terms, so a
harmless rewrite of the Python rule (reordered sum, `1 + max(..)`, a renamed local) still proves.
-/
namespace Fxp.Gen.Tie
open Fxp

/-- the 4-tuple `(signed, n_word, n_int, n_frac)` the Python code builds from a `(signed, n_int, n_frac)` rule. -/
def sz (t : Bool × Int × Int) : Bool × Int × Int × Int := (t.1, bsig t.1 + t.2.1 + t.2.2, t.2.1, t.2.2)

/-- the 4-tuple of a model format. -/
def fmtT (g : Fmt) : Bool × Int × Int × Int := (g.signed, (g.nword : Int), g.nint, g.nfrac)

/-- one component of `generated tuple = model tuple`: case split on the sign bits, linear arithmetic. -/
macro "tie_comp" : tactic => `(tactic|
  first
  | rfl
  | (simp only [bsig, Fmt.nint] <;> (repeat' split) <;> simp_all <;> omega)
  | (simp only [bsig, Fmt.nint] <;> (repeat' split) <;> omega)
  | (simp [bsig, Fmt.nint] <;> omega)
  | (simp [bsig, Fmt.nint]; done)
  | (simp [bsig, Fmt.nint, Bool.or_comm, Bool.and_comm, Bool.or_assoc, Bool.and_assoc]; done)
  | (grind [bsig, Fmt.nint]))

/-- closes `generated tuple = model tuple` goals componentwise. -/
macro "tie_tac" : tactic => `(tactic|
  (intros
   first
   | rfl
   | (refine Prod.ext ?_ (Prod.ext ?_ (Prod.ext ?_ ?_)) <;> tie_comp)))

theorem add_size (x y : Fmt) :
    Gen.addSize x.signed x.nword x.nint x.nfrac y.signed y.nword y.nint y.nfrac = sz (optimalSize .add x y) := by
  unfold Gen.addSize sz optimalSize; tie_tac

theorem sub_size (x y : Fmt) :
    Gen.subSize x.signed x.nword x.nint x.nfrac y.signed y.nword y.nint y.nfrac = sz (optimalSize .sub x y) := by
  unfold Gen.subSize sz optimalSize; tie_tac

theorem mul_size (x y : Fmt) :
    Gen.mulSize x.signed x.nword x.nint x.nfrac y.signed y.nword y.nint y.nfrac = sz (optimalSize .mul x y) := by
  unfold Gen.mulSize sz optimalSize; tie_tac

theorem floordiv_size (x y : Fmt) :
    Gen.floordivSize x.signed x.nword x.nint x.nfrac y.signed y.nword y.nint y.nfrac = sz (optimalSize .floordiv x y) := by
  unfold Gen.floordivSize sz optimalSize; tie_tac

theorem truediv_size (x y : Fmt) :
    Gen.truedivSize x.signed x.nword x.nint x.nfrac y.signed y.nword y.nint y.nfrac = sz (optimalSize .truediv x y) := by
  unfold Gen.truedivSize sz optimalSize; tie_tac

theorem mod_size (x y : Fmt) :
    Gen.modSize x.signed x.nword x.nint x.nfrac y.signed y.nword y.nint y.nfrac = sz (optimalSize .mod x y) := by
  unfold Gen.modSize sz optimalSize; tie_tac

theorem sum_size (f : Fmt) (k : Nat) :
    Gen.sumSize f.signed f.nword f.nint f.nfrac k = fmtT (sumFmt f k) := by
  unfold Gen.sumSize fmtT sumFmt; tie_tac

theorem cumsum_size (f : Fmt) (k : Nat) :
    Gen.cumsumSize f.signed f.nword f.nint f.nfrac k = fmtT (sumFmt f k) := by
  unfold Gen.cumsumSize fmtT sumFmt; tie_tac

theorem trace_size (f : Fmt) (k : Nat) :
    Gen.traceSize f.signed f.nword f.nint f.nfrac k = fmtT (sumFmt f k) := by
  unfold Gen.traceSize fmtT sumFmt; tie_tac

theorem prod_size (f : Fmt) (k : Nat) :
    Gen.prodSize f.signed f.nword f.nint f.nfrac k = fmtT (prodFmt f k) := by
  unfold Gen.prodSize fmtT prodFmt; tie_tac

theorem cumprod_word_nonneg (f : Fmt) (k : Nat) (hk : 1 ≤ k) :
    0 ≤ max ((f.nword : Int) + cumprodFrac f k - f.nfrac) ((k : Int) * f.nword + cumprodFrac f k - k * f.nfrac) := by
  unfold cumprodFrac
  have hk' : (1 : Int) ≤ k := by exact_mod_cast hk
  split
  · rename_i h
    have : 0 ≤ ((k : Int) - 1) * f.nfrac := Int.mul_nonneg (by omega) h
    have e : (f.nword : Int) + (k : Int) * f.nfrac - f.nfrac = f.nword + ((k : Int) - 1) * f.nfrac := by ring
    exact le_trans (by rw [e]; omega) (le_max_left _ _)
  · exact le_trans (by omega) (le_max_left _ _)

theorem cumprod_size (f : Fmt) (k : Nat) (hk : 1 ≤ k) :
    Gen.cumprodSize f.signed f.nword f.nint f.nfrac k = fmtT (cumprodFmt f k) := by
  have h0 := cumprod_word_nonneg f k hk
  unfold Gen.cumprodSize fmtT cumprodFmt
  have hF : (if decide (f.nfrac ≥ 0) = true then (k : Int) * f.nfrac else f.nfrac) = cumprodFrac f k := by
    unfold cumprodFrac; simp
  simp only [hF, Fmt.nint, Int.toNat_of_nonneg h0]
  refine Prod.ext rfl (Prod.ext ?_ (Prod.ext ?_ rfl)) <;> simp <;> ring_nf

theorem dot_size (x y : Fmt) (k : Nat) :
    Gen.dotSize x.signed x.nword x.nint x.nfrac y.signed y.nword y.nint y.nfrac k = fmtT (dotFmt x y k) := by
  unfold Gen.dotSize fmtT dotFmt; tie_tac

theorem sizing_same (op : BinOp) (x y : Fmt) :
    Gen.getSizing_same x.signed x.nword x.nint x.nfrac y.signed y.nword y.nint y.nfrac = sz (sizing .same op x y) := by
  unfold Gen.getSizing_same sz sizing; tie_tac

theorem sizing_largest (op : BinOp) (x y : Fmt) :
    Gen.getSizing_largest x.signed x.nword x.nint x.nfrac y.signed y.nword y.nint y.nfrac = sz (sizing .largest op x y) := by
  unfold Gen.getSizing_largest sz sizing; tie_tac

theorem sizing_smallest (op : BinOp) (x y : Fmt) :
    Gen.getSizing_smallest x.signed x.nword x.nint x.nfrac y.signed y.nword y.nint y.nfrac = sz (sizing .smallest op x y) := by
  unfold Gen.getSizing_smallest sz sizing; tie_tac

/-- `sizing='optimal'` hands the operator's own rule through (signed, n_int, n_frac; the word is recomputed). -/
theorem sizing_optimal (x y : Fmt) (s : Bool) (w i f : Int) :
    Gen.getSizing_optimal x.signed x.nword x.nint x.nfrac y.signed y.nword y.nint y.nfrac s w i f = sz (s, i, f) := by
  unfold Gen.getSizing_optimal sz; tie_tac

/-- the generated carrier rule of add/sub/mod is at least as cautious as the rule proved safe in C19. -/
theorem needs_pyint (x y : Fmt) (F : Int) (h : addNeedsPyInt x y F = true) :
    Gen.needsPyInt x.signed x.nword x.nint x.nfrac y.signed y.nword y.nint y.nfrac F = true := by
  unfold addNeedsPyInt addBits at h
  unfold Gen.needsPyInt
  cases hx : x.signed <;> cases hy : y.signed <;> simp_all <;> omega

/-- the generated carrier rule of mul is at least as cautious as the rule proved safe in C19. -/
theorem mul_needs_pyint (x y : Fmt) (F : Int) (h : _root_.Fxp.mulNeedsPyInt x y F = true) :
    Gen.mulNeedsPyInt x.signed x.nword x.nint x.nfrac y.signed y.nword y.nint y.nfrac F = true := by
  unfold _root_.Fxp.mulNeedsPyInt mulBits at h
  unfold Gen.mulNeedsPyInt
  cases hx : x.signed <;> cases hy : y.signed <;> simp_all <;> omega

/-! ### the exact scale-down route (a result landing in a format with fewer fraction bits than the exact result has)

The source scales the exact integer result down either as an exact rational (`_scale_down_exact`, rounded exactly by
`_round`) or by the float `2^-k`.  The float route is harmless exactly when the integer it scales is one a double holds
(`|p| ≤ 2^53`; a multiplication by a power of two is then exact and `_round` sees the exact value).  These obligations say that
whenever the source's own test sends a bit-dropping operation down the float route, every pair of in-range operand codes
gives such an integer — so C03's register statements (`C03.register_drop`) and C08's imposed formats hold on both routes. -/

theorem abs_le_pow_of_inRange (x : Fmt) (a : Int) (ha : x.InRange a) : |a| ≤ 2 ^ x.nword := by
  unfold Fmt.InRange Fmt.lo Fmt.hi at ha
  have h1 : (2:Int) ^ (x.nword - 1) ≤ 2 ^ x.nword := pow_le_pow_right₀ (by norm_num) (Nat.sub_le _ _)
  have h0 : (0:Int) < 2 ^ x.nword := by positivity
  cases hs : x.signed <;> simp [hs] at ha <;> rw [abs_le] <;> constructor <;> omega

/-- mul: the float route is taken with dropped bits only when the exact product of in-range codes is at most `2^53`. -/
theorem mul_exact_path (x y : Fmt) (F : Int) (hF : F < x.nfrac + y.nfrac)
    (h : Gen.mulExactPath x.signed x.nword x.nint x.nfrac y.signed y.nword y.nint y.nfrac F = false)
    (a b : Int) (ha : x.InRange a) (hb : y.InRange b) : |a * b| ≤ 2 ^ 53 := by
  unfold Gen.mulExactPath at h
  have hw : x.nword + y.nword ≤ 53 := by
    simp only [Bool.and_eq_false_iff, decide_eq_false_iff_not] at h
    rcases h with h | h <;> omega
  have h1 := abs_le_pow_of_inRange x a ha
  have h2 := abs_le_pow_of_inRange y b hb
  calc |a * b| = |a| * |b| := abs_mul a b
    _ ≤ 2 ^ x.nword * 2 ^ y.nword := mul_le_mul h1 h2 (abs_nonneg b) (by positivity)
    _ = 2 ^ (x.nword + y.nword) := by rw [pow_add]
    _ ≤ 2 ^ 53 := pow_le_pow_right₀ (by norm_num) hw

/-- aligned operand of a sum / difference: the code shifted to the finer of the two fraction lengths. -/
theorem aligned_le (x : Fmt) (a : Int) (ha : x.InRange a) (e : Nat) (hb : (x.nword : Int) + e ≤ 52) : |a * 2 ^ e| ≤ 2 ^ 52 := by
  have h1 := abs_le_pow_of_inRange x a ha
  have : |a * 2 ^ e| = |a| * 2 ^ e := by rw [abs_mul, abs_of_pos (by positivity : (0:Int) < 2 ^ e)]
  rw [this]
  calc |a| * 2 ^ e ≤ 2 ^ x.nword * 2 ^ e := mul_le_mul_of_nonneg_right h1 (by positivity)
    _ = 2 ^ (x.nword + e) := by rw [pow_add]
    _ ≤ 2 ^ 52 := pow_le_pow_right₀ (by norm_num) (by omega)

/-- add: the float route is taken with dropped bits only when the exact aligned sum of in-range codes is at most `2^53`. -/
theorem add_exact_path (x y : Fmt) (F : Int) (hF : F < max x.nfrac y.nfrac)
    (h : Gen.addExactPath x.signed x.nword x.nint x.nfrac y.signed y.nword y.nint y.nfrac F = false)
    (a b : Int) (ha : x.InRange a) (hb : y.InRange b) :
    |a * 2 ^ (max x.nfrac y.nfrac - x.nfrac).toNat + b * 2 ^ (max x.nfrac y.nfrac - y.nfrac).toNat| ≤ 2 ^ 53 := by
  unfold Gen.addExactPath at h
  simp only [Bool.and_eq_false_iff, decide_eq_false_iff_not] at h
  have hx := aligned_le x a ha (max x.nfrac y.nfrac - x.nfrac).toNat (by rcases h with h | h <;> omega)
  have hy := aligned_le y b hb (max x.nfrac y.nfrac - y.nfrac).toNat (by rcases h with h | h <;> omega)
  have := abs_add_le (a * 2 ^ (max x.nfrac y.nfrac - x.nfrac).toNat) (b * 2 ^ (max x.nfrac y.nfrac - y.nfrac).toNat)
  have e : (2:Int) ^ 53 = 2 ^ 52 + 2 ^ 52 := by norm_num
  omega

/-- sub: likewise for the exact aligned difference. -/
theorem sub_exact_path (x y : Fmt) (F : Int) (hF : F < max x.nfrac y.nfrac)
    (h : Gen.subExactPath x.signed x.nword x.nint x.nfrac y.signed y.nword y.nint y.nfrac F = false)
    (a b : Int) (ha : x.InRange a) (hb : y.InRange b) :
    |a * 2 ^ (max x.nfrac y.nfrac - x.nfrac).toNat - b * 2 ^ (max x.nfrac y.nfrac - y.nfrac).toNat| ≤ 2 ^ 53 := by
  unfold Gen.subExactPath at h
  simp only [Bool.and_eq_false_iff, decide_eq_false_iff_not] at h
  have hx := aligned_le x a ha (max x.nfrac y.nfrac - x.nfrac).toNat (by rcases h with h | h <;> omega)
  have hy := aligned_le y b hb (max x.nfrac y.nfrac - y.nfrac).toNat (by rcases h with h | h <;> omega)
  have := abs_sub (a * 2 ^ (max x.nfrac y.nfrac - x.nfrac).toNat) (b * 2 ^ (max x.nfrac y.nfrac - y.nfrac).toNat)
  have e : (2:Int) ^ 53 = 2 ^ 52 + 2 ^ 52 := by norm_num
  omega

/-- `x // y` (D50) aligns both operands to fraction length 0 — a code with a negative fraction length is multiplied by `2^-n_frac` —
under the carrier rule of add/sub/mod evaluated at `n_frac = 0`: whenever that rule keeps the 64-bit integer types, the aligned code
of every in-range operand code fits them (`≤ 2^61`), for the dividend and for the divisor alike. -/
theorem floordiv_align_fits (x y : Fmt)
    (h : Gen.needsPyInt x.signed x.nword x.nint x.nfrac y.signed y.nword y.nint y.nfrac 0 = false)
    (a b : Int) (ha : x.InRange a) (hb : y.InRange b) :
    |a * 2 ^ (-x.nfrac).toNat| ≤ 2 ^ 61 ∧ |b * 2 ^ (-y.nfrac).toNat| ≤ 2 ^ 61 := by
  unfold Gen.needsPyInt at h
  simp only [Bool.or_eq_false_iff, Bool.and_eq_false_iff, decide_eq_false_iff_not] at h
  obtain ⟨⟨_, h63⟩, _⟩ := h
  have bound : ∀ (z : Fmt) (c : Int), z.InRange c → (z.nword : Int) + (-z.nfrac).toNat ≤ 61 → |c * 2 ^ (-z.nfrac).toNat| ≤ 2 ^ 61 := by
    intro z c hc hz
    have h1 := abs_le_pow_of_inRange z c hc
    have : |c * 2 ^ (-z.nfrac).toNat| = |c| * 2 ^ (-z.nfrac).toNat := by
      rw [abs_mul, abs_of_pos (by positivity : (0:Int) < 2 ^ (-z.nfrac).toNat)]
    rw [this]
    calc |c| * 2 ^ (-z.nfrac).toNat ≤ 2 ^ z.nword * 2 ^ (-z.nfrac).toNat := mul_le_mul_of_nonneg_right h1 (by positivity)
      _ = 2 ^ (z.nword + (-z.nfrac).toNat) := by rw [pow_add]
      _ ≤ 2 ^ 61 := pow_le_pow_right₀ (by norm_num) (by omega)
  exact ⟨bound x a ha (by omega), bound y b hb (by omega)⟩

/-! ## Rules of `fxpmath/objects.py` -/

theorem toNat_pred (n : Nat) : ((n : Int) - 1).toNat = n - 1 := by omega

/-- the limits every store clamps / wraps to (`set_val`) are the model's `hi` / `lo`. -/
theorem store_limits (f : Fmt) : Gen.storeLimits f.signed f.nword f.nint f.nfrac = (f.hi, f.lo) := by
  unfold Gen.storeLimits Fmt.hi Fmt.lo
  refine Prod.ext ?_ ?_ <;> simp only [] <;> cases f.signed <;> simp [toNat_pred] <;> omega

/-- the limits `resize` reports (as `upper` / `lower`, after scaling by `2^-n_frac`) are the model's `hi` / `lo`. -/
theorem resize_limits (f : Fmt) : Gen.resizeLimits f.signed f.nword f.nint f.nfrac = (f.hi, f.lo) := by
  unfold Gen.resizeLimits Fmt.hi Fmt.lo
  refine Prod.ext ?_ ?_ <;> simp only [] <;> cases f.signed <;> simp [toNat_pred] <;> omega

/-- `n_int = n_word - n_frac - sign bit`. -/
theorem nint_of (f : Fmt) : Gen.nintOf f.signed f.nword f.nint f.nfrac = f.nint := by
  unfold Gen.nintOf Fmt.nint; cases f.signed <;> simp <;> omega

/-- the extended-precision indicator is raised exactly for words of 64 bits and more (C18 `ext_flag_iff`). -/
theorem extended_prec (f : Fmt) : Gen.extendedPrec f.signed f.nword f.nint f.nfrac = C18.extFlag f := by
  unfold Gen.extendedPrec C18.extFlag; simp

/-- expand-mode `>>`: the fraction grows by the number of bits that would be lost (the `e` of `rshiftExpand`). -/
theorem rshift_expansion (cs : List Int) (n : Nat) :
    (match minPow2 cs with
     | some t => Gen.rshiftExpansion n t true
     | none => Gen.rshiftExpansion n 0 false) =
    ((match minPow2 cs with
      | some t => if t < n then n - t else 0
      | none => 0 : Nat) : Int) := by
  unfold Gen.rshiftExpansion
  cases minPow2 cs with
  | none => simp
  | some t => simp only []; split <;> simp_all <;> omega

/-- expand-mode `<<`: the word grows to `max(n_word, largest bit length + sign bit + n)` (the `w` of `lshiftExpand`). -/
theorem lshift_word (f : Fmt) (cs : List Int) (n : Nat) :
    Gen.lshiftWord f.signed f.nword f.nint f.nfrac (maxInt (cs.map bitlen)) n =
      max (f.nword : Int) (maxInt (cs.map bitlen) + lshiftExpand.bsigI f.signed + n) := by
  unfold Gen.lshiftWord lshiftExpand.bsigI; cases f.signed <;> simp


/-- the strings the `Config.rounding` setter accepts are exactly the five rounding rules of the model (C20: anything else is rejected). -/
theorem valid_rounding (s : String) : Gen.valid_rounding s = C20.validRounding s := by
  unfold Gen.valid_rounding C20.validRounding
  simp only [List.mem_cons, List.mem_nil_iff, or_false, List.elem_eq_mem, decide_eq_decide]
  constructor <;> (intro h; rcases h with h | h | h | h | h <;> simp [h])

/-- the strings the `Config.overflow` setter accepts are exactly the two overflow rules of the model. -/
theorem valid_overflow (s : String) : Gen.valid_overflow s = C20.validOverflow s := by
  unfold Gen.valid_overflow C20.validOverflow
  simp only [List.mem_cons, List.mem_nil_iff, or_false, List.elem_eq_mem, decide_eq_decide]


/-! ## Elementwise kernels of `fxpmath/utils.py` -/

/-- `utils.wrap` as written (mask with `&`, sign-extend with `|`) is the model's `wrap` — for every word length and every integer. -/
theorem wrap_elem (f : Fmt) (k : Int) : Gen.wrapElem f.signed f.nword k = wrap f k := by
  rw [← C03.wrapBits_eq_wrap]
  unfold Gen.wrapElem C03.wrapBits
  first
  | (simp [toNat_pred]; done)
  | (cases f.signed <;> simp [toNat_pred])

/-- `utils.clip` is the model's `sat` (`max(val_min, min(val_max, x))`) when called with the format's limits. -/
theorem clip_elem (f : Fmt) (k : Int) : Gen.clipElem k f.lo f.hi = sat f k := by
  unfold Gen.clipElem sat
  first
  | rfl
  | (simp; done)
  | omega

theorem int_clip_elem (f : Fmt) (k : Int) : Gen.intClipElem k f.lo f.hi = sat f k := by
  unfold Gen.intClipElem sat
  first
  | rfl
  | (simp; done)
  | omega


/-! ## Size resolution of `Fxp.resize`: one generated definition per pattern of given arguments, each equal to the model's `resizeMeta` -/

/-- the size attributes as the tuple the generated definitions return. -/
def metaOf (t : Bool × Int × Int × Int) : Meta := ⟨t.1, t.2.1, t.2.2.1, t.2.2.2⟩

macro "resize_tac" : tactic => `(tactic|
  (simp only [resizeMeta, resolveNInt, storeSizes, signBit, metaOf, Option.getD, Option.isSome, Bool.or_false, Bool.false_or,
              Bool.false_eq_true, if_false, Option.some.injEq, Meta.mk.injEq] <;>
   first
   | (refine ⟨?_, ?_, ?_, ?_⟩ <;> first | rfl | omega | (simp; done) | (split <;> omega))
   | (simp <;> omega)
   | omega))

theorem resize_sizes_0000 (old : Meta) (s : Bool) (w f i : Int) :
    resizeMeta old { signed := none, nword := none, nfrac := none, nint := none } =
      some (metaOf (Gen.resizeSizes_0000 old.signed old.nword old.nint old.nfrac s w f i)) := by
  unfold Gen.resizeSizes_0000; resize_tac

theorem resize_sizes_0001 (old : Meta) (s : Bool) (w f i : Int) :
    resizeMeta old { signed := none, nword := none, nfrac := none, nint := some i } =
      some (metaOf (Gen.resizeSizes_0001 old.signed old.nword old.nint old.nfrac s w f i)) := by
  unfold Gen.resizeSizes_0001; resize_tac

theorem resize_sizes_0010 (old : Meta) (s : Bool) (w f i : Int) :
    resizeMeta old { signed := none, nword := none, nfrac := some f, nint := none } =
      some (metaOf (Gen.resizeSizes_0010 old.signed old.nword old.nint old.nfrac s w f i)) := by
  unfold Gen.resizeSizes_0010; resize_tac

theorem resize_sizes_0011 (old : Meta) (s : Bool) (w f i : Int) :
    resizeMeta old { signed := none, nword := none, nfrac := some f, nint := some i } =
      some (metaOf (Gen.resizeSizes_0011 old.signed old.nword old.nint old.nfrac s w f i)) := by
  unfold Gen.resizeSizes_0011; resize_tac

theorem resize_sizes_0100 (old : Meta) (s : Bool) (w f i : Int) :
    resizeMeta old { signed := none, nword := some w, nfrac := none, nint := none } =
      some (metaOf (Gen.resizeSizes_0100 old.signed old.nword old.nint old.nfrac s w f i)) := by
  unfold Gen.resizeSizes_0100; resize_tac

theorem resize_sizes_0101 (old : Meta) (s : Bool) (w f i : Int) :
    resizeMeta old { signed := none, nword := some w, nfrac := none, nint := some i } =
      some (metaOf (Gen.resizeSizes_0101 old.signed old.nword old.nint old.nfrac s w f i)) := by
  unfold Gen.resizeSizes_0101; resize_tac

theorem resize_sizes_0110 (old : Meta) (s : Bool) (w f i : Int) :
    resizeMeta old { signed := none, nword := some w, nfrac := some f, nint := none } =
      some (metaOf (Gen.resizeSizes_0110 old.signed old.nword old.nint old.nfrac s w f i)) := by
  unfold Gen.resizeSizes_0110; resize_tac

theorem resize_sizes_0111 (old : Meta) (s : Bool) (w f i : Int) :
    resizeMeta old { signed := none, nword := some w, nfrac := some f, nint := some i } =
      some (metaOf (Gen.resizeSizes_0111 old.signed old.nword old.nint old.nfrac s w f i)) := by
  unfold Gen.resizeSizes_0111; resize_tac

theorem resize_sizes_1000 (old : Meta) (s : Bool) (w f i : Int) :
    resizeMeta old { signed := some s, nword := none, nfrac := none, nint := none } =
      some (metaOf (Gen.resizeSizes_1000 old.signed old.nword old.nint old.nfrac s w f i)) := by
  unfold Gen.resizeSizes_1000; resize_tac

theorem resize_sizes_1001 (old : Meta) (s : Bool) (w f i : Int) :
    resizeMeta old { signed := some s, nword := none, nfrac := none, nint := some i } =
      some (metaOf (Gen.resizeSizes_1001 old.signed old.nword old.nint old.nfrac s w f i)) := by
  unfold Gen.resizeSizes_1001; resize_tac

theorem resize_sizes_1010 (old : Meta) (s : Bool) (w f i : Int) :
    resizeMeta old { signed := some s, nword := none, nfrac := some f, nint := none } =
      some (metaOf (Gen.resizeSizes_1010 old.signed old.nword old.nint old.nfrac s w f i)) := by
  unfold Gen.resizeSizes_1010; resize_tac

theorem resize_sizes_1011 (old : Meta) (s : Bool) (w f i : Int) :
    resizeMeta old { signed := some s, nword := none, nfrac := some f, nint := some i } =
      some (metaOf (Gen.resizeSizes_1011 old.signed old.nword old.nint old.nfrac s w f i)) := by
  unfold Gen.resizeSizes_1011; resize_tac

theorem resize_sizes_1100 (old : Meta) (s : Bool) (w f i : Int) :
    resizeMeta old { signed := some s, nword := some w, nfrac := none, nint := none } =
      some (metaOf (Gen.resizeSizes_1100 old.signed old.nword old.nint old.nfrac s w f i)) := by
  unfold Gen.resizeSizes_1100; resize_tac

theorem resize_sizes_1101 (old : Meta) (s : Bool) (w f i : Int) :
    resizeMeta old { signed := some s, nword := some w, nfrac := none, nint := some i } =
      some (metaOf (Gen.resizeSizes_1101 old.signed old.nword old.nint old.nfrac s w f i)) := by
  unfold Gen.resizeSizes_1101; resize_tac

theorem resize_sizes_1110 (old : Meta) (s : Bool) (w f i : Int) :
    resizeMeta old { signed := some s, nword := some w, nfrac := some f, nint := none } =
      some (metaOf (Gen.resizeSizes_1110 old.signed old.nword old.nint old.nfrac s w f i)) := by
  unfold Gen.resizeSizes_1110; resize_tac

theorem resize_sizes_1111 (old : Meta) (s : Bool) (w f i : Int) :
    resizeMeta old { signed := some s, nword := some w, nfrac := some f, nint := some i } =
      some (metaOf (Gen.resizeSizes_1111 old.signed old.nword old.nint old.nfrac s w f i)) := by
  unfold Gen.resizeSizes_1111; resize_tac


/-! ## The constructor's size reconciliation (`_init_size`) when word and fraction are both determined by the arguments -/

/-- the format built from `(signed, n_word, n_frac)`; `none` when the word is not positive (the constructor raises). -/
def fmtOfSizes (t : Bool × Int × Int) : Option Fmt :=
  if t.2.1 < 0 ∨ (t.1 = true ∧ t.2.1 = 0) then none else some ⟨t.1, t.2.1.toNat, t.2.2⟩

macro "init_tac" : tactic => `(tactic|
  (simp only [inferFmt, fmtOfSizes, Option.getD] <;>
   first
   | rfl
   | (cases ‹Bool› <;> simp <;> done)
   | (simp; done)
   | (cases ‹Bool› <;> simp <;> omega)))

theorem init_sizes_0110 (s : Bool) (w f i : Int) (vals : List Rat) :
    inferFmt (none) (some w) (some f) (none) vals = fmtOfSizes (Gen.initSizes_0110 s w f i) := by
  unfold Gen.initSizes_0110; init_tac

theorem init_sizes_0101 (s : Bool) (w f i : Int) (vals : List Rat) :
    inferFmt (none) (some w) (none) (some i) vals = fmtOfSizes (Gen.initSizes_0101 s w f i) := by
  unfold Gen.initSizes_0101; init_tac

theorem init_sizes_0011 (s : Bool) (w f i : Int) (vals : List Rat) :
    inferFmt (none) (none) (some f) (some i) vals = fmtOfSizes (Gen.initSizes_0011 s w f i) := by
  unfold Gen.initSizes_0011; init_tac

theorem init_sizes_0111 (s : Bool) (w f i : Int) (vals : List Rat) :
    inferFmt (none) (some w) (some f) (some i) vals = fmtOfSizes (Gen.initSizes_0111 s w f i) := by
  unfold Gen.initSizes_0111; init_tac

theorem init_sizes_1110 (s : Bool) (w f i : Int) (vals : List Rat) :
    inferFmt (some s) (some w) (some f) (none) vals = fmtOfSizes (Gen.initSizes_1110 s w f i) := by
  unfold Gen.initSizes_1110; init_tac

theorem init_sizes_1101 (s : Bool) (w f i : Int) (vals : List Rat) :
    inferFmt (some s) (some w) (none) (some i) vals = fmtOfSizes (Gen.initSizes_1101 s w f i) := by
  unfold Gen.initSizes_1101; init_tac

theorem init_sizes_1011 (s : Bool) (w f i : Int) (vals : List Rat) :
    inferFmt (some s) (none) (some f) (some i) vals = fmtOfSizes (Gen.initSizes_1011 s w f i) := by
  unfold Gen.initSizes_1011; init_tac

theorem init_sizes_1111 (s : Bool) (w f i : Int) (vals : List Rat) :
    inferFmt (some s) (some w) (some f) (some i) vals = fmtOfSizes (Gen.initSizes_1111 s w f i) := by
  unfold Gen.initSizes_1111; init_tac


/-! ## `Fxp._overflow_action`: which flags, which kernel -/

/-- overflow is raised iff the rounded element exceeds the maximum, underflow iff it is below the minimum — two independent
conditions (an `elif` between them would make the second depend on the first). -/
theorem overflow_flags (f : Fmt) (k : Int) : Gen.overflowFlags k f.lo f.hi = arithFlags f k := by
  unfold Gen.overflowFlags arithFlags
  refine Prod.ext ?_ ?_ <;> simp only [] <;>
    first
    | rfl
    | (simp only [decide_eq_decide]; constructor <;> intro h <;> omega)
    | (simp; done)
    | (simp <;> omega)

/-- `config.overflow == 'saturate'` clamps with the format's limits: the model's `sat`. -/
theorem overflow_action_saturate (f : Fmt) (k : Int) :
    Gen.overflowAction_saturate f.signed f.nword f.nint f.nfrac k f.lo f.hi = ovf .saturate f k := by
  show _ = sat f k
  unfold Gen.overflowAction_saturate sat
  first
  | rfl
  | (simp; done)
  | omega

/-- `config.overflow == 'wrap'` is `utils.wrap` with the object's signedness and word: the model's `wrap`. -/
theorem overflow_action_wrap (f : Fmt) (k : Int) :
    Gen.overflowAction_wrap f.signed f.nword f.nint f.nfrac k f.lo f.hi = ovf .wrap f k := by
  show _ = wrap f k
  rw [← C03.wrapBits_eq_wrap]
  unfold Gen.overflowAction_wrap C03.wrapBits
  first
  | (simp [toNat_pred]; done)
  | (cases f.signed <;> simp [toNat_pred])


/-! ## `Fxp._round`: each configured rule calls the NumPy function of the same name (whose meaning is the model's `roundR`) -/

/-- the NumPy function the model's rounding rule stands for (`np.around` = half to even, `np.fix` = `np.trunc` = toward zero). -/
def npRoundName : Rounding → String
  | .trunc => "trunc" | .fix => "fix" | .floor => "floor" | .ceil => "ceil" | .around => "around"

/-- every rounding rule of the configuration is dispatched to the NumPy function of its own name, and to nothing else. -/
theorem round_table (r : Rounding) : (npRoundName r, npRoundName r) ∈ Gen.roundTable ∧
    ∀ p ∈ Gen.roundTable, p.1 = p.2 ∧ ∃ r' : Rounding, p.1 = npRoundName r' := by
  unfold Gen.roundTable
  constructor
  · cases r <;> simp [npRoundName]
  · intro p hp
    simp only [List.mem_cons, List.mem_nil_iff, or_false] at hp
    rcases hp with h | h | h | h | h <;> subst h <;> refine ⟨rfl, ?_⟩ <;>
      first | exact ⟨.around, rfl⟩ | exact ⟨.floor, rfl⟩ | exact ⟨.ceil, rfl⟩ | exact ⟨.fix, rfl⟩ | exact ⟨.trunc, rfl⟩


/-- the python function that rounds an exact rational the way each rule of the model does: `round` (nearest, ties to the even
integer — `Fraction.__round__`), `math.floor`, `math.ceil`, `math.trunc` (toward zero, which is what `fix` and `trunc` both mean). -/
def pyExactRoundName : Rounding → String
  | .trunc => "math.trunc" | .fix => "math.trunc" | .floor => "math.floor" | .ceil => "math.ceil" | .around => "round"

/-- the exact-rational branch of `_round` (results that lose fraction bits, D41) applies to every rounding rule the python function that
computes the model's `roundR` for it, and the table has no other entry. -/
theorem round_rational_table (r : Rounding) : (npRoundName r, pyExactRoundName r) ∈ Gen.roundRationalTable ∧
    ∀ p ∈ Gen.roundRationalTable, ∃ r' : Rounding, p = (npRoundName r', pyExactRoundName r') := by
  unfold Gen.roundRationalTable
  constructor
  · cases r <;> simp [npRoundName, pyExactRoundName]
  · intro p hp
    simp only [List.mem_cons, List.mem_nil_iff, or_false] at hp
    rcases hp with h | h | h | h | h <;> subst h <;>
      first | exact ⟨.around, rfl⟩ | exact ⟨.floor, rfl⟩ | exact ⟨.ceil, rfl⟩ | exact ⟨.fix, rfl⟩ | exact ⟨.trunc, rfl⟩


/-! ## The property theorems, restated about the generated rules

`_function_over_one_var` / `_function_over_two_vars` build the result with `Fxp(val, signed=, n_int=, n_frac=)`
from the tuple `optimal_size`; `fmtOfTuple` is that construction (`mkFmt`).  The theorems below are the "never
overflows" halves of C07 / C09 / C15 and the "no silent wrap" of C19 with the *generated* rule in the statement. -/

/-- the format `Fxp(val, signed=t.1, n_int=t.2.2.1, n_frac=t.2.2.2)` builds (`None` when the word is not positive). -/
def fmtOfTuple (t : Bool × Int × Int × Int) : Option Fmt := mkFmt t.1 t.2.2.1 t.2.2.2

theorem fmtOfTuple_sz (op : BinOp) (x y : Fmt) : fmtOfTuple (sz (optimalSize op x y)) = resultFmt .optimal op x y := by
  unfold fmtOfTuple sz resultFmt sizing; rfl

theorem fmtOfTuple_fmtT (g : Fmt) (h : 0 < g.nword) : fmtOfTuple (fmtT g) = some g := by
  unfold fmtOfTuple fmtT mkFmt
  have e : bsig g.signed + g.nint + g.nfrac = (g.nword : Int) := by unfold bsig Fmt.nint; split <;> omega
  simp only [e]
  have h1 : ¬ ((g.nword : Int) < 0 ∨ (g.signed = true ∧ (g.nword : Int) = 0)) := by omega
  rw [if_neg h1]
  simp

theorem add_fits_src (x y : Fmt) (hx : x.WF) (hy : y.WF) (a b : Int) (ha : x.InRange a) (hb : y.InRange b) (t : Fmt)
    (ht : fmtOfTuple (Gen.addSize x.signed x.nword x.nint x.nfrac y.signed y.nword y.nint y.nfrac) = some t) :
    t.InRange (C07.sumCode x y a b) := by
  rw [add_size, fmtOfTuple_sz] at ht
  exact C07.add_fits x y hx hy a b ha hb t ht

theorem sub_fits_src (x y : Fmt) (hx : x.WF) (hy : y.WF) (a b : Int) (ha : x.InRange a) (hb : y.InRange b) (t : Fmt)
    (ht : fmtOfTuple (Gen.subSize x.signed x.nword x.nint x.nfrac y.signed y.nword y.nint y.nfrac) = some t)
    (hsign : (x.signed || y.signed) = true ∨ 0 ≤ C07.diffCode x y a b) : t.InRange (C07.diffCode x y a b) := by
  rw [sub_size, fmtOfTuple_sz] at ht
  exact C07.sub_fits x y hx hy a b ha hb t ht hsign

theorem mul_fits_src (x y : Fmt) (hx : x.WF) (hy : y.WF) (a b : Int) (ha : x.InRange a) (hb : y.InRange b) (t : Fmt)
    (ht : fmtOfTuple (Gen.mulSize x.signed x.nword x.nint x.nfrac y.signed y.nword y.nint y.nfrac) = some t) :
    t.InRange (a * b) := by
  rw [mul_size, fmtOfTuple_sz] at ht
  exact C07.mul_fits x y hx hy a b ha hb t ht

theorem truediv_fits_src (x y : Fmt) (hx : x.WF) (hy : y.WF) (a b : Int) (ha : x.InRange a) (hb : y.InRange b) (hb0 : b ≠ 0)
    (t : Fmt) (ht : fmtOfTuple (Gen.truedivSize x.signed x.nword x.nint x.nfrac y.signed y.nword y.nint y.nfrac) = some t) :
    t.InRange ⌊C09.Q t x y a b⌋ := by
  rw [truediv_size, fmtOfTuple_sz] at ht
  exact C09.truediv_fits x y hx hy a b ha hb hb0 t ht

/-- **C09 (`//` never overflows) about the source's own sizing rule**, for every pair of operand formats. -/
theorem floordiv_fits_src (x y : Fmt) (hx : x.WF) (hy : y.WF) (a b : Int) (ha : x.InRange a) (hb : y.InRange b) (hb0 : b ≠ 0)
    (t : Fmt) (ht : fmtOfTuple (Gen.floordivSize x.signed x.nword x.nint x.nfrac y.signed y.nword y.nint y.nfrac) = some t) :
    t.InRange ⌊valueOf x a / valueOf y b⌋ := by
  rw [floordiv_size, fmtOfTuple_sz] at ht
  exact C09.floordiv_fits x y hx hy a b ha hb hb0 t ht

/-- … and that format exists for every pair of operand formats (the source never refuses a floor division for want of a format). -/
theorem floordiv_fmt_src (x y : Fmt) (hx : x.WF) :
    ∃ t, fmtOfTuple (Gen.floordivSize x.signed x.nword x.nint x.nfrac y.signed y.nword y.nint y.nfrac) = some t := by
  rw [floordiv_size, fmtOfTuple_sz]
  obtain ⟨t, ht, _⟩ := C09.floordiv_fmt x y hx
  exact ⟨t, ht⟩

theorem sum_fits_src (f : Fmt) (hw : 0 < f.nword) (cs : List Int) (hne : cs ≠ []) (h : ∀ c ∈ cs, f.InRange c) (t : Fmt)
    (ht : fmtOfTuple (Gen.sumSize f.signed f.nword f.nint f.nfrac cs.length) = some t) : t.InRange (sumL cs) := by
  rw [sum_size, fmtOfTuple_fmtT _ (by unfold sumFmt; simp only; omega)] at ht
  cases ht
  exact C15.sum_fits f hw cs hne h

theorem prod_fits_src (f : Fmt) (hf : f.WF) (hw : 0 < f.nword) (cs : List Int) (hne : cs ≠ []) (h : ∀ c ∈ cs, f.InRange c) (t : Fmt)
    (ht : fmtOfTuple (Gen.prodSize f.signed f.nword f.nint f.nfrac cs.length) = some t) : t.InRange (prodL cs) := by
  have hl : 0 < cs.length := List.length_pos_iff.mpr hne
  rw [prod_size, fmtOfTuple_fmtT _ (by unfold prodFmt; simp only; exact Nat.mul_pos hl hw)] at ht
  cases ht
  exact C15.prod_fits f hf hw cs hne h

theorem dot_fits_src (x y : Fmt) (hx : x.WF) (hy : y.WF) (hpos : 0 < x.nword + y.nword) (as bs : List Int)
    (hlen : as.length = bs.length) (hne : as ≠ []) (ha : ∀ a ∈ as, x.InRange a) (hb : ∀ b ∈ bs, y.InRange b) (t : Fmt)
    (ht : fmtOfTuple (Gen.dotSize x.signed x.nword x.nint x.nfrac y.signed y.nword y.nint y.nfrac as.length) = some t) :
    t.InRange (dotL as bs) := by
  rw [dot_size, fmtOfTuple_fmtT _ (by unfold dotFmt; simp only; omega)] at ht
  cases ht
  exact C15.dot_fits x y hx hy hpos as bs hlen hne ha hb

/-- a rule at least as cautious as a safe rule is safe: Python integers are exact. -/
theorem path_exact_of_cautious (R M : Bool) (hRM : M = true → R = true) (x y : Fmt) (z : Int)
    (h : machineResult (machinePath M x y) z = some z) : machineResult (machinePath R x y) z = some z := by
  cases hR : R
  · have hM : M = false := by cases hm : M <;> simp_all
    rw [hM] at h; exact h
  · simp [machinePath, machineResult]

/-- **C19 (add/sub) about the source's own rule**: whatever carrier `_needs_python_int` selects, the aligned sum and
difference come out exact. -/
theorem add_path_exact_src (x y : Fmt) (hx : x.WF) (hy : y.WF) (a b : Int) (ha : x.InRange a) (hb : y.InRange b) :
    let R := Gen.needsPyInt x.signed x.nword x.nint x.nfrac y.signed y.nword y.nint y.nfrac (max x.nfrac y.nfrac)
    machineResult (machinePath R x y) (C07.sumCode x y a b) = some (C07.sumCode x y a b) ∧
    machineResult (machinePath R x y) (C07.diffCode x y a b) = some (C07.diffCode x y a b) := by
  intro R
  have h := C19.add_path_exact x y hx hy a b ha hb
  exact ⟨path_exact_of_cautious R _ (needs_pyint x y _) x y _ h.1, path_exact_of_cautious R _ (needs_pyint x y _) x y _ h.2⟩

/-- **C19 (mul) about the source's own rule**. -/
theorem mul_path_exact_src (x y : Fmt) (hx : x.WF) (hy : y.WF) (a b : Int) (ha : x.InRange a) (hb : y.InRange b) :
    machineResult (machinePath (Gen.mulNeedsPyInt x.signed x.nword x.nint x.nfrac y.signed y.nword y.nint y.nfrac (x.nfrac + y.nfrac)) x y)
      (a * b) = some (a * b) :=
  path_exact_of_cautious _ _ (mul_needs_pyint x y _) x y _ (C19.mul_path_exact x y hx hy a b ha hb)

/-! ## carrier selection of dot / matmul / prod (D70): the 64-bit route is taken only where it is exact -/

/-- a sum of `n` products of in-range codes is at most `n · 2^(n_x + n_y)` in magnitude. -/
theorem abs_dot_le (x y : Fmt) (as bs : List Int) (ha : ∀ a ∈ as, x.InRange a) (hb : ∀ b ∈ bs, y.InRange b) :
    |dotL as bs| ≤ (as.length : Int) * 2 ^ (x.nword + y.nword) := by
  unfold dotL
  rw [C15.sumL_eq]
  have hp : ∀ p ∈ List.zipWith (· * ·) as bs, -(2 ^ (x.nword + y.nword) : Int) ≤ p ∧ p ≤ 2 ^ (x.nword + y.nword) := by
    intro p hp
    obtain ⟨i, hi, rfl⟩ := List.mem_iff_getElem.mp hp
    simp only [List.getElem_zipWith]
    simp only [List.length_zipWith] at hi
    have h1 := abs_le_pow_of_inRange x _ (ha _ (List.getElem_mem (by omega : i < as.length)))
    have h2 := abs_le_pow_of_inRange y _ (hb _ (List.getElem_mem (by omega : i < bs.length)))
    have : |as[i] * bs[i]| ≤ 2 ^ (x.nword + y.nword) := by
      rw [abs_mul, pow_add]
      exact mul_le_mul h1 h2 (abs_nonneg _) (by positivity)
    exact abs_le.mp this
  obtain ⟨hl, hu⟩ := C15.sum_bounds _ _ _ hp
  have hlen : ((List.zipWith (· * ·) as bs).length : Int) ≤ as.length := by
    simp only [List.length_zipWith]; exact_mod_cast Nat.min_le_left _ _
  have hB : (0:Int) ≤ 2 ^ (x.nword + y.nword) := by positivity
  rw [abs_le]
  constructor <;> nlinarith

/-- the arithmetic content of the carrier rule of dot / matmul: with `clog2 n + n_x + n_y + max(shift, 0)` below 63 the rescaled sum
of products is at most `2^62`, and with it below 53 at most `2^52`. -/
theorem dot_bound (x y : Fmt) (F : Int) (as bs : List Int) (ha : ∀ a ∈ as, x.InRange a) (hb : ∀ b ∈ bs, y.InRange b) (N : Nat)
    (hN : (clog2 as.length : Int) + x.nword + y.nword + max (F - x.nfrac - y.nfrac) 0 ≤ N) :
    |dotL as bs| * 2 ^ (F - x.nfrac - y.nfrac).toNat ≤ 2 ^ N := by
  have hd := abs_dot_le x y as bs ha hb
  have hk : (as.length : Int) ≤ 2 ^ clog2 as.length := by exact_mod_cast C15.le_two_pow_clog2 as.length
  have he : ((F - x.nfrac - y.nfrac).toNat : Int) = max (F - x.nfrac - y.nfrac) 0 := by
    rw [Int.toNat_eq_max]
  have hexp : clog2 as.length + (x.nword + y.nword) + (F - x.nfrac - y.nfrac).toNat ≤ N := by omega
  calc |dotL as bs| * 2 ^ (F - x.nfrac - y.nfrac).toNat
      ≤ ((as.length : Int) * 2 ^ (x.nword + y.nword)) * 2 ^ (F - x.nfrac - y.nfrac).toNat :=
        mul_le_mul_of_nonneg_right hd (by positivity)
    _ ≤ (2 ^ clog2 as.length * 2 ^ (x.nword + y.nword)) * 2 ^ (F - x.nfrac - y.nfrac).toNat := by
        apply mul_le_mul_of_nonneg_right _ (by positivity)
        exact mul_le_mul_of_nonneg_right hk (by positivity)
    _ = 2 ^ (clog2 as.length + (x.nword + y.nword) + (F - x.nfrac - y.nfrac).toNat) := by ring
    _ ≤ 2 ^ N := pow_le_pow_right₀ (by norm_num) hexp

/-- dot: when the python-integer branch is not taken, the sum of products of in-range codes, rescaled to the result's
fraction length, is at most `2^62` in magnitude (NumPy's 64-bit integers hold it), and at most `2^52` for a signed with an unsigned
operand (NumPy combines those in float64, which holds 53 bits). -/
theorem dot_int64_path (x y : Fmt) (F : Int) (as bs : List Int)
    (h : Gen.dotNeedsPyInt x.signed x.nword x.nint x.nfrac y.signed y.nword y.nint y.nfrac F as.length = false)
    (ha : ∀ a ∈ as, x.InRange a) (hb : ∀ b ∈ bs, y.InRange b) :
    |dotL as bs| * 2 ^ (F - x.nfrac - y.nfrac).toNat ≤ 2 ^ 62 ∧
      (x.signed ≠ y.signed → |dotL as bs| * 2 ^ (F - x.nfrac - y.nfrac).toNat ≤ 2 ^ 52) := by
  unfold Gen.dotNeedsPyInt at h
  simp only [Bool.or_eq_false_iff, decide_eq_false_iff_not, Bool.and_eq_false_iff, Int.toNat_natCast] at h
  obtain ⟨⟨_, h63⟩, h53⟩ := h
  constructor
  · exact dot_bound x y F as bs ha hb 62 (by omega)
  · intro hs
    rcases h53 with h | h
    · exact absurd h (by simpa using hs)
    · exact dot_bound x y F as bs ha hb 52 (by omega)

/-- matmul: the same rule as dot (every entry is a dot product of a row and a column). -/
theorem matmul_int64_path (x y : Fmt) (F : Int) (as bs : List Int)
    (h : Gen.matmulNeedsPyInt x.signed x.nword x.nint x.nfrac y.signed y.nword y.nint y.nfrac F as.length = false)
    (ha : ∀ a ∈ as, x.InRange a) (hb : ∀ b ∈ bs, y.InRange b) :
    |dotL as bs| * 2 ^ (F - x.nfrac - y.nfrac).toNat ≤ 2 ^ 62 ∧
      (x.signed ≠ y.signed → |dotL as bs| * 2 ^ (F - x.nfrac - y.nfrac).toNat ≤ 2 ^ 52) := by
  unfold Gen.matmulNeedsPyInt at h
  simp only [Bool.or_eq_false_iff, decide_eq_false_iff_not, Bool.and_eq_false_iff, Int.toNat_natCast] at h
  obtain ⟨⟨_, h63⟩, h53⟩ := h
  constructor
  · exact dot_bound x y F as bs ha hb 62 (by omega)
  · intro hs
    rcases h53 with h | h
    · exact absurd h (by simpa using hs)
    · exact dot_bound x y F as bs ha hb 52 (by omega)

/-- a product of `k` in-range codes is at most `2^(k·n_word)` in magnitude. -/
theorem abs_prod_le (x : Fmt) (cs : List Int) (h : ∀ c ∈ cs, x.InRange c) : |cs.prod| ≤ 2 ^ (cs.length * x.nword) := by
  induction cs with
  | nil => simp
  | cons c t ih =>
    have hc := abs_le_pow_of_inRange x c (h c (by simp))
    have := ih (fun a ha => h a (by simp [ha]))
    simp only [List.prod_cons, List.length_cons, abs_mul]
    rw [show (t.length + 1) * x.nword = x.nword + t.length * x.nword by ring, pow_add]
    exact mul_le_mul hc this (abs_nonneg _) (by positivity)

/-- prod: when the python-integer branch is not taken, the product of the in-range codes, rescaled to the result's fraction
length, is at most `2^62` in magnitude. -/
theorem prod_int64_path (x : Fmt) (F : Int) (cs : List Int)
    (h : Gen.prodNeedsPyInt x.signed x.nword x.nint x.nfrac F cs.length = false) (hc : ∀ c ∈ cs, x.InRange c) :
    |prodL cs| * 2 ^ (F - cs.length * x.nfrac).toNat ≤ 2 ^ 62 := by
  unfold Gen.prodNeedsPyInt at h
  simp only [Bool.or_eq_false_iff, decide_eq_false_iff_not] at h
  obtain ⟨_, h63⟩ := h
  rw [C15.prodL_eq]
  have hp := abs_prod_le x cs hc
  have he : ((F - cs.length * x.nfrac).toNat : Int) = max (F - cs.length * x.nfrac) 0 := by rw [Int.toNat_eq_max]
  have hexp : cs.length * x.nword + (F - cs.length * x.nfrac).toNat ≤ 62 := by
    have : ((cs.length * x.nword : Nat) : Int) = (cs.length : Int) * x.nword := by push_cast; ring
    omega
  calc |cs.prod| * 2 ^ (F - cs.length * x.nfrac).toNat
      ≤ 2 ^ (cs.length * x.nword) * 2 ^ (F - cs.length * x.nfrac).toNat := mul_le_mul_of_nonneg_right hp (by positivity)
    _ = 2 ^ (cs.length * x.nword + (F - cs.length * x.nfrac).toNat) := by rw [pow_add]
    _ ≤ 2 ^ 62 := pow_le_pow_right₀ (by norm_num) hexp

example : Gen.dotNeedsPyInt true 12 4 8 false 12 4 8 16 4 = false ∧ Gen.dotNeedsPyInt false 42 42 0 false 42 42 0 0 2 = true ∧
    Gen.prodNeedsPyInt false 42 42 0 0 2 = true ∧ Gen.prodNeedsPyInt true 8 6 2 6 3 = false := by decide +kernel


end Fxp.Gen.Tie
