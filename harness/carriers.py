"""Input carriers and store routes shared by the store-pipeline properties (C01, C03, C05, C19, ...).

A carrier turns a list of exact rationals into the Python/NumPy object handed to fxpmath; `ok_for`
says whether the carrier represents every value exactly (so the harness itself never rounds)."""
from fractions import Fraction
import numpy as np
from .env import Fxp, to_float, is_exact_float, flat, exact, codes_of, tok_exact, tok_list, exc_token

INT_DTYPES = ('int8', 'int16', 'int32', 'int64', 'uint8', 'uint16', 'uint32', 'uint64')
FLOAT_DTYPES = ('float16', 'float32', 'float64', 'longdouble')
SCALAR_CARRIERS = ('pyint', 'pyfloat', 'decstr', 'decimal', 'npstr', 'arr0d', 'fxp') + tuple('np.' + d for d in INT_DTYPES + FLOAT_DTYPES)
ARRAY_CARRIERS = ('list', 'listf', 'listnp', 'tuple', 'nested', 'strlist', 'strarr', 'declist', 'arr.fxp', 'arr2.fxp') + tuple('arr.' + d for d in INT_DTYPES + FLOAT_DTYPES) + tuple('arr2.' + d for d in ('int64', 'float64', 'float32', 'int16'))
ROUTES = ('ctor', 'call', 'setval', 'setitem', 'tmpl', 'tmplkw')


LD_MANT = int(np.finfo(np.longdouble).nmant) + 1      # 64 on x86 extended precision, 53 where longdouble is double


def to_longdouble(q):
    """the dyadic rational q as an exact np.longdouble (built from 32-bit pieces: no conversion through a double)."""
    q = Fraction(q)
    k, e = q.numerator, -(q.denominator.bit_length() - 1)
    sgn, k = (-1 if k < 0 else 1), abs(k)
    x = np.longdouble(0)
    sh = 0
    while k:
        x = x + np.ldexp(np.longdouble(k & 0xFFFFFFFF), sh)
        k >>= 32
        sh += 32
    return np.ldexp(x, e) * sgn


def _fits_float_dtype(q, dt):
    if dt == 'longdouble':
        q = Fraction(q)
        d = q.denominator
        if d & (d - 1):
            return False
        k = abs(q.numerator)
        while k and k % 2 == 0:
            k //= 2
        return k.bit_length() <= LD_MANT and (q == 0 or -1000 < abs(q.numerator).bit_length() - d.bit_length() < 1000)
    if not is_exact_float(q):
        return False
    f = to_float(q)
    if dt == 'float64':
        return True
    x = np.dtype(dt).type(f)
    return bool(np.isfinite(x)) and Fraction(float(x)) == q


def _fits_int_dtype(q, dt):
    if q.denominator != 1:
        return False
    info = np.iinfo(dt)
    return info.min <= q.numerator <= info.max


def dec_string(q):
    """finite decimal expansion of a dyadic rational."""
    q = Fraction(q)
    d = q.denominator
    assert d & (d - 1) == 0
    k = d.bit_length() - 1
    num = abs(q.numerator) * 5 ** k
    s = str(num).rjust(k + 1, '0')
    body = s if k == 0 else s[:-k] + '.' + s[-k:]
    return ('-' if q < 0 else '') + body


def fxp_source_format(vals):
    """an exact signed source format for an Fxp-object carrier (None when more than 60 bits would be needed):
    n_frac = 0 for integers (such a source is integer-born: vdtype=int), else the fraction bits the finest value needs."""
    fs = max((v.denominator.bit_length() - 1 for v in vals), default=0)
    if any(v.denominator & (v.denominator - 1) for v in vals):
        return None
    w = max((abs(int(v * 2 ** fs)).bit_length() for v in vals), default=0) + 2
    if w > 60 or fs > 58:
        return None
    return (True, max(w, fs + 1), fs)


def fxp_exact_format(vals):
    """a signed source format that holds any dyadic rationals exactly, whatever their number of significant bits (codes are handed over
    raw, as python integers): (True, n_word, n_frac), or None beyond 250 bits."""
    if any(v.denominator & (v.denominator - 1) for v in vals):
        return None
    fs = max((v.denominator.bit_length() - 1 for v in vals), default=0)
    w = max((abs(int(v * 2 ** fs)).bit_length() for v in vals), default=0) + 2
    if w > 250 or fs > 200:
        return None
    return (True, max(w, fs + 1), fs)


def ok_for(carrier, vals):
    kind, _, dt = carrier.partition('.')
    if carrier == 'fxp' or dt == 'fxp':
        if fxp_source_format(vals) is not None and all(v.denominator == 1 or is_exact_float(v) for v in vals):
            return True
        return fxp_exact_format(vals) is not None       # values a double cannot hold: carried by raw codes
    if kind in ('np', 'arr', 'arr2'):
        if dt in INT_DTYPES:
            return all(_fits_int_dtype(v, dt) for v in vals)
        return all(_fits_float_dtype(v, dt) for v in vals)
    if carrier == 'pyint':
        return len(vals) == 1 and vals[0].denominator == 1
    if carrier in ('pyfloat', 'arr0d'):
        return len(vals) == 1 and is_exact_float(vals[0])
    if carrier == 'decstr':
        return len(vals) == 1 and is_exact_float(vals[0]) and vals[0].denominator.bit_length() <= 80
    if carrier == 'decimal':
        # decimal.Decimal holds a dyadic rational exactly (it need not be a double); the context precision must not round it
        return len(vals) == 1 and vals[0].denominator.bit_length() <= 160 and len(dec_string(vals[0]).replace('-', '').replace('.', '')) <= 200     # (Decimal(str) is exact whatever the context precision)
    if carrier in ('list', 'tuple', 'nested'):
        return all(v.denominator == 1 or is_exact_float(v) for v in vals)
    if carrier == 'listf':
        return all(is_exact_float(v) for v in vals)
    if carrier == 'listnp':
        return all(v.denominator == 1 and abs(v) < 2 ** 31 for v in vals) or all(_fits_float_dtype(v, 'float32') for v in vals)
    if carrier == 'declist':
        return all(ok_for('decimal', [v]) for v in vals)
    if carrier in ('strlist', 'strarr'):
        return all(is_exact_float(v) and v.denominator.bit_length() <= 80 for v in vals)
    if carrier == 'npstr':
        return len(vals) == 1 and is_exact_float(vals[0]) and vals[0].denominator.bit_length() <= 80
    raise ValueError(carrier)


def _py(v):
    return int(v) if v.denominator == 1 else to_float(v)


def build(carrier, vals):
    """-> (object to hand to fxpmath, shape of the resulting Fxp)"""
    kind, _, dt = carrier.partition('.')
    n = len(vals)
    if carrier == 'pyint':
        return int(vals[0]), ()
    if carrier == 'pyfloat':
        return to_float(vals[0]), ()
    if carrier == 'arr0d':
        return np.array(to_float(vals[0])), ()
    if carrier == 'decstr':
        return dec_string(vals[0]), ()
    if carrier == 'decimal':
        import decimal
        return decimal.Decimal(dec_string(vals[0])), ()
    if carrier == 'fxp' or dt == 'fxp':
        # another Fxp object holding the values exactly (integer-born when all values are integers)
        if fxp_source_format(vals) is None or not all(v.denominator == 1 or is_exact_float(v) for v in vals):
            # values with more significant bits than a double has (a product of two 32-bit operands, say): the source is built from its codes
            sg, w, fs = fxp_exact_format(vals)
            codes = [int(v * 2 ** fs) for v in vals]
            arr = codes[0] if carrier == 'fxp' else (np.array(codes, dtype=object) if kind == 'arr' else np.array(codes, dtype=object).reshape(2, n // 2))
            src = Fxp(arr, sg, w, fs, raw=True)
            assert [int(c) for c in flat(src.val)] == codes, 'exact fxp carrier not exact'
            return src, (() if carrier == 'fxp' else (n,) if kind == 'arr' else (2, n // 2))
        sg, w, fs = fxp_source_format(vals)
        pv = [_py(v) for v in vals]
        if (w * 5 + fs * 3 + n) % 3 == 0:
            # the same values in a wide source (content-determined): 64 bits and more, codes held as python integers —
            # e.g. the product of two 32-bit operands on its way into a narrower register
            W, fw = 64 + (w % 9), fs + 8 + (n % 5) * 6
            codes = [int(v * 2 ** fw) for v in vals]
            if all(-(1 << (W - 1)) <= c < (1 << (W - 1)) for c in codes):
                if carrier == 'fxp':
                    src, shape = Fxp(codes[0], True, W, fw, raw=True), ()
                elif kind == 'arr':
                    src, shape = Fxp(np.array(codes, dtype=object), True, W, fw, raw=True), (n,)
                else:
                    src, shape = Fxp(np.array(codes, dtype=object).reshape(2, n // 2), True, W, fw, raw=True), (2, n // 2)
                assert [int(c) for c in flat(src.val)] == codes, 'wide fxp carrier not exact'
                return src, shape
        if carrier == 'fxp':
            src, shape = Fxp(pv[0], sg, w, fs), ()
        elif kind == 'arr':
            src, shape = Fxp(pv, sg, w, fs), (n,)
        else:
            assert n % 2 == 0
            src, shape = Fxp(np.array(pv).reshape(2, n // 2), sg, w, fs), (2, n // 2)
        assert [exact(c) for c in flat(src.get_val())] == list(vals) and not src.status['inaccuracy'], 'fxp carrier not exact'
        return src, shape
    if dt == 'longdouble' and kind in ('np', 'arr'):
        if kind == 'np':
            return to_longdouble(vals[0]), ()
        return np.array([to_longdouble(v) for v in vals], dtype=np.longdouble), (n,)
    if kind == 'np':
        t = np.dtype(dt).type
        return (t(int(vals[0])) if dt in INT_DTYPES else t(to_float(vals[0]))), ()
    if kind == 'arr':
        if dt in INT_DTYPES:
            return np.array([int(v) for v in vals], dtype=dt), (n,)
        return np.array([to_float(v) for v in vals], dtype=dt), (n,)
    if kind == 'arr2':
        assert n % 2 == 0
        if dt in INT_DTYPES:
            return np.array([int(v) for v in vals], dtype=dt).reshape(2, n // 2), (2, n // 2)
        return np.array([to_float(v) for v in vals], dtype=dt).reshape(2, n // 2), (2, n // 2)
    if carrier == 'list':
        return [_py(v) for v in vals], (n,)
    if carrier == 'listnp':
        # a Python list whose elements are NumPy scalars of the narrowest type that holds them (np.int8 ... np.int32, or np.float32)
        if all(v.denominator == 1 and abs(v) < 2 ** 31 for v in vals):
            dt = next(d for d in (np.int8, np.uint8, np.int16, np.uint16, np.int32) if all(np.iinfo(d).min <= int(v) <= np.iinfo(d).max for v in vals))
            return [dt(int(v)) for v in vals], (n,)
        return [np.float32(to_float(v)) for v in vals], (n,)
    if carrier == 'listf':
        return [to_float(v) for v in vals], (n,)
    if carrier == 'tuple':
        return tuple(_py(v) for v in vals), (n,)
    if carrier == 'nested':
        assert n % 2 == 0
        h = n // 2
        return [[_py(v) for v in vals[:h]], [_py(v) for v in vals[h:]]], (2, h)
    if carrier == 'declist':
        import decimal
        ds = [decimal.Decimal(dec_string(v)) for v in vals]
        return (ds if n % 2 else tuple(ds)), (n,)          # a list / tuple of decimal.Decimal (D84)
    if carrier == 'strlist':
        return [dec_string(v) for v in vals], (n,)
    if carrier == 'strarr':
        return np.array([dec_string(v) for v in vals]), (n,)       # a NumPy array of decimal strings
    if carrier == 'npstr':
        return np.str_(dec_string(vals[0])), ()
    raise ValueError(carrier)


def store(route, obj, shape, signed, n_word, n_frac, **cfg):
    """store `obj` into a fresh Fxp of the given format by the given route; returns the Fxp."""
    if route == 'ctor':
        return Fxp(obj, signed, n_word, n_frac, **cfg)
    if route in ('tmpl', 'tmplkw'):
        # the format and the configuration come from a template object: the class-level `Fxp.template` or the `template=` keyword
        proto = Fxp(None, signed, n_word, n_frac, **cfg)
        if route == 'tmplkw':
            return Fxp(obj, template=proto)
        Fxp.template = proto
        try:
            return Fxp(obj)
        finally:
            Fxp.template = None
    x = Fxp(np.zeros(shape, dtype=int) if shape != () else None, signed, n_word, n_frac, **cfg)
    if (n_word * 7 + n_frac * 3 + len(shape)) % 3 == 0 and n_word <= 60:
        # a destination with a past (content-determined): codes beyond both bounds were stored into it (both sticky flags are up),
        # it was read and used in every way; the store under test is just the next write
        from .arith import warm
        hi = (1 << (n_word - 1)) - 1 if signed else (1 << n_word) - 1
        lo = -(1 << (n_word - 1)) if signed else 0
        for c in (hi + 3, lo - 3):
            x.set_val(c if shape == () else np.full(shape, c, dtype=object), raw=True)
        warm(x)
    elif signed and shape != () and 3 <= n_word <= 60 and (n_word + n_frac + len(shape)) % 4 == 1:
        # (content-determined) a destination that was re-formatted before: born unsigned with a shorter word and the same fraction
        # length, brought to its format by resize (keywords or a format string); what is stored into it afterwards does not care
        x = Fxp(np.zeros(shape, dtype=int), False, n_word - 2, n_frac, **cfg)
        if n_word % 2:
            x.resize(signed=True, n_word=n_word)
        else:
            x.resize(dtype='fxp-s%d/%d' % (n_word, n_frac))
        assert (bool(x.signed), x.n_word, x.n_frac) == (True, n_word, n_frac)
    if route == 'call':
        r = x(obj)
        assert r is x
    elif route == 'setval':
        r = x.set_val(obj)
        assert r is x
    elif route == 'setitem':
        if shape == ():
            # 0-d object: whole-value indexed assignment
            x[...] = obj
        elif len(shape) == 1 and isinstance(obj, (list, tuple)):
            for i, v in enumerate(obj):
                x[i] = v
        else:
            x[...] = obj
    else:
        raise ValueError(route)
    return x


def observe_codes_vals(x):
    """`[codes] [readback values]` as exact tokens."""
    codes = codes_of(x)
    if codes is None:
        ctoks = ['nonint']
    else:
        ctoks = [str(c) for c in codes]
    vals = [tok_exact(v) for v in flat(x.get_val())]
    return [tok_list(ctoks), tok_list(vals)]
