import FxpVerif.Model.Store
/-!
# Format conversion routes

Every route of `fxpmath/objects.py` that moves a stored value into another format:
* `resize` (416-503): `set_val(old_code * 2**(n_frac_new - n_frac_old), raw=True)`;
* constructing from / assigning an `Fxp` (`_format_inupt_val` 666-680): `val.val * 2**(Δ)`, raw;
* `like()` (1644-1649), `equal()` (1058-1089): the same shifted raw code;
* `like=` keyword (173-181): deep-copied template, then the value is stored as above.
All of them hand the **shifted code** (an integer when `Δ ≥ 0`, a float otherwise) to the raw store of
the destination, under the destination's rounding and overflow modes.
-/
namespace Fxp

/-- the shifted raw carrier `old_code * 2**(dst.n_frac - src.n_frac)`. -/
def shiftedCode (src dst : Fmt) (c : Int) : Rat := scale (c : Rat) (dst.nfrac - src.nfrac)

/-- one conversion step as the code performs it. -/
def convertM (src dst : Fmt) (r : Rounding) (o : Overflow) (c : Int) : Int :=
  storeRawFloat dst r o (shiftedCode src dst c)

/-- what the property demands: the exact source value quantized into the destination. -/
def requant (src dst : Fmt) (r : Rounding) (o : Overflow) (c : Int) : Int :=
  quantize dst r o (valueOf src c)

/-- flags of the conversion's store. -/
def convertFlags (src dst : Fmt) (r : Rounding) (c : Int) : Bool × Bool :=
  let k := roundR r (shiftedCode src dst c)
  (decide (dst.hi < k), decide (k < dst.lo))

/-- a chain of conversions `(dst, r, o)` applied to one code. -/
def convertChain (src : Fmt) (c : Int) : List (Fmt × Rounding × Overflow) → Fmt × Int
  | [] => (src, c)
  | (d, r, o) :: rest => convertChain d (convertM src d r o c) rest

end Fxp
