import FxpVerif.Driver.Ops

open Fxp Fxp.Proto

def splitLine (line : String) : List String × List String :=
  let toks := (line.trimAscii.toString.splitOn " ").filter (· ≠ "")
  let args := toks.takeWhile (· ≠ "|")
  let obs := (toks.dropWhile (· ≠ "|")).drop 1
  (args, obs)

def step (line : String) : String :=
  let (args, obs) := splitLine line
  match args with
  | [] => "ERR empty"
  | op :: rest =>
    match Fxp.Ops.dispatch op rest obs with
    | .ok s => s
    | .error e => s!"ERR {e}"

partial def loop (h : IO.FS.Stream) (out : IO.FS.Stream) : IO Unit := do
  let line ← h.getLine
  if line.isEmpty then return ()
  out.putStrLn (step line)
  loop h out

def main : IO Unit := do
  let out ← IO.getStdout
  loop (← IO.getStdin) out
  out.flush
