import FxpVerif.Model.Heap
import Mathlib.Tactic.Linarith
import Mathlib.Tactic.Ring
import Mathlib.Tactic.Push
/-! # C20 — objects are independent and inputs are never mutated -/
namespace Fxp.C20
open Fxp

/-- heap invariant: every reference of a live object is below the allocation counter, and no two live
objects refer to the same config cell or the same status cell. (Buffers may be shared by index views only.) -/
def Inv (h : Heap) : Prop :=
  (∀ x ∈ h.objs, x.cfg < h.next ∧ x.st < h.next ∧ x.buf < h.next) ∧
  h.objs.Pairwise (fun x y => x.cfg ≠ y.cfg ∧ x.st ≠ y.st)

theorem inv_empty : Inv emptyHeap := by
  unfold Inv emptyHeap; simp

/-- **fresh allocation**: the object created by `alloc` refers to cells no live object refers to. -/
theorem alloc_fresh (h : Heap) (hi : Inv h) (name : String) (fmt : Fmt) (rows cols : ℕ) (c : Cfg) (fl : Flags3) (cs : List ℤ) :
    ∀ x ∈ h.objs, x.cfg ≠ h.next ∧ x.st ≠ h.next + 1 ∧ x.buf ≠ h.next + 2 ∧
      x.cfg ≠ h.next + 1 ∧ x.st ≠ h.next ∧ x.buf ≠ h.next := by
  intro x hx
  obtain ⟨a, b, c'⟩ := hi.1 x hx
  omega

theorem inv_alloc (h : Heap) (hi : Inv h) (name : String) (fmt : Fmt) (rows cols : ℕ) (c : Cfg) (fl : Flags3) (cs : List ℤ) :
    Inv (h.alloc name fmt rows cols c fl cs) := by
  unfold Heap.alloc Inv
  simp only
  constructor
  · intro x hx
    rcases List.mem_append.mp hx with hx | hx
    · obtain ⟨a, b, c'⟩ := hi.1 x hx; omega
    · simp only [List.mem_singleton] at hx; subst hx; simp only; omega
  · rw [List.pairwise_append]
    refine ⟨hi.2, by simp, ?_⟩
    intro x hx y hy
    simp only [List.mem_singleton] at hy; subst hy
    obtain ⟨a, b, _⟩ := hi.1 x hx
    simp only; omega

/-- updating cells (config, status, buffer contents) without touching the object table keeps the invariant. -/
theorem inv_cells (h h' : Heap) (hi : Inv h) (ho : h'.objs = h.objs) (hn : h.next ≤ h'.next) : Inv h' := by
  unfold Inv at *
  rw [ho]
  refine ⟨fun x hx => ?_, hi.2⟩
  obtain ⟨a, b, c⟩ := hi.1 x hx
  omega

/-- a **view** (row, strided slice or column): a new object with fresh config and status cells on the buffer of a
live object keeps the invariant. -/
theorem inv_view (h : Heap) (hi : Inv h) (x : HObj) (hxm : x ∈ h.objs) (h' : Heap) (y : HObj)
    (hn : h'.next = h.next + 2) (ho : h'.objs = h.objs ++ [y]) (hc : y.cfg = h.next) (hs : y.st = h.next + 1) (hb : y.buf = x.buf)
    : Inv h' := by
  unfold Inv
  rw [ho, hn]
  constructor
  · intro z hz
    rcases List.mem_append.mp hz with hz | hz
    · obtain ⟨a1, b1, c1⟩ := hi.1 z hz; omega
    · simp only [List.mem_singleton] at hz; subst hz
      obtain ⟨_, _, c1⟩ := hi.1 x hxm
      omega
  · rw [List.pairwise_append]
    refine ⟨hi.2, by simp, ?_⟩
    intro z hz w hw
    simp only [List.mem_singleton] at hw; subst hw
    obtain ⟨a1, b1, _⟩ := hi.1 z hz
    omega

/-- the no-sharing invariant is preserved by every operation … -/
theorem inv_step (h : Heap) (hi : Inv h) (s : HStep) : Inv (h.step s) := by
  cases s with
  | create a fmt rows cols => simp only [Heap.step]; exact inv_alloc h hi _ _ _ _ _ _ _
  | likeKw b a => simp only [Heap.step]; split <;> (first | exact hi | exact inv_alloc h hi _ _ _ _ _ _ _)
  | deepcopy b a => simp only [Heap.step]; split <;> (first | exact hi | exact inv_alloc h hi _ _ _ _ _ _ _)
  | likeM b a t => simp only [Heap.step]; split <;> (first | exact hi | exact inv_alloc h hi _ _ _ _ _ _ _)
  | fxpLike b a v => simp only [Heap.step]; split <;> (first | exact hi | exact inv_alloc h hi _ _ _ _ _ _ _)
  | conv b a fmt => simp only [Heap.step]; split <;> (first | exact hi | exact inv_alloc h hi _ _ _ _ _ _ _)
  | add c a b =>
    simp only [Heap.step]
    split
    · split <;> (first | exact hi | exact inv_alloc h hi _ _ _ _ _ _ _)
    · exact hi
  | invert c a => simp only [Heap.step]; split <;> (first | exact hi | exact inv_alloc h hi _ _ _ _ _ _ _)
  | lshift c a n => simp only [Heap.step]; split <;> (first | exact hi | exact inv_alloc h hi _ _ _ _ _ _ _)
  | rshiftKeep c a n => simp only [Heap.step]; split <;> (first | exact hi | exact inv_alloc h hi _ _ _ _ _ _ _)
  | index v a i =>
    simp only [Heap.step]
    split
    · exact hi
    · rename_i x hx
      exact inv_view h hi x (List.mem_of_find?_eq_some hx) _ _ rfl rfl rfl rfl rfl
  | slice v a start step n =>
    simp only [Heap.step]
    split
    · exact hi
    · rename_i x hx
      exact inv_view h hi x (List.mem_of_find?_eq_some hx) _ _ rfl rfl rfl rfl rfl
  | column v a j =>
    simp only [Heap.step]
    split
    · exact hi
    · rename_i x hx
      exact inv_view h hi x (List.mem_of_find?_eq_some hx) _ _ rfl rfl rfl rfl rfl
  | write a vs =>
    simp only [Heap.step]
    split
    · exact hi
    · rename_i x hx
      unfold Inv
      simp only
      constructor
      · intro y hy
        obtain ⟨z, hz, rfl⟩ := List.mem_map.mp hy
        obtain ⟨a1, b1, c1⟩ := hi.1 z hz
        split <;> (first | omega | (simp only; omega))
      · rw [List.pairwise_map]
        refine hi.2.imp ?_
        intro y z hyz
        split <;> split <;> simpa using hyz
  | windex a i v => simp only [Heap.step]; split <;> (first | exact hi | exact inv_cells h _ hi rfl (le_refl _))
  | setCfg a c => simp only [Heap.step]; split <;> (first | exact hi | exact inv_cells h _ hi rfl (le_refl _))
  | reset a => simp only [Heap.step]; split <;> (first | exact hi | exact inv_cells h _ hi rfl (le_refl _))

/-- … hence holds in every reachable heap (induction over the history). -/
theorem no_sharing_invariant (hist : List HStep) : Inv (emptyHeap.run hist) := by
  have key : ∀ (h : Heap), Inv h → Inv (h.run hist) := by
    induction hist with
    | nil => intro h hi; exact hi
    | cons s rest ih => intro h hi; exact ih (h.step s) (inv_step h hi s)
  exact key emptyHeap inv_empty

/-! ### frame properties: a mutation of one object leaves the others alone -/

theorem lookup_update_ne {α} (l : List (ℕ × α)) (k k' : ℕ) (v d : α) (h : k' ≠ k) :
    lookup (update l k v) k' d = lookup l k' d := by
  unfold lookup update
  induction l with
  | nil => rfl
  | cons p t ih =>
    simp only [List.map_cons, List.find?_cons]
    by_cases hp : p.1 = k
    · have h1 : (p.1 == k) = true := by simpa using hp
      have h2 : ((k, v).1 == k') = false := by simpa using (Ne.symm h)
      have h3 : (p.1 == k') = false := by rw [hp]; simpa using (Ne.symm h)
      simp only [h1, if_true, h2, h3]
      exact ih
    · have h1 : (p.1 == k) = false := by simpa using hp
      simp only [h1, Bool.false_eq_true, if_false]
      by_cases hq : p.1 = k'
      · have : (p.1 == k') = true := by simpa using hq
        simp [this]
      · have : (p.1 == k') = false := by simpa using hq
        simp only [this]
        exact ih

/-- changing the configuration of `x` does not change the configuration of any object with another config cell. -/
theorem frame_setCfg (h : Heap) (a : String) (c : Cfg) (x y : HObj) (hx : h.find a = some x) (hne : y.cfg ≠ x.cfg) :
    (h.step (.setCfg a c)).cfgOf y = h.cfgOf y ∧ (h.step (.setCfg a c)).flagsOf y = h.flagsOf y ∧
    (h.step (.setCfg a c)).codes y = h.codes y := by
  simp only [Heap.step, hx, Heap.cfgOf, Heap.flagsOf, Heap.codes]
  exact ⟨lookup_update_ne _ _ _ _ _ hne, trivial, trivial⟩

/-- resetting `x` clears only the status cell of `x`. -/
theorem frame_reset (h : Heap) (a : String) (x y : HObj) (hx : h.find a = some x) (hne : y.st ≠ x.st) :
    (h.step (.reset a)).flagsOf y = h.flagsOf y ∧ (h.step (.reset a)).cfgOf y = h.cfgOf y ∧
    (h.step (.reset a)).codes y = h.codes y := by
  simp only [Heap.step, hx, Heap.cfgOf, Heap.flagsOf, Heap.codes]
  exact ⟨lookup_update_ne _ _ _ _ _ hne, trivial, trivial⟩

/-- an indexed write to `x` changes neither the values of an object on another buffer, nor its flags/config
(when it owns another status cell). -/
theorem frame_windex (h : Heap) (a : String) (i : ℕ) (v : ℚ) (x y : HObj) (hx : h.find a = some x)
    (hb : y.buf ≠ x.buf) (hs : y.st ≠ x.st) :
    (h.step (.windex a i v)).codes y = h.codes y ∧ (h.step (.windex a i v)).flagsOf y = h.flagsOf y ∧
    (h.step (.windex a i v)).cfgOf y = h.cfgOf y := by
  simp only [Heap.step, hx, Heap.cfgOf, Heap.flagsOf, Heap.codes]
  refine ⟨?_, lookup_update_ne _ _ _ _ _ hs, trivial⟩
  rw [lookup_update_ne _ _ _ _ _ hb]

/-- in a reachable heap two *distinct* live objects never share a config or status cell, so the two frame
premises above hold for every other object. -/
theorem distinct_cells (h : Heap) (hi : Inv h) (i j : ℕ) (hi' : i < h.objs.length) (hj : j < h.objs.length) (hij : i ≠ j) :
    (h.objs[i]).cfg ≠ (h.objs[j]).cfg ∧ (h.objs[i]).st ≠ (h.objs[j]).st := by
  rcases Nat.lt_or_gt_of_ne hij with hlt | hgt
  · exact List.pairwise_iff_getElem.mp hi.2 i j hi' hj hlt
  · have := List.pairwise_iff_getElem.mp hi.2 j i hj hi' hgt
    exact ⟨this.1.symm, this.2.symm⟩

/-! ### derivation never changes what already exists -/

/-- everything one can observe of an object: its codes, flags and configuration. -/
def Obs (h : Heap) (y : HObj) : List ℤ × Flags3 × Cfg := (h.codes y, h.flagsOf y, h.cfgOf y)

/-- the steps that create an object (all public derivation routes of the model). -/
def isDerive : HStep → Bool
  | .write .. | .windex .. | .setCfg .. | .reset .. => false
  | _ => true

theorem lookup_cons_ne {α} (l : List (ℕ × α)) (k k' : ℕ) (v d : α) (h : k' ≠ k) :
    lookup ((k, v) :: l) k' d = lookup l k' d := by
  unfold lookup
  have : ((k, v).1 == k') = false := by simpa using (Ne.symm h)
  simp [List.find?_cons, this]

/-- allocation leaves every object whose cells are below the allocation counter exactly as it was. -/
theorem alloc_obs (h : Heap) (name : String) (fmt : Fmt) (rows cols : ℕ) (c : Cfg) (fl : Flags3) (cs : List ℤ) (y : HObj)
    (hy : y.cfg < h.next ∧ y.st < h.next ∧ y.buf < h.next) :
    Obs (h.alloc name fmt rows cols c fl cs) y = Obs h y := by
  unfold Obs Heap.alloc Heap.codes Heap.flagsOf Heap.cfgOf
  simp only
  rw [lookup_cons_ne _ _ _ _ _ (by omega), lookup_cons_ne _ _ _ _ _ (by omega), lookup_cons_ne _ _ _ _ _ (by omega)]

/-- **operands, templates and sources are never modified by a derivation**: after any creating step — constructor,
`like=`, `deepcopy`, `like()`, conversion, `+`, `~`, `<<`, `>>`, indexing, slicing — every object that existed before
shows the same codes, flags and configuration. -/
theorem derive_preserves (h : Heap) (hi : Inv h) (s : HStep) (hd : isDerive s = true) (y : HObj) (hy : y ∈ h.objs) :
    Obs (h.step s) y = Obs h y := by
  have hc := hi.1 y hy
  have hview : ∀ (c : Cfg) (objs : List HObj),
      Obs { h with next := h.next + 2, cfgs := (h.next, c) :: h.cfgs, sts := (h.next + 1, clean) :: h.sts, objs := objs } y = Obs h y := by
    intro c objs
    unfold Obs Heap.codes Heap.flagsOf Heap.cfgOf
    simp only
    rw [lookup_cons_ne _ _ _ _ _ (by omega), lookup_cons_ne _ _ _ _ _ (by omega)]
  cases s with
  | create a fmt rows cols => simp only [Heap.step]; exact alloc_obs _ _ _ _ _ _ _ _ _ hc
  | likeKw b a => simp only [Heap.step]; split <;> (first | rfl | exact alloc_obs _ _ _ _ _ _ _ _ _ hc)
  | deepcopy b a => simp only [Heap.step]; split <;> (first | rfl | exact alloc_obs _ _ _ _ _ _ _ _ _ hc)
  | likeM b a t => simp only [Heap.step]; split <;> (first | rfl | exact alloc_obs _ _ _ _ _ _ _ _ _ hc)
  | fxpLike b a v => simp only [Heap.step]; split <;> (first | rfl | exact alloc_obs _ _ _ _ _ _ _ _ _ hc)
  | conv b a fmt => simp only [Heap.step]; split <;> (first | rfl | exact alloc_obs _ _ _ _ _ _ _ _ _ hc)
  | add c a b =>
    simp only [Heap.step]
    split
    · split <;> (first | rfl | exact alloc_obs _ _ _ _ _ _ _ _ _ hc)
    · rfl
  | invert c a => simp only [Heap.step]; split <;> (first | rfl | exact alloc_obs _ _ _ _ _ _ _ _ _ hc)
  | lshift c a n => simp only [Heap.step]; split <;> (first | rfl | exact alloc_obs _ _ _ _ _ _ _ _ _ hc)
  | rshiftKeep c a n => simp only [Heap.step]; split <;> (first | rfl | exact alloc_obs _ _ _ _ _ _ _ _ _ hc)
  | index v a i => simp only [Heap.step]; split <;> (first | rfl | exact hview _ _)
  | slice v a start step n => simp only [Heap.step]; split <;> (first | rfl | exact hview _ _)
  | column v a j => simp only [Heap.step]; split <;> (first | rfl | exact hview _ _)
  | write a vs => simp [isDerive] at hd
  | windex a i v => simp [isDerive] at hd
  | setCfg a c => simp [isDerive] at hd
  | reset a => simp [isDerive] at hd

/-- a whole-value write gives `x` a new buffer: every *other* object (other name, other status cell) is unchanged —
including former views of `x`, which keep the old buffer. -/
theorem frame_write (h : Heap) (hi : Inv h) (a : String) (vs : List ℚ) (x y : HObj) (hx : h.find a = some x) (hy : y ∈ h.objs)
    (hs : y.st ≠ x.st) :
    (h.step (.write a vs)).codes y = h.codes y ∧ (h.step (.write a vs)).flagsOf y = h.flagsOf y ∧
    (h.step (.write a vs)).cfgOf y = h.cfgOf y := by
  have hc := hi.1 y hy
  simp only [Heap.step, hx, Heap.cfgOf, Heap.flagsOf, Heap.codes]
  refine ⟨?_, lookup_update_ne _ _ _ _ _ hs, trivial⟩
  rw [lookup_cons_ne _ _ _ _ _ (by omega)]

/-- the object a mutating step acts on. -/
def target : HStep → Option String
  | .write a _ => some a | .windex a _ _ => some a | .setCfg a _ => some a | .reset a => some a
  | _ => none

/-- **a mutation of one object never changes another**: whatever the mutating step (whole write, indexed write,
configuration change, reset) on `x`, an object `y` that owns other config and status cells (every other object of a
reachable heap does, `distinct_cells`) and lives on another buffer (every object that is not a view of `x` or of `x`'s
base) shows the same codes, flags and configuration afterwards. -/
theorem mutation_frame (h : Heap) (hi : Inv h) (s : HStep) (a : String) (x y : HObj) (ht : target s = some a)
    (hx : h.find a = some x) (hy : y ∈ h.objs) (hc : y.cfg ≠ x.cfg) (hs : y.st ≠ x.st) (hb : y.buf ≠ x.buf) :
    Obs (h.step s) y = Obs h y := by
  unfold Obs
  cases s with
  | write b vs =>
    simp only [target, Option.some.injEq] at ht; subst ht
    obtain ⟨h1, h2, h3⟩ := frame_write h hi b vs x y hx hy hs
    rw [h1, h2, h3]
  | windex b i v =>
    simp only [target, Option.some.injEq] at ht; subst ht
    obtain ⟨h1, h2, h3⟩ := frame_windex h b i v x y hx hb hs
    rw [h1, h2, h3]
  | setCfg b c =>
    simp only [target, Option.some.injEq] at ht; subst ht
    obtain ⟨h1, h2, h3⟩ := frame_setCfg h b c x y hx hc
    rw [h1, h2, h3]
  | reset b =>
    simp only [target, Option.some.injEq] at ht; subst ht
    obtain ⟨h1, h2, h3⟩ := frame_reset h b x y hx hs
    rw [h1, h2, h3]
  | create _ _ _ _ => simp [target] at ht
  | likeKw _ _ => simp [target] at ht
  | deepcopy _ _ => simp [target] at ht
  | likeM _ _ _ => simp [target] at ht
  | fxpLike _ _ _ => simp [target] at ht
  | conv _ _ _ => simp [target] at ht
  | add _ _ _ => simp [target] at ht
  | invert _ _ => simp [target] at ht
  | lshift _ _ _ => simp [target] at ht
  | rshiftKeep _ _ _ => simp [target] at ht
  | index _ _ _ => simp [target] at ht
  | slice _ _ _ _ _ => simp [target] at ht
  | column _ _ _ => simp [target] at ht

/-- both frame statements along every history: in every reachable heap a creating step changes no existing object. -/
theorem derive_preserves_reachable (hist : List HStep) (s : HStep) (hd : isDerive s = true) (y : HObj)
    (hy : y ∈ (emptyHeap.run hist).objs) :
    Obs ((emptyHeap.run hist).step s) y = Obs (emptyHeap.run hist) y :=
  derive_preserves _ (no_sharing_invariant hist) s hd y hy

/-! ### views: indexing is the one documented exception -/

theorem writeWindow_get (buf : List ℤ) (off : ℕ) (c : ℤ) (hoff : off < buf.length) :
    (writeWindow buf off [c])[off]? = some c ∧ (writeWindow buf off [c]).length = buf.length := by
  unfold writeWindow
  constructor
  · rw [List.append_assoc, List.getElem?_append_right (by simp)]
    simp [Nat.min_eq_left (le_of_lt hoff)]
  · simp
    omega

/-- a view refers to its base's buffer: fresh config and status, **shared** buffer window. -/
theorem index_shares_buffer (h : Heap) (v a : String) (i : ℕ) (x : HObj) (hx : h.find a = some x) :
    ∃ y, (h.step (.index v a i)).objs = h.objs ++ [y] ∧ y.buf = x.buf ∧ y.off = x.off + i * x.cols ∧ y.len = x.cols ∧
      y.stride = 1 ∧ y.cfg = h.next ∧ y.st = h.next + 1 := by
  simp only [Heap.step, hx]
  exact ⟨_, rfl, rfl, rfl, rfl, rfl, rfl, rfl⟩

/-- position of element `k` of a contiguous object. -/
theorem pos_contig (x : HObj) (hs : x.stride = 1) (k : ℕ) : x.pos k = x.off + k := by
  unfold HObj.pos; rw [hs]; omega

/-- a strided slice and a column are views too: fresh config and status, **shared** buffer. -/
theorem slice_shares_buffer (h : Heap) (v a : String) (start : ℕ) (step : ℤ) (n : ℕ) (x : HObj) (hx : h.find a = some x) :
    ∃ y, (h.step (.slice v a start step n)).objs = h.objs ++ [y] ∧ y.buf = x.buf ∧ y.off = x.pos start ∧ y.len = n ∧
      y.stride = x.stride * step ∧ y.cfg = h.next ∧ y.st = h.next + 1 := by
  simp only [Heap.step, hx]
  exact ⟨_, rfl, rfl, rfl, rfl, rfl, rfl, rfl⟩

theorem column_shares_buffer (h : Heap) (v a : String) (j : ℕ) (x : HObj) (hx : h.find a = some x) :
    ∃ y, (h.step (.column v a j)).objs = h.objs ++ [y] ∧ y.buf = x.buf ∧ y.off = x.off + j ∧ y.len = x.rows ∧
      y.stride = (x.cols : ℤ) ∧ y.cfg = h.next ∧ y.st = h.next + 1 := by
  simp only [Heap.step, hx]
  exact ⟨_, rfl, rfl, rfl, rfl, rfl, rfl, rfl⟩

/-- element `j` of the slice `a[start::step]` **is** element `start + j*step` of `a` (same buffer position), for
positive and negative steps, also when `a` is itself a strided view. -/
theorem slice_pos (x y : HObj) (start : ℕ) (step : ℤ) (j : ℕ) (hoff : y.off = x.pos start) (hst : y.stride = x.stride * step)
    (hnn : 0 ≤ (x.off : ℤ) + start * x.stride) (hk : 0 ≤ (start : ℤ) + j * step) :
    y.pos j = x.pos ((start : ℤ) + j * step).toNat := by
  unfold HObj.pos at *
  rw [hoff, hst, Int.toNat_of_nonneg hnn, Int.toNat_of_nonneg hk]
  congr 1
  ring

/-- element `i` of the column `a[:, j]` of a row-major 2-D object **is** element `(i, j)` of `a`. -/
theorem column_pos (x y : HObj) (i j : ℕ) (hoff : y.off = x.off + j) (hst : y.stride = (x.cols : ℤ)) (hx : x.stride = 1) :
    y.pos i = x.pos (i * x.cols + j) := by
  unfold HObj.pos
  rw [hoff, hst, hx]
  push_cast
  congr 1
  ring

/-- **write-through**: writing element `j` of a view (row, strided slice or column) changes the element at the
view's position `pos j` of the shared buffer, i.e. `x[i][j] = v`, `x[::2][j] = v`, `x[:, c][j] = v` store into `x`. -/
theorem index_write_through (h : Heap) (vname : String) (j : ℕ) (val : ℚ) (y : HObj) (hy : h.find vname = some y)
    (hlen : y.pos j < (lookup h.bufs y.buf []).length) (hmem : ∃ p ∈ h.bufs, p.1 = y.buf) :
    let h' := h.step (.windex vname j val)
    (lookup h'.bufs y.buf [])[y.pos j]? =
      some ((storeConds y.fmt (h.cfgOf y) [scale val y.fmt.nfrac]).1.headD 0) := by
  intro h'
  simp only [h', Heap.step, hy]
  -- the updated buffer cell holds the written window
  have hupd : ∀ (l : List (ℕ × List ℤ)) (k : ℕ) (nv : List ℤ), (∃ p ∈ l, p.1 = k) → lookup (update l k nv) k [] = nv := by
    intro l k nv
    induction l with
    | nil => rintro ⟨p, hp, _⟩; simp at hp
    | cons q t ih =>
      intro hex
      unfold lookup update
      simp only [List.map_cons, List.find?_cons]
      by_cases hq : q.1 = k
      · have : (q.1 == k) = true := by simpa using hq
        simp [this]
      · have hq' : (q.1 == k) = false := by simpa using hq
        simp only [hq', Bool.false_eq_true, if_false]
        obtain ⟨p, hp, hpk⟩ := hex
        rcases List.mem_cons.mp hp with rfl | hp
        · exact absurd hpk hq
        · exact ih ⟨p, hp, hpk⟩
  rw [hupd _ _ _ hmem]
  have hc : (storeConds y.fmt (h.cfgOf y) [scale val y.fmt.nfrac]).1 =
      [(storeConds y.fmt (h.cfgOf y) [scale val y.fmt.nfrac]).1.headD 0] := by
    simp [storeConds]
  rw [hc]
  exact (writeWindow_get _ _ _ hlen).1

/-- … and the base object reads the written code back at that element: after `v[j] = val` on a view `v` of `x`,
element `k` of `x` with `x.pos k = v.pos j` holds the stored code. -/
theorem write_through_read (h : Heap) (vname : String) (j k : ℕ) (val : ℚ) (x y : HObj) (hy : h.find vname = some y)
    (hb : x.buf = y.buf) (hpos : x.pos k = y.pos j) (hk : k < x.len)
    (hlen : y.pos j < (lookup h.bufs y.buf []).length) (hmem : ∃ p ∈ h.bufs, p.1 = y.buf) :
    ((h.step (.windex vname j val)).codes x)[k]? =
      some ((storeConds y.fmt (h.cfgOf y) [scale val y.fmt.nfrac]).1.headD 0) := by
  have hw := index_write_through h vname j val y hy hlen hmem
  simp only at hw
  unfold Heap.codes
  rw [List.getElem?_map, List.getElem?_range hk, Option.map_some, hb, hpos, hw]
  rfl

/-! ### configuration values -/

/-- the valid values of the two behavioural options; anything else is rejected (observed on the implementation
for every `Config` field by the `BCF` lines). -/
def validRounding (s : String) : Bool := s ∈ ["trunc", "fix", "floor", "ceil", "around"]
def validOverflow (s : String) : Bool := s ∈ ["saturate", "wrap"]

theorem config_reject : validRounding "nearest" = false ∧ validOverflow "clip" = false ∧
    validRounding "around" = true ∧ validOverflow "wrap" = true := by decide

/-! non-vacuity: a derive-then-mutate history -/
example : Inv (emptyHeap.run [.create "a" ⟨true, 8, 2⟩ 0 3, .deepcopy "b" "a", .setCfg "b" ⟨.ceil, .wrap⟩]) :=
  no_sharing_invariant _

/-! non-vacuity of the strided views: `v = a[::-1]; v[0] = 7` writes the last element of `a`; `c = m[:, 1]; c[1] = 5`
writes element (1, 1) of the 2×3 object `m`. -/
example : (let h := emptyHeap.run [.create "a" ⟨true, 8, 0⟩ 0 5, .slice "v" "a" 4 (-1) 5, .windex "v" 0 7]
    (h.find "a").map h.codes) = some [0, 0, 0, 0, 7] := by decide +kernel
example : (let h := emptyHeap.run [.create "m" ⟨true, 8, 0⟩ 2 3, .column "c" "m" 1, .windex "c" 1 5]
    (h.find "m").map h.codes) = some [0, 0, 0, 0, 5, 0] := by decide +kernel

end Fxp.C20
