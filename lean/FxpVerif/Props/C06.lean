import FxpVerif.Lemmas.Infer
import FxpVerif.Props.C05
import FxpVerif.Lemmas.Arith
/-! # C06 — size inference picks the smallest format that holds the values exactly -/
namespace Fxp.C06
open Fxp

/-- for a non-negative fraction length (every inferred one, and a given non-negative one) the scaled extreme is `int(v * 2^n_frac)`. -/
theorem scaledExt_natCast (n : ℕ) (v : ℚ) : scaledExt (n : ℤ) v = truncInt (v * ((2 ^ ((n : ℤ)).toNat : ℕ) : ℚ)) := by
  unfold scaledExt; simp

theorem isInt_mul_pow {x : ℚ} {a b : ℕ} (h : a ≤ b) (hx : IsInt (x * 2 ^ a)) : IsInt (x * 2 ^ b) := by
  obtain ⟨z, hz⟩ := hx
  refine ⟨z * 2 ^ (b - a), ?_⟩
  have : (2:ℚ) ^ b = 2 ^ a * 2 ^ (b - a) := by rw [← pow_add]; congr 1; omega
  rw [this, ← mul_assoc, hz]; push_cast; ring

theorem isInt_mod1_iff (v : ℚ) (i : ℕ) : IsInt (mod1 v * 2 ^ i) ↔ IsInt (v * 2 ^ i) := by
  unfold mod1
  constructor
  · rintro ⟨z, hz⟩
    exact ⟨z + v.floor * 2 ^ i, by push_cast; rw [← hz]; ring⟩
  · rintro ⟨z, hz⟩
    exact ⟨z - v.floor * 2 ^ i, by push_cast; rw [← hz]; ring⟩

/-- **fraction-bit search**: for a dyadic value with at most 62 fraction bits, the loop returns the least
number of fraction bits that makes the value exact. -/
theorem fracBits_min (sign : ℕ) (hs : sign ≤ 1) (v : ℚ) (F : ℕ) (hF : F ≤ 62) (hv : IsInt (v * 2 ^ F)) :
    IsInt (v * 2 ^ fracBits sign v) ∧ ∀ i, i < fracBits sign v → ¬ IsInt (v * 2 ^ i) := by
  have h1 := Int.floor_le v
  have h2 := Int.lt_floor_add_one v
  have inv : FracInv F (mod1 v) (mod1 v) 0 := by
    refine ⟨?_, ?_, ⟨0, by simp⟩, (isInt_mod1_iff v F).mpr hv⟩
    · unfold mod1; rw [floor_eq]; linarith
    · have : half_pow 0 = 1 := by rw [half_pow_eq]; norm_num
      rw [this]; unfold mod1; rw [floor_eq]; linarith
  have he : (0 < mod1 v → maxError < 1) := by
    intro _; rw [maxError_eq, half_pow_eq]
    have : (1:ℚ) < 2 ^ 63 := by norm_num
    rw [div_lt_one (by positivity)]; exact this
  obtain ⟨a1, _, a3, a4⟩ := fracLoop_spec F hF ((nWordMax : ℤ) - sign) (by unfold nWordMax; omega) (mod1 v) 80 0 (mod1 v) 1
    (by omega) inv he
  unfold fracBits
  refine ⟨(isInt_mod1_iff v _).mp a1, ?_⟩
  intro i hi
  by_cases hr : 0 < mod1 v
  · intro h; exact a3 hr i (by omega) hi ((isInt_mod1_iff v i).mpr h)
  · have : mod1 v = 0 := le_antisymm (not_lt.mp hr) inv.nonneg
    have := a4 this
    omega

/-- **integer-bit search**: the loop returns the least number of magnitude bits in which both scaled extremes
fit — two's-complement asymmetry included (`-2^k` needs one bit fewer than `2^k`). -/
theorem intBits_min (vmax vmin : ℤ) :
    let n := intLoop (vmax.natAbs + vmin.natAbs + 2) vmax vmin 0
    (Chk.fitsBits vmax n = true ∧ Chk.fitsBits vmin n = true) ∧
    ∀ j, j < n → ¬ (Chk.fitsBits vmax j = true ∧ Chk.fitsBits vmin j = true) := by
  intro n
  obtain ⟨a1, _, a3⟩ := intLoop_spec vmax vmin (vmax.natAbs + vmin.natAbs + 2) 0 (by omega)
  exact ⟨a1, fun j hj => a3 j (by omega) hj⟩

example : Chk.fitsBits (-8) 3 = true ∧ Chk.fitsBits 8 3 = false := by decide

/-! ### list extremes -/

theorem maxNat_ge (l : List ℕ) (x : ℕ) (h : x ∈ l) : x ≤ maxNat l := by
  induction l with
  | nil => simp at h
  | cons a t ih =>
    simp only [maxNat]
    rcases List.mem_cons.mp h with rfl | h
    · exact le_max_left _ _
    · exact le_trans (ih h) (le_max_right _ _)

theorem maxNat_mem (l : List ℕ) (h : l ≠ []) : maxNat l ∈ l ∨ maxNat l = 0 := by
  induction l with
  | nil => exact absurd rfl h
  | cons a t ih =>
    simp only [maxNat]
    rcases le_total a (maxNat t) with hle | hle
    · rw [max_eq_right hle]
      by_cases ht : t = []
      · subst ht; right; simp [maxNat]
      · rcases ih ht with h1 | h1
        · left; exact List.mem_cons_of_mem _ h1
        · right; exact h1
    · rw [max_eq_left hle]; left; exact List.mem_cons_self

theorem listMaxR_spec (l : List ℚ) (h : l ≠ []) : listMaxR l ∈ l ∧ ∀ x ∈ l, x ≤ listMaxR l := by
  induction l with
  | nil => exact absurd rfl h
  | cons a t ih =>
    cases t with
    | nil => simp [listMaxR]
    | cons b t =>
      obtain ⟨m1, m2⟩ := ih (by simp)
      simp only [listMaxR]
      by_cases hlt : listMaxR (b :: t) < a
      · rw [if_pos hlt]
        refine ⟨List.mem_cons_self, fun x hx => ?_⟩
        rcases List.mem_cons.mp hx with rfl | hx
        · exact le_refl _
        · exact le_trans (m2 x hx) (le_of_lt hlt)
      · rw [if_neg hlt]
        refine ⟨List.mem_cons_of_mem _ m1, fun x hx => ?_⟩
        rcases List.mem_cons.mp hx with rfl | hx
        · exact not_lt.mp hlt
        · exact m2 x hx

theorem listMinR_spec (l : List ℚ) (h : l ≠ []) : listMinR l ∈ l ∧ ∀ x ∈ l, listMinR l ≤ x := by
  induction l with
  | nil => exact absurd rfl h
  | cons a t ih =>
    cases t with
    | nil => simp [listMinR]
    | cons b t =>
      obtain ⟨m1, m2⟩ := ih (by simp)
      simp only [listMinR]
      by_cases hlt : a < listMinR (b :: t)
      · rw [if_pos hlt]
        refine ⟨List.mem_cons_self, fun x hx => ?_⟩
        rcases List.mem_cons.mp hx with rfl | hx
        · exact le_refl _
        · exact le_trans (le_of_lt hlt) (m2 x hx)
      · rw [if_neg hlt]
        refine ⟨List.mem_cons_of_mem _ m1, fun x hx => ?_⟩
        rcases List.mem_cons.mp hx with rfl | hx
        · exact not_lt.mp hlt
        · exact m2 x hx

theorem truncInt_int (z : ℤ) : truncInt (z : ℚ) = z := by
  unfold truncInt; split <;> simp [Rat.floor_intCast, Rat.ceil_intCast]

theorem fitsBits_between (lo hi k : ℤ) (n : ℕ) (h1 : lo ≤ k) (h2 : k ≤ hi)
    (fl : Chk.fitsBits lo n = true) (fh : Chk.fitsBits hi n = true) : Chk.fitsBits k n = true := by
  unfold Chk.fitsBits at *
  have hp : (0:ℤ) < 2 ^ n := by positivity
  by_cases hk : 0 ≤ k
  · rw [if_pos hk]
    rw [if_pos (by omega)] at fh
    simp only [decide_eq_true_eq] at fh ⊢; omega
  · rw [if_neg hk]
    rw [if_neg (by omega)] at fl
    simp only [decide_eq_true_eq] at fl ⊢; omega

/-- a value that fits `m` magnitude bits is in range of a format with `m` magnitude bits (unsigned: non-negative). -/
theorem inRange_of_fitsBits (g : Fmt) (hg : g.WF) (k : ℤ) (m : ℕ) (hm : m ≤ g.mag) (hf : Chk.fitsBits k m = true)
    (hu : g.signed = false → 0 ≤ k) : g.InRange k := by
  rw [inRange_iff_mag g hg]
  have hf' := fitsBits_mono k hm hf
  unfold Chk.fitsBits at hf'
  have hp : (0:ℤ) < 2 ^ g.mag := by positivity
  by_cases hk : 0 ≤ k
  · rw [if_pos hk] at hf'
    simp only [decide_eq_true_eq] at hf'
    have hb : 0 ≤ bsig g.signed := by unfold bsig; split <;> omega
    constructor
    · nlinarith
    · omega
  · rw [if_neg hk] at hf'
    simp only [decide_eq_true_eq] at hf'
    have hs : g.signed = true := by
      by_contra hns
      have := hu (by simpa using hns); omega
    rw [hs]; simp only [bsig, if_true]
    constructor <;> omega

/-- the scaled values of a list on the `2^-n` grid are integers. -/
theorem scaled_int (v : ℚ) (n : ℕ) (h : IsInt (v * 2 ^ n)) : ∃ k : ℤ, v * 2 ^ n = k := h

/-- **C06, sizes left unspecified (uncapped)**: for dyadic inputs the inferred format
* stores every value exactly, with no flag, under every rounding/overflow configuration,
* has the fewest fraction bits that make all values exact,
* and, with those fraction bits, the fewest word bits (non-negative integer length, plus sign) holding all of them. -/
theorem infer_exact_minimal (sg : Bool) (vals : List ℚ) (hne : vals ≠ []) (F : ℕ) (hF : F ≤ 62)
    (hgrid : ∀ v ∈ vals, IsInt (v * 2 ^ F)) (hu : sg = false → ∀ v ∈ vals, 0 ≤ v)
    (w f : ℤ) (hb : bestSizes sg vals none none = (w, f)) (hcap : w < 64) (hw : 0 < w) :
    ∃ nf nint : ℕ, f = nf ∧ w = (nf : ℤ) + nint + (if sg then 1 else 0) ∧
      (∀ v ∈ vals, ∀ (r : Rounding) (o : Overflow),
        valueOf ⟨sg, w.toNat, f⟩ (quantize ⟨sg, w.toNat, f⟩ r o v) = v ∧
        storeFlags ⟨sg, w.toNat, f⟩ r o v = ⟨false, false, false⟩) ∧
      (nf = 0 ∨ ∃ v ∈ vals, ¬ IsInt (v * 2 ^ (nf - 1))) ∧
      (nint = 0 ∨ ∃ v ∈ vals, ∃ k : ℤ, v * 2 ^ nf = k ∧ Chk.fitsBits k (nf + nint - 1) = false) := by
  set sign : ℕ := if sg then 1 else 0 with hsign
  have hs1 : sign ≤ 1 := by rw [hsign]; split <;> omega
  set nfN := maxNat (vals.map (fracBits sign)) with hnfN
  -- every value is on the 2^-nfN grid
  have hall : ∀ v ∈ vals, IsInt (v * 2 ^ nfN) := by
    intro v hv
    have h1 := (fracBits_min sign hs1 v F hF (hgrid v hv)).1
    exact isInt_mul_pow (maxNat_ge _ _ (List.mem_map.mpr ⟨v, hv, rfl⟩)) h1
  obtain ⟨hMmem, hMge⟩ := listMaxR_spec vals hne
  obtain ⟨hmmem, hmle⟩ := listMinR_spec vals hne
  obtain ⟨kM, hkM⟩ := hall _ hMmem
  obtain ⟨km, hkm⟩ := hall _ hmmem
  have hcastpow : (((2 ^ ((nfN : ℤ)).toNat : ℕ)) : ℚ) = 2 ^ nfN := by
    rw [Int.toNat_natCast]; push_cast; rfl
  have hvmax : truncInt (listMaxR vals * ((2 ^ ((nfN : ℤ)).toNat : ℕ) : ℚ)) = kM := by
    rw [hcastpow, hkM, truncInt_int]
  have hvmin : truncInt (listMinR vals * ((2 ^ ((nfN : ℤ)).toNat : ℕ) : ℚ)) = km := by
    rw [hcastpow, hkm, truncInt_int]
  set bits := intLoop (kM.natAbs + km.natAbs + 2) kM km 0 with hbits
  obtain ⟨⟨fM, fm⟩, hminbits⟩ := intBits_min kM km
  -- unfold the size computation
  have hbs : bestSizes sg vals none none =
      (min (min ((nWordMax : ℤ) - sign - max ((bits : ℤ) - nfN) 0) nfN + max ((bits : ℤ) - nfN) 0 + sign) nWordMax,
       min ((nWordMax : ℤ) - sign - max ((bits : ℤ) - nfN) 0) nfN) := by
    unfold bestSizes
    simp only [scaledExt_natCast, ← hsign, ← hnfN, hvmax, hvmin, ← hbits]
  rw [hbs] at hb
  have hwf := (Prod.mk.injEq _ _ _ _).mp hb
  obtain ⟨hw', hf'⟩ := hwf
  unfold nWordMax at hw' hf'
  set nintN : ℕ := bits - nfN with hnint
  have hnintZ : max ((bits : ℤ) - nfN) 0 = (nintN : ℤ) := by omega
  rw [hnintZ] at hw' hf'
  have hfeq : f = nfN := by omega
  have hweq : w = (nfN : ℤ) + nintN + sign := by omega
  refine ⟨nfN, nintN, hfeq, ?_, ?_, ?_, ?_⟩
  · rw [hweq]; congr 1; rw [hsign]; split <;> simp
  · -- exactness
    intro v hv r o
    set g : Fmt := ⟨sg, w.toNat, f⟩ with hg
    obtain ⟨k, hk⟩ := hall v hv
    have hgwf : g.WF := by intro _; show 0 < w.toNat; omega
    have hmag : g.mag = nfN + nintN := by
      unfold Fmt.mag; simp only [hg]
      cases sg <;> simp [hsign] at hweq ⊢ <;> omega
    have hp : (0:ℚ) < 2 ^ nfN := by positivity
    have hk1 : km ≤ k := by
      have : listMinR vals * 2 ^ nfN ≤ v * 2 ^ nfN := mul_le_mul_of_nonneg_right (hmle v hv) (le_of_lt hp)
      rw [hkm, hk] at this; exact_mod_cast this
    have hk2 : k ≤ kM := by
      have : v * 2 ^ nfN ≤ listMaxR vals * 2 ^ nfN := mul_le_mul_of_nonneg_right (hMge v hv) (le_of_lt hp)
      rw [hkM, hk] at this; exact_mod_cast this
    have hfit := fitsBits_between km kM k bits hk1 hk2 fm fM
    have hin : g.InRange k := by
      apply inRange_of_fitsBits g hgwf k bits (by omega) hfit
      intro hsg
      have : 0 ≤ v := hu hsg v hv
      have : (0:ℚ) ≤ k := by rw [← hk]; positivity
      exact_mod_cast this
    have hval : valueOf g k = v := by
      unfold valueOf; rw [scale_eq]
      show (k:ℚ) * 2 ^ (-f) = v
      rw [← hk, hfeq, mul_assoc, ← zpow_natCast, ← zpow_add₀ (by norm_num : (2:ℚ) ≠ 0)]; simp
    obtain ⟨q1, q2⟩ := C05.store_idempotent g (by show 0 < w.toNat; omega) r o k hin
    rw [hval] at q1 q2
    exact ⟨by rw [q1, hval], q2⟩
  · -- fewest fraction bits
    rcases maxNat_mem (vals.map (fracBits sign)) (by simpa using hne) with hmem | h0
    · obtain ⟨v, hv, hfv⟩ := List.mem_map.mp hmem
      by_cases hz : nfN = 0
      · left; exact hz
      · right
        refine ⟨v, hv, ?_⟩
        have := (fracBits_min sign hs1 v F hF (hgrid v hv)).2 (nfN - 1) (by rw [hfv, ← hnfN]; omega)
        exact this
    · left; rw [hnfN]; exact h0
  · -- fewest word bits
    by_cases hz : nintN = 0
    · left; exact hz
    · right
      have hlt : nfN + nintN - 1 < bits := by omega
      have hnot := hminbits (nfN + nintN - 1) hlt
      by_cases h1 : Chk.fitsBits kM (nfN + nintN - 1) = true
      · have h2 : Chk.fitsBits km (nfN + nintN - 1) = false := by
          cases hh : Chk.fitsBits km (nfN + nintN - 1)
          · rfl
          · exact absurd ⟨h1, hh⟩ hnot
        exact ⟨_, hmmem, km, hkm, h2⟩
      · exact ⟨_, hMmem, kM, hkM, by simpa using h1⟩

/-- **C06, only `n_word` given**: the fraction length is the largest that still leaves room for the integer part,
capped at the exact one. Here `nf` is the exact fraction length (fewest bits making every value exact) and `nint` the
fewest integer bits holding every exactly-scaled value; the inferred format is `(n_word, min (n_word - sign - nint) nf)`. -/
theorem infer_nword_given (sg : Bool) (vals : List ℚ) (hne : vals ≠ []) (F : ℕ) (hF : F ≤ 62)
    (hgrid : ∀ v ∈ vals, IsInt (v * 2 ^ F)) (wq w f : ℤ) (hwq : wq ≤ 64)
    (hb : bestSizes sg vals (some wq) none = (w, f)) :
    ∃ nf nint : ℕ,
      (∀ v ∈ vals, IsInt (v * 2 ^ nf)) ∧ (nf = 0 ∨ ∃ v ∈ vals, ¬ IsInt (v * 2 ^ (nf - 1))) ∧
      (∀ v ∈ vals, ∃ k : ℤ, v * 2 ^ nf = k ∧ Chk.fitsBits k (max (nf + nint) nf) = true) ∧
      (nint = 0 ∨ ∃ v ∈ vals, ∃ k : ℤ, v * 2 ^ nf = k ∧ Chk.fitsBits k (nf + nint - 1) = false) ∧
      w = wq ∧ f = min (wq - (if sg then 1 else 0) - nint) nf := by
  set sign : ℕ := if sg then 1 else 0 with hsign
  have hs1 : sign ≤ 1 := by rw [hsign]; split <;> omega
  set nfN := maxNat (vals.map (fracBits sign)) with hnfN
  have hall : ∀ v ∈ vals, IsInt (v * 2 ^ nfN) := by
    intro v hv
    have h1 := (fracBits_min sign hs1 v F hF (hgrid v hv)).1
    exact isInt_mul_pow (maxNat_ge _ _ (List.mem_map.mpr ⟨v, hv, rfl⟩)) h1
  obtain ⟨hMmem, hMge⟩ := listMaxR_spec vals hne
  obtain ⟨hmmem, hmle⟩ := listMinR_spec vals hne
  obtain ⟨kM, hkM⟩ := hall _ hMmem
  obtain ⟨km, hkm⟩ := hall _ hmmem
  have hcastpow : (((2 ^ ((nfN : ℤ)).toNat : ℕ)) : ℚ) = 2 ^ nfN := by
    rw [Int.toNat_natCast]; push_cast; rfl
  have hvmax : truncInt (listMaxR vals * ((2 ^ ((nfN : ℤ)).toNat : ℕ) : ℚ)) = kM := by
    rw [hcastpow, hkM, truncInt_int]
  have hvmin : truncInt (listMinR vals * ((2 ^ ((nfN : ℤ)).toNat : ℕ) : ℚ)) = km := by
    rw [hcastpow, hkm, truncInt_int]
  set bits := intLoop (kM.natAbs + km.natAbs + 2) kM km 0 with hbits
  obtain ⟨⟨fM, fm⟩, hminbits⟩ := intBits_min kM km
  have hbs : bestSizes sg vals (some wq) none =
      (min wq nWordMax, min (wq - sign - max ((bits : ℤ) - nfN) 0) nfN) := by
    unfold bestSizes
    simp only [scaledExt_natCast, ← hsign, ← hnfN, hvmax, hvmin, ← hbits]
  rw [hbs] at hb
  obtain ⟨hw', hf'⟩ := (Prod.mk.injEq _ _ _ _).mp hb
  unfold nWordMax at hw'
  set nintN : ℕ := bits - nfN with hnint
  have hnintZ : max ((bits : ℤ) - nfN) 0 = (nintN : ℤ) := by omega
  rw [hnintZ] at hf'
  refine ⟨nfN, nintN, hall, ?_, ?_, ?_, by omega, ?_⟩
  · rcases maxNat_mem (vals.map (fracBits sign)) (by simpa using hne) with hmem | h0
    · obtain ⟨v, hv, hfv⟩ := List.mem_map.mp hmem
      by_cases hz : nfN = 0
      · left; exact hz
      · right
        exact ⟨v, hv, (fracBits_min sign hs1 v F hF (hgrid v hv)).2 (nfN - 1) (by rw [hfv, ← hnfN]; omega)⟩
    · left; rw [hnfN]; exact h0
  · intro v hv
    obtain ⟨k, hk⟩ := hall v hv
    have hp : (0:ℚ) < 2 ^ nfN := by positivity
    have hk1 : km ≤ k := by
      have : listMinR vals * 2 ^ nfN ≤ v * 2 ^ nfN := mul_le_mul_of_nonneg_right (hmle v hv) (le_of_lt hp)
      rw [hkm, hk] at this; exact_mod_cast this
    have hk2 : k ≤ kM := by
      have : v * 2 ^ nfN ≤ listMaxR vals * 2 ^ nfN := mul_le_mul_of_nonneg_right (hMge v hv) (le_of_lt hp)
      rw [hkM, hk] at this; exact_mod_cast this
    have hfit := fitsBits_between km kM k bits hk1 hk2 fm fM
    refine ⟨k, hk, ?_⟩
    have hle : bits ≤ max (nfN + nintN) nfN := by omega
    exact fitsBits_mono k hle hfit
  · by_cases hz : nintN = 0
    · left; exact hz
    · right
      have hlt : nfN + nintN - 1 < bits := by omega
      have hnot := hminbits (nfN + nintN - 1) hlt
      by_cases h1 : Chk.fitsBits kM (nfN + nintN - 1) = true
      · have h2 : Chk.fitsBits km (nfN + nintN - 1) = false := by
          cases hh : Chk.fitsBits km (nfN + nintN - 1)
          · rfl
          · exact absurd ⟨h1, hh⟩ hnot
        exact ⟨_, hmmem, km, hkm, h2⟩
      · exact ⟨_, hMmem, kM, hkM, by simpa using h1⟩
  · rw [← hf', hsign]; congr 2; split <;> simp

/-- **C06, only `n_frac` given** (`n_frac ≥ 0`, result below the cap): the fraction length is kept and the word is minimal —
`n_frac + nint + sign` where `nint` is the fewest integer bits such that both extremes, truncated to the `2^-n_frac` grid,
fit in `n_frac + nint` magnitude bits (one bit fewer no longer holds one of them). -/
theorem infer_nfrac_given (sg : Bool) (vals : List ℚ) (fq : ℕ) (w f : ℤ)
    (hb : bestSizes sg vals none (some (fq : ℤ)) = (w, f)) (hcap : w < 64) :
    ∃ nint : ℕ, f = fq ∧ w = (fq : ℤ) + nint + (if sg then 1 else 0) ∧
      Chk.fitsBits (truncInt (listMaxR vals * 2 ^ fq)) (max (fq + nint) fq) = true ∧
      Chk.fitsBits (truncInt (listMinR vals * 2 ^ fq)) (max (fq + nint) fq) = true ∧
      (nint = 0 ∨ ¬ (Chk.fitsBits (truncInt (listMaxR vals * 2 ^ fq)) (fq + nint - 1) = true ∧
                     Chk.fitsBits (truncInt (listMinR vals * 2 ^ fq)) (fq + nint - 1) = true)) := by
  set sign : ℕ := if sg then 1 else 0 with hsign
  have hcastpow : (((2 ^ ((fq : ℤ)).toNat : ℕ)) : ℚ) = 2 ^ fq := by
    rw [Int.toNat_natCast]; push_cast; rfl
  set kM := truncInt (listMaxR vals * 2 ^ fq) with hkM
  set km := truncInt (listMinR vals * 2 ^ fq) with hkm
  set bits := intLoop (kM.natAbs + km.natAbs + 2) kM km 0 with hbits
  obtain ⟨⟨fM, fm⟩, hminbits⟩ := intBits_min kM km
  have hbs : bestSizes sg vals none (some (fq : ℤ)) =
      (min (min ((nWordMax : ℤ) - sign - max ((bits : ℤ) - fq) 0) fq + max ((bits : ℤ) - fq) 0 + sign) nWordMax,
       min ((nWordMax : ℤ) - sign - max ((bits : ℤ) - fq) 0) fq) := by
    unfold bestSizes
    simp only [scaledExt_natCast, ← hsign, hcastpow, ← hkM, ← hkm, ← hbits]
  rw [hbs] at hb
  obtain ⟨hw', hf'⟩ := (Prod.mk.injEq _ _ _ _).mp hb
  unfold nWordMax at hw' hf'
  set nintN : ℕ := bits - fq with hnint
  have hnintZ : max ((bits : ℤ) - fq) 0 = (nintN : ℤ) := by omega
  rw [hnintZ] at hw' hf'
  have hs1 : sign ≤ 1 := by rw [hsign]; split <;> omega
  have hfeq : f = fq := by omega
  have hweq : w = (fq : ℤ) + nintN + sign := by omega
  refine ⟨nintN, hfeq, ?_, ?_, ?_, ?_⟩
  · rw [hweq]; congr 1; rw [hsign]; split <;> simp
  · exact fitsBits_mono kM (by omega) fM
  · exact fitsBits_mono km (by omega) fm
  · by_cases hz : nintN = 0
    · left; exact hz
    · right; exact hminbits (fq + nintN - 1) (by omega)

/-- for a negative given fraction length the scaled extreme is `int(v / 2^k)` (toward zero). -/
theorem scaledExt_neg (k : ℕ) (hk : 1 ≤ k) (v : ℚ) : scaledExt (-(k : ℤ)) v = truncInt (v / ((2 ^ k : ℕ) : ℚ)) := by
  unfold scaledExt
  rw [if_neg (by omega)]
  simp

/-- **only a negative `n_frac` given** (D49: the pinned tree raised `ValueError` here): the fraction length is kept and the word is the
fewest bits (plus the sign bit) that hold the truncated extremes `int(v / 2^k)` — "if only n_frac is given the word is minimal". -/
theorem infer_nfrac_given_neg (sg : Bool) (vals : List ℚ) (k : ℕ) (hk : 1 ≤ k) (w f : ℤ)
    (hb : bestSizes sg vals none (some (-(k : ℤ))) = (w, f)) (hcap : w < 64) :
    ∃ bits : ℕ, f = -(k : ℤ) ∧ w = (bits : ℤ) + (if sg then 1 else 0) ∧
      Chk.fitsBits (truncInt (listMaxR vals / ((2 ^ k : ℕ) : ℚ))) bits = true ∧
      Chk.fitsBits (truncInt (listMinR vals / ((2 ^ k : ℕ) : ℚ))) bits = true ∧
      (bits = 0 ∨ ¬ (Chk.fitsBits (truncInt (listMaxR vals / ((2 ^ k : ℕ) : ℚ))) (bits - 1) = true ∧
                     Chk.fitsBits (truncInt (listMinR vals / ((2 ^ k : ℕ) : ℚ))) (bits - 1) = true)) := by
  set sign : ℕ := if sg then 1 else 0 with hsign
  set kM := truncInt (listMaxR vals / ((2 ^ k : ℕ) : ℚ)) with hkM
  set km := truncInt (listMinR vals / ((2 ^ k : ℕ) : ℚ)) with hkm
  set bits := intLoop (kM.natAbs + km.natAbs + 2) kM km 0 with hbits
  obtain ⟨⟨fM, fm⟩, hminbits⟩ := intBits_min kM km
  have hbs : bestSizes sg vals none (some (-(k : ℤ))) =
      (min (min ((nWordMax : ℤ) - sign - max ((bits : ℤ) - -(k : ℤ)) 0) (-(k : ℤ)) + max ((bits : ℤ) - -(k : ℤ)) 0 + sign) nWordMax,
       min ((nWordMax : ℤ) - sign - max ((bits : ℤ) - -(k : ℤ)) 0) (-(k : ℤ))) := by
    unfold bestSizes
    simp only [scaledExt_neg k hk, ← hsign, ← hkM, ← hkm, ← hbits]
  rw [hbs] at hb
  obtain ⟨hw', hf'⟩ := (Prod.mk.injEq _ _ _ _).mp hb
  unfold nWordMax at hw' hf'
  have hs1 : sign ≤ 1 := by rw [hsign]; split <;> omega
  have hfeq : f = -(k : ℤ) := by omega
  have hweq : w = (bits : ℤ) + sign := by omega
  refine ⟨bits, hfeq, ?_, fM, fm, ?_⟩
  · rw [hweq]; congr 1; rw [hsign]; split <;> simp
  · by_cases hz : bits = 0
    · left; exact hz
    · right; exact hminbits (bits - 1) (by omega)

example : bestSizes true [1024] none (some (-3)) = (9, -3) := by decide +kernel      -- Fxp(1024, n_frac=-3) is s9/-3 (D49)

/-- if `n_int` is given with one other size, the third follows arithmetically (no search). -/
theorem infer_nint_arith (sg : Bool) (vals : List ℚ) (wq fq i : ℤ) :
    (inferFmt (some sg) none (some fq) (some i) vals =
      (if i + fq + (if sg then 1 else 0) < 0 ∨ (sg = true ∧ i + fq + (if sg then 1 else 0) = 0) then none
       else some ⟨sg, (i + fq + (if sg then 1 else 0)).toNat, fq⟩)) ∧
    (inferFmt (some sg) (some wq) none (some i) vals =
      (if wq < 0 ∨ (sg = true ∧ wq = 0) then none else some ⟨sg, wq.toNat, wq - i - (if sg then 1 else 0)⟩)) := by
  constructor <;> simp [inferFmt]

/-- an inferred word never exceeds the configured maximum. -/
theorem infer_cap (sg : Bool) (vals : List ℚ) (nword nfrac : Option ℤ) : (bestSizes sg vals nword nfrac).1 ≤ 64 := by
  unfold bestSizes
  simp only
  split <;> exact min_le_right _ _

end Fxp.C06
