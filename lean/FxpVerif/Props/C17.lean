import FxpVerif.Model.Scale
import FxpVerif.Props.C01
import FxpVerif.Props.C05
/-! # C17 — scale and bias act as an exact affine wrapper around the stored code -/
namespace Fxp.C17
open Fxp

/-- storing `v` into a scaled object stores the C01 quantization of `(v - b) / s`. -/
theorem scaled_store (f : Fmt) (hw : 0 < f.nword) (r : Rounding) (o : Overflow) (s b v : ℚ) :
    C01.Spec f r o ((v - b) / s) (storeScaled f r o s b v) := by
  unfold storeScaled toInner; exact C01.quantize_spec f hw r o _

/-- reading returns `s · code · 2^-n_frac + b`. -/
theorem scaled_read (f : Fmt) (s b : ℚ) (c : ℤ) :
    readScaled f s b c = s * ((c:ℚ) * (2:ℚ) ^ (-f.nfrac)) + b := by
  unfold readScaled fromInner valueOf; rw [scale_eq]

/-- upper, lower and precision are the unscaled ones mapped through the same affine map (precision through `s` only),
literally — also for a negative scale. -/
theorem scaled_limits (f : Fmt) (s b : ℚ) :
    upperScaled f s b = s * ((f.hi:ℚ) * (2:ℚ) ^ (-f.nfrac)) + b ∧
    lowerScaled f s b = s * ((f.lo:ℚ) * (2:ℚ) ^ (-f.nfrac)) + b ∧
    precisionScaled f s = s * (2:ℚ) ^ (-f.nfrac) := by
  unfold upperScaled lowerScaled precisionScaled fromInner valueOf
  simp only [scale_eq]
  refine ⟨trivial, trivial, by push_cast; ring⟩

/-- the affine map and its inverse cancel (`s ≠ 0`). -/
theorem from_to_inner (s b v : ℚ) (hs : s ≠ 0) : fromInner s b (toInner s b v) = v := by
  unfold fromInner toInner; field_simp; ring

/-- **round trip**: a non-overflowing input is read back within `|s| · LSB`. -/
theorem scaled_roundtrip_err (f : Fmt) (hw : 0 < f.nword) (r : Rounding) (o : Overflow) (s b v : ℚ) (hs : s ≠ 0)
    (hno : C05.NoOverflow f (toInner s b v)) :
    |readScaled f s b (storeScaled f r o s b v) - v| < |s| * (2:ℚ) ^ (-f.nfrac) := by
  have herr := C05.err_lt_lsb f hw r o (toInner s b v) hno
  unfold C05.ErrLtLsb C05.lsb at herr
  rw [C05.val_eq_valueOf] at herr
  unfold readScaled storeScaled
  have : fromInner s b (valueOf f (quantize f r o (toInner s b v))) - v =
      s * (valueOf f (quantize f r o (toInner s b v)) - toInner s b v) := by
    generalize valueOf f (quantize f r o (toInner s b v)) = X
    unfold fromInner toInner; field_simp; ring
  rw [this, abs_mul]
  exact mul_lt_mul_of_pos_left herr (abs_pos.mpr hs)

/-- exact read-back when the inner value is representable. -/
theorem scaled_exact_if_repr (f : Fmt) (hw : 0 < f.nword) (r : Rounding) (o : Overflow) (s b : ℚ) (hs : s ≠ 0) (c : ℤ)
    (h : f.InRange c) : readScaled f s b (storeScaled f r o s b (fromInner s b (valueOf f c))) = fromInner s b (valueOf f c) := by
  unfold storeScaled readScaled
  have : toInner s b (fromInner s b (valueOf f c)) = valueOf f c := by
    unfold toInner fromInner; field_simp; ring
  rw [this, (C05.store_idempotent f hw r o c h).1]

/-- flags are raised on the same conditions as for the unscaled value `(v - b) / s`. -/
theorem scaled_flags_eq_unscaled (f : Fmt) (r : Rounding) (o : Overflow) (s b v : ℚ) :
    flagsScaled f r o s b v = storeFlags f r o ((v - b) / s) := rfl

/-- size inference for scaled objects sizes the transformed values. -/
theorem scaled_infer (signed : Option Bool) (s b : ℚ) (vals : List ℚ) :
    inferScaled signed s b vals = inferFmt signed none none none (vals.map (fun v => (v - b) / s)) := rfl

/-! non-vacuity -/
example : storeScaled ⟨false, 8, 0⟩ .trunc .saturate 1 (-2) 3 = 5 := by decide +kernel      -- D11 witness
example : readScaled ⟨false, 8, 0⟩ 1 (-2) 5 = 3 := by decide +kernel
example : upperScaled ⟨true, 8, 2⟩ (-2) 1 = -125/2 := by decide +kernel

end Fxp.C17
