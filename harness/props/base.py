"""Defaults shared by the property modules."""
from ..env import parse_list

TRUSTED_BASE = [
    'Lean 4.33.0 kernel; axioms propext, Classical.choice, Quot.sound only (audited per theorem on every run); no native_decide/bv_decide/sorry',
    'Mathlib v4.33.0 modules imported by the proof files',
    'hand-written Lean model under lean/FxpVerif/Model (executed by the compiled driver, proved about in Props/)',
    'correspondence harness (Python generators, canonicalisation, Driver.lean parser/printer); agreement is established on generated inputs only',
    'NumPy/CPython primitives modelled by their mathematical meaning (Python int arithmetic; IEEE-754 binary64 operations exact when the result is representable; np.around = half-to-even)',
]
ASSUMPTIONS = [
    'the Lean statements in Spec/ render the English property faithfully',
    'inputs are generated so that every carrier represents them exactly; the harness itself never rounds',
]


def word_bucket(n):
    return 'w<=6' if n <= 6 else 'w<=16' if n <= 16 else 'w<=32' if n <= 32 else 'w<=52' if n <= 52 else 'w<=63' if n <= 63 else 'w>=64'


def generic_stats(verdicts, keyf, elemf=None, exhaustive=None):
    dist, elements = {}, 0
    for v in verdicts:
        if v[0] == 'SKIP':
            continue
        t = v[1].split(' | ')[0].split()
        for k in keyf(t):
            dist[k] = dist.get(k, 0) + 1
        elements += elemf(t) if elemf else 1
    return {'distribution': dist, 'elements': elements, 'exhaustive': bool(exhaustive),
            'exhaustive_subdomains': exhaustive or []}
