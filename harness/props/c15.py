"""C15 — NumPy reductions and linear algebra on fixed-point arrays are exact."""
import numpy as np
from ..env import Fxp, parse_list, tok_list, lims, codes_of, fmt_of, exc_token, tok_bool, tok_exact, flat, OVFS
from . import base
from ..arith import hist_of, warm, overwrite_in_place

TRUSTED_BASE = base.TRUSTED_BASE + ['np.sum/cumsum/prod/cumprod/dot/trace/max/min/sort/clip/transpose/diagonal on integer arrays are modelled by list folds and re-indexing (Model/Reduce.lean)']
ASSUMPTIONS = base.ASSUMPTIONS + ['results up to 53 bits (int64 accumulation exact); np.matmul / @ are sized like dot (D66)',
                                  'NumPy-route = method-route is a dispatch fact established by correspondence only']
RULE = ('RD lines: (function, call route numpy/method, axis None/0/1, shape up to 3x3 or length 8, format n_word<=12, overflow config, codes) with elements all-min / all-max / mixed extremes / random; '
        'RDD: dot of 1-D/2-D operands with mixed signedness; RDC: clip; RDM: np.matmul / @ of 2-D operands (format, codes, flags). non-trivial = more than one element (always) and some element at an extreme of its format')
TECHNIQUE = 'Lean 4 theorems (sum of k in-range codes fits n_word+ceil(log2 k) bits, prefix sums too, product of k codes fits k*n_word bits, dot fits, values exact, max/sort/clip characterised) + differential correspondence + source tie: the growth/sizing/carrier rules of fxpmath/functions.py are translated to Lean on every run (harness/srcgen.py) and the tie theorems of lean/FxpVerif/Gen/Tie.lean re-checked against the translation'
LEVEL_TEXT = ('Machine-checked for any list length and word length: the sum (and every prefix sum) of k in-range codes is in range of the (n_word + clog2 k)-bit format, the product of k codes in range of the k*n_word-bit format, '
              'a dot product of length k in range of the (clog2 k + n_x + n_y)-bit format, for every signedness mix, so the accumulating functions never overflow and their values are the exact sums/products of the element values; '
              'max/min select an element, sort yields a sorted permutation, clip clamps. The implementation is compared with the list model on shapes up to 3x3 / length 8 through both call routes and every axis.')
LEVEL_NOTE = 'Trusted: Lean kernel + standard axioms; NumPy reduction primitives modelled; model-vs-code agreement on generated inputs only.'

NPF = {'sum': np.sum, 'cumsum': np.cumsum, 'prod': np.prod, 'cumprod': np.cumprod, 'max': np.max, 'min': np.min,
       'sort': np.sort, 'transpose': np.transpose, 'diagonal': np.diagonal, 'trace': np.trace}


def mkarr(codes, r, c, s, n, f, **cfg):
    a = np.array(codes, dtype=np.int64)
    if r:
        a = a.reshape(r, c)
    if hist_of(n, f, r, c, *[v % 97 for v in codes[:3]]) % 3 == 0 and len(codes) > 1:
        # an array object with a past (content-determined): born with the codes in reversed order, used by every kind of function,
        # then overwritten element by element in its existing buffer
        x = Fxp(a.ravel()[::-1].reshape(a.shape).copy(), s, n, f, raw=True, **cfg)
        warm(x)
        return overwrite_in_place(x, codes)
    if hist_of(n, f, r, c, *[v % 89 for v in codes[:3]]) % 4 == 1:
        # (content-determined) the array was re-formatted before it is used: born in another format (the other signedness, a wider
        # word), brought to its format by a format string, a Q-notation string or keywords, and then given its codes
        born_signed = (not s) if (n + len(codes)) % 2 else s
        x = Fxp(np.zeros_like(a), born_signed, n + 4, max(f, 0) + 1, **cfg)
        k = (n + f + len(codes)) % 3
        if k == 0:
            x.resize(dtype='fxp-%s%d/%d' % ('s' if s else 'u', n, f))
        elif k == 1 and 0 <= f <= n:
            x.resize(dtype='%s%d.%d' % ('Q' if s else 'UQ', n - f, f))
        else:
            x.resize(signed=s, n_word=n, n_frac=f)
        x.set_val(a, raw=True)
        assert codes_of(x) == [int(v) for v in codes] and (bool(x.signed), x.n_word, x.n_frac) == (s, n, f)
        return x
    return Fxp(a, s, n, f, raw=True, **cfg)


def observe(z):
    if not isinstance(z, Fxp):
        return ['NOTFXP:' + type(z).__name__]
    st = z.status
    return fmt_of(z).split() + [str(tuple(z.shape)).replace(' ', ''), tok_list([str(c) for c in codes_of(z)]),
                                tok_bool(st['overflow']), tok_bool(st['underflow'])]


def exec_RD(t):
    fn, route, axis = t[0], t[1], t[2]
    r, c = int(t[3]), int(t[4])
    s, n, f = t[5] == 's', int(t[6]), int(t[7])
    o = t[8]
    codes = [int(v) for v in parse_list(t[9])]
    try:
        x = mkarr(codes, r, c, s, n, f, overflow=o)
        before = codes_of(x)
        kw = {}
        if fn == 'transpose' and axis in ('id', 'sw'):
            nd = 2 if r else 1
            kw['axes'] = tuple(range(nd)) if axis == 'id' else tuple(reversed(range(nd)))
        elif fn in ('diagonal', 'trace') and axis[0] in 'ow':
            # another diagonal: offset k, with the two axes in their default order ("o") or the other way round ("w")
            kw['offset'] = int(axis[1:])
            if axis[0] == 'w':
                kw['axis1'], kw['axis2'] = (1, 0) if (r + c + kw['offset']) % 2 else (-1, -2)
        elif axis == 'N' and fn not in ('transpose', 'diagonal', 'trace'):
            kw['axis'] = None             # passed explicitly (for sort this is not the default)
        elif axis != 'n' and fn not in ('transpose', 'diagonal', 'trace'):
            kw['axis'] = int(axis)
        if route == 'numpy':
            z = NPF[fn](x, **kw)
        else:
            if fn == 'sort':
                x.sort(**kw)
                z = x
            elif fn == 'transpose':
                z = x.transpose(**kw)
            else:
                z = getattr(x, fn)(**kw)
        if fn != 'sort' and codes_of(x) != before:
            return ['MUTATED']
    except Exception as e:
        return [exc_token(e)]
    return observe(z)


def exec_RDD(t):
    route = t[0]
    r1, c1 = int(t[1]), int(t[2])
    sx, nx, fx = t[3] == 's', int(t[4]), int(t[5])
    r2, c2 = int(t[6]), int(t[7])
    sy, ny, fy = t[8] == 's', int(t[9]), int(t[10])
    o = t[11]
    a = [int(v) for v in parse_list(t[12])]
    b = [int(v) for v in parse_list(t[13])]
    try:
        x = mkarr(a, r1, c1, sx, nx, fx, overflow=o)
        y = mkarr(b, r2, c2, sy, ny, fy)
        z = np.dot(x, y) if route == 'numpy' else x.dot(y)
    except Exception as e:
        return [exc_token(e)]
    return observe(z)


def exec_RDC(t):
    route = t[0]
    s, n, f = t[1] == 's', int(t[2]), int(t[3])
    lo, hi = t[4], t[5]
    codes = [int(v) for v in parse_list(t[6])]
    try:
        x = mkarr(codes, 0, len(codes), s, n, f)
        amin = None if lo == '-' else int(lo) / 2.0 ** f
        amax = None if hi == '-' else int(hi) / 2.0 ** f
        if (len(codes) + n + sum(c % 3 for c in codes)) % 4 == 0:
            # the bounds as fixed-point objects holding the same values (in a format of their own)
            amin = None if amin is None else Fxp(int(lo), True, n + 2, f, raw=True)
            amax = None if amax is None else Fxp(int(hi), True, n + 3, f, raw=True)
        v_ = (len(codes) + n + sum(c % 5 for c in codes)) % 4
        if v_ == 1 and not isinstance(amin, Fxp) and not isinstance(amax, Fxp):
            # the bounds under NumPy's newer keyword names
            z = np.clip(x, min=amin, max=amax) if route == 'numpy' else x.clip(min=amin, max=amax)
        elif v_ == 2 and not isinstance(amin, Fxp) and not isinstance(amax, Fxp):
            # the bounds as one-element lists (broadcast like arrays)
            z = np.clip(x, None if amin is None else [amin], None if amax is None else [amax]) if route == 'numpy' else \
                x.clip(None if amin is None else [amin], None if amax is None else [amax])
        else:
            z = np.clip(x, amin, amax) if route == 'numpy' else x.clip(amin, amax)
    except Exception as e:
        return [exc_token(e)]
    if not isinstance(z, Fxp):
        return ['NOTFXP:' + type(z).__name__]
    return fmt_of(z).split() + [tok_list([str(c) for c in codes_of(z)])]


def exec_RDM(t):
    r1, c1 = int(t[0]), int(t[1])
    sx, nx, fx = t[2] == 's', int(t[3]), int(t[4])
    r2, c2 = int(t[5]), int(t[6])
    sy, ny, fy = t[7] == 's', int(t[8]), int(t[9])
    a = [int(v) for v in parse_list(t[10])]
    b = [int(v) for v in parse_list(t[11])]
    try:
        x = mkarr(a, r1, c1, sx, nx, fx)
        y = mkarr(b, r2, c2, sy, ny, fy)
        z = np.matmul(x, y) if (a[0] + len(b)) % 2 else x @ y        # the function and the operator spelling
        return observe(z)
    except Exception as e:
        return [exc_token(e)]


EXEC = {'RD': exec_RD, 'RDD': exec_RDD, 'RDC': exec_RDC, 'RDM': exec_RDM}


def fm(s, n, f):
    return '%s %d %d' % ('s' if s else 'u', n, f)


def elems(rng, lo, hi, k):
    kind = rng.random()
    if kind < 0.2:
        return [lo] * k
    if kind < 0.4:
        return [hi] * k
    if kind < 0.6:
        return [rng.choice([lo, hi]) for _ in range(k)]
    return [rng.choice([lo, hi, 0, 1, rng.randint(lo, hi), rng.randint(lo, hi)]) for _ in range(k)]


def generate(tier, rng):
    L = lambda l: tok_list([str(c) for c in l])
    n_c = 4000 if tier == 'quick' else 100000
    for _ in range(n_c):
        s = rng.random() < 0.5
        n = rng.randint(1 + int(s), 12)
        f = rng.randint(0, n) if rng.random() < 0.7 else rng.randint(-2, n + 3)
        lo, hi = lims(s, n)
        two = rng.random() < 0.5
        if two:
            r, c = rng.randint(1, 3), rng.randint(1, 3)
        else:
            r, c = 0, rng.randint(1, 8)
        size = (r or 1) * c
        fn = rng.choice(['sum', 'cumsum', 'prod', 'cumprod', 'max', 'min', 'sort', 'transpose', 'diagonal', 'trace'])
        if fn in ('diagonal', 'trace') and not two:
            continue
        if fn in ('prod', 'cumprod') and size * n > 53:
            continue
        if fn == 'cumprod':
            # the quantifier bounds the result word by 53 bits: the cumprod format holds every partial product (size*n_frac fraction bits)
            nf = size * f if f >= 0 else f
            if max(n + nf - f, size * n + nf - size * f) > 53:
                continue
        axis = rng.choice(['n', 'N', '0', '-1'] + (['1', '-2'] if two else []))
        if fn in ('transpose', 'diagonal', 'trace'):
            axis = rng.choice(['n', 'id', 'sw']) if fn == 'transpose' else 'n'
            if fn != 'transpose' and r and rng.random() < 0.6:
                # a diagonal other than the main one, axes in either order; never an empty one
                if rng.random() < 0.5:
                    ks = [k for k in range(-(r - 1), c) if k != 0]
                    if ks:
                        axis = 'o%d' % rng.choice(ks)
                else:
                    ks = [k for k in range(-(c - 1), r)]
                    if ks:
                        axis = 'w%d' % rng.choice(ks)
        route = rng.choice(['numpy', 'method'])
        if axis == 'N' and fn == 'sort':
            route = 'numpy'               # the in-place method cannot flatten
        yield 'RD %s %s %s %d %d %s %s %s' % (fn, route, axis, r, c, fm(s, n, f), rng.choice(OVFS), L(elems(rng, lo, hi, size)))
    for _ in range(n_c // 3):
        sx, sy = rng.random() < 0.5, rng.random() < 0.5
        nx, ny = rng.randint(1 + int(sx), 12), rng.randint(1 + int(sy), 12)
        fx, fy = (rng.randint(0, nx), rng.randint(0, ny)) if rng.random() < 0.7 else (rng.randint(-2, nx + 3), rng.randint(-2, ny + 3))
        if rng.random() < 0.1:
            fx, fy = rng.randint(20, 45), rng.randint(20, 45)      # tiny values: the result has 54 fraction bits and more in a short word (D66)
        k = rng.randint(1, 4)
        shape = rng.choice(['vv', 'mv', 'vm', 'mm'])
        r1, c1 = (0, k) if shape[0] == 'v' else (rng.randint(1, 3), k)
        r2, c2 = (0, k) if shape[1] == 'v' else (k, rng.randint(1, 3))
        lox, hix = lims(sx, nx); loy, hiy = lims(sy, ny)
        a = elems(rng, lox, hix, (r1 or 1) * c1); b = elems(rng, loy, hiy, (r2 or 1) * c2)
        yield 'RDD %s %d %d %s %d %d %s %s %s %s' % (rng.choice(['numpy', 'method']), r1, c1, fm(sx, nx, fx), r2, c2, fm(sy, ny, fy), rng.choice(OVFS), L(a), L(b))
        if shape == 'mm' and rng.random() < 0.3:
            yield 'RDM %d %d %s %d %d %s %s %s' % (r1, c1, fm(sx, nx, fx), r2, c2, fm(sy, ny, fy), L(a), L(b))
    for _ in range(n_c // 8):
        s = rng.random() < 0.5
        n = rng.randint(2, 12); f = rng.randint(0, n) if rng.random() < 0.7 else rng.randint(-2, n + 3)
        lo, hi = lims(s, n)
        cs = elems(rng, lo, hi, rng.randint(1, 8))
        a, b = sorted([rng.randint(lo, hi), rng.randint(lo, hi)])
        side = rng.choice(['both', 'both', 'lower-only', 'upper-only'])
        yield 'RDC %s %s %s %s %s' % (rng.choice(['numpy', 'method']), fm(s, n, f), '-' if side == 'upper-only' else str(a), '-' if side == 'lower-only' else str(b), L(cs))
        if side != 'both':
            # a one-sided clip must leave the other extreme alone: all codes of the upper / lower half
            ext = [hi, hi - 1, lo, lo + 1, (hi + lo) // 2] + cs[:2]
            yield 'RDC %s %s %s %s %s' % (rng.choice(['numpy', 'method']), fm(s, n, f), '-' if side == 'upper-only' else str(a), '-' if side == 'lower-only' else str(b), L(ext))


def nontrivial(full_line, model):
    return True


def debug_class(t):
    return ' '.join(t[0:4]) if t[0] == 'RD' else t[0] + ' ' + t[1]


def stats(verdicts):
    return base.generic_stats(verdicts, lambda t: ['op:' + t[0]] + (['fn:' + t[1], 'route:' + t[2], 'axis:' + t[3], 'dims:' + ('2d' if t[4] != '0' else '1d')] if t[0] == 'RD' else []),
                              lambda t: len(parse_list(t[-1])), [])
