"""C20 — objects are independent and inputs are never mutated."""
import copy
from fractions import Fraction
import numpy as np
import fxpmath
from ..env import Fxp, Config, parse_list, tok_list, lims, codes_of, exc_token, tok_frac, to_float, is_exact_float, frac, ROUNDS, OVFS
from .. import gen as G
from . import base

TRUSTED_BASE = base.TRUSTED_BASE + ['copy.deepcopy copies deeply and np.array(list) copies (the model allocates fresh cells for them)']
ASSUMPTIONS = base.ASSUMPTIONS + ['routes are exactly those listed in the statement; copy() (documented shallow), .T and flatten()/ravel() are not among them',
                                  'indexing views are exercised on 2-D objects (x[i] is a row view; 1-D integer indexing returns a copy of the element)']
RULE = ('HEAP lines: random histories (<=14 steps) that create objects, derive new ones by like=, fxp_like(), deepcopy (also flatten() and .T of 1-D objects), like(), conversion, +, np.add, ~, >> (trunc/keep), row indexing, strided / reversed slicing, column indexing (also of views), and then mutate one (whole write, indexed write, config change, flag-raising write, reset); '
        'after every step the observable state (format, codes, config, flags) of ALL live objects and the real sharing graph (config/status identity, np.shares_memory) are compared with the model. '
        'INP lines: lists / nested lists / tuples / arrays of numbers and of bin/hex strings are deep-compared before and after construction (constructor, call, set_val; from_bin as function and method for unprefixed binary strings); int64/uint64 arrays of in-range integers (the storage type itself, by value with n_frac=0, raw, inferred sizes, dtype=): no shared buffer, writes on either side stay there. BCF lines: every Config field x invalid values through the setter, Fxp kwargs and Config(). '
        'non-trivial = a history with at least one derivation followed by a mutation')
TECHNIQUE = 'Lean 4 theorems on a heap model (fresh allocation on every route except index views, no-sharing invariant by induction over histories, frame property of mutations, write-through of views) + differential correspondence of object states and sharing graphs'
LEVEL_TEXT = ('Machine-checked on the heap model: every derivation route allocates config, status and buffer cells that no live object refers to (views - rows, strided and reversed slices, columns - share only the buffer), the pairwise-disjointness invariant is preserved by every operation along any history, no creating step changes the codes, flags or configuration of an existing object, '
              'a mutation of one object leaves the observable state of every object it shares no cell with unchanged, and an indexed write through a view lands on the base element at the position off + k*stride of the view, which the base reads back. '
              'The implementation\'s object states and its real sharing graph are compared with the model after every step of random derive-then-mutate histories.')
LEVEL_NOTE = 'Trusted: Lean kernel + standard axioms; allocation behaviour of the routes is modelled from the code and tied to it by the sharing-graph correspondence; "inputs unchanged" and "invalid config rejected" are observed on the implementation.'


def pyval(q):
    q = Fraction(q)
    return int(q) if q.denominator == 1 else to_float(q)


def snap(objs, order):
    parts = []
    for nm in order:
        x = objs[nm]
        st = x.status
        parts.append('%s=%s,%d,%d=%s=%s,%s=%s' % (nm, 's' if x.signed else 'u', x.n_word, x.n_frac,
                                                   tok_list([str(c) for c in codes_of(x)]), x.config.rounding, x.config.overflow,
                                                   ''.join('1' if st[k] else '0' for k in ('overflow', 'underflow', 'inaccuracy'))))
    pairs = []
    for i, a in enumerate(order):
        for b in order[i + 1:]:
            x, y = objs[a], objs[b]
            fl = ('c' if x.config is y.config else '') + ('s' if x.status is y.status else '') + \
                 ('b' if np.shares_memory(np.asarray(x.val), np.asarray(y.val)) else '')
            if getattr(x, 'callbacks', None) is getattr(y, 'callbacks', None) and x.callbacks is not None and 'c' not in fl:
                fl += 'k'
            if fl:
                pairs.append('%s-%s:%s' % (a, b, fl))
    return ';'.join(parts) + '#' + (','.join(pairs) if pairs else '-')


def exec_HEAP(t):
    objs, order, out = {}, [], []
    def add(nm, x):
        objs[nm] = x; order.append(nm)
    try:
        for tok in t:
            p = tok.split(':')
            k = p[0]
            linked = None
            if k in ('K', 'C', 'J', 'L', 'B', 'H') and (len(order) + len(tok)) % 2 == 0:
                # (content-determined) while it is copied, the source's configuration names the source itself as the format of its
                # results ("what I compute keeps my format": config.op_out_like = x, or array_op_out_like) — a reference inside the
                # configuration is part of what a copy must not share; the link is taken off both objects right after
                linked = objs[p[3] if k == 'L' else p[2]]
                which = 'op_out_like' if len(order) % 2 else 'array_op_out_like'
                setattr(linked.config, which, linked)
            if k == 'N':
                s, n, f, r, c = p[2] == 's', int(p[3]), int(p[4]), int(p[5]), int(p[6])
                shape = () if c == 0 else ((c,) if r == 0 else (r, c))
                add(p[1], Fxp(np.zeros(shape, dtype=int) if shape else 0, s, n, f))
            elif k == 'K':
                add(p[1], Fxp(like=objs[p[2]]))
            elif k == 'C':
                src = objs[p[2]]
                how = (len(order) + len(p[1]) + ord(p[2][0])) % 5
                if how == 4:
                    # a copy given the source's value once more with equal(): the codes move, nothing is shared
                    y_ = src.deepcopy()
                    y_.equal(src)
                    add(p[1], y_)
                elif src.ndim == 1 and how == 2:
                    add(p[1], src.flatten())          # "a copy of the Fxp" (1-D: same shape)
                elif src.ndim == 1 and how == 3:
                    add(p[1], src.T)                  # transpose of a 1-D object: an independent object with the same codes
                else:
                    add(p[1], copy.deepcopy(src) if how % 2 else src.deepcopy())
            elif k == 'J':
                add(p[1], fxpmath.fxp_like(objs[p[2]], pyval(frac(p[3]))))
            elif k == 'L':
                add(p[1], objs[p[2]].like(objs[p[3]]))
            elif k == 'V':
                add(p[1], Fxp(objs[p[2]], p[3] == 's', int(p[4]), int(p[5])))
            elif k == 'A':
                add(p[1], objs[p[2]] + objs[p[3]])
            elif k == 'P':
                add(p[1], np.add(objs[p[2]], objs[p[3]]))
            elif k == 'B':
                add(p[1], ~objs[p[2]])
            elif k == 'S':
                add(p[1], objs[p[2]] << int(p[3]))
            elif k == 'H':
                objs[p[2]].config.shifting = 'trunc' if len(order) % 2 else 'keep'
                add(p[1], objs[p[2]] >> int(p[3]))
            elif k == 'X':
                add(p[1], objs[p[2]][int(p[3])])
            elif k == 'T':
                st, sp, n = int(p[3]), int(p[4]), int(p[5])
                stop = st + n * sp
                v = objs[p[2]][slice(st, stop if stop >= 0 else None, sp)]
                assert v.shape == (n,), 'slice shape %s' % (v.shape,)
                add(p[1], v)
            elif k == 'Y':
                add(p[1], objs[p[2]][:, int(p[3])])
            elif k == 'W':
                x = objs[p[1]]
                vs = [pyval(frac(v)) for v in parse_list(p[2])]
                x(np.array(vs).reshape(x.shape) if x.ndim > 0 else vs[0])
            elif k == 'I':
                x = objs[p[1]]
                idx = int(p[2])
                x[np.unravel_index(idx, x.shape) if x.ndim > 1 else idx] = pyval(frac(p[3]))
            elif k == 'G':
                x = objs[p[1]]
                if len(out) % 2:
                    x.config.rounding = p[2]
                    x.config.overflow = p[3]
                else:
                    # the mirror properties of the object itself
                    x.rounding = p[2]
                    x.overflow = p[3]
                    assert (x.config.rounding, x.config.overflow) == (p[2], p[3]) and (x.rounding, x.overflow) == (p[2], p[3])
            elif k == 'R':
                objs[p[1]].reset()
            else:
                raise ValueError(tok)
            if linked is not None:
                for o_ in (linked, objs[p[1]]):
                    o_.config.op_out_like = None
                    o_.config.array_op_out_like = None
            out.append(snap(objs, order))
    except Exception as e:
        return out + [exc_token(e)]
    return out


def deep_eq(a, b):
    if isinstance(a, np.ndarray) or isinstance(b, np.ndarray):
        return isinstance(a, np.ndarray) and isinstance(b, np.ndarray) and a.dtype == b.dtype and a.shape == b.shape and bool(np.all(a == b))
    if isinstance(a, (list, tuple)):
        return type(a) == type(b) and len(a) == len(b) and all(deep_eq(x, y) for x, y in zip(a, b))
    return type(a) == type(b) and a == b


def _indep(obj, build):
    """an object built from the array `obj` is independent of it: no shared buffer, writes on either side stay there, and two
    objects built from the same array are independent of each other (the array already has the type the values are stored in)."""
    before = obj.copy()
    x = build(obj)
    y = build(obj)
    ok = deep_eq(obj, before) and not np.shares_memory(x.val, obj) and not np.shares_memory(x.val, y.val)
    first = (0,) * obj.ndim
    c0 = codes_of(x)
    x[first] = 1 if int(obj[first]) != 1 else 2           # write on the object
    ok = ok and deep_eq(obj, before) and codes_of(y) == c0
    obj[first] = 3 if int(before[first]) != 3 else 4      # write on the container
    ok = ok and codes_of(y) == c0
    return ok


def exec_INP(t):
    kind, payload = t[0], t[1]
    items = parse_list(payload)
    try:
        if kind in ('iarray', 'iarray2', 'uarray', 'iarray0'):
            # integer arrays of exactly the type codes are stored in (int64 signed / uint64 unsigned), in-range values, no scaling
            vals = [abs(int(frac(v))) if kind == 'uarray' else int(frac(v)) for v in items]
            dt = np.uint64 if kind == 'uarray' else np.int64
            sg = kind != 'uarray'
            mkobj = {'iarray': lambda: np.array(vals, dtype=dt), 'uarray': lambda: np.array(vals, dtype=dt),
                     'iarray2': lambda: np.array([vals, vals], dtype=dt), 'iarray0': lambda: np.array(vals[0], dtype=dt)}[kind]
            zeros = lambda o: np.zeros(o.shape, dtype=int) if o.ndim else None
            builds = [lambda o: Fxp(o, sg, 16, 0), lambda o: Fxp(o, sg, 16, 4, raw=True), lambda o: Fxp(o, signed=sg),
                      lambda o: Fxp(zeros(o), sg, 16, 0)(o), lambda o: Fxp(zeros(o), sg, 16, 0).set_val(o),
                      lambda o: Fxp(zeros(o), sg, 16, 4).set_val(o, raw=True), lambda o: Fxp(o, dtype='fxp-%s24/0' % ('s' if sg else 'u'))]
            return ['1' if all(_indep(mkobj(), b) for b in builds) else '0']
        if kind in ('list', 'tuple', 'nested', 'array', 'array2'):
            vals = [pyval(frac(v)) for v in items]
            obj = {'list': lambda: list(vals), 'tuple': lambda: tuple(vals), 'nested': lambda: [list(vals), list(vals)],
                   'array': lambda: np.array(vals), 'array2': lambda: np.array([vals, vals])}[kind]()
            kw = dict(signed=True, n_word=16, n_frac=4)
        else:
            strs = list(items)
            obj = {'strlist': lambda: list(strs), 'strtuple': lambda: tuple(strs), 'strnested': lambda: [list(strs), list(strs)],
                   'strarray': lambda: np.array(strs), 'binlist': lambda: list(strs), 'binnested': lambda: [list(strs), list(strs)],
                   'binarray': lambda: np.array(strs)}[kind]()
            kw = dict(signed=True, n_word=16, n_frac=0)
        before = copy.deepcopy(obj)
        if kind.startswith('bin'):
            # unprefixed binary strings: the from_bin routes (function and method)
            x = fxpmath.from_bin(obj, signed=True, n_word=8, n_frac=0)
            ok1 = deep_eq(obj, before)
            y = Fxp(None, True, 8, 0) if kind != 'binnested' else Fxp(np.zeros((2, len(strs)), dtype=int), True, 8, 0)
            y.from_bin(obj)
            ok2 = deep_eq(obj, before)
            z = fxpmath.from_bin(obj, signed=False, n_word=8, n_frac=2, raw=True)
            ok3 = deep_eq(obj, before)
            return ['1' if (ok1 and ok2 and ok3) else '0']
        x = Fxp(obj, **kw)
        ok1 = deep_eq(obj, before)
        y = Fxp(None, **kw); y(obj)
        ok2 = deep_eq(obj, before)
        z = Fxp(None, **kw); z.set_val(obj)
        ok3 = deep_eq(obj, before)
        # mutating the object must not reach the container either
        if isinstance(obj, np.ndarray) and obj.dtype.kind in 'if' and x.ndim == 1:
            x[0] = 1
            ok3 = ok3 and deep_eq(obj, before)
        return ['1' if (ok1 and ok2 and ok3) else '0']
    except Exception as e:
        return [exc_token(e)]


INVALID = {
    # (a keyword in another case or with blanks around it is not one of the valid values: the library compares them exactly)
    'overflow': ['clip', 'SATURATE', 1, None, 'Wrap', ' wrap'], 'rounding': ['round', 'nearest', 3, None, 'Floor', 'trunc '], 'shifting': ['grow', 0, 'Expand', 'TRUNC'],
    'op_method': ['fast', 1, 'RAW', 'Repr'], 'op_input_size': ['big', 2, 'Best', 'SAME'], 'op_sizing': ['tight', 5, 'Optimal', 'same '],
    'const_op_sizing': ['tight', 5, 'Same', 'LARGEST'], 'array_output_type': ['list', 1, 'FXP', 'Array'],
    'array_op_method': ['fast', 0, 'Raw', 'REPR'], 'dtype_notation': ['R', 3, 'q', 'FXP'], 'n_word_max': [0, -1, 'x', 2.5, float('nan'), None], 'max_error': [-1, 'x', 0, float('nan'), np.float64('nan'), -0.0, None],
    'op_out': [5, 'x'], 'op_out_like': [5, 'x'], 'array_op_out': [5], 'array_op_out_like': ['x'],
}


def exec_BCF(t):
    where, key, idx = t[0], t[1], int(t[2])
    val = INVALID[key][idx]
    try:
        if where == 'setter':
            x = Fxp(1.0, True, 8, 2)
            old = getattr(x.config, key)
            try:
                setattr(x.config, key, val)
            except (ValueError, TypeError):
                return ['REJECTED'] if getattr(x.config, key) == old or getattr(x.config, key) is old else ['STORED_AFTER_ERROR']
            return ['ACCEPTED:%r' % (getattr(x.config, key),)]
        if where == 'kwargs':
            try:
                x = Fxp(1.0, True, 8, 2, **{key: val})
            except (ValueError, TypeError):
                return ['REJECTED']
            return ['ACCEPTED:%r' % (getattr(x.config, key),)]
        if where == 'config':
            try:
                c = Config(**{key: val})
            except (ValueError, TypeError):
                return ['REJECTED']
            return ['ACCEPTED:%r' % (getattr(c, key),)]
    except Exception as e:
        return [exc_token(e)]
    return ['?']


EXEC = {'HEAP': exec_HEAP, 'INP': exec_INP, 'BCF': exec_BCF}


def generate(tier, rng):
    n_h = 1500 if tier == 'quick' else 40000
    for _ in range(n_h):
        names = iter('abcdefghijklmnopqrstuvwxyz')
        live = {}   # name -> (signed, n, f, rows, cols)
        steps = []
        def newobj():
            nm = next(names)
            s = rng.random() < 0.6
            n = rng.randint(3 + int(s), 12); f = rng.randint(0, n - 2)
            rows, cols = rng.choice([(0, 0), (0, 3), (0, 5), (0, 6), (2, 2), (2, 3), (3, 2)])
            live[nm] = (s, n, f, rows, cols)
            steps.append('N:%s:%s:%d:%d:%d:%d' % (nm, 's' if s else 'u', n, f, rows, cols))
            return nm
        def size(o):
            return 1 if o[4] == 0 else max(o[3], 1) * o[4]
        def wvals(o, big=False):
            lo, hi = lims(o[0], o[1])
            out = []
            for _ in range(size(o)):
                c = rng.choice([hi + 5, lo - 5]) if big else rng.choice([lo, hi, 0, 1, rng.randint(lo, hi)])
                d = rng.choice([0, 0, 0, 1, 2])
                out.append(Fraction(4 * c + d, 4) / Fraction(2) ** o[2])
            return out
        a = newobj()
        steps.append('W:%s:%s' % (a, tok_list([tok_frac(v) for v in wvals(live[a])])))
        nsteps = rng.randint(3, 12)
        for _ in range(nsteps):
            if len(live) >= 7:
                kind = rng.choice(['W', 'I', 'G', 'R', 'F'])
            else:
                kind = rng.choice(['N', 'K', 'C', 'J', 'L', 'V', 'A', 'P', 'B', 'H', 'X', 'T', 'T', 'Y', 'W', 'W', 'I', 'I', 'I', 'G', 'G', 'R', 'F'])
            src = rng.choice(list(live))
            o = live[src]
            if kind == 'N':
                nm = newobj()
                steps.append('W:%s:%s' % (nm, tok_list([tok_frac(v) for v in wvals(live[nm])])))
            elif kind == 'K':
                nm = next(names); live[nm] = (o[0], o[1], o[2], 0, 0); steps.append('K:%s:%s' % (nm, src))
            elif kind == 'C':
                nm = next(names); live[nm] = o; steps.append('C:%s:%s' % (nm, src))
            elif kind == 'J':
                # fxp_like(template, value): a new scalar object like the template (in range or flag-raising value)
                so = (o[0], o[1], o[2], 0, 0)
                v = wvals(so, big=rng.random() < 0.3)[0]
                nm = next(names); live[nm] = so; steps.append('J:%s:%s:%s' % (nm, src, tok_frac(v)))
            elif kind == 'L':
                t_ = rng.choice(list(live)); to = live[t_]
                nm = next(names); live[nm] = (to[0], to[1], to[2], o[3], o[4]); steps.append('L:%s:%s:%s' % (nm, src, t_))
            elif kind == 'V':
                s2 = rng.random() < 0.6; n2 = rng.randint(3 + int(s2), 12); f2 = rng.randint(0, n2 - 2)
                nm = next(names); live[nm] = (s2, n2, f2, o[3], o[4]); steps.append('V:%s:%s:%s:%d:%d' % (nm, src, 's' if s2 else 'u', n2, f2))
            elif kind in ('A', 'P'):
                cands = [k for k, v in live.items() if v[3:] == o[3:]]
                b = rng.choice(cands); bo = live[b]
                sg = o[0] or bo[0]
                ni = max(o[1] - o[2] - int(o[0]), bo[1] - bo[2] - int(bo[0])) + 1
                nf = max(o[2], bo[2])
                nm = next(names); live[nm] = (sg, int(sg) + ni + nf, nf, o[3], o[4]); steps.append('%s:%s:%s:%s' % (kind, nm, src, b))
            elif kind == 'B':
                nm = next(names); live[nm] = o; steps.append('B:%s:%s' % (nm, src))
            elif kind == 'H':
                nm = next(names); live[nm] = o; steps.append('H:%s:%s:%d' % (nm, src, rng.randint(0, 3)))
            elif kind == 'X':
                if o[3] < 2:
                    continue
                i = rng.randrange(o[3])
                nm = next(names); live[nm] = (o[0], o[1], o[2], 0, o[4]); steps.append('X:%s:%s:%d' % (nm, src, i))
            elif kind == 'T':
                # strided / reversed slice of a 1-D object (possibly itself a view): a non-contiguous view
                if o[3] != 0 or o[4] < 2:
                    continue
                sp = rng.choice([2, -1, -2, 1, 3, -3])
                st = rng.randrange(o[4])
                nmax = ((o[4] - 1 - st) // sp + 1) if sp > 0 else (st // (-sp) + 1)
                n = rng.randint(1, nmax)
                nm = next(names); live[nm] = (o[0], o[1], o[2], 0, n); steps.append('T:%s:%s:%d:%d:%d' % (nm, src, st, sp, n))
            elif kind == 'Y':
                # a column of a 2-D object: view with stride = number of columns
                if o[3] < 2:
                    continue
                j = rng.randrange(o[4])
                nm = next(names); live[nm] = (o[0], o[1], o[2], 0, o[3]); steps.append('Y:%s:%s:%d' % (nm, src, j))
            elif kind in ('W', 'F'):
                steps.append('W:%s:%s' % (src, tok_list([tok_frac(v) for v in wvals(o, big=(kind == 'F'))])))
            elif kind == 'I':
                if o[4] == 0:
                    continue
                v = wvals(o)[0]
                steps.append('I:%s:%d:%s' % (src, rng.randrange(size(o)), tok_frac(v)))
            elif kind == 'G':
                steps.append('G:%s:%s:%s' % (src, rng.choice(ROUNDS), rng.choice(OVFS)))
            elif kind == 'R':
                steps.append('R:%s' % src)
        yield 'HEAP ' + ' '.join(steps)
    # containers
    for _ in range(150 if tier == 'quick' else 3000):
        kind = rng.choice(['list', 'tuple', 'nested', 'array', 'array2', 'strlist', 'strtuple', 'strnested', 'strarray', 'binlist', 'binnested', 'binarray'])
        if kind.startswith('bin'):
            items = [format(rng.getrandbits(8), '08b') for _ in range(rng.randint(1, 4))]
        elif kind.startswith('str'):
            items = [rng.choice(['0b', '0x']) for _ in range(rng.randint(1, 4))]
            items = [(p + format(rng.getrandbits(8), '08b')) if p == '0b' else (p + format(rng.getrandbits(8), '02X')) for p in items]
        else:
            items = [tok_frac(Fraction(rng.randint(-200, 200), rng.choice([1, 1, 2, 4]))) for _ in range(rng.randint(1, 4))]
        yield 'INP %s %s' % (kind, tok_list(items))
    for _ in range(60 if tier == 'quick' else 1500):
        yield 'INP %s %s' % (rng.choice(['iarray', 'iarray2', 'uarray', 'iarray0']), tok_list([str(rng.randint(-200, 200)) for _ in range(rng.randint(1, 4))]))
    for key, vals in INVALID.items():
        for i in range(len(vals)):
            for where in ('setter', 'kwargs', 'config'):
                yield 'BCF %s %s %d' % (where, key, i)


def nontrivial(full_line, model):
    return True


def kf_class(t):
    return None


def debug_class(t):
    if t[0] == 'HEAP':
        return 'HEAP kinds=' + ''.join(sorted(set(tok[0] for tok in t[1:])))
    return ' '.join(t[0:3])


def stats(verdicts):
    return base.generic_stats(verdicts, lambda t: (['op:HEAP'] + ['step:' + k for k in sorted(set(tok[0] for tok in t[1:]))]) if t[0] == 'HEAP' else ['op:' + t[0] + ':' + t[1]],
                              lambda t: len(t) - 1 if t[0] == 'HEAP' else 1, [])
