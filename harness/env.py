"""Environment: import the fxpmath under test (current working tree of $FXP_REPO, default /repo),
exact-number helpers, canonicalisation.  The harness never computes with floats: inputs are
Fractions that are converted to a float only when the conversion is exact, outputs are converted
back with as_integer_ratio."""
import os, sys, warnings
from fractions import Fraction

REPO = os.environ.get('FXP_REPO', '/repo')
VERIF = os.path.dirname(os.path.dirname(os.path.abspath(__file__)))
if REPO not in sys.path:
    sys.path.insert(0, REPO)
# guard for (currently non-existent) verification hooks in the source
os.environ.setdefault('FXPMATH_VERIF', '1')

import numpy as np
warnings.filterwarnings('ignore')
np.seterr(all='ignore')

import fxpmath
from fxpmath import Fxp, Config
assert os.path.abspath(fxpmath.__file__).startswith(os.path.abspath(REPO) + os.sep), \
    'fxpmath imported from %s, expected under %s' % (fxpmath.__file__, REPO)

ROUNDS = ('trunc', 'fix', 'floor', 'ceil', 'around')
OVFS = ('saturate', 'wrap')


def reset_class_state():
    """class-level templates could be left set by a failing case."""
    Fxp.template = None
    Config.template = None


# ---------------------------------------------------------------- exact numbers
def frac(tok):
    """token -> Fraction"""
    return Fraction(tok)


def tok_frac(q):
    q = Fraction(q)
    return str(q.numerator) if q.denominator == 1 else '%d/%d' % (q.numerator, q.denominator)


def is_exact_float(q):
    """True iff the rational q is exactly a finite binary64."""
    q = Fraction(q)
    try:
        f = q.numerator / q.denominator  # correctly rounded true division of ints
    except OverflowError:
        return False
    if f != f or f in (float('inf'), float('-inf')):
        return False
    return Fraction(f) == q


def to_float(q):
    q = Fraction(q)
    f = q.numerator / q.denominator
    assert Fraction(f) == q, 'inexact float conversion of %s' % q
    return f


def exact(x):
    """implementation output (python/numpy scalar) -> Fraction, exactly; None if not finite/real."""
    if isinstance(x, Fraction):
        return x
    if isinstance(x, (bool, np.bool_)):
        return Fraction(int(x))
    if isinstance(x, (int, np.integer)):
        return Fraction(int(x))
    if isinstance(x, (float, np.floating)):
        xf = float(x)
        if xf != xf or xf in (float('inf'), float('-inf')):
            return None
        if isinstance(x, np.floating) and not isinstance(x, np.float64):
            # float32/longdouble: go through exact repr
            return Fraction(*np.float64(x).as_integer_ratio()) if float(np.float64(x)) == x else None
        return Fraction(*xf.as_integer_ratio())
    if isinstance(x, np.ndarray) and x.ndim == 0:
        return exact(x.item())
    raise TypeError('not a real scalar: %r (%s)' % (x, type(x)))


def tok_exact(x):
    q = exact(x)
    return 'nan' if q is None else tok_frac(q)


def flat(a):
    """array-like -> flat python list of scalars (object arrays keep python ints)."""
    a = np.asarray(a)
    if a.ndim == 0:
        return [a.item()]
    return [a.item(i) for i in range(a.size)]


def tok_list(items):
    return '[' + ','.join(items) + ']'


def parse_list(tok):
    assert tok[0] == '[' and tok[-1] == ']', tok
    inner = tok[1:-1]
    return inner.split(',') if inner else []


def tok_bool(b):
    return '1' if bool(b) else '0'


def tok_fmt(signed, n_word, n_frac):
    return '%s %d %d' % ('s' if signed else 'u', n_word, n_frac)


def fmt_of(x):
    return tok_fmt(x.signed, x.n_word, x.n_frac)


def codes_of(x):
    """stored integer codes of an Fxp as python ints (flat); complex objects are rejected."""
    out = []
    for c in flat(x.val):
        if isinstance(c, (complex, np.complexfloating)):
            raise TypeError('complex code')
        if isinstance(c, (float, np.floating)):
            if float(c) != int(c):
                return None
            c = int(c)
        out.append(int(c))
    return out


def exc_token(e):
    return 'EXC:' + type(e).__name__


def lims(signed, n):
    if signed:
        return -(1 << (n - 1)), (1 << (n - 1)) - 1
    return 0, (1 << n) - 1
