"""C05 — rounding contracts: direction, error bound, idempotence, monotonicity (judged relationally)."""
from fractions import Fraction
import numpy as np
from ..env import Fxp, frac, parse_list, tok_list, codes_of, lims, ROUNDS, OVFS, exc_token, tok_frac, is_exact_float, to_float, tok_bool
from .. import carriers as C
from .. import gen as G
from . import base
from .c01 import _pick_carrier

TRUSTED_BASE = base.TRUSTED_BASE
ASSUMPTIONS = base.ASSUMPTIONS + ['"does not overflow" is read as: the exact scaled input lies in [min code, max code] (then every rounding mode stays in range)']
RULE = ('R5: same generators as C01 (exhaustive quarter-LSB grids of small formats + boundary-directed random core-domain cases over all carriers/routes), observed codes judged by the '
        'relational checkers (floor/ceil/trunc/around contracts, |q-v|<LSB) without the reference quantizer; I5: every code of every small format (and random codes of larger ones) '
        'stored back by value in all ten mode combinations must give the same code and no flag; M5: sorted input lists (adjacent quarter-LSB points, points around every code and both bounds) '
        'must give sorted codes under saturate. non-trivial = R5 line with an input that is not an in-range code, or any I5/M5 line')
TECHNIQUE = 'Lean 4 theorems (directional contracts in value terms, error < LSB, idempotence with no flags, monotonicity of quantize under saturate) + relational checkers proved equivalent, run on the implementation outputs'
LEVEL_TEXT = ('Machine-checked for all formats and all rational inputs: floor = largest representable <= v, ceil = smallest >= v, trunc/fix = nearest not farther from zero, around within LSB/2 with even code on ties, '
              '|q-v| < LSB in every mode; every representable value is a fixed point of all ten mode pairs with no flag; quantization under saturate is monotone. The implementation is judged on generated inputs by '
              'relational checkers that do not use the reference quantizer (so they also guard C01\'s oracle).')
LEVEL_NOTE = 'Trusted: Lean kernel + standard axioms; model-vs-code agreement only on generated inputs; float ops exact when representable (core domain).'


def exec_R5(t):
    s, n, f, r, o, carrier, route, vt = t
    signed, n, f = s == 's', int(n), int(f)
    vals = [frac(x) for x in parse_list(vt)]
    obj, shape = C.build(carrier, vals)
    try:
        x = C.store(route, obj, shape, signed, n, f, rounding=r, overflow=o)
    except Exception as e:
        return [exc_token(e)]
    return [tok_list([str(c) for c in codes_of(x)])]


def exec_I5(t):
    s, n, f, r, o, how, ct = t
    signed, n, f = s == 's', int(n), int(f)
    codes = [int(c) for c in parse_list(ct)]
    try:
        src = Fxp(np.array(codes, dtype=np.int64) if len(codes) > 1 else codes[0], signed, n, f, raw=True)
        if how == 'value':      # a fresh object from the float value(s)
            v = src.get_val()
            y = Fxp(v, signed, n, f, rounding=r, overflow=o)
        elif how == 'restore':  # re-storing an object's own value
            y = Fxp(np.array(codes, dtype=np.int64) if len(codes) > 1 else codes[0], signed, n, f, raw=True, rounding=r, overflow=o)
            y(y.get_val())
        elif how == 'setval':
            y = Fxp(np.array(codes, dtype=np.int64) if len(codes) > 1 else codes[0], signed, n, f, raw=True, rounding=r, overflow=o)
            y.set_val(y())
        else:
            raise ValueError(how)
    except Exception as e:
        return [exc_token(e)]
    st = y.status
    return [tok_list([str(c) for c in codes_of(y)]), tok_bool(st['overflow']), tok_bool(st['underflow']), tok_bool(st['inaccuracy'])]


def exec_M5(t):
    s, n, f, r, carrier, vt = t
    signed, n, f = s == 's', int(n), int(f)
    vals = [frac(x) for x in parse_list(vt)]
    try:
        if carrier == 'array':
            x = Fxp(np.array([to_float(v) for v in vals]), signed, n, f, rounding=r, overflow='saturate')
            cs = codes_of(x)
        else:
            cs = [codes_of(Fxp(int(v) if v.denominator == 1 else to_float(v), signed, n, f, rounding=r, overflow='saturate'))[0] for v in vals]
    except Exception as e:
        return [exc_token(e)]
    return [tok_list([str(c) for c in cs])]


EXEC = {'R5': exec_R5, 'I5': exec_I5, 'M5': exec_M5}


def _r5(signed, n, f, r, o, carrier, route, vals):
    return 'R5 %s %d %d %s %s %s %s %s' % ('s' if signed else 'u', n, f, r, o, carrier, route, G.vals_tok(vals))


def generate(tier, rng):
    maxw = 4 if tier == 'quick' else 6
    for signed, n, f in G.small_formats(maxw):
        pts = G.quarter_points(signed, n, f)
        lo, hi = lims(signed, n)
        for r, o in G.modes():
            yield _r5(signed, n, f, r, o, 'arr.float64', 'ctor', pts)
        for r in ROUNDS:
            yield 'M5 %s %d %d %s array %s' % ('s' if signed else 'u', n, f, r, G.vals_tok(pts))
        for r, o in G.modes():
            yield 'I5 %s %d %d %s %s %s %s' % ('s' if signed else 'u', n, f, r, o, rng.choice(['value', 'restore', 'setval']),
                                               tok_list([str(c) for c in range(lo, hi + 1)]))
            if n <= 3:
                for c in range(lo, hi + 1):
                    yield 'I5 %s %d %d %s %s %s [%d]' % ('s' if signed else 'u', n, f, r, o, rng.choice(['value', 'restore', 'setval']), c)
    nrand = 4000 if tier == 'quick' else 80000
    for _ in range(nrand):
        signed, n, f = G.rand_format(rng)
        r, o = rng.choice(ROUNDS), rng.choice(OVFS)
        scalar = rng.random() < 0.6
        k = 1 if scalar else rng.choice([2, 4, 6])
        wide = rng.random() < 0.15
        vals = [(G.rand_scaled_wide(rng, f) if wide else G.rand_scaled(rng, signed, n)) / Fraction(2) ** f for _ in range(k)]
        if not all(G.in_c01_domain(n, f, v) for v in vals):
            continue
        c = _pick_carrier(rng, vals, scalar)
        if c:
            yield _r5(signed, n, f, r, o, c, rng.choice(C.ROUTES), vals)
    # extended-precision inputs and wide fixed-point sources: a code plus or minus a sliver that a double cannot hold
    if C.LD_MANT > 53:
        for _ in range(300 if tier == 'quick' else 6000):
            signed, n, f = G.rand_format(rng, max_word=30)
            r, o = rng.choice(ROUNDS), rng.choice(OVFS)
            lo, hi = lims(signed, n)
            k = rng.choice([1, 1, 2, 3])
            vals = []
            for _ in range(k):
                c = rng.choice([rng.randint(lo, hi), rng.randint(lo, hi), 0, 1, -1 if signed else 1, lo, hi])
                j = rng.randint(54, 63) - max(abs(c).bit_length(), 1)
                vals.append((Fraction(c) + rng.choice([1, -1]) * Fraction(1, 2 ** j)) / Fraction(2) ** f)
            car = rng.choice(['np.longdouble', 'fxp', 'decimal']) if k == 1 else rng.choice(['arr.longdouble', 'arr.fxp'])
            if all(G.in_c01_domain(n, f, v) for v in vals) and C.ok_for(car, vals):
                yield _r5(signed, n, f, r, o, car, rng.choice(C.ROUTES if k == 1 else ('ctor', 'call', 'setval', 'tmpl')), vals)
    # decimal.Decimal values a hair (far less than the 28 digits of the default decimal context resolve) off a code or off a tie: Decimal
    # holds them exactly, and so must the store (rounded once, by the configured rule)
    for _ in range(200 if tier == 'quick' else 4000):
        signed, n, f = G.rand_format(rng, max_word=30)
        r, o = rng.choice(ROUNDS), rng.choice(OVFS)
        lo, hi = lims(signed, n)
        c = rng.choice([rng.randint(lo, hi), 0, 1, -1 if signed else 1, lo, hi])
        base_ = Fraction(2 * c + rng.choice([0, 0, 1]), 2)           # a code, or the tie between two codes
        v = (base_ + rng.choice([1, -1]) * Fraction(1, 2 ** rng.randint(100, 130))) / Fraction(2) ** f
        if G.in_c01_domain(n, f, v) and C.ok_for('decimal', [v]):
            yield _r5(signed, n, f, r, o, 'decimal', rng.choice(C.ROUTES), [v])
    # values far below one LSB, down to subnormal doubles, into formats with a negative fraction length: floor and ceil depend on the
    # sign of a value whose scaled image underflows (scalars of every kind, and arrays)
    for _ in range(200 if tier == 'quick' else 4000):
        signed, n, f = G.rand_format(rng)
        if f >= 0:
            f = -rng.randint(1, 8)
        r, o = rng.choice(['floor', 'ceil', 'ceil', 'floor', 'around', 'trunc', 'fix']), rng.choice(OVFS)
        k = rng.choice([1, 1, 1, 2, 3])
        vals = [Fraction(rng.choice([1, 1, 2, 3, rng.randint(1, 2 ** 10)]) * rng.choice([1, -1] if signed else [1]), 2 ** rng.choice([1074, 1074, 1070, 1060, 1022]))
                for _ in range(k)]
        car = rng.choice(['pyfloat', 'np.float64', 'arr0d']) if k == 1 else rng.choice(['arr.float64', 'list', 'tuple'])
        if C.ok_for(car, vals):
            yield _r5(signed, n, f, r, o, car, rng.choice(C.ROUTES), vals)
    for _ in range(nrand // 4):
        signed, n, f = G.rand_format(rng)
        lo, hi = lims(signed, n)
        r, o = rng.choice(ROUNDS), rng.choice(OVFS)
        k = rng.choice([1, 1, 3])
        cs = [rng.choice([lo, hi, 0, lo + 1, hi - 1, rng.randint(lo, hi)]) for _ in range(k)]
        cs = [max(lo, min(hi, c)) for c in cs]
        if any(abs(Fraction(c) / Fraction(2) ** f) >= 2 ** 53 for c in cs):
            continue
        yield 'I5 %s %d %d %s %s %s %s' % ('s' if signed else 'u', n, f, r, o, rng.choice(['value', 'restore', 'setval']), tok_list([str(c) for c in cs]))
    for _ in range(nrand // 4):
        signed, n, f = G.rand_format(rng)
        r = rng.choice(ROUNDS)
        lo, hi = lims(signed, n)
        b = rng.choice([lo, hi, 0, rng.randint(lo, hi), lo - 1, hi + 1])
        xs = sorted(set(Fraction(4 * b + d, 4) for d in range(-8, 9)))
        vals = [x / Fraction(2) ** f for x in xs]
        if not all(G.in_c01_domain(n, f, v) and is_exact_float(v) for v in vals):
            continue
        yield 'M5 %s %d %d %s %s %s' % ('s' if signed else 'u', n, f, r, rng.choice(['array', 'scalars']), G.vals_tok(vals))


def nontrivial(full_line, model):
    t = full_line.split(' | ')[0].split()
    if t[0] == 'R5':
        f = int(t[3])
        cs = parse_list(model.split()[0])
        return any(frac(v) * Fraction(2) ** f != int(c) for v, c in zip(parse_list(t[8]), cs))
    return True


def debug_class(t):
    return ' '.join([t[0], base.word_bucket(int(t[2])), t[4], t[5] if t[0] != 'M5' else '', t[6] if t[0] == 'R5' else ''])


def stats(verdicts):
    return base.generic_stats(verdicts, lambda t: ['op:' + t[0], 'word:' + base.word_bucket(int(t[2])), 'signed:' + t[1], 'round:' + t[4]],
                              lambda t: len(parse_list(t[-1])),
                              ['R5/M5/I5: every quarter-LSB input / every code of every format n_word<=4 (quick) / <=6 (thorough), -8<=n_frac<=n_word+8, all modes'])
