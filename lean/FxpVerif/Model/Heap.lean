import FxpVerif.Model.Convert
import FxpVerif.Model.Arith
import FxpVerif.Model.Bits
/-!
# Object graph: which mutable cells an `Fxp` owns, and which it shares

An `Fxp` refers to three mutable things: its `Config`, its `status` dict and the NumPy buffer behind `val`.
Every public derivation route allocates fresh ones (`copy.deepcopy`, a new `Config`, a new array), with one
documented exception: indexing returns a *view* of the buffer. Mutations write through references, so sharing is
observable. This file models allocation and mutation; `Props/C20.lean` proves that the heap behaves like
independent values (plus views).
-/
namespace Fxp

structure Cfg where
  r : Rounding
  o : Overflow
deriving Repr, DecidableEq

structure Flags3 where
  ov : Bool
  un : Bool
  ia : Bool
deriving Repr, DecidableEq

structure HObj where
  name : String
  fmt : Fmt
  rows : Nat          -- 0: 1-D (or scalar when cols = 0)
  cols : Nat
  cfg : Nat           -- reference to a Config cell
  st : Nat            -- reference to a status cell
  buf : Nat           -- reference to a buffer cell
  off : Nat           -- window of the buffer seen by this object: elements `off + k * stride`, `k < len`
  len : Nat
  stride : Int := 1   -- 1 for everything but strided views (`a[::2]`, `a[::-1]`, a column `a[:, j]`)
deriving Repr

/-- buffer position of element `k` of the object. -/
def HObj.pos (x : HObj) (k : Nat) : Nat := ((x.off : Int) + (k : Int) * x.stride).toNat

structure Heap where
  next : Nat
  cfgs : List (Nat × Cfg)
  sts : List (Nat × Flags3)
  bufs : List (Nat × List Int)
  objs : List HObj
deriving Repr

def defaultCfg : Cfg := ⟨.trunc, .saturate⟩
def clean : Flags3 := ⟨false, false, false⟩

def lookup {α} (l : List (Nat × α)) (k : Nat) (d : α) : α :=
  match l.find? (fun p => p.1 == k) with
  | some p => p.2
  | none => d

def update {α} (l : List (Nat × α)) (k : Nat) (v : α) : List (Nat × α) :=
  l.map (fun p => if p.1 == k then (k, v) else p)

def Heap.find (h : Heap) (n : String) : Option HObj := h.objs.find? (fun o => o.name == n)

def Heap.codes (h : Heap) (x : HObj) : List Int :=
  (List.range x.len).map (fun k => ((lookup h.bufs x.buf [])[x.pos k]?).getD 0)
def Heap.cfgOf (h : Heap) (x : HObj) : Cfg := lookup h.cfgs x.cfg defaultCfg
def Heap.flagsOf (h : Heap) (x : HObj) : Flags3 := lookup h.sts x.st clean

/-- allocate a new object with fresh config, status and buffer cells. -/
def Heap.alloc (h : Heap) (name : String) (fmt : Fmt) (rows cols : Nat) (cfg : Cfg) (fl : Flags3) (codes : List Int) : Heap :=
  let c := h.next; let s := h.next + 1; let b := h.next + 2
  { next := h.next + 3,
    cfgs := (c, cfg) :: h.cfgs, sts := (s, fl) :: h.sts, bufs := (b, codes) :: h.bufs,
    objs := h.objs ++ [{ name := name, fmt := fmt, rows := rows, cols := cols, cfg := c, st := s, buf := b, off := 0, len := codes.length }] }

/-- overwrite a window of a buffer in place. -/
def writeWindow (buf : List Int) (off : Nat) (vals : List Int) : List Int :=
  buf.take off ++ vals ++ buf.drop (off + vals.length)

def orFlags (a b : Flags3) : Flags3 := ⟨a.ov || b.ov, a.un || b.un, a.ia || b.ia⟩

/-- flags raised by storing carriers `xs` (already scaled) into `fmt`. -/
def storeConds (fmt : Fmt) (c : Cfg) (xs : List Rat) : List Int × Flags3 :=
  let ks := xs.map (roundR c.r)
  let cs := ks.map (ovf c.o fmt)
  (cs, ⟨ks.any (fun k => decide (fmt.hi < k)), ks.any (fun k => decide (k < fmt.lo)),
        (List.zipWith (fun (c : Int) (x : Rat) => decide ((c : Rat) ≠ x)) cs xs).any id⟩)

inductive HStep
  | create (a : String) (fmt : Fmt) (rows cols : Nat)
  | likeKw (b a : String)                    -- b = Fxp(like=a)
  | deepcopy (b a : String)                  -- b = a.deepcopy() / copy.deepcopy(a)
  | likeM (b a t : String)                   -- b = a.like(t)
  | fxpLike (b a : String) (v : Rat)         -- b = fxpmath.fxp_like(a, v): a deep copy of a holding v
  | conv (b a : String) (fmt : Fmt)          -- b = Fxp(a, fmt…)
  | add (c a b : String)                     -- c = a + b   (also np.add)
  | invert (c a : String)                    -- c = ~a
  | lshift (c a : String) (n : Nat)          -- c = a << n
  | rshiftKeep (c a : String) (n : Nat)      -- c = a >> n with shifting = 'trunc' / 'keep' (deep copy of a, shifted codes)
  | index (v a : String) (i : Nat)           -- v = a[i]  (row view of a 2-D object)
  | slice (v a : String) (start : Nat) (step : Int) (n : Nat)   -- v = a[start::step] (n elements) of a 1-D object: strided view
  | column (v a : String) (j : Nat)          -- v = a[:, j] of a 2-D object: view with stride `cols`
  | write (a : String) (vs : List Rat)       -- a(vs): whole-value write (new buffer)
  | windex (a : String) (i : Nat) (v : Rat)  -- a[i] = v: in place
  | setCfg (a : String) (c : Cfg)            -- a.config.rounding / overflow = …
  | reset (a : String)
deriving Repr

def Heap.step (h : Heap) : HStep → Heap
  | .create a fmt rows cols =>
    let n := if cols = 0 then 1 else (max rows 1) * cols
    h.alloc a fmt rows cols defaultCfg clean (List.replicate n 0)
  | .likeKw b a =>
    match h.find a with
    | none => h
    | some x => h.alloc b x.fmt 0 0 (h.cfgOf x) clean [0]       -- deep-copied config, fresh status, value 0
  | .deepcopy b a =>
    match h.find a with
    | none => h
    | some x => h.alloc b x.fmt x.rows x.cols (h.cfgOf x) (h.flagsOf x) (h.codes x)
  | .fxpLike b a v =>
    match h.find a with
    | none => h
    | some x =>
      let (cs, fl) := storeConds x.fmt (h.cfgOf x) [scale v x.fmt.nfrac]
      h.alloc b x.fmt 0 0 (h.cfgOf x) (orFlags (h.flagsOf x) fl) cs
  | .likeM b a t =>
    match h.find a, h.find t with
    | some x, some y =>
      let (cs, fl) := storeConds y.fmt (h.cfgOf y) ((h.codes x).map (shiftedCode x.fmt y.fmt))
      h.alloc b y.fmt x.rows x.cols (h.cfgOf y) (orFlags (h.flagsOf y) fl) cs
    | _, _ => h
  | .conv b a fmt =>
    match h.find a with
    | none => h
    | some x =>
      let (cs, fl) := storeConds fmt defaultCfg ((h.codes x).map (shiftedCode x.fmt fmt))
      h.alloc b fmt x.rows x.cols defaultCfg (orFlags ⟨false, false, (h.flagsOf x).ia⟩ fl) cs
  | .add c a b =>
    match h.find a, h.find b with
    | some x, some y =>
      match resultFmt .optimal .add x.fmt y.fmt with
      | none => h
      | some t =>
        let cs := List.zipWith (fun p q => arithRaw .add t (h.cfgOf x).r (h.cfgOf x).o x.fmt y.fmt p q) (h.codes x) (h.codes y)
        h.alloc c t x.rows x.cols (h.cfgOf x) ⟨false, false, (h.flagsOf x).ia || (h.flagsOf y).ia⟩ cs
    | _, _ => h
  | .invert c a =>
    match h.find a with
    | none => h
    | some x => h.alloc c x.fmt x.rows x.cols (h.cfgOf x) (h.flagsOf x) ((h.codes x).map (invertM x.fmt (h.cfgOf x).o))
  | .lshift c a n =>
    match h.find a with
    | none => h
    | some x =>
      let (g, cs) := lshiftExpand x.fmt (h.codes x) n
      h.alloc c g x.rows x.cols defaultCfg clean cs
  | .rshiftKeep c a n =>
    match h.find a with
    | none => h
    | some x => h.alloc c x.fmt x.rows x.cols (h.cfgOf x) (h.flagsOf x) (rshiftKeep (h.codes x) n)
  | .index v a i =>
    match h.find a with
    | none => h
    | some x =>
      -- fresh config (deep copy) and status, *shared* buffer: a window on row `i`
      let c := h.next; let s := h.next + 1
      { h with next := h.next + 2, cfgs := (c, h.cfgOf x) :: h.cfgs, sts := (s, clean) :: h.sts,
               objs := h.objs ++ [{ name := v, fmt := x.fmt, rows := 0, cols := x.cols, cfg := c, st := s,
                                    buf := x.buf, off := x.off + i * x.cols, len := x.cols }] }
  | .slice v a start step n =>
    match h.find a with
    | none => h
    | some x =>
      let c := h.next; let s := h.next + 1
      { h with next := h.next + 2, cfgs := (c, h.cfgOf x) :: h.cfgs, sts := (s, clean) :: h.sts,
               objs := h.objs ++ [{ name := v, fmt := x.fmt, rows := 0, cols := n, cfg := c, st := s,
                                    buf := x.buf, off := x.pos start, len := n, stride := x.stride * step }] }
  | .column v a j =>
    match h.find a with
    | none => h
    | some x =>
      let c := h.next; let s := h.next + 1
      { h with next := h.next + 2, cfgs := (c, h.cfgOf x) :: h.cfgs, sts := (s, clean) :: h.sts,
               objs := h.objs ++ [{ name := v, fmt := x.fmt, rows := 0, cols := x.rows, cfg := c, st := s,
                                    buf := x.buf, off := x.off + j, len := x.rows, stride := x.cols }] }
  | .write a vs =>
    match h.find a with
    | none => h
    | some x =>
      let (cs, fl) := storeConds x.fmt (h.cfgOf x) (vs.map (fun v => scale v x.fmt.nfrac))
      -- `self.val = new_val`: the object gets a new buffer; former views keep the old one
      let b := h.next
      { h with next := h.next + 1, bufs := (b, cs) :: h.bufs, sts := update h.sts x.st (orFlags (h.flagsOf x) fl),
               objs := h.objs.map (fun o => if o.name == a then { o with buf := b, off := 0, len := cs.length, stride := 1 } else o) }
  | .windex a i v =>
    match h.find a with
    | none => h
    | some x =>
      let (cs, fl) := storeConds x.fmt (h.cfgOf x) [scale v x.fmt.nfrac]
      { h with bufs := update h.bufs x.buf (writeWindow (lookup h.bufs x.buf []) (x.pos i) cs),
               sts := update h.sts x.st (orFlags (h.flagsOf x) fl) }
  | .setCfg a c =>
    match h.find a with
    | none => h
    | some x => { h with cfgs := update h.cfgs x.cfg c }
  | .reset a =>
    match h.find a with
    | none => h
    | some x => { h with sts := update h.sts x.st clean }

def Heap.run (h : Heap) : List HStep → Heap
  | [] => h
  | s :: rest => (h.step s).run rest

def emptyHeap : Heap := ⟨0, [], [], [], []⟩

end Fxp
