import FxpVerif.Model.Store
import FxpVerif.Model.Arith
/-!
# Size inference (`objects.py` `_init_size` 354-385, `set_best_sizes` 505-595)

Two search loops: the fraction-bit search peels the binary expansion of `|v mod 1|`, the integer-bit search
shifts the scaled extremes right until only sign bits remain. Then the sizes are reconciled with whatever the
caller fixed and capped by `n_word_max = 64`.
-/
namespace Fxp

def nWordMax : Nat := 64
/-- `config.max_error = 1 / 2**63`. -/
def maxError : Rat := 1 / (2 ^ 63 : Nat)

/-- `v % 1` (NumPy/Python modulo: result in `[0, 1)`). -/
def mod1 (v : Rat) : Rat := v - (v.floor : Rat)

def half_pow (n : Nat) : Rat := 1 / (2 ^ n : Nat)

/-- the `while e > max_error and n_frac <= max_n_frac and r > 0.0` loop. -/
def fracLoop : Nat → Int → Rat → Nat → Rat → Nat
  | 0, _, _, nf, _ => nf
  | fuel + 1, maxNF, r, nf, e =>
    if maxError < e ∧ (nf : Int) ≤ maxNF ∧ 0 < r then
      let nf' := nf + 1
      let ri := r - half_pow nf'
      fracLoop fuel maxNF (if 0 ≤ ri then ri else r) nf' (if ri < 0 then -ri else ri)
    else nf

/-- fraction bits needed by one value. -/
def fracBits (sign : Nat) (v : Rat) : Nat := fracLoop 80 ((nWordMax : Int) - sign) (mod1 v) 0 1

def maxNat : List Nat → Nat
  | [] => 0
  | a :: t => max a (maxNat t)

/-- `int(x)`: truncation toward zero. -/
def truncInt (x : Rat) : Int := if x < 0 then x.ceil else x.floor

/-- the integer-bit loop on the scaled extremes (`while True: … break when both shifted values vanish`);
the fuel only has to exceed the bit length of the extremes. -/
def intLoop : Nat → Int → Int → Nat → Nat
  | 0, _, _, n => n
  | fuel + 1, vmax, vmin, n =>
      let a := Int.shiftRight vmax n + (if vmax < 0 then 1 else 0)
      let b := Int.shiftRight vmin n + (if vmin < 0 then 1 else 0)
      if a = 0 ∧ b = 0 then n else intLoop fuel vmax vmin (n + 1)

def listMaxR : List Rat → Rat
  | [] => 0
  | [a] => a
  | a :: t => let m := listMaxR t; if m < a then a else m

def listMinR : List Rat → Rat
  | [] => 0
  | [a] => a
  | a :: t => let m := listMinR t; if a < m then a else m

/-- a scaled extreme of the values: `int(v * (1 << n_frac))`, or `int(v / (1 << -n_frac))` (toward zero) for a negative (given) fraction length. -/
def scaledExt (nf0 : Int) (v : Rat) : Int :=
  if 0 ≤ nf0 then truncInt (v * (2 ^ nf0.toNat : Nat)) else truncInt (v / (2 ^ (-nf0).toNat : Nat))

/-- `set_best_sizes(val, n_word, n_frac)` for a non-empty list of values; returns `(n_word, n_frac)`. -/
def bestSizes (signed : Bool) (vals : List Rat) (nword nfrac : Option Int) : Int × Int :=
  let sign : Nat := if signed then 1 else 0
  let nf0 : Int := match nfrac with
    | some f => f
    | none => (maxNat (vals.map (fracBits sign)) : Nat)
  let vmax := scaledExt nf0 (listMaxR vals)
  let vmin := scaledExt nf0 (listMinR vals)
  let bits := intLoop (vmax.natAbs + vmin.natAbs + 2) vmax vmin 0
  let nint : Int := max ((bits : Int) - nf0) 0
  let (w, f) : Int × Int := match nword with
    | none =>
      let f := min ((nWordMax : Int) - sign - nint) nf0
      (f + nint + sign, f)
    | some w => (w, min (w - sign - nint) nf0)
  (min w nWordMax, f)

/-- `_init_size`: reconcile `n_int` with the other sizes, then infer what is missing. -/
def inferFmt (signed : Option Bool) (nword nfrac nint : Option Int) (vals : List Rat) : Option Fmt :=
  let sg := signed.getD true
  let s : Int := if sg then 1 else 0
  let (nword, nfrac) : Option Int × Option Int :=
    match nword, nfrac, nint with
    | none, some f, some i => (some (i + f + s), some f)
    | some w, none, some i => (some w, some (w - i - s))
    | w, f, _ => (w, f)
  match nword, nfrac with
  | some w, some f => if w < 0 ∨ (sg ∧ w = 0) then none else some ⟨sg, w.toNat, f⟩
  | _, _ =>
    let (w, f) := bestSizes sg vals nword nfrac
    if w < 0 ∨ (sg ∧ w = 0) then none else some ⟨sg, w.toNat, f⟩

end Fxp
