#!/bin/bash
# tools/refresh_evidence.sh — run the 20 quick checks on the clean /repo tree (evidence/ is rewritten) and validate MANIFEST + evidence.
cd "$(dirname "$0")/.."
[ -z "$(git -C /repo status --porcelain)" ] || { echo "/repo not clean"; exit 2; }
printf "%s\n" C01 C02 C03 C04 C05 C06 C07 C08 C09 C10 C11 C12 C13 C14 C15 C16 C17 C18 C19 C20 | xargs -P 5 -I{} bash -c "./check {} quick > .work/refresh_{}.log 2>&1; echo {}:\$?" | tr '\n' ' ' > .work/refresh_rc.txt; cat .work/refresh_rc.txt; echo
if grep -q ":[12]" .work/refresh_rc.txt; then echo "SOME CHECK DID NOT EXIT 0"; exit 1; fi
python3-vt - <<'P'
import json, jsonschema
jsonschema.validate(json.load(open('MANIFEST.json')), json.load(open('/root/.vp/MANIFEST.schema.json')))
bad = 0
for i in range(1, 21):
    d = json.load(open('evidence/C%02d.json' % i))
    jsonschema.validate(d, json.load(open('/root/.vp/EVIDENCE.schema.json')))
    c = d['coverage']
    if d['violations'] or c['obligations'] != c['discharged'] or c['repo'] != '/repo':
        print('BAD evidence C%02d' % i, d['violations'], c['obligations'], c['discharged'], c['repo']); bad += 1
print('evidence ok' if not bad else 'EVIDENCE PROBLEMS: %d' % bad)
P
