import FxpVerif.Model.Arith
import FxpVerif.Lemmas.Round
import FxpVerif.Lemmas.Overflow
/-! Bounds on aligned codes used by C07 / C15 / C19 (unbounded word lengths). -/
namespace Fxp
open Fmt

/-- number of magnitude bits. -/
def Fmt.mag (f : Fmt) : Nat := f.nword - (if f.signed then 1 else 0)

/-- formats the library can construct: a signed format has at least the sign bit. -/
def Fmt.WF (f : Fmt) : Prop := f.signed = true → 0 < f.nword

theorem inRange_iff_mag (f : Fmt) (hf : f.WF) (a : Int) :
    f.InRange a ↔ -(bsig f.signed) * 2 ^ f.mag ≤ a ∧ a ≤ 2 ^ f.mag - 1 := by
  unfold InRange lo hi mag bsig
  cases hs : f.signed
  · simp
  · have := hf hs
    simp

theorem nint_eq_mag (f : Fmt) (hf : f.WF) : f.nint = (f.mag : Int) - f.nfrac := by
  unfold nint mag
  cases hs : f.signed
  · simp
  · have := hf hs
    simp; omega

theorem pow_mono2 {a b : Nat} (h : a ≤ b) : (2:Int) ^ a ≤ 2 ^ b := by
  exact_mod_cast Nat.pow_le_pow_right (by norm_num : 0 < 2) h

theorem one_le_two_pow (k : Nat) : (1:Int) ≤ 2 ^ k := by
  have : (0:Int) < 2 ^ k := by positivity
  omega

/-- an in-range code shifted left by `k` bits. -/
theorem shifted_bounds (s : Bool) (m k : Nat) (a : Int)
    (ha : -(bsig s) * 2 ^ m ≤ a ∧ a ≤ 2 ^ m - 1) :
    -(bsig s) * 2 ^ (m + k) ≤ a * 2 ^ k ∧ a * 2 ^ k ≤ 2 ^ (m + k) - 2 ^ k := by
  have hk : (0:Int) < 2 ^ k := by positivity
  rw [pow_add]
  constructor
  · have := Int.mul_le_mul_of_nonneg_right ha.1 (le_of_lt hk)
    linarith
  · have := Int.mul_le_mul_of_nonneg_right ha.2 (le_of_lt hk)
    linarith

/-- sum / difference of two shifted in-range codes fit one bit above the wider one. -/
theorem add_bound (sx sy : Bool) (mx my kx ky M : Nat) (a b : Int)
    (ha : -(bsig sx) * 2 ^ mx ≤ a ∧ a ≤ 2 ^ mx - 1)
    (hb : -(bsig sy) * 2 ^ my ≤ b ∧ b ≤ 2 ^ my - 1)
    (hM : M = max (mx + kx) (my + ky) + 1) :
    -(bsig (sx || sy)) * 2 ^ M ≤ a * 2 ^ kx + b * 2 ^ ky ∧ a * 2 ^ kx + b * 2 ^ ky ≤ 2 ^ M - 1 := by
  obtain ⟨a1, a2⟩ := shifted_bounds sx mx kx a ha
  obtain ⟨b1, b2⟩ := shifted_bounds sy my ky b hb
  have e1 : (2:Int) ^ (mx + kx) ≤ 2 ^ (M - 1) := pow_mono2 (by omega)
  have e2 : (2:Int) ^ (my + ky) ≤ 2 ^ (M - 1) := pow_mono2 (by omega)
  have e3 : (2:Int) ^ M = 2 * 2 ^ (M - 1) := two_pow_pred M (by omega)
  have k1 := one_le_two_pow kx
  have k2 := one_le_two_pow ky
  have p1 : (0:Int) < 2 ^ (mx + kx) := by positivity
  have p2 : (0:Int) < 2 ^ (my + ky) := by positivity
  generalize (2:Int) ^ (mx + kx) = A at *
  generalize (2:Int) ^ (my + ky) = B at *
  generalize (2:Int) ^ (M - 1) = P at *
  generalize (2:Int) ^ M = Q at *
  generalize a * 2 ^ kx = a' at *
  generalize b * 2 ^ ky = b' at *
  subst e3
  unfold bsig at *
  cases sx <;> cases sy <;> simp at * <;> constructor <;> omega

theorem sub_bound (sx sy : Bool) (mx my kx ky M : Nat) (a b : Int)
    (ha : -(bsig sx) * 2 ^ mx ≤ a ∧ a ≤ 2 ^ mx - 1)
    (hb : -(bsig sy) * 2 ^ my ≤ b ∧ b ≤ 2 ^ my - 1)
    (hM : M = max (mx + kx) (my + ky) + 1) :
    -(2 ^ M) ≤ a * 2 ^ kx - b * 2 ^ ky ∧ a * 2 ^ kx - b * 2 ^ ky ≤ 2 ^ M - 1 := by
  obtain ⟨a1, a2⟩ := shifted_bounds sx mx kx a ha
  obtain ⟨b1, b2⟩ := shifted_bounds sy my ky b hb
  have e1 : (2:Int) ^ (mx + kx) ≤ 2 ^ (M - 1) := pow_mono2 (by omega)
  have e2 : (2:Int) ^ (my + ky) ≤ 2 ^ (M - 1) := pow_mono2 (by omega)
  have e3 : (2:Int) ^ M = 2 * 2 ^ (M - 1) := two_pow_pred M (by omega)
  have k1 := one_le_two_pow kx
  have k2 := one_le_two_pow ky
  have p1 : (0:Int) < 2 ^ (mx + kx) := by positivity
  have p2 : (0:Int) < 2 ^ (my + ky) := by positivity
  generalize (2:Int) ^ (mx + kx) = A at *
  generalize (2:Int) ^ (my + ky) = B at *
  generalize (2:Int) ^ (M - 1) = P at *
  generalize (2:Int) ^ M = Q at *
  generalize a * 2 ^ kx = a' at *
  generalize b * 2 ^ ky = b' at *
  subst e3
  unfold bsig at *
  cases sx <;> cases sy <;> simp at * <;> constructor <;> omega

/-- difference of unsigned operands is non-negative exactly when `b' ≤ a'`, and then fits unsigned. -/
theorem sub_bound_unsigned (mx my kx ky M : Nat) (a b : Int)
    (ha : 0 ≤ a ∧ a ≤ 2 ^ mx - 1) (hb : 0 ≤ b ∧ b ≤ 2 ^ my - 1)
    (hM : M = max (mx + kx) (my + ky) + 1) :
    a * 2 ^ kx - b * 2 ^ ky ≤ 2 ^ M - 1 := by
  have := sub_bound false false mx my kx ky M a b (by simpa [bsig] using ha) (by simpa [bsig] using hb) hM
  exact this.2

theorem mul_bound_core (A B a b : Int) (hA : 0 < A) (hB : 0 < B) :
    (-A ≤ a → a ≤ A - 1 → -B ≤ b → b ≤ B - 1 → -(A * B * 2) ≤ a * b ∧ a * b ≤ A * B * 2 - 1) ∧
    (-A ≤ a → a ≤ A - 1 → 0 ≤ b → b ≤ B - 1 → -(A * B) ≤ a * b ∧ a * b ≤ A * B - 1) ∧
    (0 ≤ a → a ≤ A - 1 → -B ≤ b → b ≤ B - 1 → -(A * B) ≤ a * b ∧ a * b ≤ A * B - 1) ∧
    (0 ≤ a → a ≤ A - 1 → 0 ≤ b → b ≤ B - 1 → 0 ≤ a * b ∧ a * b ≤ A * B - 1) := by
  refine ⟨?_, ?_, ?_, ?_⟩ <;> intro a1 a2 b1 b2 <;> constructor <;>
    nlinarith [mul_nonneg (sub_nonneg.mpr a1) (sub_nonneg.mpr b1), mul_nonneg (sub_nonneg.mpr a2) (sub_nonneg.mpr b2),
      mul_nonneg (sub_nonneg.mpr a1) (sub_nonneg.mpr b2), mul_nonneg (sub_nonneg.mpr a2) (sub_nonneg.mpr b1), mul_pos hA hB]

/-- product of two in-range codes. -/
theorem mul_bound (sx sy : Bool) (mx my : Nat) (a b : Int)
    (ha : -(bsig sx) * 2 ^ mx ≤ a ∧ a ≤ 2 ^ mx - 1)
    (hb : -(bsig sy) * 2 ^ my ≤ b ∧ b ≤ 2 ^ my - 1) :
    -(bsig (sx || sy)) * 2 ^ (mx + my + (if sx && sy then 1 else 0)) ≤ a * b ∧
    a * b ≤ 2 ^ (mx + my + (if sx && sy then 1 else 0)) - 1 := by
  have pA : (0:Int) < 2 ^ mx := by positivity
  have pB : (0:Int) < 2 ^ my := by positivity
  obtain ⟨c1, c2, c3, c4⟩ := mul_bound_core (2 ^ mx) (2 ^ my) a b pA pB
  obtain ⟨a1, a2⟩ := ha
  obtain ⟨b1, b2⟩ := hb
  cases sx <;> cases sy <;> simp only [bsig, Bool.or_true, Bool.or_false, Bool.and_true, Bool.and_false, Bool.and_self,
    Bool.or_self, if_true, if_false, Bool.false_eq_true, add_zero] at * <;> rw [pow_add] <;> try rw [pow_add, pow_one]
  · have := c4 (by linarith) a2 (by linarith) b2; constructor <;> linarith [this.1, this.2]
  · have := c3 (by linarith) a2 (by linarith) b2; constructor <;> linarith [this.1, this.2]
  · have := c2 (by linarith) a2 (by linarith) b2; constructor <;> linarith [this.1, this.2]
  · have := c1 (by linarith) a2 (by linarith) b2; constructor <;> linarith [this.1, this.2]

theorem scale_int_nonneg (a : Int) (e : Int) (h : 0 ≤ e) : scale (a:ℚ) e = ((a * 2 ^ e.toNat : Int) : ℚ) := by
  unfold scale; rw [if_pos h]; push_cast; ring

end Fxp
