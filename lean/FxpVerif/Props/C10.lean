import FxpVerif.Model.Convert
import FxpVerif.Props.C01
/-! # C10 — format conversion gives the same correctly quantized value by every route -/
namespace Fxp.C10
open Fxp

theorem two_ne : (2:ℚ) ≠ 0 := by norm_num

/-- the shifted code handed to the destination's raw store is the exact source value scaled by the
destination's conversion factor — whether the shift is positive (integer) or negative (a float). -/
theorem shiftedCode_eq (src dst : Fmt) (c : ℤ) :
    shiftedCode src dst c = scale (valueOf src c) dst.nfrac := by
  unfold shiftedCode valueOf
  simp only [scale_eq]
  rw [mul_assoc, ← zpow_add₀ two_ne]; congr 2; ring

/-- **every route = requantisation**: the conversion step of the code equals the C01 quantization of the
exact source value into the destination under the destination's modes. -/
theorem convert_eq_requant (src dst : Fmt) (r : Rounding) (o : Overflow) (c : ℤ) :
    convertM src dst r o c = requant src dst r o c := by
  unfold convertM requant storeRawFloat quantize
  rw [shiftedCode_eq]

/-- and therefore satisfies the relational C01 statement for the source value. -/
theorem convert_spec (src dst : Fmt) (hd : 0 < dst.nword) (r : Rounding) (o : Overflow) (c : ℤ) :
    C01.Spec dst r o (valueOf src c) (convertM src dst r o c) := by
  rw [convert_eq_requant]; exact C01.quantize_spec dst hd r o _

/-- all routes are the same function of (source value, destination format, destination modes): any two
of them agree. (`resize`, `like`, `equal`, constructor / call / `set_val` / `__setitem__` from an `Fxp`
all hand `shiftedCode` to the raw store.) -/
theorem routes_agree (src dst : Fmt) (r : Rounding) (o : Overflow) (c : ℤ)
    (route₁ route₂ : Fmt → Fmt → Rounding → Overflow → ℤ → ℤ)
    (h₁ : route₁ = convertM) (h₂ : route₂ = convertM) :
    route₁ src dst r o c = route₂ src dst r o c := by rw [h₁, h₂]

/-- **value preserved exactly** whenever it is representable in the destination (any modes). -/
theorem requant_preserves_repr (src dst : Fmt) (hd : 0 < dst.nword) (r : Rounding) (o : Overflow) (c k : ℤ)
    (hk : dst.InRange k) (hv : valueOf dst k = valueOf src c) :
    requant src dst r o c = k ∧ valueOf dst (requant src dst r o c) = valueOf src c := by
  have : requant src dst r o c = k := by
    unfold requant quantize
    rw [← hv]; unfold valueOf; rw [scale_int_cancel, roundR_int]
    cases o
    · exact sat_of_inRange dst k hk
    · exact wrap_of_inRange dst hd k hk
  exact ⟨this, by rw [this, hv]⟩

/-- converting to the same format is the identity on stored codes. -/
theorem convert_same_format (f : Fmt) (hw : 0 < f.nword) (r : Rounding) (o : Overflow) (c : ℤ) (h : f.InRange c) :
    convertM f f r o c = c := by
  rw [convert_eq_requant]
  exact (requant_preserves_repr f f hw r o c c h rfl).1

/-- flags of the conversion are the flags of storing the source value. -/
theorem convert_flags (src dst : Fmt) (r : Rounding) (c : ℤ) :
    convertFlags src dst r c =
      (decide (dst.hi < roundR r (scale (valueOf src c) dst.nfrac)),
       decide (roundR r (scale (valueOf src c) dst.nfrac) < dst.lo)) := by
  unfold convertFlags; rw [shiftedCode_eq]

/-- iterated requantisation. -/
def requantChain (src : Fmt) (c : ℤ) : List (Fmt × Rounding × Overflow) → Fmt × ℤ
  | [] => (src, c)
  | (d, r, o) :: rest => requantChain d (requant src d r o c) rest

/-- **sequences of conversions** (any length) are the iterated requantisation. -/
theorem chain (src : Fmt) (c : ℤ) (steps : List (Fmt × Rounding × Overflow)) :
    convertChain src c steps = requantChain src c steps := by
  induction steps generalizing src c with
  | nil => rfl
  | cons s rest ih =>
    obtain ⟨d, r, o⟩ := s
    simp only [convertChain, requantChain, convert_eq_requant, ih]

/-- arrays are converted element-wise: the shape (length) is preserved and the source list is a value,
not mutated. -/
theorem shape_preserved (src dst : Fmt) (r : Rounding) (o : Overflow) (cs : List ℤ) :
    (cs.map (convertM src dst r o)).length = cs.length := by simp

/-! non-vacuity -/
example : convertM ⟨true, 8, 0⟩ ⟨true, 8, -1⟩ .ceil .saturate 7 = 4 := by decide +kernel   -- D6 witness: 3.5 → 4
example : convertM ⟨true, 8, 0⟩ ⟨true, 8, -1⟩ .trunc .saturate 7 = 3 := by decide +kernel

end Fxp.C10
