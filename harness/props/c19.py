"""C19 — no silent wrap at the 64-bit machine boundary in arithmetic or in storing."""
import numpy as np
from ..env import Fxp, parse_list, tok_list, lims, codes_of, exc_token, ROUNDS, OVFS
from .. import arith as A
from . import base

TRUSTED_BASE = base.TRUSTED_BASE + ['NumPy int64/uint64 arithmetic wraps modulo 2^64 and int64-with-uint64 promotes to float64 (modelled in Model/Carrier.lean); Python int arithmetic is exact']
ASSUMPTIONS = base.ASSUMPTIONS + ['quantifier: scalar operands / scalar Python integers (arrays of wide codes: C11)']
RULE = ('AR lines (add/sub/mul, optimal sizing, raw method, operator/function routes) with operand words 2..70, n_frac 0..n_word, any signedness mix: codes at extremes, near extremes and random with long runs of zeros; format pairs concentrated on the '
        'selection thresholds (aligned width and result n_frac in {52,53,54,62,63,64,65}); BI lines: Python integers +-2^k, +-2^k+-1 and random up to 2^1000 into formats of 1..52 bits with 0<=n_frac<=n_word+3 by constructor, call, set_val and indexed assignment. '
        'non-trivial = the exact aligned result (or the scaled integer) needs more than 53 bits')
TECHNIQUE = 'Lean 4 theorems (C07 exactness is unbounded; carrier model: the selected machine path computes the exact integer whenever the selection rule holds; big-int store = quantize) + differential correspondence at the 53/63/64-bit thresholds + source tie: the growth/sizing/carrier rules of fxpmath/functions.py are translated to Lean on every run (harness/srcgen.py) and the tie theorems of lean/FxpVerif/Gen/Tie.lean re-checked against the translation'
LEVEL_TEXT = ('The exactness theorems of C07 and the store theorem of C01 have no bound on word length or magnitude, so the model has no 64-bit boundary. What can break at the boundary is the choice of machine carrier; Model/Carrier.lean models int64 / uint64 / float64 / Python-int paths and '
              'the selection rule, and it is proved that whenever the rule selects a machine path every intermediate fits it (so the machine result equals the exact one). The implementation is driven across the thresholds with extreme and structured codes and with integers up to 2^1000.')
LEVEL_NOTE = 'Trusted: Lean kernel + standard axioms; the carrier model is hand-written from functions.py/objects.py and tied to the code by correspondence at the thresholds; NumPy promotion rules of this sandbox\'s NumPy.'


def exec_BI(t):
    s, n, f = t[0] == 's', int(t[1]), int(t[2])
    r, o, route = t[3], t[4], t[5]
    vs = [int(v) for v in parse_list(t[6])]
    v = vs[0]
    try:
        if route == 'ctor':
            x = Fxp(v, s, n, f, rounding=r, overflow=o)
        else:
            x = Fxp(None, s, n, f, rounding=r, overflow=o)
            if route == 'call':
                x(v)
            elif route == 'setval':
                x.set_val(v)
            else:
                x = Fxp([0, 0], s, n, f, rounding=r, overflow=o)
                x[1] = v
                return [tok_list([str(codes_of(x)[1])])]
        return [tok_list([str(c) for c in codes_of(x)])]
    except Exception as e:
        return [exc_token(e)]


EXEC = {'AR': A.exec_AR, 'BI': exec_BI}


def fm(x):
    return '%s %d %d' % ('s' if x[0] else 'u', x[1], x[2])


def structured(rng, lo, hi, n):
    c = rng.choice([lo, hi, lo + 1, hi - 1, lo + rng.randint(0, 3), hi - rng.randint(0, 3), rng.randint(lo, hi),
                    (rng.randint(lo, hi) >> rng.randint(0, n)) << rng.randint(0, n), 1, 0, -1 if lo < 0 else 1,
                    (1 << max(n - 2, 0)) + 1, hi // 3, (1 << 53) + 1 if hi > (1 << 53) else hi])
    return max(lo, min(hi, c))


def generate(tier, rng):
    L = lambda l: tok_list([str(c) for c in l])
    n_ar = 4000 if tier == 'quick' else 120000
    THR = [52, 53, 54, 62, 63, 64, 65]
    for _ in range(n_ar):
        sx, sy = rng.random() < 0.5, rng.random() < 0.5
        if rng.random() < 0.6:
            # aim the aligned width at a threshold
            target = rng.choice(THR)
            nx = rng.randint(2, min(70, target))
            fx = rng.randint(0, nx)
            ny = rng.randint(2, 70)
            fy = rng.randint(0, ny)
            op = rng.choice(['add', 'sub', 'mul'])
            if op == 'mul':
                ny = max(2, min(70, target - nx + rng.choice([-1, 0, 1]))); fy = rng.randint(0, ny)
            else:
                # make x's aligned width = target: F - fx + nx = target
                F = target - nx + fx
                if F >= fy and F - fy + ny <= 256 and F >= 0:
                    fy2 = fy; ny2 = ny
                    fy = fy2
                    # y.n_frac must be max => set fy = F
                    fy = F; ny = max(ny, 2)
                    if fy > ny:
                        ny = fy
                    if ny > 70:
                        continue
        else:
            nx, ny = rng.randint(2, 70), rng.randint(2, 70)
            fx, fy = rng.randint(0, nx), rng.randint(0, ny)
            op = rng.choice(['add', 'sub', 'mul'])
        x = (sx, nx, fx); y = (sy, ny, fy)
        lox, hix = lims(sx, nx); loy, hiy = lims(sy, ny)
        a = structured(rng, lox, hix, nx); b = structured(rng, loy, hiy, ny)
        yield 'AR %s optimal raw %s %s %s %s %s %s %s' % (op, rng.choice(['operator', 'function', 'numpy']), fm(x), fm(y), rng.choice(ROUNDS), rng.choice(OVFS), L([a]), L([b]))
        if rng.random() < 0.5:
            # the four extreme-code corners (they bound every other pair) and one more pair, as arrays
            yield 'AR %s optimal raw %s %s %s %s %s %s %s' % (op, rng.choice(['operator', 'function', 'numpy']), fm(x), fm(y), rng.choice(ROUNDS), rng.choice(OVFS),
                                                              L([lox, lox, hix, hix, a]), L([loy, hiy, loy, hiy, b]))
        if rng.random() < 0.5:
            # arrays of every sign pattern: all on one side of zero, one extreme among small codes, small maximum with a large negative
            # element (whatever a carrier rule looks at - the word, the maximum, the first element - the exact result is owed)
            pick = lambda lo, hi: rng.choice([lo, lo + 1, lo + rng.randint(0, 7), rng.randint(-9, 9), 0, 1, -1, hi, hi - rng.randint(0, 7), rng.randint(lo, hi)])
            k = rng.choice([2, 3, 3, 4])
            aa = [max(lox, min(hix, pick(lox, hix))) for _ in range(k)]
            bb = [max(loy, min(hiy, pick(loy, hiy))) for _ in range(rng.choice([1, k]))]
            yield 'AR %s optimal raw %s %s %s %s %s %s %s' % (op, rng.choice(['operator', 'function', 'numpy']), fm(x), fm(y), rng.choice(ROUNDS), rng.choice(OVFS), L(aa), L(bb))
    n_bi = 3000 if tier == 'quick' else 80000
    for _ in range(n_bi):
        s = rng.random() < 0.5
        n = rng.randint(1, 52)
        f = rng.randint(0, n + 3)
        k = rng.choice([rng.randint(0, 70), rng.randint(50, 70), rng.randint(0, 1000)])
        v = rng.choice([1 << k, (1 << k) - 1, (1 << k) + 1, -(1 << k), -(1 << k) - 1, -(1 << k) + 1, rng.getrandbits(k + 1) * rng.choice([1, -1]),
                        (1 << 63) >> f, ((1 << 63) >> f) - 1, -((1 << 63) >> f) - 1, (1 << 64) >> f, (1 << 62)])
        yield 'BI %s %s %s %s %s' % (fm((s, n, f)), rng.choice(ROUNDS), rng.choice(OVFS), rng.choice(['ctor', 'call', 'setval', 'setitem']), L([v]))


def nontrivial(full_line, model):
    t = full_line.split(' | ')[0].split()
    if t[0] == 'BI':
        return abs(int(parse_list(t[7])[0])) << int(t[3]) >= 2 ** 53
    return True


def kf_class(t):
    return None


def debug_class(t):
    if t[0] == 'AR':
        return 'AR %s %s%s wmax=%s' % (t[1], t[5], t[8], base.word_bucket(max(int(t[6]), int(t[9]))))
    return 'BI ' + t[5] + ' ' + t[6]


def stats(verdicts):
    return base.generic_stats(verdicts, lambda t: (['op:AR:' + t[1], 'signs:' + t[5] + t[8], 'wmax:' + base.word_bucket(max(int(t[6]), int(t[9])))] if t[0] == 'AR' else ['op:BI', 'route:' + t[6], 'ovf:' + t[5]]), None, [])
