/-!
# Core model of fxpmath's store pipeline

Follows `fxpmath/objects.py` (`set_val`, `_round`, `_overflow_action`, `_get_conv_factor`)
and `fxpmath/utils.py` (`clip`, `wrap`).  Values are `Rat`, codes are `Int`.
No imports outside core Lean: the same definitions are proved about and executed by the driver.
-/
namespace Fxp

/-- A fixed-point format `(signed, n_word, n_frac)`. -/
structure Fmt where
  signed : Bool
  nword  : Nat
  nfrac  : Int
deriving Repr, DecidableEq

namespace Fmt
/-- `val_min` of `set_val`/`resize`. -/
def lo (f : Fmt) : Int := if f.signed then -(2 ^ (f.nword - 1) : Int) else 0
/-- `val_max` of `set_val`/`resize`. -/
def hi (f : Fmt) : Int := if f.signed then (2 ^ (f.nword - 1) : Int) - 1 else (2 ^ f.nword : Int) - 1
/-- `n_int = n_word - n_frac - sign`. -/
def nint (f : Fmt) : Int := f.nword - f.nfrac - (if f.signed then 1 else 0)
def InRange (f : Fmt) (k : Int) : Prop := f.lo ≤ k ∧ k ≤ f.hi
instance (f : Fmt) (k : Int) : Decidable (f.InRange k) := by unfold InRange; exact inferInstance
end Fmt

inductive Rounding | trunc | fix | floor | ceil | around
deriving Repr, DecidableEq

inductive Overflow | saturate | wrap
deriving Repr, DecidableEq

/-- `val * conv_factor` with `conv_factor = 1 << n_frac` or `1 / (1 << -n_frac)`. -/
def scale (v : Rat) (e : Int) : Rat :=
  if 0 ≤ e then v * ((2 ^ e.toNat : Int) : Rat) else v / ((2 ^ (-e).toNat : Int) : Rat)

/-- numpy `around`: nearest integer, ties to even. -/
def roundHalfEven (x : Rat) : Int :=
  let fl := x.floor
  let d := x - (fl : Rat)
  if d < 1/2 then fl
  else if 1/2 < d then fl + 1
  else if fl % 2 = 0 then fl else fl + 1

/-- `_round(val, method)` on a float carrier. -/
def roundR : Rounding → Rat → Int
  | .floor,  x => x.floor
  | .ceil,   x => x.ceil
  | .trunc,  x => if x < 0 then x.ceil else x.floor
  | .fix,    x => if x < 0 then x.ceil else x.floor
  | .around, x => roundHalfEven x

/-- `utils.clip`: `max(val_min, min(val_max, x))`. -/
def sat (f : Fmt) (k : Int) : Int := max f.lo (min f.hi k)

/-- `utils.wrap`: mask with `2^n_word - 1`, then sign-extend (`x | -m` when `x ≥ 2^(n_word-1)`). -/
def wrap (f : Fmt) (k : Int) : Int :=
  let m : Int := 2 ^ f.nword
  let x := k % m
  if f.signed then (if x < 2 ^ (f.nword - 1) then x else x - m) else x

def ovf : Overflow → Fmt → Int → Int
  | .saturate, f, k => sat f k
  | .wrap,     f, k => wrap f k

/-- the whole store pipeline for one real value. -/
def quantize (f : Fmt) (r : Rounding) (o : Overflow) (v : Rat) : Int :=
  ovf o f (roundR r (scale v f.nfrac))

/-- value represented by a code: `code / conv_factor`. -/
def valueOf (f : Fmt) (c : Int) : Rat := scale (c : Rat) (-f.nfrac)

structure Flags where
  ov : Bool
  un : Bool
  inacc : Bool
deriving Repr, DecidableEq

/-- flags raised by one write of `v` (from a clean status). -/
def storeFlags (f : Fmt) (r : Rounding) (o : Overflow) (v : Rat) : Flags :=
  let k := roundR r (scale v f.nfrac)
  { ov := decide (f.hi < k), un := decide (k < f.lo),
    inacc := decide (valueOf f (quantize f r o v) ≠ v) }

/-- raw store: conversion factor 1; the carrier may still be a non-integer (negative alignment shift). -/
def quantizeRaw (f : Fmt) (r : Rounding) (o : Overflow) (x : Rat) : Int :=
  ovf o f (roundR r x)

end Fxp
