import FxpVerif.Model.Chk
import Mathlib.Data.Rat.Floor
/-! # C03 — wrap is exact two's-complement modular arithmetic: statement -/
namespace Fxp.C03
open Fxp

/-- `c` is the in-range integer congruent to `k` modulo `2^n_word`. -/
def Spec (f : Fmt) (k c : ℤ) : Prop := f.InRange c ∧ (c - k) % (2 ^ f.nword) = 0

end Fxp.C03
