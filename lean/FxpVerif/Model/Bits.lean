import FxpVerif.Model.Store
/-!
# Bit-level operators (`objects.py` 1373-1474, `utils.py` 55-63, 373-412)

Bitwise NOT/AND/OR/XOR act on the `n_word`-bit two's-complement patterns (`int(x) % (1 << n_word)`), the
result is re-signed with `twos_complement_repr` when `self` is signed and stored raw into a deep copy of
`self`. Shifts: see `rshiftExpand`, `rshiftKeep`, `lshiftExpand`, `lshiftKeep`.
-/
namespace Fxp

/-- `int(x) % (1 << n_word)` as a natural number. -/
def upat (n : Nat) (c : Int) : Nat := (c % 2 ^ n).toNat

/-- `twos_complement_repr` of a non-negative pattern when the format is signed; identity when unsigned. -/
def resign (f : Fmt) (u : Nat) : Int :=
  if f.signed ∧ 2 ^ (f.nword - 1) ≤ u % 2 ^ f.nword then ((u % 2 ^ f.nword : Nat) : Int) - 2 ^ f.nword
  else if f.signed then ((u % 2 ^ f.nword : Nat) : Int) else (u : Int)

/-- `~x`: `(1 << n_word) - 1 - x`, re-signed, stored raw under `(r, o)` of the copy. -/
def invertM (f : Fmt) (o : Overflow) (c : Int) : Int :=
  ovf o f (resign f (2 ^ f.nword - 1 - c).toNat)

inductive BitOp | and | or | xor
deriving Repr, DecidableEq

def bitop : BitOp → Nat → Nat → Nat
  | .and, a, b => a &&& b
  | .or,  a, b => a ||| b
  | .xor, a, b => a ^^^ b

/-- `x & y` etc.: patterns of both operands modulo `2^n_word` (of `x`), combined, re-signed, stored raw. -/
def bitwiseM (op : BitOp) (f : Fmt) (o : Overflow) (c m : Int) : Int :=
  ovf o f (resign f (bitop op (upat f.nword c) (upat f.nword m)))

/-- Fxp ∘ Fxp: operands of different word lengths are rejected (`ValueError`). -/
def bitwiseFxp (op : BitOp) (x y : Fmt) (o : Overflow) (a b : Int) : Option Int :=
  if x.nword ≠ y.nword then none else some (bitwiseM op x o a b)

/-! ### shifts -/

/-- number of trailing zero bits of a non-zero integer (fuel = |c|). -/
def tzAux : Nat → Int → Nat
  | 0, _ => 0
  | fuel + 1, c => if c % 2 ≠ 0 then 0 else 1 + tzAux fuel (c / 2)

def tz (c : Int) : Nat := tzAux c.natAbs c

/-- `utils.min_pow2`: the smallest number of trailing zeros over the non-zero elements; `none` if all zero. -/
def minPow2 (cs : List Int) : Option Nat :=
  (cs.filter (· ≠ 0)).foldl (fun acc c => match acc with
    | none => some (tz c)
    | some t => some (min t (tz c))) none

/-- `x >> n`, expand mode: the fraction (and the word) grows by the number of bits that would be lost. -/
def rshiftExpand (f : Fmt) (cs : List Int) (n : Nat) : Fmt × List Int :=
  let e : Nat := match minPow2 cs with
    | some t => if t < n then n - t else 0
    | none => 0
  let g : Fmt := ⟨f.signed, f.nword + e, f.nfrac + e⟩
  (g, cs.map (fun (c : Int) => sat g (Int.shiftRight c (n - e))))

/-- `x >> n`, trunc/keep mode: arithmetic shift of the code, same format, no store. -/
def rshiftKeep (cs : List Int) (n : Nat) : List Int := cs.map (fun (c : Int) => Int.shiftRight c n)

/-- `int(np.ceil(np.log2(|c| + 0.5)))`: number of bits of `|c|`, and `-1` for 0. -/
def bitlen (c : Int) : Int := if c = 0 then -1 else (Nat.log2 c.natAbs : Int) + 1

def maxInt : List Int → Int
  | [] => 0
  | [a] => a
  | a :: t => max a (maxInt t)

/-- `x << n`, expand mode: word grows to `max(n_word, max bitlen + sign + n)`; stored raw with the
default config (saturate). -/
def lshiftExpand (f : Fmt) (cs : List Int) (n : Nat) : Fmt × List Int :=
  let w : Int := max (f.nword : Int) (maxInt (cs.map bitlen) + bsigI f.signed + n)
  let g : Fmt := ⟨f.signed, w.toNat, f.nfrac⟩
  (g, cs.map (fun c => sat g (c * 2 ^ n)))
where bsigI (b : Bool) : Int := if b then 1 else 0

/-- `x << n`, trunc/keep mode: same format, stored raw with the default config (saturate). -/
def lshiftKeep (f : Fmt) (cs : List Int) (n : Nat) : List Int := cs.map (fun c => sat f (c * 2 ^ n))

end Fxp
