import FxpVerif.Model.Core
/-!
# The code paths of `set_val`

`set_val` reaches `_overflow_action` along different carriers (objects.py:845-863):
* integer carrier (`int64`/`uint64` array or Python-int object array) with `n_frac ≥ 0`:
  `val * (1 << n_frac)` stays an integer and `_round` returns it **unrounded**;
* integer carrier with `n_frac < 0`: the conversion factor is the float `1/(1 << -n_frac)`, so the product is a
  float and is rounded;
* float carrier: `val * conv_factor` is rounded by the configured `np.*` function;
* raw store (`raw=True`): conversion factor 1; the carrier may be an integer (unrounded) or a float
  (e.g. `old_code * 2**(negative shift)` in `resize`), which is rounded.
-/
namespace Fxp

/-- integer carrier, `n_frac ≥ 0`: scaled by a shift, not rounded. -/
def storeIntShift (f : Fmt) (o : Overflow) (k : Int) : Int := ovf o f (k * 2 ^ f.nfrac.toNat)

/-- integer carrier, any `n_frac`. -/
def storeInt (f : Fmt) (r : Rounding) (o : Overflow) (k : Int) : Int :=
  if 0 ≤ f.nfrac then storeIntShift f o k else ovf o f (roundR r (scale (k : Rat) f.nfrac))

/-- float carrier. -/
def storeFloat (f : Fmt) (r : Rounding) (o : Overflow) (v : Rat) : Int :=
  ovf o f (roundR r (scale v f.nfrac))

/-- raw store of an integer code (no scaling, no rounding). -/
def storeRawInt (f : Fmt) (o : Overflow) (k : Int) : Int := ovf o f k

/-- raw store of a float carrier (rounded, not scaled). -/
def storeRawFloat (f : Fmt) (r : Rounding) (o : Overflow) (x : Rat) : Int := ovf o f (roundR r x)

/-- complex values are stored component-wise. -/
def storeComplex (f : Fmt) (r : Rounding) (o : Overflow) (z : Rat × Rat) : Int × Int :=
  (storeFloat f r o z.1, storeFloat f r o z.2)

/-- arrays are stored element-wise. -/
def storeArray (f : Fmt) (r : Rounding) (o : Overflow) (vs : List Rat) : List Int :=
  vs.map (storeFloat f r o)

end Fxp
