"""C10 — format conversion gives the same correctly quantized value by every route."""
import copy
from fractions import Fraction
import numpy as np
from ..env import Fxp, parse_list, tok_list, lims, ROUNDS, OVFS, codes_of, fmt_of, tok_bool, exc_token, to_float
from .. import gen as G
from ..arith import mk, hist_of, empty_via_history
from . import base

TRUSTED_BASE = base.TRUSTED_BASE
ASSUMPTIONS = base.ASSUMPTIONS + ['copy.deepcopy copies deeply (used to keep the source for the in-place route resize)']
RULE = ('CV lines: (route, source creation mode, shape, source format, destination format, destination modes, source codes) for routes resize / resize(dtype=) / like= / like() / constructor / constructor(dtype=) / call / set_val / equal / indexed assignment; '
        'all codes of all format pairs with n_word<=3 (quick) / <=5 (thorough) incl. negative fraction lengths, all 10 destination modes, shapes (), (k,), (2,k/2); random pairs up to 52 bits; sources created raw and by value (integer-valued sources carry vdtype=int); '
        'CH: chains of up to 6 conversions. non-trivial = destination format differs from the source and some value is not representable in it')
TECHNIQUE = 'Lean 4 theorems (every route = requantisation of the exact source value; value preserved when representable; chains = iterated requantisation) + differential correspondence over all routes'
LEVEL_TEXT = ('Machine-checked for all source/destination formats and modes: handing the shifted code old*2^(dst.n_frac-src.n_frac) (integer or not) to the destination\'s raw store equals the C01 quantization of the exact source value, '
              'so all routes agree pairwise; representable values are preserved exactly; a chain of conversions is the iterated requantisation. The ten routes of the implementation are tied to this one model function by exhaustive small format pairs, '
              'random pairs up to 52 bits, three shapes, both source-creation modes and chains.')
LEVEL_NOTE = 'Trusted: Lean kernel + standard axioms; that the routes share one numeric path is established by correspondence only; source-unchanged and shape are observed on the implementation.'

ROUTES = ('resize', 'resize_dtype', 'resize_if', 'resize_wi', 'like_kw', 'like_m', 'ctor', 'ctor_dtype', 'call', 'setval', 'equal', 'setitem')


def dtype_str(s, n, f):
    return 'fxp-%s%d/%d' % ('s' if s else 'u', n, f)


def is2d(shape):
    return len([p for p in shape.strip('()').split(',') if p]) == 2


def make_src(codes, shape, s, n, f, mode):
    if mode == 'value':
        vals = [Fraction(c) / Fraction(2) ** f for c in codes]
        if all(v.denominator == 1 for v in vals):
            pv = [int(v) for v in vals]
        else:
            pv = [to_float(v) for v in vals]
        obj = pv[0] if shape == '()' else (np.array(pv).reshape(2, -1) if is2d(shape) else pv)
        x = Fxp(obj, s, n, f)
        assert codes_of(x) == codes, 'source not representable'
        return x
    x = mk(codes, s, n, f)
    if f == 0 and s and n >= 3 and shape != '()' and not is2d(shape) and hist_of(n, len(codes), codes[0] % 91) % 4 == 0:
        # born from a list of unsigned NumPy scalars (its value type is an unsigned one), the codes under test arrive later by a raw
        # store through equal(): a conversion must not read negative codes through that value type
        x = Fxp([np.uint64(1)] * len(codes), s, n, f)
        x.equal(Fxp(np.array(codes, dtype=np.int64), s, n, f, raw=True))
        assert codes_of(x) == codes
        return x
    if is2d(shape):
        arr = np.array(codes, dtype=np.int64).reshape(2, -1)
        # the same logical 2-D content in three memory layouts (content-determined): row-major, column-major input, transposed object
        lay = hist_of(n, f, len(codes), codes[0] % 97, codes[-1] % 89) % 3
        if lay == 0:
            x = Fxp(arr, s, n, f, raw=True)
        elif lay == 1:
            x = Fxp(np.asfortranarray(arr), s, n, f, raw=True)
        else:
            x = Fxp(np.ascontiguousarray(arr.T), s, n, f, raw=True).T
        assert x.shape == arr.shape and codes_of(x) == codes, 'layout changed the logical content'
    elif shape != '()' and len(codes) == 1:
        x = Fxp(np.array(codes, dtype=np.int64), s, n, f, raw=True)
    return x


def convert(route, src, sd, nd, fd, r, o):
    cfg = dict(rounding=r, overflow=o)
    shape = src.shape
    if route == 'resize':
        y = copy.deepcopy(src); y.config.rounding = r; y.config.overflow = o
        y.resize(sd, nd, fd); return y
    if route in ('resize_if', 'resize_wi'):
        # the destination sizes spelled through n_int (with the destination's signedness given in the same call)
        y = copy.deepcopy(src); y.config.rounding = r; y.config.overflow = o
        ni = nd - fd - (1 if sd else 0)
        if route == 'resize_if':
            y.resize(signed=sd, n_int=ni, n_frac=fd)
        else:
            y.resize(signed=sd, n_word=nd, n_int=ni)
        return y
    if route == 'resize_dtype':
        y = copy.deepcopy(src); y.config.rounding = r; y.config.overflow = o
        y.resize(dtype=dtype_str(sd, nd, fd)); return y
    if route == 'ctor':
        return Fxp(src, sd, nd, fd, **cfg)
    if route == 'ctor_dtype':
        return Fxp(src, dtype=dtype_str(sd, nd, fd), **cfg)
    # the destination is itself an object with a past: built directly or reached by in-place format changes (content-determined)
    D = empty_via_history(hist_of(route, nd, fd, int(sd), len(shape), src.n_word), np.zeros(shape, dtype=int) if shape != () else None, sd, nd, fd, **cfg)
    if route == 'like_kw':
        return Fxp(src, like=D)
    if route == 'like_m':
        return src.like(D)
    if route == 'call':
        D(src); return D
    if route == 'setval':
        D.set_val(src); return D
    if route == 'equal':
        D.equal(src); return D
    if route == 'setitem':
        if shape == ():
            D[...] = src
        elif len(shape) == 1:
            for i in range(shape[0]):
                D[i] = src[i]
        else:
            for i in range(shape[0]):
                D[i] = src[i]
        return D
    if route in ('setitem_col', 'setitem_blk', 'setitem_mask'):
        # region stores of a fixed-point array (2-D sources): a column broadcast over the columns of the region (the generator makes
        # every row of the source constant, so the broadcast column *is* the source), a block store in two halves, a masked store
        assert len(shape) == 2
        if route == 'setitem_col':
            col = src[:, 0:1]
            assert col.shape == (shape[0], 1)
            if shape[1] > 1 and (src.n_word + shape[1]) % 2:
                D[:, 0:1] = col
                D[:, 1:] = col
            else:
                D[:, :] = col
        elif route == 'setitem_blk':
            h = max(1, shape[1] // 2)
            D[:, :h] = src[:, :h]
            if h < shape[1]:
                D[:, h:] = src[:, h:]
        else:
            m = np.zeros(shape, dtype=bool); m[0, ::2] = True; m[1, 1::2] = True
            D[m] = src[m]
            D[~m] = src[~m]
        return D
    raise ValueError(route)


def exec_CV(t):
    route, mode, shape = t[0:3]
    ss, ns, fs = t[3] == 's', int(t[4]), int(t[5])
    sd, nd, fd = t[6] == 's', int(t[7]), int(t[8])
    r, o = t[9], t[10]
    codes = [int(c) for c in parse_list(t[11])]
    try:
        src = make_src(codes, shape, ss, ns, fs, mode)
    except AssertionError:
        return ['SRCFAIL']
    before = (fmt_of(src), codes_of(src), src.shape)
    try:
        y = convert(route, src, sd, nd, fd, r, o)
    except Exception as e:
        return [exc_token(e)]
    unchanged = (fmt_of(src), codes_of(src), src.shape) == before
    if (y.config.rounding, y.config.overflow) != (r, o):
        # the converted object lives under the destination's modes (the next conversion of a chain is governed by them)
        return ['CONFIG:%s,%s' % (y.config.rounding, y.config.overflow)]
    cs = codes_of(y)
    st = y.status
    return fmt_of(y).split() + [tok_list([str(c) for c in cs]) if cs is not None else 'nonint',
                                str(tuple(y.shape)).replace(' ', ''), tok_bool(st['overflow']), tok_bool(st['underflow']), tok_bool(unchanged)]


def exec_CH(t):
    mode = t[0]
    ss, ns, fs = t[1] == 's', int(t[2]), int(t[3])
    codes = [int(c) for c in parse_list(t[4])]
    steps = t[5:]
    try:
        cur = make_src(codes, '()' if len(codes) == 1 else '(%d,)' % len(codes), ss, ns, fs, mode)
        for i in range(0, len(steps), 6):
            route, sd, nd, fd, r, o = steps[i:i + 6]
            cur = convert(route, cur, sd == 's', int(nd), int(fd), r, o)
    except Exception as e:
        return [exc_token(e)]
    return fmt_of(cur).split() + [tok_list([str(c) for c in codes_of(cur)])]


EXEC = {'CV': exec_CV, 'CH': exec_CH}


def fm(x):
    return '%s %d %d' % ('s' if x[0] else 'u', x[1], x[2])


def shape_tok(shape, k):
    return '()' if shape == 0 else '(%d,)' % k if shape == 1 else '(2,%d)' % (k // 2)


def representable_by_value(codes, f):
    return all(abs(c) < 2 ** 53 for c in codes)


def generate(tier, rng):
    L = lambda l: tok_list([str(c) for c in l])
    maxw = 3 if tier == 'quick' else 5
    small = [(s, n, f) for s in (True, False) for n in range(1, maxw + 1) for f in range(-2, n + 3)]
    for x in small:
        lo, hi = lims(x[0], x[1])
        allc = list(range(lo, hi + 1))
        for d in small:
            for route in ROUTES:
                if rng.random() > (0.12 if tier == 'quick' else 0.5):
                    continue
                r, o = rng.choice(ROUNDS), rng.choice(OVFS)
                sh = rng.choice([1, 1, 2]) if len(allc) % 2 == 0 else 1
                yield 'CV %s %s %s %s %s %s %s %s' % (route, rng.choice(['raw', 'value']), shape_tok(sh, len(allc)), fm(x), fm(d), r, o, L(allc))
                c0 = rng.choice(allc)
                yield 'CV %s %s () %s %s %s %s %s' % (route, rng.choice(['raw', 'value']), fm(x), fm(d), r, o, L([c0]))
    for _ in range(2500 if tier == 'quick' else 60000):
        x = G.rand_format(rng, fmin=-4, fextra=4)
        d = G.rand_format(rng, fmin=-4, fextra=4)
        if abs(d[2] - x[2]) > 40:
            continue
        lo, hi = lims(x[0], x[1])
        sh = rng.choice([0, 0, 1, 2])
        k = 1 if sh == 0 else rng.choice([2, 4])
        codes = [rng.choice([lo, hi, 0, 1, lo + 1, hi - 1, rng.randint(lo, hi), rng.randint(lo, hi)]) for _ in range(k)]
        codes = [max(lo, min(hi, c)) for c in codes]
        # every source code is an exact double (n_word <= 52); the shifted code may need more than 64 bits (both formats are
        # core-domain formats, which is all the quantifier asks)
        if any(abs(c) >= 2 ** 52 for c in codes):
            continue
        yield 'CV %s %s %s %s %s %s %s %s' % (rng.choice(ROUTES), rng.choice(['raw', 'value']), shape_tok(sh, k), fm(x), fm(d),
                                              rng.choice(ROUNDS), rng.choice(OVFS), L(codes))
        if sh == 1 and rng.random() < 0.5:
            # an array of one element is an array: every route keeps its shape (1,)
            yield 'CV %s raw (1,) %s %s %s %s %s' % (rng.choice(ROUTES), fm(x), fm(d), rng.choice(ROUNDS), rng.choice(OVFS), L(codes[:1]))
    # region stores of 2-D fixed-point arrays: broadcast column, block halves, masks
    for _ in range(600 if tier == 'quick' else 12000):
        x = G.rand_format(rng, fmin=-4, fextra=4)
        d = G.rand_format(rng, fmin=-4, fextra=4)
        if abs(d[2] - x[2]) > 40:
            continue
        lo, hi = lims(x[0], x[1])
        pick = lambda: max(lo, min(hi, rng.choice([lo, hi, 0, 1, lo + 1, hi - 1, rng.randint(lo, hi), rng.randint(lo, hi)])))
        route = rng.choice(['setitem_col', 'setitem_col', 'setitem_blk', 'setitem_mask'])
        w = rng.choice([2, 3])
        if route == 'setitem_col':
            a, b = pick(), pick()
            codes = [a] * w + [b] * w          # constant rows: the broadcast first column is the source itself
        else:
            codes = [pick() for _ in range(2 * w)]
        if any(abs(c) >= 2 ** 52 for c in codes):
            continue
        yield 'CV %s raw %s %s %s %s %s %s' % (route, shape_tok(2, 2 * w), fm(x), fm(d), rng.choice(ROUNDS), rng.choice(OVFS), L(codes))
    # 2-D sources (every memory layout, see make_src) whose rescaled codes need python integers (bit length + shift >= 63): the
    # wide path rebuilds the array element by element and must keep every element at its place
    for _ in range(400 if tier == 'quick' else 8000):
        sx = rng.random() < 0.5
        nx = rng.randint(8, 30)
        fx = rng.randint(0, 6)
        lo, hi = lims(sx, nx)
        k = rng.choice([4, 6])
        codes = [max(lo, min(hi, rng.choice([lo, hi, rng.randint(lo, hi), rng.randint(lo, hi), 1, 0]))) for _ in range(k)]
        codes[rng.randrange(k)] = rng.choice([hi, lo]) if lo else hi
        fd_ = fx + rng.randint(63 - nx, 70 - nx)
        nd_ = min(52, fd_ + rng.randint(0, 6))
        if fd_ > nd_ + 8 or abs(fd_ - fx) > 60:
            continue
        d = (rng.random() < 0.5, nd_, fd_)
        yield 'CV %s raw %s %s %s %s %s %s' % (rng.choice(ROUTES), shape_tok(2, k), fm((sx, nx, fx)), fm(d), rng.choice(ROUNDS), rng.choice(OVFS), L(codes))
    for _ in range(1500 if tier == 'quick' else 30000):
        mode = rng.choice(['raw', 'value', 'value'])
        if mode == 'value':
            # an integer-born source (vdtype=int) that acquires fraction bits later in the chain
            s0 = rng.random() < 0.5
            n0 = rng.randint(2 + int(s0), 16)
            x = (s0, n0, rng.choice([0, 0, -1, -2]))
        else:
            x = G.rand_format(rng, max_word=24, fmin=-2, fextra=2)
        lo, hi = lims(x[0], x[1])
        k = rng.choice([1, 3])
        codes = [rng.choice([lo, hi, rng.randint(lo, hi), rng.randint(lo, hi)]) for _ in range(k)]
        steps = []
        cur_f = x[2]
        for _ in range(rng.randint(2, 6)):
            d = G.rand_format(rng, max_word=24, fmin=-2, fextra=2)
            if rng.random() < 0.5:
                # stay close: a few more / fewer fraction bits, so that values keep fractional parts
                d = (d[0], d[1], max(-2, min(d[1] + 2, cur_f + rng.choice([-3, -2, -1, 1, 2, 3, 6]))))
            cur_f = d[2]
            steps.append('%s %s %s %s' % (rng.choice([r_ for r_ in ROUTES if r_ != 'setitem' or k == 1]), fm(d), rng.choice(ROUNDS), rng.choice(OVFS)))
        yield 'CH %s %s %s %s' % (mode, fm(x), L(codes), ' '.join(steps))


def nontrivial(full_line, model):
    t = full_line.split(' | ')[0].split()
    if t[0] == 'CV':
        return t[4:7] != t[7:10]
    return True


def kf_class(t):
    return None


def debug_class(t):
    if t[0] == 'CV':
        return ' '.join(t[0:4]) + (' dF<0' if int(t[9]) < int(t[6]) else ' dF>=0')
    return t[0]


def stats(verdicts):
    return base.generic_stats(verdicts, lambda t: (['route:' + t[1], 'src:' + t[2], 'shape:' + ('scalar' if t[3] == '()' else '2d' if is2d(t[3]) else '1d'), 'round:' + t[10], 'ovf:' + t[11]] if t[0] == 'CV' else ['op:CH']),
                              lambda t: len(parse_list(t[12])) if t[0] == 'CV' else len(parse_list(t[5])),
                              ['CV: all codes of format pairs with n_word<=3 (quick, 12% of pair x route combinations) / <=5 (thorough, 50%), n_frac -2..n_word+2'])
