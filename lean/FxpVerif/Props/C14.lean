import FxpVerif.Model.Bits
import FxpVerif.Lemmas.Round
import FxpVerif.Lemmas.Overflow
import FxpVerif.Lemmas.Arith
/-! # C14 — shifts scale by powers of two -/
namespace Fxp.C14
open Fxp Fmt

theorem two_ne : (2:ℚ) ≠ 0 := by norm_num

/-- `>>` on codes is the floor division by `2^n` (sign-filling for negative codes). -/
theorem rshift_keep_floor (c : ℤ) (n : ℕ) : Int.shiftRight c n = c / 2 ^ n ∧
    Int.shiftRight c n = ⌊(c:ℚ) / 2 ^ n⌋ := by
  have h : Int.shiftRight c n = c / 2 ^ n := Int.shiftRight_eq_div_pow c n
  refine ⟨h, ?_⟩
  rw [h]
  have e : ((2:ℚ) ^ n) = ((2 ^ n : ℕ) : ℚ) := by push_cast; rfl
  rw [e, Rat.floor_intCast_div_natCast]
  push_cast; rfl

/-! ### trailing zeros -/

theorem tzAux_dvd (fuel : ℕ) (c : ℤ) : (2:ℤ) ^ tzAux fuel c ∣ c := by
  induction fuel generalizing c with
  | zero => simp [tzAux]
  | succ fuel ih =>
    unfold tzAux
    split
    · simp
    · rename_i h
      have h2 : c % 2 = 0 := by simpa using h
      obtain ⟨k, hk⟩ := ih (c / 2)
      have hc : c = 2 * (c / 2) := by omega
      generalize tzAux fuel (c / 2) = T at hk ⊢
      refine ⟨k, ?_⟩
      calc c = 2 * (c / 2) := hc
        _ = 2 * (2 ^ T * k) := by rw [hk]
        _ = 2 ^ (1 + T) * k := by rw [pow_add, pow_one]; ring

theorem tz_dvd (c : ℤ) : (2:ℤ) ^ tz c ∣ c := tzAux_dvd _ c

theorem pow_dvd_of_le {a b : ℕ} (h : a ≤ b) : (2:ℤ) ^ a ∣ 2 ^ b := pow_dvd_pow 2 h

/-- `min_pow2` never exceeds the trailing zeros of any element: every element is divisible. -/
theorem minPow2_dvd (cs : List ℤ) (t : ℕ) (h : minPow2 cs = some t) : ∀ c ∈ cs, (2:ℤ) ^ t ∣ c := by
  -- generalise the fold accumulator
  have key : ∀ (l : List ℤ) (acc : Option ℕ) (t : ℕ),
      l.foldl (fun acc c => match acc with
        | none => some (tz c)
        | some t => some (min t (tz c))) acc = some t →
      (∀ a, acc = some a → t ≤ a) ∧ ∀ c ∈ l, t ≤ tz c := by
    intro l
    induction l with
    | nil => intro acc t h; simp at h; exact ⟨fun a ha => by rw [h] at ha; cases ha; exact le_refl _, by simp⟩
    | cons x l ih =>
      intro acc t h
      simp only [List.foldl_cons] at h
      cases acc with
      | none =>
        obtain ⟨h1, h2⟩ := ih _ t h
        refine ⟨by simp, ?_⟩
        intro c hc
        rcases List.mem_cons.mp hc with rfl | hc
        · exact h1 _ rfl
        · exact h2 c hc
      | some a =>
        obtain ⟨h1, h2⟩ := ih _ t h
        have := h1 _ rfl
        refine ⟨fun b hb => by cases hb; omega, ?_⟩
        intro c hc
        rcases List.mem_cons.mp hc with rfl | hc
        · omega
        · exact h2 c hc
  intro c hc
  by_cases h0 : c = 0
  · rw [h0]; exact dvd_zero _
  · have hmem : c ∈ cs.filter (· ≠ 0) := by simp [hc, h0]
    have := (key _ none t h).2 c hmem
    exact dvd_trans (pow_dvd_of_le this) (tz_dvd c)

/-! ### expand mode -/

theorem value_div (f : Fmt) (c : ℤ) (k e : ℕ) (hd : (2:ℤ) ^ k ∣ c) :
    valueOf ⟨f.signed, f.nword + e, f.nfrac + e⟩ (c / 2 ^ k) = valueOf f c / 2 ^ (k + e) := by
  obtain ⟨q, hq⟩ := hd
  have hk : (2:ℤ) ^ k ≠ 0 := by positivity
  rw [hq, Int.mul_ediv_cancel_left _ hk]
  unfold valueOf
  simp only [scale_eq]
  push_cast
  rw [neg_add, zpow_add₀ two_ne, zpow_neg _ (e:ℤ), zpow_natCast, pow_add]
  have h1 : (2:ℚ) ^ k ≠ 0 := by positivity
  have h2 : (2:ℚ) ^ e ≠ 0 := by positivity
  field_simp

theorem div_in_bounds (L U c q P : ℤ) (hP : 1 ≤ P) (hc : c = P * q) (hL : L ≤ 0) (hU : 0 ≤ U)
    (h1 : L ≤ c) (h2 : c ≤ U) : L ≤ q ∧ q ≤ U := by
  rcases le_or_gt 0 q with hq | hq
  · constructor
    · linarith
    · nlinarith
  · constructor
    · nlinarith
    · linarith

/-- an exact quotient of an in-range code is in range of the same-signed format grown by `e` bits. -/
theorem inRange_grow (f : Fmt) (hf : f.WF) (e k : ℕ) (c q : ℤ) (hc : f.InRange c) (hq : c = 2 ^ k * q) :
    (⟨f.signed, f.nword + e, f.nfrac + e⟩ : Fmt).InRange q := by
  have hg : (⟨f.signed, f.nword + e, f.nfrac + e⟩ : Fmt).WF := by intro h; have := hf h; simp; omega
  rw [inRange_iff_mag _ hg]
  obtain ⟨h1, h2⟩ := (inRange_iff_mag f hf c).mp hc
  have hm : (⟨f.signed, f.nword + e, f.nfrac + e⟩ : Fmt).mag = f.mag + e := by
    unfold mag; simp only
    cases hs : f.signed
    · simp
    · have := hf hs; simp; omega
  rw [hm]
  have hpe : (2:ℤ) ^ f.mag ≤ 2 ^ (f.mag + e) := pow_mono2 (by omega)
  have hb : 0 ≤ bsig f.signed ∧ bsig f.signed ≤ 1 := by unfold bsig; split <;> omega
  have hP : (0:ℤ) < 2 ^ f.mag := by positivity
  have hk1 : (1:ℤ) ≤ 2 ^ k := one_le_two_pow k
  simp only
  have hL : -bsig f.signed * 2 ^ (f.mag + e) ≤ -bsig f.signed * 2 ^ f.mag := by nlinarith
  obtain ⟨d1, d2⟩ := div_in_bounds (-bsig f.signed * 2 ^ f.mag) (2 ^ f.mag - 1) c q (2 ^ k) hk1 hq
    (by nlinarith) (by omega) h1 h2
  constructor <;> linarith

/-- **x >> n in expand mode is exactly x / 2^n**: no bit is lost and the result is in range. -/
theorem rshift_expand_exact (f : Fmt) (hf : f.WF) (cs : List ℤ) (n : ℕ) (hin : ∀ c ∈ cs, f.InRange c) :
    let r := rshiftExpand f cs n
    r.2.length = cs.length ∧
    ∀ i (hi : i < cs.length) (hi' : i < r.2.length),
      r.1.InRange (r.2[i]) ∧ valueOf r.1 (r.2[i]) = valueOf f (cs[i]) / 2 ^ n := by
  intro r
  refine ⟨by simp [r, rshiftExpand], ?_⟩
  intro i hi hi'
  -- the shift actually applied and the expansion
  obtain ⟨e, k, hke, hdv, hr⟩ : ∃ e k : ℕ, k + e = n ∧ (∀ c ∈ cs, (2:ℤ) ^ k ∣ c) ∧
      r = (⟨f.signed, f.nword + e, f.nfrac + e⟩, cs.map (fun c => sat ⟨f.signed, f.nword + e, f.nfrac + e⟩ (Int.shiftRight c k))) := by
    cases hm : minPow2 cs with
    | none =>
      refine ⟨0, n, by omega, ?_, ?_⟩
      · intro c hc
        -- all elements are zero
        have : c = 0 := by
          by_contra h0
          have hmem : c ∈ cs.filter (· ≠ 0) := by simp [hc, h0]
          unfold minPow2 at hm
          generalize hl : cs.filter (· ≠ 0) = l at hm hmem
          cases l with
          | nil => simp at hmem
          | cons x l =>
            simp only [List.foldl_cons] at hm
            have : ∀ (l : List ℤ) (a : ℕ), l.foldl (fun acc c => match acc with
                | none => some (tz c)
                | some t => some (min t (tz c))) (some a) ≠ none := by
              intro l; induction l with
              | nil => intro a; simp
              | cons y l ih => intro a; simp only [List.foldl_cons]; exact ih _
            exact this _ _ hm
        rw [this]; exact dvd_zero _
      · simp only [r, rshiftExpand, hm]; simp
    | some t =>
      by_cases htn : t < n
      · refine ⟨n - t, t, by omega, minPow2_dvd cs t hm, ?_⟩
        simp only [r, rshiftExpand, hm, htn, if_true]
        have : n - (n - t) = t := by omega
        rw [this]
      · refine ⟨0, n, by omega, ?_, ?_⟩
        · intro c hc
          exact dvd_trans (pow_dvd_of_le (by omega)) (minPow2_dvd cs t hm c hc)
        · simp only [r, rshiftExpand, hm, htn, if_false]; simp
  have hci := hin (cs[i]) (List.getElem_mem hi)
  have hd := hdv (cs[i]) (List.getElem_mem hi)
  have hsh := (rshift_keep_floor (cs[i]) k).1
  have hrange : (⟨f.signed, f.nword + e, f.nfrac + e⟩ : Fmt).InRange (cs[i] / 2 ^ k) := by
    obtain ⟨q, hq⟩ := hd
    have hk : (2:ℤ) ^ k ≠ 0 := by positivity
    have hdiv : cs[i] / 2 ^ k = q := by rw [hq, Int.mul_ediv_cancel_left _ hk]
    rw [hdiv]
    exact inRange_grow f hf e k (cs[i]) q hci hq
  have hget : r.2[i] = sat ⟨f.signed, f.nword + e, f.nfrac + e⟩ (Int.shiftRight (cs[i]) k) := by
    simp only [hr, List.getElem_map]
  rw [hget, hsh, sat_of_inRange _ _ hrange]
  have hr1 : r.1 = ⟨f.signed, f.nword + e, f.nfrac + e⟩ := by rw [hr]
  rw [hr1]
  refine ⟨hrange, ?_⟩
  rw [value_div f _ k e hd, hke]

/-- `bitlen` bounds the magnitude. -/
theorem abs_lt_two_pow_bitlen (c : ℤ) (h : c ≠ 0) : |c| < 2 ^ (bitlen c).toNat := by
  unfold bitlen; rw [if_neg h]
  have h1 := Nat.lt_log2_self (n := c.natAbs)
  have : ((Nat.log2 c.natAbs : ℤ) + 1).toNat = Nat.log2 c.natAbs + 1 := by omega
  rw [this]
  have : ((c.natAbs : ℕ) : ℤ) < ((2 ^ (Nat.log2 c.natAbs + 1) : ℕ) : ℤ) := by exact_mod_cast h1
  rw [Int.natCast_natAbs] at this
  push_cast at this; exact this

theorem le_maxInt (l : List ℤ) (x : ℤ) (hx : x ∈ l) : x ≤ maxInt l := by
  induction l with
  | nil => simp at hx
  | cons a t ih =>
    cases t with
    | nil => simp at hx; rw [hx]; simp [maxInt]
    | cons b t =>
      simp only [maxInt]
      rcases List.mem_cons.mp hx with rfl | h
      · exact le_max_left _ _
      · exact le_trans (ih h) (le_max_right _ _)

/-- **x << n in expand mode is exactly x·2^n**, fits the grown word, raises no flag. -/
theorem lshift_expand_exact (f : Fmt) (hf : f.WF) (cs : List ℤ) (n : ℕ) (hin : ∀ c ∈ cs, f.InRange c) :
    let r := lshiftExpand f cs n
    r.2.length = cs.length ∧
    ∀ i (hi : i < cs.length) (hi' : i < r.2.length),
      r.1.InRange (cs[i] * 2 ^ n) ∧ r.2[i] = cs[i] * 2 ^ n ∧ valueOf r.1 (r.2[i]) = valueOf f (cs[i]) * 2 ^ n := by
  intro r
  refine ⟨by simp [r, lshiftExpand], ?_⟩
  intro i hi hi'
  set w : ℤ := max (f.nword : ℤ) (maxInt (cs.map bitlen) + lshiftExpand.bsigI f.signed + n) with hw
  have hr : r = (⟨f.signed, w.toNat, f.nfrac⟩, cs.map (fun c => sat ⟨f.signed, w.toNat, f.nfrac⟩ (c * 2 ^ n))) := rfl
  have hbl : bitlen (cs[i]) ≤ maxInt (cs.map bitlen) :=
    le_maxInt _ _ (List.mem_map.mpr ⟨cs[i], List.getElem_mem hi, rfl⟩)
  have hs01 : lshiftExpand.bsigI f.signed = bsig f.signed := rfl
  have hb : 0 ≤ bsig f.signed ∧ bsig f.signed ≤ 1 := by unfold bsig; split <;> omega
  have hwn : (f.nword : ℤ) ≤ w := le_max_left _ _
  have hwb : bitlen (cs[i]) + bsig f.signed + n ≤ w := by
    have := le_max_right (f.nword : ℤ) (maxInt (cs.map bitlen) + lshiftExpand.bsigI f.signed + n)
    rw [hs01] at this; omega
  have hgwf : (⟨f.signed, w.toNat, f.nfrac⟩ : Fmt).WF := by
    intro h; have := hf h; simp; omega
  have hrange : (⟨f.signed, w.toNat, f.nfrac⟩ : Fmt).InRange (cs[i] * 2 ^ n) := by
    rw [inRange_iff_mag _ hgwf]
    have hm : ((⟨f.signed, w.toNat, f.nfrac⟩ : Fmt).mag : ℤ) = w - bsig f.signed := by
      unfold mag bsig; simp only
      cases hs : f.signed
      · simp; omega
      · have := hf hs; simp; omega
    by_cases h0 : cs[i] = 0
    · rw [h0]; simp only [zero_mul]
      have hP : (0:ℤ) < 2 ^ (⟨f.signed, w.toNat, f.nfrac⟩ : Fmt).mag := by positivity
      constructor <;> nlinarith
    · have habs := abs_lt_two_pow_bitlen (cs[i]) h0
      have hbpos : 1 ≤ bitlen (cs[i]) := by unfold bitlen; rw [if_neg h0]; omega
      have hexp : (bitlen (cs[i])).toNat + n ≤ (⟨f.signed, w.toNat, f.nfrac⟩ : Fmt).mag := by omega
      have hpow : (2:ℤ) ^ ((bitlen (cs[i])).toNat + n) ≤ 2 ^ (⟨f.signed, w.toNat, f.nfrac⟩ : Fmt).mag := pow_mono2 hexp
      rw [pow_add] at hpow
      have hn : (0:ℤ) < 2 ^ n := by positivity
      have hlt : |cs[i]| * 2 ^ n < 2 ^ (bitlen (cs[i])).toNat * 2 ^ n := mul_lt_mul_of_pos_right habs hn
      have hprod : |cs[i]| * 2 ^ n < 2 ^ (⟨f.signed, w.toNat, f.nfrac⟩ : Fmt).mag := lt_of_lt_of_le hlt hpow
      have hci := (inRange_iff_mag f hf _).mp (hin (cs[i]) (List.getElem_mem hi))
      have hPf : (0:ℤ) < 2 ^ f.mag := by positivity
      have hG : (0:ℤ) < 2 ^ (⟨f.signed, w.toNat, f.nfrac⟩ : Fmt).mag := by positivity
      generalize (2:ℤ) ^ (⟨f.signed, w.toNat, f.nfrac⟩ : Fmt).mag = G at *
      simp only
      rcases abs_cases (cs[i]) with ⟨ea, hnn⟩ | ⟨ea, hneg⟩
      · rw [ea] at hprod
        constructor
        · have : 0 ≤ cs[i] * 2 ^ n := mul_nonneg hnn (le_of_lt hn)
          nlinarith
        · omega
      · rw [ea] at hprod
        have hsg : f.signed = true := by
          by_contra hns
          have : f.signed = false := by simpa using hns
          rw [this] at hci; simp [bsig] at hci; omega
        rw [hsg]; simp only [bsig, if_true]
        have : cs[i] * 2 ^ n < 0 := mul_neg_of_neg_of_pos hneg hn
        constructor
        · linarith
        · omega
  have hget : r.2[i] = sat ⟨f.signed, w.toNat, f.nfrac⟩ (cs[i] * 2 ^ n) := by
    simp only [hr, List.getElem_map]
  have hr1 : r.1 = ⟨f.signed, w.toNat, f.nfrac⟩ := by rw [hr]
  rw [hget, sat_of_inRange _ _ hrange, hr1]
  refine ⟨hrange, rfl, ?_⟩
  unfold valueOf; simp only [scale_eq]; push_cast; ring

/-! ### trunc / keep mode -/

/-- `x >> n` keeps the format and floors the code. -/
theorem rshift_keep_spec (cs : List ℤ) (n : ℕ) :
    rshiftKeep cs n = cs.map (fun c => c / 2 ^ n) := by
  unfold rshiftKeep
  apply List.map_congr_left
  intro c _
  exact (rshift_keep_floor c n).1

/-- a floor-shifted in-range code is still in range (so no store is needed). -/
theorem rshift_keep_inRange (f : Fmt) (hf : f.WF) (c : ℤ) (n : ℕ) (h : f.InRange c) : f.InRange (c / 2 ^ n) := by
  rw [inRange_iff_mag f hf] at h ⊢
  obtain ⟨h1, h2⟩ := h
  have hP : (0:ℤ) < 2 ^ n := by positivity
  have hM : (0:ℤ) < 2 ^ f.mag := by positivity
  have hb : 0 ≤ bsig f.signed ∧ bsig f.signed ≤ 1 := by unfold bsig; split <;> omega
  constructor
  · apply Int.le_ediv_of_mul_le hP
    have h1n : (1:ℤ) ≤ 2 ^ n := one_le_two_pow n
    have hnn : 0 ≤ bsig f.signed * 2 ^ f.mag := mul_nonneg hb.1 (le_of_lt hM)
    have : bsig f.signed * 2 ^ f.mag * 1 ≤ bsig f.signed * 2 ^ f.mag * 2 ^ n := mul_le_mul_of_nonneg_left h1n hnn
    linarith
  · have : c / 2 ^ n ≤ c ∨ c / 2 ^ n ≤ 0 := by
      rcases le_or_gt 0 c with hc | hc
      · left; exact Int.ediv_le_self _ hc
      · right
        have := Int.ediv_neg_of_neg_of_pos hc hP
        omega
    rcases this with h | h <;> omega

/-- `x << n` in keep mode: exact when representable, otherwise clamped (the property also allows wrapping). -/
theorem lshift_keep_spec (f : Fmt) (c : ℤ) (n : ℕ) :
    (f.InRange (c * 2 ^ n) → sat f (c * 2 ^ n) = c * 2 ^ n) ∧
    (¬ f.InRange (c * 2 ^ n) → sat f (c * 2 ^ n) = f.hi ∨ sat f (c * 2 ^ n) = f.lo) := by
  refine ⟨sat_of_inRange f _, ?_⟩
  intro h
  unfold InRange at h
  rcases lt_or_ge (c * 2 ^ n) f.lo with hl | hl
  · right; exact sat_below f _ hl
  · left; apply sat_above; omega

/-- shifting by zero is the identity on the stored codes. -/
theorem shift_zero_id (f : Fmt) (cs : List ℤ) (hin : ∀ c ∈ cs, f.InRange c) :
    rshiftKeep cs 0 = cs ∧ lshiftKeep f cs 0 = cs := by
  constructor
  · rw [rshift_keep_spec]; simp
  · unfold lshiftKeep
    conv_rhs => rw [← List.map_id cs]
    apply List.map_congr_left
    intro c hc
    simp only [pow_zero, mul_one, id]
    exact sat_of_inRange f c (hin c hc)

/-- the operand is a value: shifting builds a new list, `cs` itself is not changed (trivially, the model is pure);
on the implementation this is observed directly. -/
theorem operand_unchanged (f : Fmt) (cs : List ℤ) (n : ℕ) : (lshiftKeep f cs n).length = cs.length := by
  simp [lshiftKeep]

/-! non-vacuity -/
example : rshiftExpand ⟨true, 8, 2⟩ [12, -20] 3 = (⟨true, 9, 3⟩, [3, -5]) := by decide +kernel
example : lshiftExpand ⟨true, 4, 0⟩ [-8] 2 = (⟨true, 7, 0⟩, [-32]) := by decide +kernel
example : rshiftKeep [-7] 1 = [-4] := by decide +kernel
example : lshiftKeep ⟨true, 4, 0⟩ [5] 1 = [7] := by decide +kernel

end Fxp.C14
