"""Source tie, run-time side (DESIGN §14).

`check()` regenerates `Gen/Sizing.lean` from the source tree under test and decides, per tie theorem of
`Gen/Tie.lean`, whether it is (a) proved — the regenerated text equals the committed one (checked by `lake build`)
or the tie file re-checks against the regenerated text with `lake env lean` —, (b) broken — the theorem no
longer checks —, or (c) not established — the Python rule has a shape the translator refuses.
For broken theorems a grid search in Lean (`#eval`) looks for concrete operand formats on which the generated rule
and the model's rule differ; they go into the replay file and direct the search on the implementation.
Results are cached by content hash under `.work/tie/`.
"""
import hashlib, json, os, re, subprocess

from . import srcgen
from . import lean

TIE = os.path.join(lean.LEAN_DIR, 'FxpVerif', 'Gen', 'Tie.lean')
SIZING = os.path.join(lean.LEAN_DIR, 'FxpVerif', 'Gen', 'Sizing.lean')

# tie theorem -> (generated definition it speaks about, properties it serves)
THEOREMS = {
    'add_size': ('addSize', ['C07', 'C08', 'C19']), 'sub_size': ('subSize', ['C07', 'C08', 'C19']),
    'mul_size': ('mulSize', ['C07', 'C08', 'C19']),
    'floordiv_size': ('floordivSize', ['C09']), 'truediv_size': ('truedivSize', ['C09']), 'mod_size': ('modSize', ['C09']),
    'sum_size': ('sumSize', ['C15']), 'cumsum_size': ('cumsumSize', ['C15']), 'trace_size': ('traceSize', ['C15']),
    'prod_size': ('prodSize', ['C15']), 'cumprod_size': ('cumprodSize', ['C15']), 'dot_size': ('dotSize', ['C15']),
    'sizing_same': ('getSizing_same', ['C08']), 'sizing_largest': ('getSizing_largest', ['C08']),
    'sizing_smallest': ('getSizing_smallest', ['C08']), 'sizing_optimal': ('getSizing_optimal', ['C07', 'C08', 'C09']),
    'needs_pyint': ('needsPyInt', ['C19', 'C09']), 'mul_needs_pyint': ('mulNeedsPyInt', ['C19']),
    'floordiv_align_fits': ('needsPyInt', ['C09']),
    # the exact scale-down route of a result that loses fraction bits (float route only for integers a double holds)
    'add_exact_path': ('addExactPath', ['C03']), 'sub_exact_path': ('subExactPath', ['C03']),
    'mul_exact_path': ('mulExactPath', ['C03']),
    # carrier selection of the reductions (D70): the 64-bit integer route only where the rescaled result fits
    'dot_int64_path': ('dotNeedsPyInt', ['C15']), 'matmul_int64_path': ('matmulNeedsPyInt', ['C15']), 'prod_int64_path': ('prodNeedsPyInt', ['C15']),
    # rules of objects.py
    'store_limits': ('storeLimits', ['C01', 'C02', 'C03', 'C05', 'C18']), 'resize_limits': ('resizeLimits', ['C02', 'C17']),
    'nint_of': ('nintOf', ['C02', 'C06']), 'extended_prec': ('extendedPrec', ['C18']),
    'rshift_expansion': ('rshiftExpansion', ['C14']), 'lshift_word': ('lshiftWord', ['C14']),
    'valid_rounding': ('valid_rounding', ['C20']), 'valid_overflow': ('valid_overflow', ['C20']),
    # size resolution of resize(), one obligation per pattern of given arguments
    'resize_sizes_0000': ('resizeSizes_0000', ['C02', 'C10', 'C12']),
    'resize_sizes_0001': ('resizeSizes_0001', ['C02', 'C10', 'C12']),
    'resize_sizes_0010': ('resizeSizes_0010', ['C02', 'C10', 'C12']),
    'resize_sizes_0011': ('resizeSizes_0011', ['C02', 'C10', 'C12']),
    'resize_sizes_0100': ('resizeSizes_0100', ['C02', 'C10', 'C12']),
    'resize_sizes_0101': ('resizeSizes_0101', ['C02', 'C10', 'C12']),
    'resize_sizes_0110': ('resizeSizes_0110', ['C02', 'C10', 'C12']),
    'resize_sizes_0111': ('resizeSizes_0111', ['C02', 'C10', 'C12']),
    'resize_sizes_1000': ('resizeSizes_1000', ['C02', 'C10', 'C12']),
    'resize_sizes_1001': ('resizeSizes_1001', ['C02', 'C10', 'C12']),
    'resize_sizes_1010': ('resizeSizes_1010', ['C02', 'C10', 'C12']),
    'resize_sizes_1011': ('resizeSizes_1011', ['C02', 'C10', 'C12']),
    'resize_sizes_1100': ('resizeSizes_1100', ['C02', 'C10', 'C12']),
    'resize_sizes_1101': ('resizeSizes_1101', ['C02', 'C10', 'C12']),
    'resize_sizes_1110': ('resizeSizes_1110', ['C02', 'C10', 'C12']),
    'resize_sizes_1111': ('resizeSizes_1111', ['C02', 'C10', 'C12']),
    # the constructor's reconciliation of n_int with the other sizes (_init_size)
    'init_sizes_0110': ('initSizes_0110', ['C06', 'C02']),
    'init_sizes_0101': ('initSizes_0101', ['C06', 'C02']),
    'init_sizes_0011': ('initSizes_0011', ['C06', 'C02']),
    'init_sizes_0111': ('initSizes_0111', ['C06', 'C02']),
    'init_sizes_1110': ('initSizes_1110', ['C06', 'C02']),
    'init_sizes_1101': ('initSizes_1101', ['C06', 'C02']),
    'init_sizes_1011': ('initSizes_1011', ['C06', 'C02']),
    'init_sizes_1111': ('initSizes_1111', ['C06', 'C02']),
    'round_table': ('roundTable', ['C01', 'C05']), 'round_rational_table': ('roundRationalTable', ['C03']),
    # _overflow_action: flags and the dispatch on config.overflow
    'overflow_flags': ('overflowFlags', ['C04', 'C01', 'C08', 'C18']), 'overflow_action_saturate': ('overflowAction_saturate', ['C01', 'C02', 'C05']),
    'overflow_action_wrap': ('overflowAction_wrap', ['C01', 'C03']),
    # elementwise kernels of utils.py
    'wrap_elem': ('wrapElem', ['C03', 'C01', 'C18']), 'clip_elem': ('clipElem', ['C01', 'C02', 'C05']), 'int_clip_elem': ('intClipElem', ['C02', 'C15']),
}

# theorems of Tie.lean that restate a property theorem about the generated rule: name -> (tie theorems used, properties)
TRANSFER = {
    'add_fits_src': (['add_size'], ['C07']), 'sub_fits_src': (['sub_size'], ['C07']), 'mul_fits_src': (['mul_size'], ['C07']),
    'truediv_fits_src': (['truediv_size'], ['C09']),
    'floordiv_fits_src': (['floordiv_size'], ['C09']), 'floordiv_fmt_src': (['floordiv_size'], ['C09']),
    'sum_fits_src': (['sum_size'], ['C15']), 'prod_fits_src': (['prod_size'], ['C15']), 'dot_fits_src': (['dot_size'], ['C15']),
    'add_path_exact_src': (['needs_pyint'], ['C19']), 'mul_path_exact_src': (['mul_needs_pyint'], ['C19']),
}

# grid search for a concrete difference between a generated rule and the model's rule (evaluated by Lean)
_GRID2 = '''
def fmts : List Fmt := Id.run do
  let mut out := []
  for s in [true, false] do
    for w in [1, 2, 3, 5, 8, 31, 32, 33, 52, 53, 63, 64] do
      for f in [(-1 : Int), 0, 1, 2, 4, 7, 31, 40, 64] do
        out := out ++ [(⟨s, w, f⟩ : Fmt)]
  return out
def show2 (x y : Fmt) (extra : String) (g m : String) : String :=
  s!"x={if x.signed then "s" else "u"}{x.nword}/{x.nfrac} y={if y.signed then "s" else "u"}{y.nword}/{y.nfrac}{extra} generated={g} model={m}"
'''


def _grid_cmd(thm):
    gen = THEOREMS[thm][0]
    a2 = 'x.signed x.nword x.nint x.nfrac y.signed y.nword y.nint y.nfrac'
    a1 = 'x.signed x.nword x.nint x.nfrac'
    head = 'def grid_%s : IO Unit := do\n  let mut n := 0\n' % thm
    tail = '#eval grid_%s\n' % thm

    def body(loops, g, m, extra, cond='g != m', gs='(toString (repr g))', ms='(toString (repr m))', ys='y'):
        ind = '  '
        out = ''
        for l in loops:
            out += ind + l + ' do\n'
            ind += '  '
        out += ind + 'let g := %s\n' % g + ind + 'let m := %s\n' % m
        out += ind + 'if (%s) && n < 5 then\n' % cond
        out += ind + '  n := n + 1\n'
        out += ind + '  IO.println ("DIFF %s " ++ show2 x %s %s %s %s)\n' % (thm, ys, extra, gs, ms)
        return out
    if thm in ('add_size', 'sub_size', 'mul_size', 'floordiv_size', 'truediv_size', 'mod_size'):
        return head + body(['for x in fmts', 'for y in fmts'], 'Gen.%s %s' % (gen, a2), 'sz (optimalSize .%s x y)' % thm.split('_')[0], '""') + tail
    if thm in ('sizing_same', 'sizing_largest', 'sizing_smallest'):
        return head + body(['for x in fmts', 'for y in fmts'], 'Gen.%s %s' % (gen, a2), 'sz (sizing .%s .add x y)' % thm.split('_')[1], '""') + tail
    if thm == 'sizing_optimal':
        return head + body(['for x in fmts', 'for y in fmts'], 'Gen.%s %s true 9 3 5' % (gen, a2), 'sz (true, 3, 5)', '" optimal_size=(s,9,3,5)"') + tail
    if thm in ('sum_size', 'cumsum_size', 'trace_size', 'prod_size', 'cumprod_size'):
        mf = 'cumprodFmt' if thm == 'cumprod_size' else 'prodFmt' if thm == 'prod_size' else 'sumFmt'
        return head + body(['for x in fmts', 'for k in [1, 2, 3, 4, 5, 7, 8, 9, 16, 17]'], 'Gen.%s %s (k : Nat)' % (gen, a1),
                           'fmtT (%s x k)' % mf, 's!" k={k}"', ys='x') + tail
    if thm == 'dot_size':
        return head + body(['for x in fmts', 'for y in fmts', 'for k in [1, 2, 3, 4, 5, 8, 9]'], 'Gen.%s %s (k : Nat)' % (gen, a2),
                           'fmtT (dotFmt x y k)', 's!" k={k}"') + tail
    if thm in ('store_limits', 'resize_limits'):
        return head + body(['for x in fmts'], 'Gen.%s %s' % (gen, a1), '(x.hi, x.lo)', '""', ys='x') + tail
    if thm == 'nint_of':
        return head + body(['for x in fmts'], 'Gen.%s %s' % (gen, a1), 'x.nint', '""', ys='x') + tail
    if thm == 'extended_prec':
        return head + body(['for x in fmts'], 'Gen.%s %s' % (gen, a1), 'decide (64 ≤ x.nword)', '""', ys='x') + tail
    if thm == 'wrap_elem':
        return head + body(['for x in fmts', 'for k in [(0 : Int), 1, -1, 2, 3, -4, 5, 127, 128, -129, 255, 256, 2 ^ 31, -(2 ^ 31) - 1, 2 ^ 63, 2 ^ 64 + 5, -(2 ^ 70) + 3]'],
                           'Gen.wrapElem x.signed x.nword k', 'wrap x k', 's!" k={k}"', ys='x') + tail
    if thm in ('clip_elem', 'int_clip_elem'):
        return head + body(['for x in fmts', 'for k in [(0 : Int), 1, -1, 2, 3, -4, 5, 127, 128, -129, 255, 256, 2 ^ 63, -(2 ^ 70)]'],
                           'Gen.%s k x.lo x.hi' % gen, 'sat x k', 's!" k={k}"', ys='x') + tail
    if thm in ('needs_pyint', 'mul_needs_pyint'):
        model = '_root_.Fxp.addNeedsPyInt' if thm == 'needs_pyint' else '_root_.Fxp.mulNeedsPyInt'
        return head + body(['for x in fmts', 'for y in fmts', 'for F in [(0 : Int), 1, 7, 31, 40, 62, 63, 64, 65]'],
                           'Gen.%s %s F' % (gen, a2), '%s x y F' % model, 's!" n_frac={F}"', cond='m && !g',
                           gs='"machine carrier"', ms='"python integers needed"') + tail
    if thm in ('add_exact_path', 'sub_exact_path', 'mul_exact_path'):
        # a format pair for which bits are dropped, the float route is taken, and the extreme codes give an integer beyond 2^53
        big = ('max (x.lo * y.lo).natAbs (x.hi * y.hi).natAbs' if thm == 'mul_exact_path' else
               '(x.lo * 2 ^ (max x.nfrac y.nfrac - x.nfrac).toNat).natAbs + (y.lo * 2 ^ (max x.nfrac y.nfrac - y.nfrac).toNat).natAbs + (y.hi * 2 ^ (max x.nfrac y.nfrac - y.nfrac).toNat).natAbs')
        drop = 'F < x.nfrac + y.nfrac' if thm == 'mul_exact_path' else 'F < max x.nfrac y.nfrac'
        return head + body(['for x in fmts', 'for y in fmts', 'for F in [(-1 : Int), 0, 1, 7, 31, 40, 62, 63, 64, 65]'],
                           'Gen.%s %s F' % (gen, a2), 'decide (%s ∧ 2 ^ 53 < %s)' % (drop, big), 's!" n_frac={F}"', cond='m && !g',
                           gs='"float route"', ms='"bits dropped and an exact result beyond 2^53"') + tail
    if thm in ('dot_int64_path', 'matmul_int64_path'):
        # operand formats, a result fraction length and a number of terms for which the 64-bit route is taken although the extreme
        # codes give a rescaled sum beyond the carrier (2^63; 2^53 for a signed with an unsigned operand)
        big = '(k * max (x.lo * y.lo).natAbs (x.hi * y.hi).natAbs) * 2 ^ (F - x.nfrac - y.nfrac).toNat'
        return head + body(['for x in fmts', 'for y in fmts', 'for F in [(0 : Int), 1, 7, 31, 40, 62, 63, 64, 65, 100]', 'for k in [1, 2, 3, 4, 8, 9]'],
                           'Gen.%s %s F (k : Nat)' % (gen, a2), 'decide (2 ^ 63 ≤ %s ∨ (x.signed ≠ y.signed ∧ 2 ^ 53 < %s))' % (big, big),
                           's!" n_frac={F} k={k}"', cond='m && !g', gs='"64-bit route"', ms='"a rescaled sum beyond the carrier"') + tail
    if thm == 'prod_int64_path':
        big = '(max x.lo.natAbs x.hi.natAbs) ^ k * 2 ^ (F - k * x.nfrac).toNat'
        return head + body(['for x in fmts', 'for F in [(0 : Int), 1, 7, 31, 40, 62, 63, 64, 65, 100]', 'for k in [1, 2, 3, 4, 8, 9]'],
                           'Gen.%s %s F (k : Nat)' % (gen, a1), 'decide (2 ^ 63 ≤ %s)' % big,
                           's!" n_frac={F} k={k}"', cond='m && !g', gs='"64-bit route"', ms='"a rescaled product beyond the carrier"', ys='x') + tail
    return ''


def _split_tie():
    """(imports, preamble, {name: block text}, tail) of the committed Tie.lean. A block is one theorem (with its doc comment) or one
    run of other top-level items between theorems (definitions, section comments: named `__helper_<k>`, always kept), so that
    leaving a theorem out never takes a definition a later theorem needs with it."""
    lines = open(TIE).read().split('\n')
    imports = [l for l in lines if l.startswith('import ') and 'FxpVerif.Gen.Sizing' not in l]
    lines = [l for l in lines if not l.startswith('import ')]
    end = next(i for i, l in enumerate(lines) if l.startswith('end Fxp.Gen.Tie'))
    heads = []          # (first line of the item incl. its doc comment, kind, name)
    for i, l in enumerate(lines[:end]):
        m = re.match(r'(theorem|def|abbrev|instance|lemma|macro|syntax|local macro|open|section|namespace)\b\s*(\w+)?', l)
        if m or l.startswith('/-!'):
            j = i
            if m and i > 0 and lines[i - 1].rstrip().endswith('-/') and not lines[i - 1].startswith('/-!'):
                j = i - 1
                while j > 0 and not lines[j].startswith('/--'):
                    j -= 1
            heads.append((j, 'theorem' if m and m.group(1) == 'theorem' else 'other', m.group(2) if m and m.group(1) == 'theorem' else None))
    first_thm = next(k for k, h in enumerate(heads) if h[1] == 'theorem')
    pre = '\n'.join(lines[:heads[first_thm][0]])
    blocks = {}
    k = first_thm
    nh = 0
    while k < len(heads):
        j, kind, name = heads[k]
        if kind == 'theorem':
            stop = heads[k + 1][0] if k + 1 < len(heads) else end
            blocks[name] = '\n'.join(lines[j:stop]).rstrip() + '\n'
            k += 1
        else:
            k2 = k
            while k2 < len(heads) and heads[k2][1] != 'theorem':
                k2 += 1
            stop = heads[k2][0] if k2 < len(heads) else end
            blocks['__helper_%d' % nh] = '\n'.join(lines[j:stop]).rstrip() + '\n'
            nh += 1
            k = k2
    return imports, pre, blocks, 'end Fxp.Gen.Tie\n'


def check(repo=None):
    repo = repo or os.environ.get('FXP_REPO', '/repo')
    text, problems = srcgen.generate(repo)
    committed = open(SIZING).read()
    res = {'status': {}, 'problems': problems, 'generated_sha256': hashlib.sha256(text.encode()).hexdigest(),
           'identical_to_committed': text == committed, 'diffs': {}, 'log': ''}
    untrans = {t for t, (d, _) in THEOREMS.items() if d in problems}
    if text == committed and not problems:
        for t in THEOREMS:
            res['status'][t] = 'proved'          # by `lake build` (FxpVerif.Gen.Tie), audited like every property theorem
        return res
    key = hashlib.sha256((text + open(TIE).read() + json.dumps(sorted(problems))).encode()).hexdigest()[:24]
    cdir = os.path.join(lean.WORK, 'tie')
    os.makedirs(cdir, exist_ok=True)
    cpath = os.path.join(cdir, key + '.json')
    if os.path.exists(cpath):
        try:
            return json.load(open(cpath))
        except Exception:
            pass
    imports, pre, blocks, tail = _split_tie()
    gen_body = '\n'.join(l for l in text.split('\n') if not l.startswith('import '))
    order = [t for t in blocks if (t in THEOREMS and t not in untrans) or (t not in THEOREMS and t not in TRANSFER)]     # helpers stay

    def compose(names, evals=''):
        return ('\n'.join(['import FxpVerif.Model.Reduce'] + imports) + '\n' + gen_body + '\n' + pre + '\n' +
                '\n'.join(blocks[n] for n in names) + '\n' + evals + tail)

    def run(src_text, tag):
        path = os.path.join(cdir, '%s_%s_%d.lean' % (key, tag, os.getpid()))
        open(path, 'w').write(src_text)
        try:
            p = subprocess.run(['lake', 'env', 'lean', path], cwd=lean.LEAN_DIR, stdout=subprocess.PIPE,
                               stderr=subprocess.STDOUT, text=True, timeout=1200)
        finally:
            try:
                os.remove(path)
            except OSError:
                pass
        return p.returncode, p.stdout

    src_all = compose(order)
    rc, out = run(src_all, 'all')
    failed = set()
    if rc != 0:
        # map error lines to theorem blocks
        starts = []
        for n in order:
            idx = src_all.index(blocks[n])
            starts.append((src_all[:idx].count('\n') + 1, n))
        for m in re.finditer(r':(\d+):\d+: error', out):
            ln = int(m.group(1))
            owner = None
            for s, n in starts:
                if s <= ln:
                    owner = n
            if owner is None:
                owner = '<generated definitions>'
            failed.add(owner)
        if not failed:
            failed.add('<generated definitions>')
    if '<generated definitions>' in failed:
        # the generated text itself does not elaborate: nothing can be said about any rule
        for t in order:
            if t in THEOREMS:
                res['status'][t] = 'broken'
        res['log'] = out[-3000:]
    else:
        for t in order:
            if t in THEOREMS:
                res['status'][t] = 'broken' if t in failed else 'proved'
        res['log'] = '\n'.join(l for l in out.split('\n') if ': error' in l)[:3000] if failed else ''
        if failed:
            good = [t for t in order if t not in failed]
            failed = {t for t in failed if t in THEOREMS}
            evals = 'open Fxp\n' + _GRID2 + ''.join(_grid_cmd(t) for t in sorted(failed))
            rc2, out2 = run(compose(good, evals), 'grid')
            res['grid_log'] = '\n'.join(l for l in out2.split('\n') if ': error' in l)[:1500]
            for m in re.finditer(r'DIFF (\w+) (.*)', out2):
                res['diffs'].setdefault(m.group(1), []).append(m.group(2))
    for t in untrans:
        res['status'][t] = 'not-established: ' + problems[THEOREMS[t][0]]
    json.dump(res, open(cpath, 'w'), indent=1)
    return res


def for_property(pid, res):
    """(tie theorems serving pid, broken ones, not-established ones, restated property theorems that stand)"""
    mine = [t for t, (_, ps) in THEOREMS.items() if pid in ps]
    broken = [t for t in mine if res['status'].get(t) == 'broken']
    missing = [t for t in mine if str(res['status'].get(t, '')).startswith('not-established')]
    transfer = [t for t, (deps, ps) in TRANSFER.items() if pid in ps and all(res['status'].get(d) == 'proved' for d in deps)]
    return mine, broken, missing, transfer


def audit_names(pid):
    """every theorem of FxpVerif.Gen.Tie that the axiom audit of `pid` covers."""
    return [t for t, (_, ps) in THEOREMS.items() if pid in ps] + [t for t, (_, ps) in TRANSFER.items() if pid in ps]


if __name__ == '__main__':
    r = check()
    print(json.dumps({k: v for k, v in r.items() if k != 'log'}, indent=1))
    if r['log']:
        print(r['log'])
