import FxpVerif.Model.Bits
import FxpVerif.Lemmas.Overflow
import Mathlib.Tactic.Linarith
/-! # C13 — bitwise operators act on the n_word-bit two's-complement word -/
namespace Fxp.C13
open Fxp

theorem upat_cast (n : ℕ) (c : ℤ) : ((upat n c : ℕ) : ℤ) = c % 2 ^ n := by
  unfold upat; exact Int.toNat_of_nonneg (Int.emod_nonneg c (by positivity))

theorem upat_lt (n : ℕ) (c : ℤ) : upat n c < 2 ^ n := by
  have h := upat_cast n c
  have h2 := Int.emod_lt_of_pos c (by positivity : (0:ℤ) < 2 ^ n)
  have : ((upat n c : ℕ) : ℤ) < ((2 ^ n : ℕ) : ℤ) := by rw [h]; push_cast; exact h2
  exact_mod_cast this

/-- re-signing a pattern below `2^n_word` lands in the format's range and keeps the pattern. -/
theorem resign_spec (f : Fmt) (hw : 0 < f.nword) (u : ℕ) (hu : u < 2 ^ f.nword) :
    f.InRange (resign f u) ∧ upat f.nword (resign f u) = u := by
  have hp := two_pow_pred f.nword hw
  have hP : (0:ℤ) < 2 ^ (f.nword - 1) := by positivity
  have hpN : (2:ℕ) ^ f.nword = 2 * 2 ^ (f.nword - 1) := by
    conv_lhs => rw [show f.nword = (f.nword - 1) + 1 by omega]
    rw [pow_succ]; ring
  have hmod : u % 2 ^ f.nword = u := Nat.mod_eq_of_lt hu
  have huZ : ((u:ℕ):ℤ) < 2 ^ f.nword := by exact_mod_cast hu
  have hu0 : (0:ℤ) ≤ (u:ℤ) := by positivity
  unfold resign Fmt.InRange Fmt.lo Fmt.hi
  rw [hmod]
  have key : ∀ z : ℤ, (z - (u:ℤ)) % 2 ^ f.nword = 0 → upat f.nword z = u := by
    intro z hz
    have : z % 2 ^ f.nword = (u:ℤ) := by
      obtain ⟨k, hk⟩ := Int.dvd_of_emod_eq_zero hz
      have : z = (u:ℤ) + 2 ^ f.nword * k := by linarith
      rw [this, Int.add_mul_emod_self_left, Int.emod_eq_of_lt hu0 huZ]
    unfold upat; rw [this]; simp
  cases hs : f.signed
  · simp only [Bool.false_eq_true, false_and, if_false]
    refine ⟨⟨by positivity, by omega⟩, key _ (by simp)⟩
  · simp only [true_and, if_true]
    split
    · rename_i hge
      have hgeZ : (2:ℤ) ^ (f.nword - 1) ≤ (u:ℤ) := by exact_mod_cast hge
      refine ⟨⟨by omega, by omega⟩, key _ ?_⟩
      have : (u:ℤ) - 2 ^ f.nword - (u:ℤ) = 2 ^ f.nword * (-1) := by ring
      rw [this]; simp
    · rename_i hlt
      have hltZ : (u:ℤ) < (2:ℤ) ^ (f.nword - 1) := by
        have : u < 2 ^ (f.nword - 1) := Nat.lt_of_not_le hlt
        exact_mod_cast this
      refine ⟨⟨by omega, by omega⟩, key _ (by simp)⟩

/-- an in-range code is recovered from its pattern. -/
theorem resign_upat (f : Fmt) (hw : 0 < f.nword) (c : ℤ) (h : f.InRange c) : resign f (upat f.nword c) = c := by
  obtain ⟨h1, h2⟩ := resign_spec f hw (upat f.nword c) (upat_lt _ _)
  apply inRange_congr_eq f (Or.inl hw) _ _ h1 h
  have e1 := upat_cast f.nword (resign f (upat f.nword c))
  have e2 := upat_cast f.nword c
  rw [h2] at e1
  have : resign f (upat f.nword c) % 2 ^ f.nword = c % 2 ^ f.nword := by rw [← e1, ← e2]
  exact Int.emod_emod_of_dvd _ (dvd_refl _) ▸ (Int.sub_emod _ _ _ ▸ by rw [this]; simp)

theorem ovf_id (o : Overflow) (f : Fmt) (hw : 0 < f.nword) (k : ℤ) (h : f.InRange k) : ovf o f k = k := by
  cases o
  · exact sat_of_inRange f k h
  · exact wrap_of_inRange f hw k h

theorem bitop_lt (op : BitOp) (n a b : ℕ) (ha : a < 2 ^ n) (hb : b < 2 ^ n) : bitop op a b < 2 ^ n := by
  cases op
  · exact Nat.and_lt_two_pow _ hb
  · exact Nat.or_lt_two_pow ha hb
  · exact Nat.xor_lt_two_pow ha hb

/-- **x & y, x | y, x ^ y**: the result is in range of x's format and its n_word-bit pattern is the bitwise
combination of the operands' patterns (operand `m` may be a code of either signedness or any integer mask). -/
theorem bitwise_pattern (op : BitOp) (f : Fmt) (hw : 0 < f.nword) (o : Overflow) (c m : ℤ) :
    f.InRange (bitwiseM op f o c m) ∧
    upat f.nword (bitwiseM op f o c m) = bitop op (upat f.nword c) (upat f.nword m) := by
  have hlt := bitop_lt op f.nword _ _ (upat_lt f.nword c) (upat_lt f.nword m)
  obtain ⟨h1, h2⟩ := resign_spec f hw _ hlt
  unfold bitwiseM
  rw [ovf_id o f hw _ h1]
  exact ⟨h1, h2⟩

/-- bit `i` of the result is the Boolean operation of the operands' bits `i`. -/
theorem bitwise_testBit (op : BitOp) (f : Fmt) (hw : 0 < f.nword) (o : Overflow) (c m : ℤ) (i : ℕ) :
    (upat f.nword (bitwiseM op f o c m)).testBit i =
      match op with
      | .and => (upat f.nword c).testBit i && (upat f.nword m).testBit i
      | .or  => (upat f.nword c).testBit i || (upat f.nword m).testBit i
      | .xor => (upat f.nword c).testBit i ^^ (upat f.nword m).testBit i := by
  rw [(bitwise_pattern op f hw o c m).2]
  cases op <;> simp [bitop]

theorem compl_emod (M c : ℤ) (hM : 0 < M) : (M - 1 - c) % M = M - 1 - c % M := by
  have hr := Int.emod_nonneg c (ne_of_gt hM)
  have hr2 := Int.emod_lt_of_pos c hM
  have hB := Int.emod_add_mul_ediv c M
  have e : M - 1 - c = (M - 1 - c % M) + M * (-(c / M)) := by linarith
  calc (M - 1 - c) % M = ((M - 1 - c % M) + M * (-(c / M))) % M := by rw [← e]
    _ = (M - 1 - c % M) % M := Int.add_mul_emod_self_left _ _ _
    _ = M - 1 - c % M := Int.emod_eq_of_lt (by omega) (by omega)

/-- **~x**: pattern is the complement of x's pattern. -/
theorem invert_pattern (f : Fmt) (hw : 0 < f.nword) (o : Overflow) (c : ℤ) (h : f.InRange c) :
    f.InRange (invertM f o c) ∧ upat f.nword (invertM f o c) = 2 ^ f.nword - 1 - upat f.nword c := by
  have hu := upat_lt f.nword c
  have hc := upat_cast f.nword c
  have h1' : (1:ℕ) ≤ 2 ^ f.nword := Nat.one_le_two_pow
  have hlt : 2 ^ f.nword - 1 - upat f.nword c < 2 ^ f.nword := by omega
  obtain ⟨h1, h2⟩ := resign_spec f hw _ hlt
  have hM : (0:ℤ) < 2 ^ f.nword := by positivity
  have hp := two_pow_pred f.nword hw
  have hnn : 0 ≤ 2 ^ f.nword - 1 - c := by
    unfold Fmt.InRange Fmt.lo Fmt.hi at h
    cases hs : f.signed <;> simp [hs] at h <;> omega
  -- U := (2^n - 1 - c).toNat has U mod 2^n = 2^n - 1 - upat c
  have hmod : (2 ^ f.nword - 1 - c).toNat % 2 ^ f.nword = 2 ^ f.nword - 1 - upat f.nword c := by
    have e1 : (((2 ^ f.nword - 1 - c).toNat % 2 ^ f.nword : ℕ) : ℤ) = 2 ^ f.nword - 1 - c % 2 ^ f.nword := by
      push_cast; rw [Int.toNat_of_nonneg hnn]; exact compl_emod _ c hM
    have e2 : (((2 ^ f.nword - 1 - upat f.nword c : ℕ)) : ℤ) = 2 ^ f.nword - 1 - c % 2 ^ f.nword := by
      have h0 : upat f.nword c ≤ 2 ^ f.nword - 1 := by omega
      rw [Nat.cast_sub h0, Nat.cast_sub h1', hc]; push_cast; ring
    exact_mod_cast e1.trans e2.symm
  have hres : resign f (2 ^ f.nword - 1 - c).toNat = resign f (2 ^ f.nword - 1 - upat f.nword c) := by
    unfold resign
    rw [hmod, Nat.mod_eq_of_lt hlt]
    cases hs : f.signed
    · simp only [Bool.false_eq_true, false_and, if_false]
      -- unsigned: 0 ≤ c < 2^n, so nothing is reduced
      unfold Fmt.InRange Fmt.lo Fmt.hi at h; simp [hs] at h
      have hUlt : (2 ^ f.nword - 1 - c).toNat < 2 ^ f.nword := by
        have : (((2 ^ f.nword - 1 - c).toNat : ℕ) : ℤ) < ((2 ^ f.nword : ℕ) : ℤ) := by
          rw [Int.toNat_of_nonneg hnn]; push_cast; omega
        exact_mod_cast this
      rw [← hmod, Nat.mod_eq_of_lt hUlt]
    · simp
  unfold invertM
  rw [hres, ovf_id o f hw _ h1]
  exact ⟨h1, h2⟩

/-- bit `i < n_word` of `~x` is the negation of bit `i` of `x`. -/
theorem invert_testBit (f : Fmt) (hw : 0 < f.nword) (o : Overflow) (c : ℤ) (h : f.InRange c) (i : ℕ) (hi : i < f.nword) :
    (upat f.nword (invertM f o c)).testBit i = !(upat f.nword c).testBit i := by
  rw [(invert_pattern f hw o c h).2]
  have e : 2 ^ f.nword - 1 - upat f.nword c = 2 ^ f.nword - (upat f.nword c + 1) := by omega
  rw [e, Nat.testBit_two_pow_sub_succ (upat_lt _ _)]
  simp [hi]

/-- **~~x = x**. -/
theorem invert_invert (f : Fmt) (hw : 0 < f.nword) (o : Overflow) (c : ℤ) (h : f.InRange c) :
    invertM f o (invertM f o c) = c := by
  obtain ⟨r1, p1⟩ := invert_pattern f hw o c h
  obtain ⟨r2, p2⟩ := invert_pattern f hw o _ r1
  have hu := upat_lt f.nword c
  have : upat f.nword (invertM f o (invertM f o c)) = upat f.nword c := by rw [p2, p1]; omega
  rw [← resign_upat f hw _ r2, this, resign_upat f hw c h]

/-- **~x = -x - LSB** for signed x (in codes: `-c - 1`). -/
theorem invert_eq_neg_sub_lsb (f : Fmt) (hw : 0 < f.nword) (hs : f.signed = true) (o : Overflow) (c : ℤ)
    (h : f.InRange c) : invertM f o c = -c - 1 := by
  obtain ⟨r1, p1⟩ := invert_pattern f hw o c h
  have hin : f.InRange (-c - 1) := by
    unfold Fmt.InRange Fmt.lo Fmt.hi at h ⊢; simp [hs] at h ⊢; omega
  apply inRange_congr_eq f (Or.inl hw) _ _ r1 hin
  have e1 := upat_cast f.nword (invertM f o c)
  have e2 := upat_cast f.nword c
  have hu := upat_lt f.nword c
  rw [p1] at e1
  have h1' : (1:ℕ) ≤ 2 ^ f.nword := Nat.one_le_two_pow
  have h0 : upat f.nword c ≤ 2 ^ f.nword - 1 := by omega
  rw [Nat.cast_sub h0, Nat.cast_sub h1', e2] at e1
  push_cast at e1
  -- invert ≡ 2^n - 1 - c ≡ -c - 1 (mod 2^n)
  have hA := Int.emod_add_mul_ediv (invertM f o c) (2 ^ f.nword)
  have hB := Int.emod_add_mul_ediv c (2 ^ f.nword)
  apply Int.emod_eq_zero_of_dvd
  refine ⟨invertM f o c / 2 ^ f.nword + 1 + c / 2 ^ f.nword, ?_⟩
  have : (2:ℤ) ^ f.nword * (invertM f o c / 2 ^ f.nword + 1 + c / 2 ^ f.nword) =
      2 ^ f.nword * (invertM f o c / 2 ^ f.nword) + 2 ^ f.nword + 2 ^ f.nword * (c / 2 ^ f.nword) := by ring
  rw [this]; linarith

/-- De Morgan on n-bit patterns. -/
theorem de_morgan_and (n x y : ℕ) (hx : x < 2 ^ n) (hy : y < 2 ^ n) :
    2 ^ n - 1 - (x &&& y) = (2 ^ n - 1 - x) ||| (2 ^ n - 1 - y) := by
  apply Nat.eq_of_testBit_eq
  intro i
  have hxy : x &&& y < 2 ^ n := Nat.and_lt_two_pow _ hy
  have e1 : 2 ^ n - 1 - (x &&& y) = 2 ^ n - ((x &&& y) + 1) := by omega
  have e2 : 2 ^ n - 1 - x = 2 ^ n - (x + 1) := by omega
  have e3 : 2 ^ n - 1 - y = 2 ^ n - (y + 1) := by omega
  rw [e1, e2, e3, Nat.testBit_or, Nat.testBit_two_pow_sub_succ hxy, Nat.testBit_two_pow_sub_succ hx,
      Nat.testBit_two_pow_sub_succ hy, Nat.testBit_and]
  cases decide (i < n) <;> cases x.testBit i <;> cases y.testBit i <;> rfl

theorem de_morgan_or (n x y : ℕ) (hx : x < 2 ^ n) (hy : y < 2 ^ n) :
    2 ^ n - 1 - (x ||| y) = (2 ^ n - 1 - x) &&& (2 ^ n - 1 - y) := by
  apply Nat.eq_of_testBit_eq
  intro i
  have hxy : x ||| y < 2 ^ n := Nat.or_lt_two_pow hx hy
  have e1 : 2 ^ n - 1 - (x ||| y) = 2 ^ n - ((x ||| y) + 1) := by omega
  have e2 : 2 ^ n - 1 - x = 2 ^ n - (x + 1) := by omega
  have e3 : 2 ^ n - 1 - y = 2 ^ n - (y + 1) := by omega
  rw [e1, e2, e3, Nat.testBit_and, Nat.testBit_two_pow_sub_succ hxy, Nat.testBit_two_pow_sub_succ hx,
      Nat.testBit_two_pow_sub_succ hy, Nat.testBit_or]
  cases decide (i < n) <;> cases x.testBit i <;> cases y.testBit i <;> rfl

/-- **De Morgan on stored objects**: `~(x & y) = ~x | ~y` (same word length, any signedness of `y`). -/
theorem de_morgan_codes (f g : Fmt) (hw : 0 < f.nword) (hg : g.nword = f.nword) (o : Overflow) (a b : ℤ)
    (ha : f.InRange a) (hb : g.InRange b) :
    invertM f o (bitwiseM .and f o a b) = bitwiseM .or f o (invertM f o a) (invertM g o b) := by
  obtain ⟨r1, p1⟩ := bitwise_pattern .and f hw o a b
  obtain ⟨r2, p2⟩ := invert_pattern f hw o _ r1
  obtain ⟨ra, pa⟩ := invert_pattern f hw o a ha
  obtain ⟨rb, pb⟩ := invert_pattern g (by omega) o b hb
  obtain ⟨r3, p3⟩ := bitwise_pattern .or f hw o (invertM f o a) (invertM g o b)
  rw [← resign_upat f hw _ r2, ← resign_upat f hw _ r3]
  congr 1
  rw [p2, p1, p3, pa]
  rw [hg] at pb
  rw [pb]
  exact de_morgan_and f.nword _ _ (upat_lt _ _) (upat_lt _ _)

/-- the result always has x's format (the model stores into a copy of `x`), and operands of different
word lengths are rejected. -/
theorem wordlen_mismatch_errors (op : BitOp) (x y : Fmt) (o : Overflow) (a b : ℤ) (h : x.nword ≠ y.nword) :
    bitwiseFxp op x y o a b = none := by
  unfold bitwiseFxp; rw [if_pos h]

theorem same_wordlen_ok (op : BitOp) (x y : Fmt) (o : Overflow) (a b : ℤ) (h : x.nword = y.nword) :
    bitwiseFxp op x y o a b = some (bitwiseM op x o a b) := by
  unfold bitwiseFxp; rw [if_neg (by simpa using h)]

/-! non-vacuity -/
example : invertM ⟨true, 8, 0⟩ .saturate 5 = -6 := by decide +kernel
example : bitwiseM .and ⟨true, 8, 0⟩ .saturate (-1) 0x0F = 15 := by decide +kernel
example : bitwiseM .or ⟨false, 8, 0⟩ .saturate 0x80 (-128) = 128 := by decide +kernel

end Fxp.C13
