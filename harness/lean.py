"""Lean side of a check: build (under a file lock), source scan, axiom audit, driver invocation."""
import fcntl, os, re, subprocess, time

VERIF = os.path.dirname(os.path.dirname(os.path.abspath(__file__)))
LEAN_DIR = os.path.join(VERIF, 'lean')
WORK = os.path.join(VERIF, '.work')
DRIVER = os.path.join(LEAN_DIR, '.lake', 'build', 'bin', 'driver')
ALLOWED_AXIOMS = {'propext', 'Classical.choice', 'Quot.sound'}
FORBIDDEN = re.compile(r'\b(sorry|admit|native_decide|bv_decide|implemented_by)\b|^\s*axiom\s|\bunsafe\s|maxHeartbeats\s+0\b', re.M)


class LeanError(Exception):
    pass


def _lock():
    os.makedirs(WORK, exist_ok=True)
    f = open(os.path.join(WORK, 'lake.lock'), 'w')
    fcntl.flock(f, fcntl.LOCK_EX)
    return f


def build(targets=None, timeout=3000):
    """lake build; returns (ok, seconds, log)."""
    t0 = time.time()
    lk = _lock()
    try:
        cmd = ['lake', 'build'] + (targets or [])
        p = subprocess.run(cmd, cwd=LEAN_DIR, stdout=subprocess.PIPE, stderr=subprocess.STDOUT, text=True, timeout=timeout)
    finally:
        lk.close()
    return p.returncode == 0, time.time() - t0, p.stdout


def strip_comments(src):
    # nested block comments /- ... -/ and line comments --
    out = []
    i, depth, n = 0, 0, len(src)
    while i < n:
        if src.startswith('/-', i):
            depth += 1; i += 2; continue
        if depth and src.startswith('-/', i):
            depth -= 1; i += 2; continue
        if depth:
            if src[i] == '\n':
                out.append('\n')
            i += 1; continue
        if src.startswith('--', i):
            j = src.find('\n', i)
            i = n if j < 0 else j
            continue
        out.append(src[i]); i += 1
    return ''.join(out)


def scan_sources():
    """forbidden constructs anywhere in lean/ (comments stripped). returns list of 'file:line: text'."""
    hits = []
    for root, dirs, files in os.walk(LEAN_DIR):
        dirs[:] = [d for d in dirs if d != '.lake']
        for fn in files:
            if not fn.endswith('.lean'):
                continue
            path = os.path.join(root, fn)
            src = strip_comments(open(path, encoding='utf-8').read())
            for m in FORBIDDEN.finditer(src):
                line = src.count('\n', 0, m.start()) + 1
                hits.append('%s:%d: %s' % (os.path.relpath(path, VERIF), line, m.group(0).strip()))
    return hits


def theorems_of(prop_id):
    """names of the property theorems declared in Props/<ID>.lean (namespace Fxp.<ID>)."""
    path = os.path.join(LEAN_DIR, 'FxpVerif', 'Props', prop_id + '.lean')
    if not os.path.exists(path):
        return []
    src = strip_comments(open(path, encoding='utf-8').read())
    return re.findall(r'^\s*theorem\s+([A-Za-z0-9_\.\']+)', src, re.M)


def audit(prop_id, tie_names=()):
    """#print axioms for every theorem of Props/<ID>.lean (and the named theorems of Gen/Tie.lean, reported as `Gen.Tie.<name>`).
    returns (ok, {thm: [axioms]}, log)."""
    names = theorems_of(prop_id)
    if not names:
        return False, {}, 'no theorems found for %s' % prop_id
    os.makedirs(WORK, exist_ok=True)
    path = os.path.join(WORK, 'Audit_%s_%d.lean' % (prop_id, os.getpid()))
    with open(path, 'w') as f:
        f.write('import FxpVerif.Props.%s\n' % prop_id)
        if tie_names:
            f.write('import FxpVerif.Gen.Tie\n')
        for n in names:
            f.write('#print axioms Fxp.%s.%s\n' % (prop_id, n))
        for n in tie_names:
            f.write('#print axioms Fxp.Gen.Tie.%s\n' % n)
    try:
        p = subprocess.run(['lake', 'env', 'lean', path], cwd=LEAN_DIR, stdout=subprocess.PIPE, stderr=subprocess.STDOUT, text=True, timeout=1200)
    finally:
        try:
            os.remove(path)
        except OSError:
            pass
    out = p.stdout
    res = {}
    for m in re.finditer(r"'Fxp\.%s\.([^']+)' depends on axioms: \[([^\]]*)\]" % prop_id, out):
        res[m.group(1)] = [a.strip() for a in m.group(2).replace('\n', ' ').split(',') if a.strip()]
    for m in re.finditer(r"'Fxp\.%s\.([^']+)' does not depend on any axioms" % prop_id, out):
        res[m.group(1)] = []
    for m in re.finditer(r"'Fxp\.(Gen\.Tie\.[^']+)' depends on axioms: \[([^\]]*)\]", out):
        res[m.group(1)] = [a.strip() for a in m.group(2).replace('\n', ' ').split(',') if a.strip()]
    for m in re.finditer(r"'Fxp\.(Gen\.Tie\.[^']+)' does not depend on any axioms", out):
        res[m.group(1)] = []
    want = set(names) | set('Gen.Tie.' + n for n in tie_names)
    ok = p.returncode == 0 and set(res) == want and all(set(v) <= ALLOWED_AXIOMS for v in res.values())
    return ok, res, out


def run_driver(lines, timeout=3000):
    """pipe protocol lines to the compiled driver; returns list of output lines (same length)."""
    if not os.path.exists(DRIVER):
        raise LeanError('driver not built: %s' % DRIVER)
    data = ''.join(l + '\n' for l in lines)
    p = subprocess.run([DRIVER], input=data, stdout=subprocess.PIPE, stderr=subprocess.PIPE, text=True, timeout=timeout)
    if p.returncode != 0:
        raise LeanError('driver exit %d: %s' % (p.returncode, p.stderr[-2000:]))
    out = p.stdout.split('\n')
    if out and out[-1] == '':
        out.pop()
    if len(out) != len(lines):
        raise LeanError('driver returned %d lines for %d inputs' % (len(out), len(lines)))
    return out
