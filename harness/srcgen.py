"""Source-level tie (DESIGN §14): translate the integer decision logic of fxpmath/functions.py into Lean definitions.

A small partial evaluator over the Python AST.  It understands exactly the fragment the sizing rules and the
carrier-selection rules are written in — integer arithmetic, booleans, comparisons, max/min, conditional
expressions, tuples, `int(np.ceil(np.log2(k)))`, attribute reads of the operands (`x.n_word` …) — and refuses
everything else with `Untranslatable` (never guesses).  The result is the text of `FxpVerif/Gen/Sizing.lean`:
one Lean `def` per Python rule, `let` for every Python assignment, in source order.  `FxpVerif/Gen/Tie.lean`
proves, about *these generated definitions*, that they are the growth rules the property theorems speak about
(C07, C09, C15), the sizing policies of C08 and carrier rules at least as cautious as the ones proved safe (C19).

    python -m harness.srcgen            print the generated Lean text for $FXP_REPO (default /repo)
    python -m harness.srcgen --write    overwrite lean/FxpVerif/Gen/Sizing.lean (done once, on the validated tree)
"""
import ast, os, sys


class Untranslatable(Exception):
    pass


# ---------------------------------------------------------------------------------------------- values
# ('c', python constant) | ('B', lean Bool term) | ('I', lean Int term) | ('T', [values]) | ('L', [values]) | ('O', operand tag)
def C(v): return ('c', v)


def is_const(v): return v[0] == 'c'


def to_lean_int(v):
    if v[0] == 'I':
        return v[1]
    if v[0] == 'c' and isinstance(v[1], bool):
        return '1' if v[1] else '0'
    if v[0] == 'c' and isinstance(v[1], int):
        return str(v[1]) if v[1] >= 0 else '(%d)' % v[1]
    if v[0] == 'B':                       # Python bool used as an integer
        return '(if %s then 1 else 0)' % v[1]
    raise Untranslatable('not an integer: %r' % (v,))


def to_lean_bool(v):
    if v[0] == 'B':
        return v[1]
    if v[0] == 'c' and isinstance(v[1], bool):
        return 'true' if v[1] else 'false'
    raise Untranslatable('not a boolean: %r' % (v,))


ATTR = {'signed': ('B', 's'), 'n_word': ('I', 'w'), 'n_int': ('I', 'i'), 'n_frac': ('I', 'f')}


def _elementwise_int_identity(e):
    """the name X when `e` is `np.array([int(v) [if <test> else v] for v in X.flatten()], dtype=object).reshape(X.shape)`, else None."""
    try:
        if not (isinstance(e, ast.Call) and isinstance(e.func, ast.Attribute) and e.func.attr == 'reshape' and len(e.args) == 1 and not e.keywords):
            return None
        shp = e.args[0]
        inner = e.func.value
        if not (isinstance(shp, ast.Attribute) and shp.attr == 'shape' and isinstance(shp.value, ast.Name)):
            return None
        x = shp.value.id
        if not (isinstance(inner, ast.Call) and ast.unparse(inner.func) == 'np.array' and len(inner.args) == 1
                and all(k.arg == 'dtype' and ast.unparse(k.value) == 'object' for k in inner.keywords)):
            return None
        lc = inner.args[0]
        if not (isinstance(lc, ast.ListComp) and len(lc.generators) == 1 and not lc.generators[0].ifs and isinstance(lc.generators[0].target, ast.Name)):
            return None
        v = lc.generators[0].target.id
        if ast.unparse(lc.generators[0].iter) != '%s.flatten()' % x:
            return None
        elt = lc.elt
        if ast.unparse(elt) == 'int(%s)' % v:
            return x
        if isinstance(elt, ast.IfExp) and ast.unparse(elt.body) == 'int(%s)' % v and ast.unparse(elt.orelse) == v:
            return x
    except Exception:
        return None
    return None


class PE:
    """partial evaluator for one straight-line slice; `lets` collects (name, type, lean term) in source order."""

    def __init__(self, env, consts, funcs=None, shared=None, depth=0):
        self.env = dict(env)
        self.consts = consts
        self.funcs = funcs or {}
        # `lets` and the name counter are shared between the forks of a symbolic branch and inlined helper calls
        self.shared = shared if shared is not None else {'lets': [], 'n': 0}
        self.depth = depth
        self.plain_return = False      # lenient mode: a `return e` yields the value of e (default: the wrapper call's optimal_size=)

    @property
    def lets(self):
        return self.shared['lets']

    def fork(self, env=None):
        p = PE(self.env if env is None else env, self.consts, self.funcs, self.shared, self.depth + 1)
        p.plain_return = self.plain_return
        return p

    def let_term(self, v):
        """the defining term of a let-bound symbol (for comparing the outcomes of two branches)."""
        if v[0] in ('B', 'I'):
            for ln, _, term in self.lets:
                if ln == v[1]:
                    return term
        return None

    # -------------------------------------------------------------------------------- expressions
    def ev(self, e):
        if isinstance(e, ast.Constant):
            if isinstance(e.value, (bool, int, str)) or e.value is None:
                return C(e.value)
            raise Untranslatable('constant %r' % (e.value,))
        if isinstance(e, ast.Name):
            if e.id in self.env:
                return self.env[e.id]
            if e.id in self.consts:
                return C(self.consts[e.id])
            if e.id in ('max', 'min', 'any', 'all'):
                return ('F', e.id)           # a builtin used as a value (`choose = max if ... else min`)
            raise Untranslatable('unknown name %s' % e.id)
        if isinstance(e, ast.Attribute):
            try:
                dotted = ast.unparse(e)
            except Exception:
                dotted = None
            if dotted in self.consts:
                return C(self.consts[dotted])
            if dotted in self.env:
                v = self.env[dotted]
                if v[0] == 'X':
                    raise Untranslatable('%s was assigned something the translator does not understand' % dotted)
                return v
            if isinstance(e.value, ast.Name) and e.value.id == 'np':
                raise Untranslatable('numpy attribute %s' % e.attr)
            base = self.ev(e.value)
            if base[0] == 'O':
                if e.attr in ATTR:
                    t, suf = ATTR[e.attr]
                    return (t, base[1] + suf)
                if e.attr == 'size':
                    return ('I', 'k')
                if e.attr == 'shape':
                    return ('S', base[1])
            if base[0] == 'K' and e.attr == 'size':      # np.diagonal(...).size
                return ('I', 'k')
            raise Untranslatable('attribute .%s of %r' % (e.attr, base))
        if isinstance(e, ast.Subscript):
            base = self.ev(e.value)
            if base[0] == 'S':                       # x.shape[-1], a.shape[axis]: the number of accumulated terms
                return ('I', 'k')
            idx = self.ev(e.slice)
            if base[0] in ('L', 'T') and is_const(idx) and isinstance(idx[1], int):
                return base[1][idx[1]]
            raise Untranslatable('subscript')
        if isinstance(e, ast.UnaryOp):
            v = self.ev(e.operand)
            if isinstance(e.op, ast.Not):
                if is_const(v):
                    return C(not v[1])
                return ('B', '(!%s)' % to_lean_bool(v))
            if isinstance(e.op, ast.USub):
                if is_const(v):
                    return C(-v[1])
                return ('I', '(-%s)' % to_lean_int(v))
            raise Untranslatable('unary op')
        if isinstance(e, ast.BinOp):
            a, b = self.ev(e.left), self.ev(e.right)
            if is_const(a) and is_const(b) and not isinstance(a[1], str):
                if isinstance(e.op, ast.Add): return C(int(a[1]) + int(b[1]))
                if isinstance(e.op, ast.Sub): return C(int(a[1]) - int(b[1]))
                if isinstance(e.op, ast.Mult): return C(int(a[1]) * int(b[1]))
            if isinstance(e.op, ast.LShift) and is_const(a) and a[1] == 1:
                # `1 << k` (Python raises for a negative k; the callers only shift by n_word or n_word-1 with n_word >= 1)
                return ('I', '((2 : Int) ^ (%s).toNat)' % to_lean_int(b))
            if isinstance(e.op, (ast.BitAnd, ast.BitOr)):
                # Python's & and | on integers: two's complement of unbounded width (Mathlib's Int.land / Int.lor)
                return ('I', '(Int.%s %s %s)' % ('land' if isinstance(e.op, ast.BitAnd) else 'lor', to_lean_int(a), to_lean_int(b)))
            op = {ast.Add: '+', ast.Sub: '-', ast.Mult: '*'}.get(type(e.op))
            if op is None:
                raise Untranslatable('binary operator %s' % type(e.op).__name__)
            return ('I', '(%s %s %s)' % (to_lean_int(a), op, to_lean_int(b)))
        if isinstance(e, ast.BoolOp):
            isand = isinstance(e.op, ast.And)
            out = []
            for sub in e.values:                # Python's or/and on booleans, left to right with short circuit
                v = self.ev(sub)
                if is_const(v) and isinstance(v[1], bool):
                    if v[1] == (not isand):     # True in an `or`, False in an `and`: decides (later operands are pure)
                        out.append(v); break
                    continue
                if v[0] not in ('B',):
                    raise Untranslatable('or/and over non-booleans')
                out.append(v)
            if not out:
                return C(isand)
            if any(is_const(v) for v in out):
                if len(out) == 1:
                    return out[0]
                out = [v for v in out if not is_const(v)] + [v for v in out if is_const(v)]
            return ('B', '(' + (' && ' if isand else ' || ').join(to_lean_bool(v) for v in out) + ')')
        if isinstance(e, ast.Compare):
            if len(e.ops) != 1:
                raise Untranslatable('chained comparison')
            a, b = self.ev(e.left), self.ev(e.comparators[0])
            op = e.ops[0]
            if isinstance(op, (ast.Is, ast.IsNot)):
                if not (is_const(b) and b[1] is None):
                    raise Untranslatable('`is` with something else than None')
                r = is_const(a) and a[1] is None
                return C(r if isinstance(op, ast.Is) else not r)
            if is_const(a) and is_const(b):
                f = {ast.Eq: lambda x, y: x == y, ast.NotEq: lambda x, y: x != y, ast.Lt: lambda x, y: x < y,
                     ast.LtE: lambda x, y: x <= y, ast.Gt: lambda x, y: x > y, ast.GtE: lambda x, y: x >= y}[type(op)]
                return C(f(a[1], b[1]))
            if a[0] == 'B' or b[0] == 'B':
                if isinstance(op, ast.NotEq):
                    return ('B', '(%s != %s)' % (to_lean_bool(a), to_lean_bool(b)))
                if isinstance(op, ast.Eq):
                    return ('B', '(%s == %s)' % (to_lean_bool(a), to_lean_bool(b)))
                raise Untranslatable('ordering of booleans')
            sym = {ast.Eq: '=', ast.NotEq: '≠', ast.Lt: '<', ast.LtE: '≤', ast.Gt: '>', ast.GtE: '≥'}[type(op)]
            return ('B', '(decide (%s %s %s))' % (to_lean_int(a), sym, to_lean_int(b)))
        if isinstance(e, ast.IfExp):
            t = self.ev(e.test)
            if is_const(t):
                return self.ev(e.body if t[1] else e.orelse)
            a, b = self.ev(e.body), self.ev(e.orelse)
            return self.ite(t, a, b)
        if isinstance(e, ast.Tuple):
            return ('T', [self.ev(x) for x in e.elts])
        if isinstance(e, ast.List):
            return ('L', [self.ev(x) for x in e.elts])
        if isinstance(e, (ast.ListComp, ast.GeneratorExp)):
            if len(e.generators) != 1 or e.generators[0].ifs or not isinstance(e.generators[0].target, ast.Name):
                raise Untranslatable('list comprehension shape')
            it = self.ev(e.generators[0].iter)
            if it[0] not in ('L', 'T'):
                raise Untranslatable('comprehension over a non-list')
            var = e.generators[0].target.id
            saved = self.env.get(var)
            out = []
            for item in it[1]:
                self.env[var] = item
                out.append(self.ev(e.elt))
            if saved is None:
                self.env.pop(var, None)
            else:
                self.env[var] = saved
            return ('L', out)
        if isinstance(e, ast.Call):
            try:
                txt = ast.unparse(e)
            except Exception:
                txt = None
            if txt in self.consts.get('__patterns__', {}):
                return self.consts['__patterns__'][txt]
            return self.call(e)
        raise Untranslatable('expression %s' % type(e).__name__)

    def ite(self, t, a, b):
        if a == b:
            return a
        if a[0] == 'T' and b[0] == 'T' and len(a[1]) == len(b[1]):
            return ('T', [self.ite(t, x, y) for x, y in zip(a[1], b[1])])
        ta = 'B' if (a[0] == 'B' or (is_const(a) and isinstance(a[1], bool))) else 'I'
        tb = 'B' if (b[0] == 'B' or (is_const(b) and isinstance(b[1], bool))) else 'I'
        if ta == 'B' and tb == 'B':
            return ('B', '(if %s then %s else %s)' % (to_lean_bool(t), to_lean_bool(a), to_lean_bool(b)))
        return ('I', '(if %s then %s else %s)' % (to_lean_bool(t), to_lean_int(a), to_lean_int(b)))

    def call(self, e):
        fn = e.func
        name = None
        if isinstance(fn, ast.Name):
            name = fn.id
            if name in self.env and self.env[name][0] == 'F':
                name = self.env[name][1]
        elif isinstance(fn, ast.Attribute) and isinstance(fn.value, ast.Name) and fn.value.id == 'np':
            name = 'np.' + fn.attr
        if isinstance(fn, ast.Attribute) and fn.attr == 'astype' and not (isinstance(fn.value, ast.Name) and fn.value.id == 'np'):
            return self.ev(fn.value)            # elementwise: a cast does not change an integer that fits (the carrier is NumPy's business)
        src_name = _elementwise_int_identity(e)
        if src_name is not None:
            # np.array([int(v) [if <test> else v] for v in X.flatten()], dtype=object).reshape(X.shape): every element of X turned into
            # a python integer, or kept; on the integers the generated definitions are about, that is X itself
            return self.ev(ast.Name(id=src_name, ctx=ast.Load()))
        if name is None and isinstance(fn, ast.Attribute) and isinstance(fn.value, ast.Name) and fn.value.id == 'utils' \
                and fn.attr in self.consts.get('__utils__', {}) and not e.keywords:
            # a helper of fxpmath/utils.py: inlined elementwise (decorators such as np.vectorize lift it over arrays)
            if self.depth > 6:
                raise Untranslatable('helper calls nested too deep')
            node = self.consts['__utils__'][fn.attr]
            params = [p.arg for p in node.args.args]
            args_ = [self.ev(a) for a in e.args]
            if len(params) != len(args_):
                raise Untranslatable('call of utils.%s with another signature' % fn.attr)
            sub = self.fork(dict(zip(params, args_)))
            sub.consts = dict(self.consts, __identity__=('int_array',))
            sub.funcs = {}
            sub.plain_return = True
            r = sub.run(node.body, lenient=True)
            if r is None:
                raise Untranslatable('utils.%s does not return a value' % fn.attr)
            return r
        if name is None and isinstance(fn, ast.Attribute) and isinstance(fn.value, ast.Name) and fn.value.id == 'self' \
                and fn.attr in self.consts.get('__methods__', {}):
            name = 'self.' + fn.attr
        if name in ('np.array', 'np.asarray') and len(e.args) == 1 and e.keywords and all(k.arg == 'dtype' for k in e.keywords):
            return self.ev(e.args[0])           # a choice of carrier: the integers are the same
        if name is None or e.keywords and name not in ('np.diagonal',):
            raise Untranslatable('call')
        if name == 'np.diagonal':
            return ('K', 'diag')
        if name in ('np.array', 'np.asarray') or name in self.consts.get('__identity__', ()):
            return self.ev(e.args[0])
        if name == 'np.clip' and len(e.args) == 3 and not e.keywords:
            a0, a1, a2 = (self.ev(x) for x in e.args)
            return ('I', '(max %s (min %s %s))' % (to_lean_int(a1), to_lean_int(a2), to_lean_int(a0)))
        if name == 'np.where' and len(e.args) == 3:
            t = self.ev(e.args[0])
            if is_const(t):
                return self.ev(e.args[1] if t[1] else e.args[2])
            return self.ite(t, self.ev(e.args[1]), self.ev(e.args[2]))
        if name == 'isinstance':
            # isinstance(vars, list) in _get_sizing; isinstance(x, Fxp) never reaches here (those ifs are skipped)
            if self.ev(e.args[0])[0] == 'L' and isinstance(e.args[1], ast.Name) and e.args[1].id == 'list':
                return C(True)
            raise Untranslatable('isinstance')
        args = [self.ev(a) for a in e.args]
        if name == 'bool':
            v = args[0]
            if v[0] == 'B' or (is_const(v) and isinstance(v[1], bool)):
                return v
            raise Untranslatable('bool() of a non-boolean')
        if name in ('np.any', 'any', 'np.all', 'all'):
            v = args[0]
            if v[0] not in ('L', 'T') or not v[1]:
                raise Untranslatable('%s of a non-list' % name)
            return ('B', '(' + (' || ' if name.endswith('any') else ' && ').join(to_lean_bool(x) for x in v[1]) + ')')
        if isinstance(fn, ast.Attribute) and isinstance(fn.value, ast.Name) and fn.value.id == 'self' \
                and fn.attr in self.consts.get('__methods__', {}) and not e.keywords:
            # a helper method of the same class: inlined like a module-level helper (attribute writes inside it are seen by the caller)
            if self.depth > 6:
                raise Untranslatable('helper calls nested too deep')
            node = self.consts['__methods__'][fn.attr]
            params = [p.arg for p in node.args.args]
            static = any(isinstance(d, ast.Name) and d.id == 'staticmethod' for d in node.decorator_list)
            if not static:
                params = params[1:]
            args_ = [self.ev(a) for a in e.args]
            defaults = node.args.defaults
            if len(args_) > len(params) or node.args.vararg or node.args.kwarg:
                raise Untranslatable('call of self.%s with another signature' % fn.attr)
            envc = dict(self.env)
            for k_, p_ in enumerate(params):
                if k_ < len(args_):
                    envc[p_] = args_[k_]
                else:
                    d_ = defaults[k_ - (len(params) - len(defaults))] if k_ >= len(params) - len(defaults) else None
                    if d_ is None:
                        raise Untranslatable('missing argument %s of self.%s' % (p_, fn.attr))
                    envc[p_] = self.ev(d_)
            sub = self.fork(envc)
            sub.plain_return = True
            r = sub.run(node.body, lenient=True)
            for k_, v_ in sub.env.items():          # attribute writes of the helper
                if k_.startswith('self.'):
                    self.env[k_] = v_
            if r is None:
                return C(None)
            return r
        if name in self.funcs and not e.keywords:
            # a module-level helper with a translatable body is inlined (its assignments become `let`s of the caller)
            if self.depth > 6:
                raise Untranslatable('helper calls nested too deep')
            node = self.funcs[name]
            params = [p.arg for p in node.args.args]
            if len(params) != len(args) or node.args.vararg or node.args.kwarg:
                raise Untranslatable('call of %s with another signature' % name)
            sub = self.fork(dict(zip(params, args)))
            r = sub.run(node.body)
            if r is None:
                raise Untranslatable('%s does not return a value' % name)
            return r
        if name == 'int':
            v = args[0]
            if v[0] == 'CL':                          # int(np.ceil(np.log2(k)))
                return ('I', '((Fxp.clog2 (%s).toNat : Nat) : Int)' % v[1])
            if v[0] == 'B':
                return ('I', '(if %s then 1 else 0)' % v[1])
            if is_const(v):
                return C(int(v[1]))
            if v[0] == 'I':
                return v
            raise Untranslatable('int()')
        if name == 'np.log2':
            return ('LG', to_lean_int(args[0]))
        if name == 'np.ceil':
            if args[0][0] != 'LG':
                raise Untranslatable('ceil of something else than log2')
            return ('CL', args[0][1])
        if name in ('max', 'min'):
            if len(args) == 1 and args[0][0] in ('L', 'T'):
                args = args[0][1]
            if len(args) < 2:
                raise Untranslatable('%s of one argument' % name)
            acc = to_lean_int(args[0])
            for a in args[1:]:
                acc = '(%s %s %s)' % (name, acc, to_lean_int(a))
            return ('I', acc)
        raise Untranslatable('call of %s' % name)

    # -------------------------------------------------------------------------------- statements
    def bind(self, name, v):
        """record `name = v`; symbolic scalars become a Lean `let` so that the generated text follows the source."""
        if v[0] in ('B', 'I'):
            self.shared['n'] += 1
            ln = '%s_%d' % (name.replace('self.', '').strip('_') or 'v', self.shared['n'])
            self.lets.append((ln, 'Bool' if v[0] == 'B' else 'Int', v[1]))
            v = (v[0], ln)
        self.env[name] = v

    def poison(self, node):
        """every name stored anywhere inside `node` becomes unknown (a later use is then refused, never guessed)."""
        for n in ast.walk(node):
            if isinstance(n, ast.Name) and isinstance(n.ctx, ast.Store):
                self.env.pop(n.id, None)
            elif isinstance(n, ast.Attribute) and isinstance(n.ctx, ast.Store) and isinstance(n.value, ast.Name) and n.value.id == 'self':
                self.env['self.' + n.attr] = ('X',)
            elif isinstance(n, (ast.FunctionDef, ast.ClassDef)):
                self.env.pop(n.name, None)

    def assign(self, st):
        if len(st.targets) != 1:
            raise Untranslatable('multiple assignment targets')
        tg = st.targets[0]
        if isinstance(tg, ast.Attribute) and isinstance(tg.value, ast.Name) and tg.value.id == 'self':
            # an attribute of the object itself: remembered (later reads of self.<attr> see it); unknown when not translatable
            key = 'self.' + tg.attr
            try:
                self.bind(key, self.ev(st.value))
            except Untranslatable:
                self.env[key] = ('X',)
            return
        v = self.ev(st.value)
        if isinstance(tg, ast.Name):
            self.bind(tg.id, v)
        elif isinstance(tg, ast.Tuple) and v[0] == 'T' and len(v[1]) == len(tg.elts):
            for t, x in zip(tg.elts, v[1]):
                if not isinstance(t, ast.Name):
                    raise Untranslatable('nested unpacking')
                self.bind(t.id, x)
        else:
            raise Untranslatable('assignment target')

    def run(self, stmts, only=None, lenient=False):
        """execute statements; with `only`, assignments to other names and non-assignments are skipped; with `lenient`,
        nested definitions, `isinstance` guards and assignments that do not translate are skipped (their targets become unknown).
        Returns the value of the `return` that is reached (merged over symbolic branches), or None."""
        stmts = list(stmts)
        for i, st in enumerate(stmts):
            if isinstance(st, ast.Assign):
                names = [t.id for tg in st.targets for t in (tg.elts if isinstance(tg, ast.Tuple) else [tg]) if isinstance(t, ast.Name)]
                if only is not None and not (names and all(n in only for n in names)):
                    continue
                if lenient:
                    try:
                        self.assign(st)
                    except Untranslatable:
                        for n in names:
                            self.env.pop(n, None)
                else:
                    self.assign(st)
            elif only is not None:
                continue
            elif lenient and isinstance(st, ast.FunctionDef):
                self.env.pop(st.name, None)
                continue
            elif lenient and isinstance(st, ast.AugAssign) and isinstance(st.target, ast.Name):
                try:
                    self.bind(st.target.id, self.ev(ast.BinOp(left=ast.Name(id=st.target.id, ctx=ast.Load()), op=st.op, right=st.value)))
                except Untranslatable:
                    self.env.pop(st.target.id, None)
            elif lenient and isinstance(st, ast.If):
                try:
                    t = self.ev(st.test)
                except Untranslatable:
                    # a guard that is not about sizes (`if not isinstance(x, Fxp): x = Fxp(x)`, the complex-kernel selection):
                    # skipped, and every name it assigns becomes unknown — except an operand that is merely wrapped into an Fxp
                    wrap = (len(st.body) == 1 and not st.orelse and isinstance(st.body[0], ast.Assign)
                            and isinstance(st.body[0].value, ast.Call) and isinstance(st.body[0].value.func, ast.Name)
                            and st.body[0].value.func.id == 'Fxp' and len(st.body[0].value.args) == 1
                            and isinstance(st.body[0].value.args[0], ast.Name) and len(st.body[0].targets) == 1
                            and isinstance(st.body[0].targets[0], ast.Name)
                            and st.body[0].targets[0].id == st.body[0].value.args[0].id)
                    if not wrap:
                        # an opaque test (e.g. which NumPy carrier is used): both branches are evaluated; a name keeps its value only
                        # when both branches give it the same definition, every other assigned name becomes unknown
                        a = self.fork(); b = self.fork()
                        try:
                            ra = a.run(list(st.body), lenient=True); rb = b.run(list(st.orelse), lenient=True)
                        except Untranslatable:
                            ra = rb = 'fail'
                        stored = {n.id for n in ast.walk(st) if isinstance(n, ast.Name) and isinstance(n.ctx, ast.Store)} | \
                                 {'self.' + n.attr for n in ast.walk(st) if isinstance(n, ast.Attribute) and isinstance(n.ctx, ast.Store)
                                  and isinstance(n.value, ast.Name) and n.value.id == 'self'}
                        if ra is not None or rb is not None:
                            self.poison(st)
                        else:
                            for nm in stored:
                                va, vb = a.env.get(nm), b.env.get(nm)
                                def res(v):
                                    # the defining term of a value, following chains of let-bound names
                                    if v is None or v[0] not in ('B', 'I'):
                                        return None
                                    term = v[1]
                                    names = {ln: tm for ln, _, tm in self.lets}
                                    for _ in range(50):
                                        if term in names:
                                            term = names[term]
                                        else:
                                            break
                                    return term
                                same = va is not None and vb is not None and (va == vb or (res(va) is not None and res(va) == res(vb)))
                                if same:
                                    self.env[nm] = va
                                elif nm.startswith('self.') and (va is not None or vb is not None):
                                    self.env[nm] = ('X',)
                                elif not nm.startswith('self.'):
                                    self.env.pop(nm, None)
                    continue
                if is_const(t):
                    return self.run(list(st.body if t[1] else st.orelse) + stmts[i + 1:], lenient=True)
                if not any((isinstance(n, ast.Name) and isinstance(n.ctx, ast.Store)) or isinstance(n, ast.Return) or
                           (isinstance(n, ast.Attribute) and isinstance(n.ctx, ast.Store) and isinstance(n.value, ast.Name) and n.value.id == 'self')
                           for n in ast.walk(st)):
                    continue        # the branch only writes items of other objects (self.status[...]): no effect on the rules read here
                rest = stmts[i + 1:]
                a = self.fork(); ra = a.run(list(st.body) + rest, lenient=True)
                b = self.fork(); rb = b.run(list(st.orelse) + rest, lenient=True)
                if ra is None or rb is None:
                    raise Untranslatable('a symbolic branch without a result on both sides (line %d)' % st.lineno)
                return self.ite(t, ra, rb)
            elif lenient and isinstance(st, ast.Return) and (getattr(st, '_synthetic', False) or self.plain_return):
                if st.value is None:
                    raise Untranslatable('bare return')
                return self.ev(st.value)
            elif lenient and isinstance(st, ast.Return):
                # the wrapper call: the operator's rule is its `optimal_size=` argument
                if isinstance(st.value, ast.Call):
                    for kw in st.value.keywords:
                        if kw.arg == 'optimal_size':
                            return self.ev(kw.value)
                raise Untranslatable('no optimal_size= in the final call')
            elif lenient:
                self.poison(st)
                continue
            elif isinstance(st, ast.If):
                t = self.ev(st.test)
                if is_const(t):
                    return self.run(list(st.body if t[1] else st.orelse) + stmts[i + 1:])
                # symbolic test: both continuations are evaluated (they are pure) and merged
                rest = stmts[i + 1:]
                a = self.fork(); ra = a.run(list(st.body) + rest)
                b = self.fork(); rb = b.run(list(st.orelse) + rest)
                if ra is None or rb is None:
                    raise Untranslatable('a symbolic branch without a return on both sides (line %d)' % st.lineno)
                return self.ite(t, ra, rb)
            elif isinstance(st, ast.Return):
                if st.value is None:
                    raise Untranslatable('bare return')
                return self.ev(st.value)
            elif isinstance(st, ast.Raise):
                raise Untranslatable('raise reached')
            elif isinstance(st, ast.Expr) and isinstance(st.value, ast.Constant):
                continue
            else:
                raise Untranslatable('statement %s' % type(st).__name__)
        return None


# ---------------------------------------------------------------------------------------------- emit
def emit(name, params, pe, result, doc):
    if result[0] == 'T':
        tys = []
        terms = []
        for v in result[1]:
            if v[0] == 'B' or (is_const(v) and isinstance(v[1], bool)):
                tys.append('Bool'); terms.append(to_lean_bool(v))
            else:
                tys.append('Int'); terms.append(to_lean_int(v))
        rty = ' × '.join(tys)
        rterm = '(' + ', '.join(terms) + ')'
    elif result[0] == 'B' or (is_const(result) and isinstance(result[1], bool)):
        rty, rterm = 'Bool', to_lean_bool(result)
    else:
        rty, rterm = 'Int', to_lean_int(result)
    out = ['/-- %s -/' % doc, 'def %s %s : %s :=' % (name, params, rty)]
    for ln, ty, term in pe.lets:
        out.append('  let %s : %s := %s' % (ln, ty, term))
    out.append('  ' + rterm)
    return '\n'.join(out)


OPX = '(xs : Bool) (xw xi xf : Int)'
OPY = '(ys : Bool) (yw yi yf : Int)'
SIZE_NAMES = {'signed', 'n_int', 'n_frac', 'n_word', 'num_of_additions', 'num_of_products', 'optimal_size'}


def find_func(tree, name):
    for n in tree.body:
        if isinstance(n, ast.FunctionDef) and n.name == name:
            return n
    raise Untranslatable('function %s not found' % name)


def generate(repo=None):
    """returns (lean_text, problems): problems maps a rule name to the reason it could not be translated."""
    repo = repo or os.environ.get('FXP_REPO', '/repo')
    src = open(os.path.join(repo, 'fxpmath', 'functions.py')).read()
    tree = ast.parse(src)
    consts = {'_n_word_max': 64}
    funcs = {n.name: n for n in tree.body if isinstance(n, ast.FunctionDef)}
    defs, problems = [], {}

    def attempt(rule, f):
        try:
            defs.append(f())
        except Untranslatable as e:
            problems[rule] = str(e)
        except Exception as e:          # a shape the evaluator was not written for
            problems[rule] = '%s: %s' % (type(e).__name__, e)

    # optimal sizes of the two-operand functions
    for fn in ('add', 'sub', 'mul', 'floordiv', 'truediv', 'mod'):
        def f(fn=fn):
            node = find_func(tree, fn)
            a = [p.arg for p in node.args.args][:2]
            pe = PE({a[0]: ('O', 'x'), a[1]: ('O', 'y')}, consts, funcs)
            r = pe.run(node.body, lenient=True)
            if r is None or r[0] != 'T':
                raise Untranslatable('optimal_size not found')
            return emit('%sSize' % fn, OPX + ' ' + OPY, pe, r,
                        '`optimal_size` of `functions.%s`: (signed, n_word, n_int, n_frac)' % fn)
        attempt(fn + 'Size', f)
    # optimal sizes of the accumulating one-operand functions (k = number of accumulated elements)
    for fn in ('sum', 'cumsum', 'cumprod', 'prod', 'trace'):
        def f(fn=fn):
            node = find_func(tree, fn)
            a = node.args.args[0].arg
            pe = PE({a: ('O', 'x'), 'axis': C(None), 'offset': C(0), 'axis1': C(0), 'axis2': C(1)}, consts, funcs)
            r = pe.run(node.body, lenient=True)
            if r is None or r[0] != 'T':
                raise Untranslatable('optimal_size not found')
            return emit('%sSize' % fn, OPX + ' (k : Int)', pe, r,
                        '`optimal_size` of `functions.%s` over `k` accumulated elements' % fn)
        attempt(fn + 'Size', f)

    def fdot():
        node = find_func(tree, 'dot')
        pe = PE({'x': ('O', 'x'), 'y': ('O', 'y')}, consts, funcs)
        r = pe.run(node.body, lenient=True)
        if r is None or r[0] != 'T':
            raise Untranslatable('optimal_size not found')
        return emit('dotSize', OPX + ' ' + OPY + ' (k : Int)', pe, r,
                    '`optimal_size` of `functions.dot` contracting `k` products')
    attempt('dotSize', fdot)

    # carrier selection of add/sub/mod
    def fneeds():
        node = find_func(tree, '_needs_python_int')
        a = [p.arg for p in node.args.args]
        pe = PE({a[0]: ('O', 'x'), a[1]: ('O', 'y'), a[2]: ('I', 'F')}, consts, funcs)
        r = pe.run(node.body)
        if r is None:
            raise Untranslatable('no return')
        return emit('needsPyInt', OPX + ' ' + OPY + ' (F : Int)', pe, r, '`functions._needs_python_int(x, y, n_frac)`')
    attempt('needsPyInt', fneeds)

    # carrier selection of mul (`python_int` in `_mul_raw`)
    def fmul():
        node = find_func(tree, 'mul')
        inner = next((n for n in node.body if isinstance(n, ast.FunctionDef) and n.name == '_mul_raw'), None)
        if inner is None:
            raise Untranslatable('_mul_raw not found')
        a = [p.arg for p in inner.args.args]
        pe = PE({a[0]: ('O', 'x'), a[1]: ('O', 'y'), a[2]: ('I', 'F')}, consts, funcs)
        pe.run([st for st in inner.body if isinstance(st, ast.Assign)], lenient=True)
        if 'python_int' not in pe.env:
            raise Untranslatable('python_int not assigned')
        return emit('mulNeedsPyInt', OPX + ' ' + OPY + ' (F : Int)', pe, pe.env['python_int'], '`python_int` of `functions.mul._mul_raw`')
    attempt('mulNeedsPyInt', fmul)

    # the exact route of add/sub/mul when fraction bits are dropped (`if <test>: return _scale_down_exact(...)` at the head of
    # `_add_raw` / `_sub_raw` / `_mul_raw`): the test decides whether the result is scaled down as an exact rational or by a float
    for fn in ('add', 'sub', 'mul'):
        def fexact(fn=fn):
            node = find_func(tree, fn)
            inner = next((n for n in node.body if isinstance(n, ast.FunctionDef) and n.name == '_%s_raw' % fn), None)
            if inner is None:
                raise Untranslatable('_%s_raw not found' % fn)
            a = [p.arg for p in inner.args.args]
            pe = PE({a[0]: ('O', 'x'), a[1]: ('O', 'y'), a[2]: ('I', 'F')}, consts, funcs)
            head = []
            test = None
            for st in inner.body:
                if isinstance(st, ast.Assign):
                    head.append(st)
                    continue
                if isinstance(st, ast.If) and any(isinstance(c, ast.Return) and isinstance(c.value, ast.Call) and
                                                  getattr(c.value.func, 'id', None) == '_scale_down_exact' for c in st.body):
                    test = st.test
                break
            if test is None:
                raise Untranslatable('no exact scale-down route at the head of _%s_raw' % fn)
            pe.run(head, lenient=True)
            return emit('%sExactPath' % fn, OPX + ' ' + OPY + ' (F : Int)', pe, pe.ev(test),
                        'the test of the exact scale-down route of `functions.%s._%s_raw(x, y, n_frac)`' % (fn, fn))
        attempt(fn + 'ExactPath', fexact)

    # carrier selection of dot / matmul / prod (D70): the test in front of the python-integer branch of their raw kernels
    for fn in ('dot', 'matmul', 'prod'):
        def fredpy(fn=fn):
            node = find_func(tree, fn)
            inner = next((n for n in node.body if isinstance(n, ast.FunctionDef) and n.name == '_%s_raw' % fn), None)
            if inner is None:
                raise Untranslatable('_%s_raw not found' % fn)
            a = [p.arg for p in inner.args.args]
            c2 = dict(consts)
            # the number of accumulated terms / of factors (k >= 1): `x.shape[-1]` guarded for 0-d operands, `a.size` / `a.shape[axis]`
            c2['__patterns__'] = {'max(x.shape[-1] if x.ndim > 0 else 1, 1)': ('I', 'k')}
            if fn == 'prod':
                env = {a[0]: ('O', 'x'), a[1]: ('I', 'F'), 'a': ('O', 'x'), 'axis': C(None)}
            else:
                env = {a[0]: ('O', 'x'), a[1]: ('O', 'y'), a[2]: ('I', 'F')}
            pe = PE(env, c2, funcs)
            head, test = [], None
            for st in inner.body:
                if isinstance(st, ast.Assign):
                    head.append(st)
                    continue
                if isinstance(st, ast.If) and any('dtype=object' in ast.unparse(c) for c in st.body):
                    test = st.test
                break
            if test is None:
                raise Untranslatable('no python-integer branch at the head of _%s_raw' % fn)
            pe.run(head, lenient=True)
            sig = (OPX + ' (F k : Int)') if fn == 'prod' else (OPX + ' ' + OPY + ' (F k : Int)')
            return emit('%sNeedsPyInt' % fn, sig, pe, pe.ev(test),
                        'the test of the python-integer branch of `functions.%s._%s_raw` for a result fraction length `F` and `k` accumulated terms / factors' % (fn, fn))
        attempt(fn + 'NeedsPyInt', fredpy)

    # sizing policies of _get_sizing for two operands
    for pol in ('same', 'largest', 'smallest', 'optimal'):
        def f(pol=pol):
            node = find_func(tree, '_get_sizing')
            a = [p.arg for p in node.args.args]
            env = {a[0]: ('L', [('O', 'x'), ('O', 'y')]), a[1]: C(pol), a[2]: C('raw'),
                   a[3]: ('T', [('B', 'osg'), ('I', 'owd'), ('I', 'oin'), ('I', 'ofr')]) if pol == 'optimal' else C(None)}
            pe = PE(env, consts, funcs)
            r = pe.run(node.body)
            if r is None:
                raise Untranslatable('no return')
            extra = ' (osg : Bool) (owd oin ofr : Int)' if pol == 'optimal' else ''
            return emit('getSizing_%s' % pol, OPX + ' ' + OPY + extra, pe, r,
                        "`functions._get_sizing([x, y], sizing='%s', method='raw'%s)`: (signed, n_word, n_int, n_frac)"
                        % (pol, ', optimal_size=(osg, owd, oin, ofr)' if pol == 'optimal' else ''))
        attempt('getSizing_' + pol, f)

    # ------------------------------------------------------------------------------------------ objects.py
    try:
        otree = ast.parse(open(os.path.join(repo, 'fxpmath', 'objects.py')).read())
        cls = next(n for n in otree.body if isinstance(n, ast.ClassDef) and n.name == 'Fxp')
        meth = {n.name: n for n in cls.body if isinstance(n, ast.FunctionDef)}
    except Exception as e:
        otree, meth = None, {}
        problems['objects.py'] = '%s: %s' % (type(e).__name__, e)

    consts = dict(consts, __methods__=meth)

    def names_after(body, names):
        """the statements of `body` followed by a synthetic `return (names...)`."""
        r = ast.Return(value=ast.Tuple(elts=[ast.Name(id=n, ctx=ast.Load()) for n in names], ctx=ast.Load()))
        r._synthetic = True
        r.lineno = 0
        return list(body) + [r]

    def flimits(method, names, lean_name, doc):
        def f():
            if method not in meth:
                raise Untranslatable('Fxp.%s not found' % method)
            node = meth[method]
            # the slice: every statement up to (and including) the last one that assigns one of the names
            last = max((i for i, st in enumerate(node.body) if any(isinstance(n, ast.Name) and isinstance(n.ctx, ast.Store) and n.id in names
                                                                       for n in ast.walk(st))), default=None)
            if last is None:
                raise Untranslatable('%s not assigned in Fxp.%s' % (names, method))
            # the limits as a function of the sizes the object has at that point: no size argument is given
            pe = PE({'self': ('O', 'x'), 'signed': C(None), 'n_word': C(None), 'n_frac': C(None), 'n_int': C(None), 'dtype': C(None)} if method == 'resize' else {'self': ('O', 'x')}, consts, funcs)
            r = pe.run(names_after(node.body[:last + 1], names), lenient=True)
            if r is None:
                raise Untranslatable('no value')
            return emit(lean_name, '(xs : Bool) (xw xi xf : Int)', pe, r, doc)
        attempt(lean_name, f)

    if meth:
        flimits('set_val', ['val_max', 'val_min'], 'storeLimits', '`(val_max, val_min)` of `Fxp.set_val` (the limits every store is clamped / wrapped to)')
        flimits('resize', ['upper_val', 'lower_val'], 'resizeLimits', '`(upper_val, lower_val)` of `Fxp.resize` (the limits reported as upper / lower)')

        def fnint():
            node = meth.get('resize')
            if node is None:
                raise Untranslatable('Fxp.resize not found')
            for st in ast.walk(node):
                if isinstance(st, ast.Assign) and len(st.targets) == 1 and isinstance(st.targets[0], ast.Attribute) \
                        and ast.unparse(st.targets[0]) == 'self.n_int':
                    pe = PE({'self': ('O', 'x')}, consts, funcs)
                    return emit('nintOf', '(xs : Bool) (xw xi xf : Int)', pe, pe.ev(st.value), '`self.n_int = ...` of `Fxp.resize`')
            raise Untranslatable('self.n_int is not assigned in resize')
        attempt('nintOf', fnint)

        def fext():
            node = meth.get('resize')
            if node is None:
                raise Untranslatable('Fxp.resize not found')
            for st in ast.walk(node):
                if isinstance(st, ast.If) and len(st.body) == 1 and isinstance(st.body[0], ast.Assign) \
                        and ast.unparse(st.body[0].targets[0]) == "self.status['extended_prec']" and isinstance(st.body[0].value, ast.Constant) \
                        and st.body[0].value.value is True and len(st.orelse) == 1 and isinstance(st.orelse[0], ast.Assign) \
                        and ast.unparse(st.orelse[0].targets[0]) == "self.status['extended_prec']" and st.orelse[0].value.value is False:
                    pe = PE({'self': ('O', 'x')}, consts, funcs)
                    return emit('extendedPrec', '(xs : Bool) (xw xi xf : Int)', pe, pe.ev(st.test), "the condition under which `Fxp.resize` sets `status['extended_prec']`")
                if isinstance(st, ast.Assign) and len(st.targets) == 1 and ast.unparse(st.targets[0]) == "self.status['extended_prec']":
                    pe = PE({'self': ('O', 'x')}, consts, funcs)
                    v = pe.ev(st.value)
                    if v[0] == 'B':
                        return emit('extendedPrec', '(xs : Bool) (xw xi xf : Int)', pe, v, "the value `Fxp.resize` assigns to `status['extended_prec']`")
            raise Untranslatable("the assignment of status['extended_prec'] in resize was not recognised")
        attempt('extendedPrec', fext)

        def frshift():
            node = meth.get('__rshift__')
            if node is None:
                raise Untranslatable('Fxp.__rshift__ not found')
            c2 = dict(consts); c2['self.config.shifting'] = 'expand'
            # `utils.min_pow2(self.val)`: None when every code is zero, else the common number of trailing zeros (hasmp / mp)
            c2['__patterns__'] = {'utils.min_pow2(self.val)': ('MP', None)}
            pe = PE({'self': ('O', 'x'), node.args.args[1].arg: ('I', 'n')}, c2, funcs)
            outs = []
            for has in (True, False):
                pe2 = PE({'self': ('O', 'x'), node.args.args[1].arg: ('I', 'n')}, dict(c2, __patterns__={'utils.min_pow2(self.val)': (('I', 'mp') if has else C(None))}), funcs, pe.shared)
                r = pe2.run(names_after([st for st in node.body if not isinstance(st, ast.Return)], ['n_frac_expansion']), lenient=True)
                if r is None or r[0] != 'T':
                    raise Untranslatable('n_frac_expansion not found')
                outs.append(r[1][0])
            res = pe.ite(('B', 'hasmp'), outs[0], outs[1])
            return emit('rshiftExpansion', '(n mp : Int) (hasmp : Bool)', pe, res,
                        '`n_frac_expansion` of `Fxp.__rshift__` in expand mode (`mp` = `utils.min_pow2(self.val)` when it is not None)')
        attempt('rshiftExpansion', frshift)

        def flshift():
            node = meth.get('__lshift__')
            if node is None:
                raise Untranslatable('Fxp.__lshift__ not found')
            c2 = dict(consts); c2['self.config.shifting'] = 'expand'
            c2['__patterns__'] = {'int(np.max(np.ceil(np.log2(np.abs(self.val) + 0.5))))': ('I', 'mb')}
            pe = PE({'self': ('O', 'x'), node.args.args[1].arg: ('I', 'n')}, c2, funcs)
            # the statement that chooses the word by the shifting mode (a normalisation of the type of the count may stand before it)
            sel = [st for st in node.body if isinstance(st, ast.If) and 'shifting' in ast.unparse(st.test)][:1]
            r = pe.run(names_after(sel, ['n_word']), lenient=True)
            if r is None or r[0] != 'T':
                raise Untranslatable('n_word not found')
            return emit('lshiftWord', '(xs : Bool) (xw xi xf : Int) (mb n : Int)', pe, r[1][0],
                        '`n_word` of `Fxp.__lshift__` in expand mode (`mb` = the largest `ceil(log2(|code| + 0.5))` over the codes)')
        attempt('lshiftWord', flshift)

    # the size resolution of resize(): (signed, n_word, n_frac, n_int) after the call, for each pattern of given arguments
    if meth:
        for pat in range(16):
            def fres(pat=pat):
                node = meth.get('resize')
                if node is None:
                    raise Untranslatable('Fxp.resize not found')
                given = [(pat >> 3) & 1, (pat >> 2) & 1, (pat >> 1) & 1, pat & 1]     # signed, n_word, n_frac, n_int
                env = {'self': ('O', 'x'),
                       'signed': ('B', 's') if given[0] else C(None), 'n_word': ('I', 'w') if given[1] else C(None),
                       'n_frac': ('I', 'f') if given[2] else C(None), 'n_int': ('I', 'i') if given[3] else C(None),
                       'dtype': C(None), 'restore_val': C(True)}
                pe = PE(env, consts, funcs)
                ret = ast.Return(value=ast.Tuple(elts=[ast.Attribute(value=ast.Name(id='self', ctx=ast.Load()), attr=a, ctx=ast.Load())
                                                       for a in ('signed', 'n_word', 'n_frac', 'n_int')], ctx=ast.Load()))
                ret._synthetic = True; ret.lineno = 0
                # up to (and including) the statement that recomputes self.n_int
                last = max((k for k, st in enumerate(node.body) if any(isinstance(n, ast.Attribute) and isinstance(n.ctx, ast.Store) and n.attr == 'n_int'
                                                                     for n in ast.walk(st))), default=None)
                if last is None:
                    raise Untranslatable('self.n_int is not assigned in resize')
                r = pe.run(list(node.body[:last + 1]) + [ret], lenient=True)
                if r is None or r[0] != 'T':
                    raise Untranslatable('no sizes')
                name = 'resizeSizes_%d%d%d%d' % tuple(given)
                return emit(name, '(xs : Bool) (xw xi xf : Int) (s : Bool) (w f i : Int)', pe, r,
                            '`(self.signed, self.n_word, self.n_frac, self.n_int)` after `resize(%s)` on an object of sizes (xs, xw, xf)'
                            % ', '.join(n for n, g in zip(('signed=s', 'n_word=w', 'n_frac=f', 'n_int=i'), given) if g))
            attempt('resizeSizes_%d%d%d%d' % ((pat >> 3) & 1, (pat >> 2) & 1, (pat >> 1) & 1, pat & 1), fres)

    # the constructor's size reconciliation (_init_size) when word and fraction are both determined by the arguments:
    # the (signed, n_word, n_frac) it hands to resize()
    if meth:
        for sgiven in (0, 1):
            for wfi in ((1, 1, 0), (1, 0, 1), (0, 1, 1), (1, 1, 1)):
                def finit(sgiven=sgiven, wfi=wfi):
                    node = meth.get('_init_size')
                    if node is None:
                        raise Untranslatable('Fxp._init_size not found')
                    calls = [c for c in ast.walk(node) if isinstance(c, ast.Call) and isinstance(c.func, ast.Attribute) and c.func.attr == 'resize'
                             and isinstance(c.func.value, ast.Name) and c.func.value.id == 'self']
                    if len(calls) != 1 or len(calls[0].args) < 3 or calls[0].keywords:
                        raise Untranslatable('the resize call of _init_size was not recognised')
                    # the body up to the statement that contains the call, then "return (its first three arguments)"
                    idx = next(k for k, st in enumerate(node.body) if any(c is calls[0] for c in ast.walk(st)))
                    last = node.body[idx]
                    if not (isinstance(last, ast.If) and any(c is calls[0] for st in last.orelse for c in ast.walk(st))):
                        raise Untranslatable('the resize call is not the else-branch of the final test')
                    ret = ast.Return(value=ast.Tuple(elts=list(calls[0].args[:3]), ctx=ast.Load())); ret._synthetic = True; ret.lineno = 0
                    guard = ast.If(test=last.test, body=[ast.Raise(exc=None, cause=None)], orelse=[ret]); guard.lineno = last.lineno
                    env = {'self': ('O', 'x'), 'val': C(None), 'raw': C(False),
                           'signed': ('B', 's') if sgiven else C(None), 'n_word': ('I', 'w') if wfi[0] else C(None),
                           'n_frac': ('I', 'f') if wfi[1] else C(None), 'n_int': ('I', 'i') if wfi[2] else C(None)}
                    pe = PE(env, consts, funcs)
                    r = pe.run(list(node.body[:idx]) + [guard], lenient=True)
                    if r is None or r[0] != 'T':
                        raise Untranslatable('no sizes')
                    name = 'initSizes_%d%d%d%d' % ((sgiven,) + wfi)
                    return emit(name, '(s : Bool) (w f i : Int)', pe, r,
                                '`(self.signed, n_word, n_frac)` that `_init_size(%s)` hands to `resize`'
                                % ', '.join(n for n, g in zip(('signed=s', 'n_word=w', 'n_frac=f', 'n_int=i'), (sgiven,) + wfi) if g))
                attempt('initSizes_%d%d%d%d' % ((sgiven,) + wfi), finit)

    # ------------------------------------------------------------------------------------------ Config setters
    def fvalid(key):
        def f():
            ccls = next((n for n in otree.body if isinstance(n, ast.ClassDef) and n.name == 'Config'), None) if otree is not None else None
            if ccls is None:
                raise Untranslatable('class Config not found')
            setter = None
            lists = {}
            for n in ccls.body:
                if isinstance(n, ast.FunctionDef):
                    decos = [ast.unparse(d) for d in n.decorator_list]
                    if n.name == key and ('%s.setter' % key) in decos:
                        setter = n
                    if 'property' in decos and len(n.body) == 1 and isinstance(n.body[0], ast.Return) and isinstance(n.body[0].value, ast.List) \
                            and all(isinstance(e, ast.Constant) and isinstance(e.value, str) for e in n.body[0].value.elts):
                        lists['self.' + n.name] = [e.value for e in n.body[0].value.elts]
            if setter is None:
                raise Untranslatable('setter of %s not found' % key)
            # shape: if <test>: self._key = val  else: raise ...   with <test> = isinstance(val, str) and val in self._key_list
            body = [st for st in setter.body if not (isinstance(st, ast.Expr) and isinstance(st.value, ast.Constant))]
            if len(body) != 1 or not isinstance(body[0], ast.If) or not body[0].orelse or not all(isinstance(x, ast.Raise) for x in body[0].orelse):
                raise Untranslatable('setter of %s: not `if valid: store else: raise`' % key)
            st = body[0]
            if not (len(st.body) == 1 and isinstance(st.body[0], ast.Assign) and isinstance(st.body[0].value, ast.Name) and st.body[0].value.id == setter.args.args[1].arg):
                raise Untranslatable('setter of %s: the accepted value is not stored as given' % key)
            conj = st.test.values if isinstance(st.test, ast.BoolOp) and isinstance(st.test.op, ast.And) else [st.test]
            table = None
            for c in conj:
                txt = ast.unparse(c)
                if txt == 'isinstance(%s, str)' % setter.args.args[1].arg:
                    continue
                if isinstance(c, ast.Compare) and len(c.ops) == 1 and isinstance(c.ops[0], ast.In) and isinstance(c.left, ast.Name) \
                        and c.left.id == setter.args.args[1].arg:
                    rhs = c.comparators[0]
                    if isinstance(rhs, ast.List) and all(isinstance(e, ast.Constant) and isinstance(e.value, str) for e in rhs.elts):
                        table = [e.value for e in rhs.elts]; continue
                    if ast.unparse(rhs) in lists:
                        table = lists[ast.unparse(rhs)]; continue
                raise Untranslatable('setter of %s: condition %s' % (key, txt))
            if table is None:
                raise Untranslatable('setter of %s: no table of valid values' % key)
            return ('/-- the strings `Config.%s` accepts (its setter stores exactly these and raises otherwise) -/\n'
                    'def valid_%s (s : String) : Bool :=\n  decide (s ∈ [%s])' % (key, key, ', '.join('"%s"' % v for v in table)))
        attempt('valid_' + key, f)
    for key in ('rounding', 'overflow'):
        fvalid(key)

    # ------------------------------------------------------------------------------------------ utils.py (elementwise kernels)
    try:
        utree = ast.parse(open(os.path.join(repo, 'fxpmath', 'utils.py')).read())
        ufuncs = {n.name: n for n in utree.body if isinstance(n, ast.FunctionDef)}
    except Exception as e:
        ufuncs = {}
        problems['utils.py'] = '%s: %s' % (type(e).__name__, e)

    def fwrap():
        node = ufuncs.get('wrap')
        if node is None:
            raise Untranslatable('utils.wrap not found')
        a = [p.arg for p in node.args.args]
        c2 = dict(consts); c2['__identity__'] = ('int_array',)
        pe = PE({a[0]: ('I', 'k'), a[1]: ('B', 'xs'), a[2]: ('I', 'xw')}, c2, {})
        pe.plain_return = True
        r = pe.run(node.body, lenient=True)
        if r is None or r[0] != 'I':
            raise Untranslatable('no integer result')
        return emit('wrapElem', '(xs : Bool) (xw : Int) (k : Int)', pe, r,
                    '`utils.wrap(x, signed, n_word)` on one element `k` (NumPy casts are the identity on an integer that fits its carrier; `&`, `|` are `Int.land`, `Int.lor`)')
    attempt('wrapElem', fwrap)

    for fname, lean_name in (('clip', 'clipElem'), ('int_clip', 'intClipElem')):
        def fclip(fname=fname, lean_name=lean_name):
            node = ufuncs.get(fname)
            if node is None:
                raise Untranslatable('utils.%s not found' % fname)
            a = [p.arg for p in node.args.args]
            pe = PE({a[0]: ('I', 'k'), a[1]: ('I', 'lo'), a[2]: ('I', 'hi')}, consts, {})
            pe.plain_return = True
            r = pe.run(node.body, lenient=True)
            if r is None or r[0] != 'I':
                raise Untranslatable('no integer result')
            return emit(lean_name, '(k lo hi : Int)', pe, r, '`utils.%s(x, val_min, val_max)` on one (integer) element' % fname)
        attempt(lean_name, fclip)

    # ------------------------------------------------------------------------------------------ _round: which NumPy function each rule calls
    if meth:
        def fround():
            node = meth.get('_round')
            if node is None:
                raise Untranslatable('Fxp._round not found')
            a = [p.arg for p in node.args.args]
            table = []

            def walk(stmts):
                for st in stmts:
                    if isinstance(st, ast.If):
                        t = st.test
                        if isinstance(t, ast.Compare) and len(t.ops) == 1 and isinstance(t.ops[0], ast.Eq) and isinstance(t.left, ast.Name) \
                                and t.left.id == a[2] and isinstance(t.comparators[0], ast.Constant) and isinstance(t.comparators[0].value, str):
                            body = [b for b in st.body if not (isinstance(b, ast.Expr) and isinstance(b.value, ast.Constant))]
                            if len(body) == 1 and isinstance(body[0], ast.Assign) and isinstance(body[0].value, ast.Call) \
                                    and ast.unparse(body[0].value.func).startswith('np.') and len(body[0].value.args) == 1 \
                                    and isinstance(body[0].value.args[0], ast.Name) and body[0].value.args[0].id == a[1] and not body[0].value.keywords:
                                table.append((t.comparators[0].value, ast.unparse(body[0].value.func)[3:]))
                            else:
                                raise Untranslatable("the branch of rounding '%s' is not `rval = np.<function>(val)`" % t.comparators[0].value)
                        walk(st.orelse)
            walk(node.body)
            if not table:
                raise Untranslatable('no `method == <name>` branches found in _round')
            return ('/-- `Fxp._round`: the NumPy function applied to a float array for each rounding rule (integer and object arrays are returned as they are) -/\n'
                    'def roundTable : List (String × String) :=\n  [%s]' % ', '.join('("%s", "%s")' % p_ for p_ in table))
        attempt('roundTable', fround)

        def fround_exact():
            # the branch of `_round` for exact rationals (fractions.Fraction, D41): `{<rule>: <python function>, ...}[method](val)`
            node = meth.get('_round')
            if node is None:
                raise Untranslatable('Fxp._round not found')
            a = [p.arg for p in node.args.args]
            found = []

            def walk(stmts):
                for st in stmts:
                    if isinstance(st, ast.If):
                        t = st.test
                        if isinstance(t, ast.Call) and getattr(t.func, 'id', None) == 'isinstance' and len(t.args) == 2 \
                                and isinstance(t.args[0], ast.Name) and t.args[0].id == a[1] and ast.unparse(t.args[1]) == 'Fraction':
                            for b in st.body:
                                if isinstance(b, ast.Assign) and isinstance(b.value, ast.Call) and isinstance(b.value.func, ast.Subscript) \
                                        and isinstance(b.value.func.value, ast.Dict) and isinstance(b.value.func.slice, ast.Name) \
                                        and b.value.func.slice.id == a[2] and len(b.value.args) == 1 and isinstance(b.value.args[0], ast.Name) \
                                        and b.value.args[0].id == a[1] and not b.value.keywords:
                                    d = b.value.func.value
                                    if not all(isinstance(k, ast.Constant) and isinstance(k.value, str) for k in d.keys):
                                        raise Untranslatable('keys of the rational rounding table are not string constants')
                                    found.append([(k.value, ast.unparse(v)) for k, v in zip(d.keys, d.values)])
                        walk(st.orelse)
            walk(node.body)
            if len(found) != 1:
                raise Untranslatable('the rational branch of _round is not `{...}[method](val)` (found %d tables)' % len(found))
            return ('/-- `Fxp._round` on an exact rational (`fractions.Fraction`): the python function applied for each rounding rule -/\n'
                    'def roundRationalTable : List (String × String) :=\n  [%s]' % ', '.join('("%s", "%s")' % p_ for p_ in found[0]))
        attempt('roundRationalTable', fround_exact)

    # ------------------------------------------------------------------------------------------ _overflow_action
    if meth and ufuncs:
        def fflags():
            node = meth.get('_overflow_action')
            if node is None:
                raise Untranslatable('Fxp._overflow_action not found')
            a = [p.arg for p in node.args.args]
            pe = PE({'self': ('O', 'x'), a[1]: ('I', 'k'), a[2]: ('I', 'lo'), a[3]: ('I', 'hi')}, dict(consts, __identity__=('np.any',)), {})
            found = {}

            def walk(stmts, path):
                for st in stmts:
                    if isinstance(st, ast.If):
                        touches = any(isinstance(n, ast.Subscript) and isinstance(n.ctx, ast.Store) and ast.unparse(n.value) == 'self.status' for n in ast.walk(st))
                        if not touches:
                            continue
                        t = pe.ev(st.test)
                        if is_const(t):
                            walk(st.body if t[1] else st.orelse, path)
                        else:
                            walk(st.body, path + [to_lean_bool(t)])
                            walk(st.orelse, path + ['(!%s)' % to_lean_bool(t)])
                    elif isinstance(st, ast.Assign) and len(st.targets) == 1 and isinstance(st.targets[0], ast.Subscript) \
                            and ast.unparse(st.targets[0].value) == 'self.status' and isinstance(st.targets[0].slice, ast.Constant):
                        key = st.targets[0].slice.value
                        if not (isinstance(st.value, ast.Constant) and st.value.value is True):
                            raise Untranslatable('status[%r] is assigned something else than True' % key)
                        cond = '(' + ' && '.join(path) + ')' if path else 'true'
                        found[key] = cond if key not in found else '(%s || %s)' % (found[key], cond)
            walk(node.body, [])
            if set(found) != {'overflow', 'underflow'}:
                raise Untranslatable('flags assigned: %s' % sorted(found))
            return ('/-- the conditions under which `Fxp._overflow_action` raises `status[\'overflow\']` / `status[\'underflow\']` for one rounded element `k` -/\n'
                    'def overflowFlags (k lo hi : Int) : Bool × Bool :=\n  (%s, %s)' % (found['overflow'], found['underflow']))
        attempt('overflowFlags', fflags)

        for mode in ('saturate', 'wrap'):
            def fact(mode=mode):
                node = meth.get('_overflow_action')
                if node is None:
                    raise Untranslatable('Fxp._overflow_action not found')
                a = [p.arg for p in node.args.args]
                c2 = dict(consts, __utils__=ufuncs, __identity__=('np.any',))
                c2['self.config.overflow'] = mode
                pe = PE({'self': ('O', 'x'), a[1]: ('I', 'k'), a[2]: ('I', 'lo'), a[3]: ('I', 'hi')}, c2, {})
                pe.plain_return = True
                r = pe.run(node.body, lenient=True)
                if r is None or r[0] != 'I':
                    raise Untranslatable('no integer result')
                return emit('overflowAction_%s' % mode, '(xs : Bool) (xw xi xf : Int) (k lo hi : Int)', pe, r,
                            "the value `Fxp._overflow_action` returns for one rounded element `k` when `config.overflow == '%s'`" % mode)
            attempt('overflowAction_' + mode, fact)

    head = ('import FxpVerif.Model.Reduce\nimport Mathlib.Data.Int.Bitwise\n'
            '/-! # GENERATED by harness/srcgen.py from fxpmath/functions.py — do not edit\n'
            'One definition per Python rule, one `let` per Python assignment, in source order.\n'
            '`x.signed, x.n_word, x.n_int, x.n_frac` are the parameters `xs xw xi xf` (same for `y`), `k` is the number of\n'
            'accumulated elements (`x.size`, `x.shape[-1]`, `a.shape[axis]`, the length of the diagonal),\n'
            '`int(np.ceil(np.log2(k)))` is `Fxp.clog2`, `_n_word_max` is 64. -/\n'
            'set_option linter.unusedVariables false\n'
            'namespace Fxp.Gen\n\n')
    return head + '\n\n'.join(defs) + '\n\nend Fxp.Gen\n', problems


if __name__ == '__main__':
    text, problems = generate()
    if '--write' in sys.argv:
        path = os.path.join(os.path.dirname(os.path.dirname(os.path.abspath(__file__))), 'lean', 'FxpVerif', 'Gen', 'Sizing.lean')
        os.makedirs(os.path.dirname(path), exist_ok=True)
        open(path, 'w').write(text)
        print('wrote', path)
    else:
        sys.stdout.write(text)
    for k, v in problems.items():
        print('UNTRANSLATABLE %s: %s' % (k, v), file=sys.stderr)
