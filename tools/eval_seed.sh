#!/bin/bash
# tools/eval_seed.sh <worktree> <demo.py> [tier] [IDs...] — confirm a seeded change (tests pass, demo fails with / passes without)
# and run the checks against that tree (FXP_REPO) without touching /repo.
wt=$1; demo=$2; tier=${3:-quick}; shift 3
ids=${@:-C01 C02 C03 C04 C05 C06 C07 C08 C09 C10 C11 C12 C13 C14 C15 C16 C17 C18 C19 C20}
cd "$(dirname "$0")/.."
echo "== baseline on $wt"; tools/baseline.py $wt
echo "== demo with change"; (cd $wt && PYTHONPATH=$wt /venv/bin/python $demo >/dev/null 2>&1; echo "exit $?")
(cd $wt && git stash -q && PYTHONPATH=$wt /venv/bin/python $demo >/dev/null 2>&1; echo "== demo without change: exit $?"; git stash pop -q)
echo "== checks ($tier) against $wt"
printf "%s\n" $ids | xargs -P 5 -I{} bash -c "out=\$(FXP_REPO=$wt VERIF_SKIP_LEANCHECKER=1 ./check {} $tier 2>&1); rc=\$?; echo \"{} rc=\$rc \$(echo \"\$out\" | grep -E '^VIOLATION' | head -1 | cut -c1-120)\"; echo \"\$out\" | grep -E 'failing input' | head -1 | cut -c1-260" | sort
