"""C01 — storing quantizes exactly: scale, round, saturate/wrap; read-back exact; every carrier and route."""
from fractions import Fraction
import numpy as np
from ..env import Fxp, frac, parse_list, tok_list, tok_exact, flat, lims, ROUNDS, OVFS, exc_token
from .. import carriers as C
from .. import gen as G

TRUSTED_BASE = [
    'Lean 4.33.0 kernel; axioms propext, Classical.choice, Quot.sound only (audited per theorem on every run)',
    'Mathlib v4.33.0 modules imported by the proof files',
    'hand-written model FxpVerif/Model/Core.lean (scale, roundR, sat, wrap, quantize, valueOf)',
    'correspondence harness (Python generators, canonicalisation, Driver.lean parser/printer); agreement is established on generated inputs only',
    'IEEE-754 binary64 operations are exact when the result is representable; np.around = half-to-even',
]
ASSUMPTIONS = [
    'the convergence of all carriers and routes on one numeric path is established by correspondence, not by a theorem',
    'inputs are dyadic rationals that each carrier represents exactly (asserted with Fractions by the generator)',
]
RULE = ('lines are (format, rounding, overflow, carrier, route, list of exact inputs); exhaustive part: every quarter-LSB input over '
        '3x the range of every format with n_word<=4 (quick) / <=6 (thorough), -8<=n_frac<=n_word+8, all 10 modes; random part: '
        'core-domain formats to 52 bits, inputs near bounds/ties/codes, all carriers x routes; plus complex inputs and huge floats under '
        'saturate. distinct = distinct line; non-trivial = some element is not an in-range code of the format (rounding or overflow acted)')


def exec_Q1(t):
    s, n, f, r, o, carrier, route, vt = t
    signed, n, f = s == 's', int(n), int(f)
    vals = [frac(x) for x in parse_list(vt)]
    obj, shape = C.build(carrier, vals)
    try:
        x = C.store(route, obj, shape, signed, n, f, rounding=r, overflow=o)
    except Exception as e:
        return [exc_token(e)]
    return C.observe_codes_vals(x)


def exec_QC(t):
    """complex input: `QC fmt r o kind route [re...] [im...]` -> [re codes] [im codes] [re readback] [im readback]"""
    s, n, f, r, o, kind, route, ret, imt = t
    signed, n, f = s == 's', int(n), int(f)
    re_ = [frac(x) for x in parse_list(ret)]
    im_ = [frac(x) for x in parse_list(imt)]
    from ..env import to_float
    zs = [complex(to_float(a), to_float(b)) for a, b in zip(re_, im_)]
    if kind == 'pycomplex':
        obj, shape = zs[0], ()
    elif kind == 'arr.complex128':
        obj, shape = np.array(zs, dtype=np.complex128), (len(zs),)
    elif kind == 'arr.complex64':
        obj, shape = np.array(zs, dtype=np.complex64), (len(zs),)
    elif kind == 'list':
        obj, shape = list(zs), (len(zs),)
    else:
        raise ValueError(kind)
    try:
        if route == 'ctor':
            x = Fxp(obj, signed, n, f, rounding=r, overflow=o)
        else:
            x = Fxp(np.zeros(shape, dtype=complex) if shape else 0j, signed, n, f, rounding=r, overflow=o)
            if route == 'call':
                x(obj)
            else:
                x.set_val(obj)
    except Exception as e:
        return [exc_token(e)]
    cs = flat(x.val)
    v = flat(x.get_val())
    def ints(parts):
        out = []
        for p in parts:
            out.append(str(int(p)) if float(p) == int(p) else 'nonint')
        return tok_list(out)
    return [ints([c.real for c in cs]), ints([c.imag for c in cs]),
            tok_list([tok_exact(z.real) for z in v]), tok_list([tok_exact(z.imag) for z in v])]


EXEC = {'Q1': exec_Q1, 'QC': exec_QC}


def _line(signed, n, f, r, o, carrier, route, vals):
    return 'Q1 %s %d %d %s %s %s %s %s' % ('s' if signed else 'u', n, f, r, o, carrier, route, G.vals_tok(vals))


def _pick_carrier(rng, vals, scalar):
    cands = [c for c in (C.SCALAR_CARRIERS if scalar else C.ARRAY_CARRIERS)
             if (not c.startswith(('arr2', 'nested')) or len(vals) % 2 == 0) and C.ok_for(c, vals)]
    return rng.choice(cands) if cands else None


def generate(tier, rng):
    maxw = 4 if tier == 'quick' else 6
    # exhaustive: every quarter-LSB point, 3x range, all modes, batched as float64 arrays
    for signed, n, f in G.small_formats(maxw):
        pts = G.quarter_points(signed, n, f)
        for r, o in G.modes():
            yield _line(signed, n, f, r, o, 'arr.float64', 'ctor', pts)
        # the same points as scalars for the narrowest formats (0-d path differs from n-d in NumPy)
        if n <= (2 if tier == 'quick' else 4):
            for r, o in G.modes():
                if rng.random() < (0.25 if tier == 'quick' else 0.5):
                    for v in pts:
                        c = _pick_carrier(rng, [v], True)
                        yield _line(signed, n, f, r, o, c, rng.choice(C.ROUTES), [v])
    # random core-domain cases over all carriers and routes
    nrand = 6000 if tier == 'quick' else 120000
    for _ in range(nrand):
        signed, n, f = G.rand_format(rng)
        r, o = rng.choice(ROUNDS), rng.choice(OVFS)
        scalar = rng.random() < 0.6
        k = 1 if scalar else rng.choice([2, 2, 4, 6])
        vals = []
        wide = rng.random() < 0.2
        for _ in range(k):
            x = G.rand_scaled_wide(rng, f) if wide else G.rand_scaled(rng, signed, n)
            v = x / Fraction(2) ** f
            if G.in_c01_domain(n, f, v):
                vals.append(v)
        if len(vals) != k:
            continue
        c = _pick_carrier(rng, vals, scalar)
        if c is None:
            continue
        yield _line(signed, n, f, r, o, c, rng.choice(C.ROUTES), vals)
    # integers (exercise the integer carriers and the int64 path)
    for _ in range(nrand // 4):
        signed, n, f = G.rand_format(rng)
        r, o = rng.choice(ROUNDS), rng.choice(OVFS)
        lo, hi = lims(signed, n)
        scalar = rng.random() < 0.5
        k = 1 if scalar else rng.choice([2, 4])
        vals = []
        for _ in range(k):
            base = rng.choice([0, 1, -1, rng.randint(-300, 300), (hi >> max(f, 0)) + rng.randint(-2, 2),
                               (lo >> max(f, 0)) + rng.randint(-2, 2), rng.randint(-2 ** 20, 2 ** 20)])
            v = Fraction(base)
            if G.in_c01_domain(n, f, v):
                vals.append(v)
        if len(vals) != k:
            continue
        c = _pick_carrier(rng, vals, scalar)
        if c is None:
            continue
        yield _line(signed, n, f, r, o, c, rng.choice(C.ROUTES), vals)
    # float inputs of any finite magnitude under saturate with n_frac >= 0
    for _ in range(300 if tier == 'quick' else 5000):
        signed, n, f = G.rand_format(rng, fmin=0)
        r = rng.choice(ROUNDS)
        e = rng.randint(40, 1023)
        if rng.random() < 0.4:
            e = rng.randint(60, 66) - f           # the scaled value lands around 2^63 / 2^64, where the 64-bit integer types end
        m = rng.randint(2 ** 52, 2 ** 53 - 1)
        v = Fraction(m) * Fraction(2) ** (e - 52) * rng.choice([1, -1])
        from ..env import is_exact_float
        if not is_exact_float(v):
            continue
        scalar = rng.random() < 0.5
        yield _line(signed, n, f, r, 'saturate', 'pyfloat' if scalar else 'arr.float64', rng.choice(C.ROUTES if scalar else ('ctor', 'call', 'setval')), [v] if scalar else [v, -v])
        # a huge element next to ordinary fractional ones in the same container: every element is still rounded by the configured rule
        small = []
        for _ in range(rng.choice([1, 2, 3])):
            x = G.rand_scaled(rng, signed, n)
            w = x / Fraction(2) ** f
            if G.in_c01_domain(n, f, w) and is_exact_float(w):
                small.append(w)
        if small:
            vals = small + [v]
            rng.shuffle(vals)
            car = rng.choice(['arr.float64', 'list', 'tuple'])
            if C.ok_for(car, vals):
                yield _line(signed, n, f, r, 'saturate', car, rng.choice(('ctor', 'call', 'setval')), vals)
    # extended-precision inputs (np.longdouble scalars and arrays): a code plus or minus a sliver that a double cannot hold,
    # so a conversion through float() before the quantization shows up under floor / ceil / trunc
    if C.LD_MANT > 53:
        for _ in range(400 if tier == 'quick' else 8000):
            signed, n, f = G.rand_format(rng, max_word=30)
            r, o = rng.choice(ROUNDS), rng.choice(OVFS)
            lo, hi = lims(signed, n)
            k = rng.choice([1, 1, 2, 3])
            vals = []
            for _ in range(k):
                c = rng.choice([rng.randint(lo, hi), rng.randint(lo, hi), 0, 1, -1 if signed else 1, lo, hi])
                j = rng.randint(54, 63) - max(abs(c).bit_length(), 1)
                v = (Fraction(c) + rng.choice([1, -1]) * Fraction(1, 2 ** j)) / Fraction(2) ** f
                vals.append(v)
            car = rng.choice(['np.longdouble', 'fxp']) if k == 1 else rng.choice(['arr.longdouble', 'arr.fxp'])     # (the fxp carrier holds them as raw codes of a wide source)
            if all(G.in_c01_domain(n, f, v) for v in vals) and C.ok_for(car, vals):
                yield _line(signed, n, f, r, o, car, rng.choice(C.ROUTES if k == 1 else ('ctor', 'call', 'setval', 'tmpl')), vals)
    # subnormal doubles into formats with a negative fraction length: the scaling v*2^n_frac must not lose the sign of a non-zero value
    for _ in range(150 if tier == 'quick' else 3000):
        signed, n, f = G.rand_format(rng)
        if f >= 0:
            f = -rng.randint(1, 8)
        r, o = rng.choice(ROUNDS), rng.choice(OVFS)
        k = rng.choice([1, 1, 2, 3])
        vals = [Fraction(rng.choice([1, 1, 2, 3, rng.randint(1, 2 ** 10)]) * rng.choice([1, -1] if signed else [1]), 2 ** 1074) for _ in range(k)]
        car = rng.choice(['pyfloat', 'np.float64', 'arr0d']) if k == 1 else rng.choice(['arr.float64', 'list', 'tuple'])
        if C.ok_for(car, vals):
            yield _line(signed, n, f, r, o, car, rng.choice(C.ROUTES), vals)
    # complex inputs
    for _ in range(400 if tier == 'quick' else 8000):
        signed, n, f = G.rand_format(rng, max_word=40, fextra=4)
        r, o = rng.choice(ROUNDS), rng.choice(OVFS)
        kind = rng.choice(['pycomplex', 'arr.complex128', 'list'])
        k = 1 if kind == 'pycomplex' else rng.choice([1, 2, 3])
        re_, im_ = [], []
        from ..env import is_exact_float
        for _ in range(k):
            a = G.rand_scaled(rng, signed, n) / Fraction(2) ** f
            b = G.rand_scaled(rng, signed, n) / Fraction(2) ** f
            if G.in_c01_domain(n, f, a) and G.in_c01_domain(n, f, b) and is_exact_float(a) and is_exact_float(b):
                re_.append(a); im_.append(b)
        if len(re_) != k:
            continue
        yield 'QC %s %d %d %s %s %s %s %s %s' % ('s' if signed else 'u', n, f, r, o, kind, rng.choice(['ctor', 'call', 'setval']),
                                                 G.vals_tok(re_), G.vals_tok(im_))
        # one component of any finite magnitude (saturate, n_frac >= 0), the other an ordinary one: each component is quantized on its own
        if f >= 0 and k >= 1 and rng.random() < 0.5:
            e = rng.choice([rng.randint(60, 1023), 1023 - rng.randint(0, f), 1023])      # (often large enough for the scaled value to leave the double range)
            big = Fraction(rng.randint(2 ** 52, 2 ** 53 - 1)) * Fraction(2) ** (e - 52) * rng.choice([1, -1] if signed else [1])
            if is_exact_float(big):
                re2, im2 = list(re_), list(im_)
                if rng.random() < 0.5:
                    re2[0] = big
                else:
                    im2[0] = big
                yield 'QC %s %d %d %s saturate %s %s %s %s' % ('s' if signed else 'u', n, f, r, kind, rng.choice(['ctor', 'call', 'setval']),
                                                              G.vals_tok(re2), G.vals_tok(im2))


def nontrivial(full_line, model):
    # model: "[codes] [vals]" ; input values in the line; non-trivial iff some read-back differs from its input
    t = full_line.split(' | ')[0].split()
    if t[0] == 'Q1':
        return parse_list(t[8]) != parse_list(model.split()[1]) if len(model.split()) > 1 else True
    return True


def kf_class(t):
    return None


def debug_class(t):
    return ' '.join([t[0], t[6], t[7]])


def stats(verdicts):
    dist = {}
    elements = 0
    for v in verdicts:
        if v[0] == 'SKIP':
            continue
        t = v[1].split(' | ')[0].split()
        n = int(t[2])
        b = 'w<=6' if n <= 6 else 'w<=16' if n <= 16 else 'w<=32' if n <= 32 else 'w<=52'
        for k in ('op:' + t[0], 'word:' + b, 'signed:' + t[1], 'round:' + t[4], 'ovf:' + t[5], 'carrier:' + t[6], 'route:' + t[7]):
            dist[k] = dist.get(k, 0) + 1
        elements += len(parse_list(t[8]))
    return {'distribution': dist, 'elements': elements, 'exhaustive': True,
            'exhaustive_subdomains': ['every quarter-LSB input over 3x range, every format n_word<=4 (quick) / <=6 (thorough), -8<=n_frac<=n_word+8, all 10 modes (float64 array carrier, constructor)']}

TECHNIQUE = 'Lean 4 theorems (spec_iff: relational OVERFLOW(ROUND(v*2^f)) <-> model quantize; store paths = quantize) + differential correspondence of the model with the implementation over all carriers/routes'
LEVEL_TEXT = ('Machine-checked: for every format (any n_word>=1, any n_frac), mode and rational input the model\'s stored code is the unique integer '
              'satisfying the relational statement OVERFLOW(ROUND(v*2^n_frac)) (each rounding rule and saturate/wrap characterised, not defined), the read-back is code*2^-n_frac, '
              'and the integer/float/raw/complex/array code paths of set_val all equal it. The model is tied to /repo by executing generated inputs '
              '(exhaustive quarter-LSB grids of small formats, boundary-directed random core-domain cases, every carrier x route) on the real library and comparing with the model.')
LEVEL_NOTE = ('Trusted: Lean kernel + propext/Classical.choice/Quot.sound; the hand-written model is validated against the code only on generated inputs; '
              'float operations are assumed exact when the result is representable (true in the core domain); carrier/route convergence is by correspondence only.')
