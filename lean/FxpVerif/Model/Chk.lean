import FxpVerif.Model.Store
import FxpVerif.Model.Dtype
/-!
# Decidable checkers run by the driver on the implementation's observed outputs

Each `chkXX` is proved equivalent to (or to imply) the corresponding `Spec` in `Props/CXX.lean`.
Core Lean only, so the compiled driver can link them.
-/
namespace Fxp.Chk
open Fxp

/-- C01: observed code and read-back value against the reference quantizer. -/
def c01 (f : Fmt) (r : Rounding) (o : Overflow) (v : Rat) (c : Int) (x : Rat) : Bool :=
  decide (c = quantize f r o v) && decide (x = valueOf f c)

def absR (x : Rat) : Rat := if x < 0 then -x else x

/-- C03: the stored code is in range and congruent to the rounded input `k` modulo `2^n_word`. -/
def c03 (f : Fmt) (k c : Int) : Bool :=
  decide (f.lo ≤ c ∧ c ≤ f.hi) && decide ((c - k) % (2 ^ f.nword) = 0)

/-- C05: directional contract of each rounding mode, `x` the exact scaled input, `q` the observed code. -/
def c05round (r : Rounding) (x : Rat) (q : Int) : Bool :=
  match r with
  | .floor  => decide ((q:Rat) ≤ x ∧ x < (q:Rat) + 1)
  | .ceil   => decide ((q:Rat) - 1 < x ∧ x ≤ (q:Rat))
  | .trunc  => decide ((0 ≤ x → (q:Rat) ≤ x ∧ x < (q:Rat) + 1) ∧ (x < 0 → (q:Rat) - 1 < x ∧ x ≤ (q:Rat)))
  | .fix    => decide ((0 ≤ x → (q:Rat) ≤ x ∧ x < (q:Rat) + 1) ∧ (x < 0 → (q:Rat) - 1 < x ∧ x ≤ (q:Rat)))
  | .around => decide (absR ((q:Rat) - x) ≤ 1/2 ∧ (absR ((q:Rat) - x) = 1/2 → q % 2 = 0))

/-- C05: error strictly below one LSB (in scaled units: below 1). -/
def c05err (x : Rat) (q : Int) : Bool := decide (absR ((q:Rat) - x) < 1)

/-- C05: a non-overflowing input (exact scaled value inside `[lo, hi]`) must be stored in range, on the
right side, within one LSB. Inputs that overflow are not constrained by C05. -/
def c05 (f : Fmt) (r : Rounding) (v : Rat) (c : Int) : Bool :=
  let x := scale v f.nfrac
  if (f.lo : Rat) ≤ x ∧ x ≤ (f.hi : Rat) then
    decide (f.lo ≤ c ∧ c ≤ f.hi) && c05round r x c && c05err x c
  else true

/-- C05 monotonicity: the observed codes of a non-decreasing input list are non-decreasing. -/
def sortedInt : List Int → Bool
  | [] => true
  | [_] => true
  | a :: b :: t => decide (a ≤ b) && sortedInt (b :: t)

/-- C09: a stored quotient code `c` for exact scaled quotient `Q`: exact when representable, otherwise one
of the two neighbours; in range of the result format. -/
def c09quot (t : Fmt) (Q : Rat) (c : Int) : Bool :=
  decide (t.lo ≤ c ∧ c ≤ t.hi) && decide ((c:Rat) - 1 < Q ∧ Q < (c:Rat) + 1)

/-! ### C06: closed-form specification of the inferred sizes (independent of the search loops) -/

/-- fraction bits a dyadic rational needs: `log2` of its (power-of-two) denominator. -/
def needFracOne (v : Rat) : Nat := Nat.log2 v.den

def needFrac : List Rat → Nat
  | [] => 0
  | v :: t => max (needFracOne v) (needFrac t)

/-- `k` fits `n` magnitude bits (two's-complement asymmetry: `-2^n` fits, `2^n` does not). -/
def fitsBits (k : Int) (n : Nat) : Bool := if 0 ≤ k then decide (k < 2 ^ n) else decide (-(2 ^ n : Int) ≤ k)

/-- least `n ≤ fuel` such that every integer fits `n` magnitude bits. -/
def needBitsFrom (ks : List Int) : Nat → Nat → Nat
  | 0, n => n
  | fuel + 1, n => if ks.all (fun k => fitsBits k n) then n else needBitsFrom ks fuel (n + 1)

def needBits (ks : List Int) : Nat := needBitsFrom ks 128 0

def truncR (x : Rat) : Int := if x < 0 then x.ceil else x.floor

/-- the sizes the property prescribes, given what the caller fixed (after `n_int` reconciliation). -/
def specSizes (signed : Bool) (vals : List Rat) (nword nfrac : Option Int) : Int × Int :=
  let s : Int := if signed then 1 else 0
  let F0 : Int := match nfrac with
    | some f => f
    | none => (needFrac vals : Nat)
  let ks := vals.map (fun v => truncR (if 0 ≤ F0 then v * (2 ^ F0.toNat : Nat) else v / (2 ^ (-F0).toNat : Nat)))
  let I : Int := max ((needBits ks : Nat) - F0) 0
  match nword with
  | none => let f := min (64 - s - I) F0; (min (f + I + s) 64, f)
  | some w => (min w 64, min (w - s - I) F0)

/-- C02: well-formedness of one produced object as observed on the implementation:
codes in range, `n_int`, `upper`/`lower`/`precision` (through scale and bias), dtype spelling. -/
def c02 (f : Fmt) (cx : Bool) (sc bi : Rat) (nint : Int) (upper lower prec : Rat) (dtype : String) (cs : List Int) : Bool :=
  cs.all (fun c => decide (f.lo ≤ c ∧ c ≤ f.hi)) &&
  decide (nint = f.nint) &&
  decide (upper = sc * valueOf f f.hi + bi) &&
  decide (lower = sc * valueOf f f.lo + bi) &&
  decide (prec = sc * valueOf f 1) &&
  decide (dtype.toList = renderFxp f cx)

/-- C02: under saturate an out-of-range input of any magnitude is stored as the bound on its own side. -/
def c02side (f : Fmt) (v : Rat) (c : Int) : Bool :=
  (if valueOf f f.hi < v then decide (c = f.hi) else true) &&
  (if v < valueOf f f.lo then decide (c = f.lo) else true) &&
  decide (f.lo ≤ c ∧ c ≤ f.hi)

end Fxp.Chk
