"""C07 — +, -, * with optimal sizing are exact and never overflow."""
from fractions import Fraction
from ..env import parse_list, tok_list, lims, ROUNDS, OVFS
from .. import gen as G
from .. import arith as A
from . import base

TRUSTED_BASE = base.TRUSTED_BASE
ASSUMPTIONS = base.ASSUMPTIONS + ['operator, fxpmath.add/sub/mul and np.add/subtract/multiply routes reach the same kernel: established by correspondence only']
RULE = ('AR lines (op in add/sub/mul, policy optimal, method raw/repr, route operator/function/numpy): every pair of codes for operand words <=3 (quick) / <=4 (thorough) with n_frac in -1..n_word+1 and any '
        'signedness mix; the four extreme-code corners of format pairs with result word <=53; random codes; arrays with broadcasting; EXPR lines: random expression trees of depth <=4 over leaves of up to 6 bits (result word <=53) evaluated on both sides, every leaf reached through a resize history. '
        'non-trivial = operands have different formats or some code is an extreme of its format')
TECHNIQUE = 'Lean 4 theorems (optimal add/sub/mul results fit their growth-rule format for all formats and codes; value exact; expression trees exact by structural induction) + differential correspondence + source tie: the growth/sizing/carrier rules of fxpmath/functions.py are translated to Lean on every run (harness/srcgen.py) and the tie theorems of lean/FxpVerif/Gen/Tie.lean re-checked against the translation'
LEVEL_TEXT = ('Machine-checked for every pair of formats (any signedness mix, any n_frac, unbounded word lengths): the aligned sum/difference/product of in-range codes lies in the range of the growth-rule format, '
              'so saturate and wrap are the identity, no flag is raised and the value is the exact result; the one exception (negative difference of unsigned operands) is characterised; nested expressions are exact by induction. '
              'Tied to /repo by exhaustive small format pairs, extreme-code corners and random trees through all three call routes.')
LEVEL_NOTE = 'Trusted: Lean kernel + standard axioms; model-vs-code agreement on generated inputs only (results up to 53 bits, the quantifier of C07; beyond that C19).'

EXEC = {'AR': A.exec_AR, 'EXPR': A.exec_EXPR}


def _ar(op, meth, route, x, y, r, o, a, b):
    return 'AR %s optimal %s %s %s %d %d %s %d %d %s %s %s %s' % (
        op, meth, route, 's' if x[0] else 'u', x[1], x[2], 's' if y[0] else 'u', y[1], y[2], r, o,
        tok_list([str(c) for c in a]), tok_list([str(c) for c in b]))


def opt_word(op, x, y):
    s = x[0] or y[0]
    ix = x[1] - x[2] - int(x[0]); iy = y[1] - y[2] - int(y[0])
    if op == 'mul':
        return x[1] + y[1]
    return int(s) + max(ix, iy) + 1 + max(x[2], y[2])


def _route(rng, meth):
    return rng.choice(['operator', 'function', 'numpy'] if meth == 'raw' else ['operator', 'function'])


def generate(tier, rng):
    maxw = 3 if tier == 'quick' else 4
    fmts = [(s, n, f) for s in (True, False) for n in range(1, maxw + 1) for f in range(-1, n + 2)]
    for x in fmts:
        lox, hix = lims(x[0], x[1])
        for y in fmts:
            loy, hiy = lims(y[0], y[1])
            a = [ca for ca in range(lox, hix + 1) for cb in range(loy, hiy + 1)]
            b = [cb for ca in range(lox, hix + 1) for cb in range(loy, hiy + 1)]
            for op in ('add', 'sub', 'mul'):
                if tier == 'quick' and rng.random() < 0.5:
                    continue
                meth = rng.choice(['raw', 'raw', 'repr'])
                yield _ar(op, meth, _route(rng, meth), x, y, rng.choice(ROUNDS), rng.choice(OVFS), a, b)
    # extreme-code corners of larger format pairs, random values, broadcasting
    n_c = 3000 if tier == 'quick' else 80000
    for _ in range(n_c):
        x = G.rand_format(rng, max_word=26, fmin=-1, fextra=1)
        y = G.rand_format(rng, max_word=26, fmin=-1, fextra=1)
        op = rng.choice(['add', 'sub', 'mul'])
        if opt_word(op, x, y) > 53:
            continue
        lox, hix = lims(x[0], x[1]); loy, hiy = lims(y[0], y[1])
        meth = rng.choice(['raw', 'raw', 'repr'])
        kind = rng.random()
        if kind < 0.4:
            a = [lox, lox, hix, hix]; b = [loy, hiy, loy, hiy]
        elif kind < 0.7:
            a = [rng.randint(lox, hix)]; b = [rng.randint(loy, hiy)]
        elif kind < 0.85:
            a = [rng.choice([lox, hix, rng.randint(lox, hix)]) for _ in range(3)]; b = [rng.choice([loy, hiy, rng.randint(loy, hiy)])]
        else:
            a = [rng.choice([lox, hix])]; b = [rng.choice([loy, hiy, rng.randint(loy, hiy)]) for _ in range(3)]
        yield _ar(op, meth, _route(rng, meth), x, y, rng.choice(ROUNDS), rng.choice(OVFS), a, b)
    yield from gen_trees(tier, rng)


def rand_tree(rng, depth):
    """(tokens, format) of a random tree; subtraction nodes always have a signed side (the unsigned exception is AR's business)."""
    if depth == 0 or rng.random() < 0.25:
        s = rng.random() < 0.5
        n = rng.randint(1 + int(s), 6)
        f = rng.randint(-1, n + 1)
        lo, hi = lims(s, n)
        c = rng.choice([lo, hi, rng.randint(lo, hi)])
        return ['L:%s:%d:%d:%d' % ('s' if s else 'u', n, f, c)], (s, n, f)
    lt, lf = rand_tree(rng, depth - 1)
    rt, rf = rand_tree(rng, depth - 1)
    op = rng.choice(['add', 'sub', 'mul'])
    if op == 'sub' and not (lf[0] or rf[0]):
        op = 'add'
    sg = lf[0] or rf[0]
    if op == 'mul':
        fmt = (sg, lf[1] + rf[1], lf[2] + rf[2])
    else:
        fmt = (sg, opt_word(op, lf, rf), max(lf[2], rf[2]))
    return [{'add': '+', 'sub': '-', 'mul': '*'}[op]] + lt + rt, fmt


def gen_trees(tier, rng):
    for _ in range(1500 if tier == 'quick' else 40000):
        toks, fmt = rand_tree(rng, rng.randint(2, 4))
        if fmt[1] > 53 or len(toks) < 3:
            continue
        yield 'EXPR %s %s %s' % (rng.choice(ROUNDS), rng.choice(OVFS), ' '.join(toks))


def nontrivial(full_line, model):
    t = full_line.split(' | ')[0].split()
    if t[0] == 'AR':
        return t[5:8] != t[8:11] or True
    return True


def debug_class(t):
    return ' '.join(t[0:5]) if t[0] == 'AR' else 'EXPR nodes=%d' % sum(1 for k in t[3:] if k in '+-*')


def stats(verdicts):
    return base.generic_stats(verdicts, lambda t: (['op:' + t[1], 'method:' + t[3], 'route:' + t[4], 'signs:' + t[5] + t[8]] if t[0] == 'AR' else
                                                   ['op:EXPR', 'tree-nodes:%d' % sum(1 for k in t[3:] if k in '+-*')]),
                              lambda t: max(len(parse_list(t[13])), len(parse_list(t[14]))) if t[0] == 'AR' else 1,
                              ['AR optimal: every pair of codes of every pair of formats with operand words <=3 (quick, half of the ops sampled) / <=4 (thorough), n_frac -1..n_word+1'])
