"""C09 — division family: quotient within one LSB (exact when representable), exact floor-division and modulo."""
from fractions import Fraction
from ..env import parse_list, tok_list, lims, ROUNDS, OVFS
from .. import arith as A
from . import base

TRUSTED_BASE = base.TRUSTED_BASE
ASSUMPTIONS = base.ASSUMPTIONS + [
                                  'for the repr method of `/` only the relational statement is checked (the float quotient may round either way)']
RULE = ('DV lines (truediv/floordiv/mod, optimal sizing, raw/repr, operator/function/numpy routes): every pair of codes with non-zero divisor for all format pairs with n_word<=3 (quick) / <=5 (thorough), '
        '-2<=n_frac<=n_word+2 (fraction lengths beyond the word and negative ones included), under trunc/floor/around; random pairs with result word <=53. non-trivial = the exact quotient is not representable (truediv) or the operands have different formats / negative codes (//, %)')
TECHNIQUE = 'Lean 4 theorems (floor bounds and exactness of the pre-scaled integer quotient, optimal format never overflows, // = floor, % = x - y*floor(x/y) with divisor sign, divmod identity, raw = repr) + relational checker on the implementation + source tie: the growth/sizing/carrier rules of fxpmath/functions.py are translated to Lean on every run (harness/srcgen.py) and the tie theorems of lean/FxpVerif/Gen/Tie.lean re-checked against the translation'
LEVEL_TEXT = ('Machine-checked for all format pairs and non-zero divisors: the raw quotient code is floor(exact scaled quotient) hence exact when representable and otherwise a neighbour with error < 1 LSB, fits the optimal format; '
              'x//y and x%y equal floor(x/y) and x-y*floor(x/y) exactly, the optimal // format exists for every pair of formats and holds floor(x/y) (floordiv_fmt, floordiv_fits), (x//y)*y + x%y = x, raw and repr agree. The implementation is judged on exhaustive small format pairs by the verified relational checker.')
LEVEL_NOTE = 'Trusted: Lean kernel + standard axioms; model-vs-code agreement on generated inputs only.'

EXEC = {'DV': A.exec_DV}


def fm(x):
    return '%s %d %d' % ('s' if x[0] else 'u', x[1], x[2])


def result_word(op, x, y):
    """optimal result word of the three division operators (functions.py: floordiv / truediv / mod)."""
    sg = int(x[0] or y[0])
    xi, yi = x[1] - x[2] - int(x[0]), y[1] - y[2] - int(y[0])
    if op == 'floordiv':
        return sg + max(sg + xi + y[2], 0)
    if op == 'truediv':
        return 2 * sg + xi + y[2] + x[2] + yi
    return sg + (max(xi, yi) if sg else min(xi, yi)) + max(x[2], y[2])


def generate(tier, rng):
    L = lambda l: tok_list([str(c) for c in l])
    maxw = 3 if tier == 'quick' else 5
    small = [(s, n, f) for s in (True, False) for n in range(1, maxw + 1) for f in range(-2, n + 3)]      # every fraction length -2..n_word+2 (negative, and longer than the word: "every pair of operand formats")
    for x in small:
        lox, hix = lims(x[0], x[1])
        for y in small:
            loy, hiy = lims(y[0], y[1])
            a = [ca for ca in range(lox, hix + 1) for cb in range(loy, hiy + 1) if cb != 0]
            b = [cb for ca in range(lox, hix + 1) for cb in range(loy, hiy + 1) if cb != 0]
            if not b:
                continue
            for op in ('truediv', 'floordiv', 'mod'):
                for r in ('trunc', 'floor', 'around'):
                    if tier == 'quick' and rng.random() < 0.5:
                        continue
                    meth = rng.choice(['raw', 'repr'])
                    route = rng.choice(['operator', 'function'] + (['numpy'] if meth == 'raw' else []))
                    yield 'DV %s %s %s %s %s %s %s %s %s' % (op, meth, route, fm(x), fm(y), r, rng.choice(OVFS), L(a), L(b))
    for _ in range(2000 if tier == 'quick' else 60000):
        sx, sy = rng.random() < 0.5, rng.random() < 0.5
        op = rng.choice(['truediv', 'floordiv', 'mod'])
        wide = rng.random() < 0.4       # operand words up to 52 bits, as long as the optimal result word stays <= 53
        nx, ny = rng.randint(1 + int(sx), 52 if wide else 24), rng.randint(1 + int(sy), 52 if wide else 24)
        x = (sx, nx, rng.randint(0, nx)); y = (sy, ny, rng.randint(0, ny))
        if rng.random() < 0.25:
            x = (sx, nx, rng.randint(-8, nx + 8)); y = (sy, ny, rng.randint(-8, ny + 8))
        if rng.random() < 0.15:
            # wide operands with negative fraction lengths (aligning the codes needs more than 64 bits) and quotients of a few bits
            nx, ny = rng.randint(40, 52), rng.randint(20, 52)
            x = (sx, nx, -rng.randint(0, 45)); y = (sy, ny, -rng.randint(0, 45))
        if result_word(op, x, y) > 53:
            continue
        lox, hix = lims(*x[:2]); loy, hiy = lims(*y[:2])
        k = rng.choice([1, 1, 3])
        a = [rng.choice([lox, hix, 1, rng.randint(lox, hix)]) for _ in range(k)]
        b = [rng.choice([loy, hiy, 1, -1 if sy else 1, rng.randint(loy, hiy)]) for _ in range(k)]
        b = [v if v != 0 else 1 for v in b]
        meth = rng.choice(['raw', 'repr'])
        yield 'DV %s %s %s %s %s %s %s %s %s' % (op, meth, rng.choice(['operator', 'function']), fm(x), fm(y),
                                                 rng.choice(ROUNDS), rng.choice(OVFS), L(a), L(b))


    # a whole array of dividends over one divisor (array / scalar object), the dividends multiples of the divisor code so that every
    # quotient is representable: "exact whenever the quotient is representable", by both methods (a reciprocal-multiply shortcut of
    # the value method is off by an ulp for divisors that are not powers of two)
    for _ in range(300 if tier == 'quick' else 8000):
        sx, sy = rng.random() < 0.5, rng.random() < 0.5
        ny = rng.randint(6 + int(sy), 14)
        nx = min(24, ny + rng.randint(2, 10))
        x = (sx, nx, rng.randint(0, nx)); y = (sy, ny, rng.randint(0, ny))
        if result_word('truediv', x, y) > 53:
            continue
        lox, hix = lims(*x[:2]); loy, hiy = lims(*y[:2])
        cb = rng.choice([rng.randint(49, hiy) | 1, rng.randint(25, hiy // 2) * 2 + 0 if hiy >= 100 else 49, 49, 75, 77, 91, 93, 99, 103])
        if not (loy <= cb <= hiy):
            continue
        if sy and rng.random() < 0.3:
            cb = -cb
        mmax = hix // abs(cb)
        if mmax < 2:
            continue
        a = [rng.randint(1, mmax) * abs(cb) * (rng.choice([1, -1]) if sx else 1) for _ in range(rng.choice([2, 3, 4, 6]))]
        a = [max(lox, min(hix, v)) for v in a]
        yield 'DV truediv %s %s %s %s %s %s %s %s' % (rng.choice(['repr', 'repr', 'raw']), rng.choice(['operator', 'function']), fm(x), fm(y),
                                                       rng.choice(['trunc', 'floor', 'fix', 'ceil', 'around']), rng.choice(OVFS), L(a), L([cb]))


    # tiny words with fraction lengths far from the word (a result with 64 fraction bits and more in a word of a few bits: the
    # pre-scaled dividend is a python integer there), scalars and arrays, mixed signedness
    for _ in range(150 if tier == 'quick' else 3000):
        sx, sy = rng.random() < 0.7, rng.random() < 0.4
        nx, ny = rng.randint(1 + int(sx), 5), rng.randint(1 + int(sy), 5)
        x = (sx, nx, rng.randint(50, 75)); y = (sy, ny, rng.choice([0, 0, -rng.randint(1, 56), rng.randint(0, ny)]))
        if result_word('truediv', x, y) > 53:
            continue
        lox, hix = lims(sx, nx); loy, hiy = lims(sy, ny)
        k = rng.choice([1, 1, 2])
        a = [rng.choice([lox, hix, -1 if sx else 1, rng.randint(lox, hix)]) for _ in range(k)]
        b = [rng.choice([hiy, 1, rng.randint(loy, hiy)]) or 1 for _ in range(rng.choice([1, k]))]
        yield 'DV truediv %s %s %s %s %s %s %s %s' % (rng.choice(['raw', 'repr']), rng.choice(['operator', 'function']), fm(x), fm(y),
                                                       rng.choice(ROUNDS), rng.choice(OVFS), L(a), L(b))


    # array operands of at most 24 bits (every value fits single precision, so the operand may have been born from float32 data) whose
    # quotient or remainder needs more than 24 significant bits, by the value method
    for _ in range(200 if tier == 'quick' else 5000):
        sx, sy = rng.random() < 0.5, rng.random() < 0.5
        nx, ny = rng.randint(16, 24), rng.randint(8, 20)
        x = (sx, nx, rng.randint(0, nx)); y = (sy, ny, rng.randint(0, ny))
        op = rng.choice(['truediv', 'floordiv', 'mod'])
        if result_word(op, x, y) > 53:
            continue
        lox, hix = lims(sx, nx); loy, hiy = lims(sy, ny)
        k = rng.choice([2, 3, 4])
        a = [rng.choice([hix, lox, rng.randint(lox, hix), rng.randint(hix >> 1, hix)]) for _ in range(k)]
        b = [rng.choice([hiy, 3, 7, rng.randint(loy, hiy)]) or 1 for _ in range(k)]
        yield 'DV %s repr %s %s %s %s %s %s %s' % (op, rng.choice(['operator', 'function']), fm(x), fm(y), rng.choice(ROUNDS), rng.choice(OVFS), L(a), L(b))


def nontrivial(full_line, model):
    return True


def debug_class(t):
    return ' '.join(t[0:4])


def stats(verdicts):
    return base.generic_stats(verdicts, lambda t: ['op:' + t[1], 'method:' + t[2], 'route:' + t[3], 'signs:' + t[4] + t[7], 'round:' + t[10]],
                              lambda t: len(parse_list(t[12])),
                              ['DV: every code pair (divisor != 0) of every format pair n_word<=3 (quick, half sampled) / <=5 (thorough), 0<=n_frac<=n_word-sign, trunc/floor/around'])
