import FxpVerif.Model.Resize
import FxpVerif.Driver.Proto
/-! One function per protocol op: parse arguments, run the model, print
`<A> <S> <model observables>` where `A` = the observed output agrees with the model on the property's
projection and `S` = the property's checker accepts the observed output.
For functional properties (the Spec is "observed = model function") `A = S`. -/
namespace Fxp.Ops
open Fxp Fxp.Proto

def reply (a s : Bool) (model : List String) : String :=
  s!"{showBool a} {showBool s} " ++ " ".intercalate model

/-- functional op: the observed tokens must equal the model's. -/
def functional (model obs : List String) : String :=
  let ok := decide (model = obs)
  reply ok ok model

def pow2 (e : Int) : Rat := scale 1 e

/-- the quantifier of C01/C03/C05 ("core domain"). -/
def inCoreDomain (f : Fmt) (v : Rat) : Bool :=
  decide (1 ≤ f.nword ∧ f.nword ≤ 52 ∧ -8 ≤ f.nfrac ∧ f.nfrac ≤ f.nword + 8 ∧
          (if v < 0 then -v else v) < pow2 53 ∧
          (let x := scale v f.nfrac; if x < 0 then -x else x) < pow2 62)

/-- `Q1 <fmt> <rounding> <overflow> <carrier> <route> [v...] | [codes] [readbacks]` -/
def opQ1 (args obs : List String) : P String := do
  match args with
  | [s, n, f, r, o, _carrier, _route, vs] =>
    let fmt ← pFmt s n f
    let r ← pRounding r
    let o ← pOverflow o
    let vs ← pList pRat vs
    let floatSat := o == .saturate && decide (0 ≤ fmt.nfrac) && decide (1 ≤ fmt.nword ∧ fmt.nword ≤ 52 ∧ fmt.nfrac ≤ fmt.nword + 8)
    if !(vs.all (fun v => inCoreDomain fmt v || floatSat)) then return "SKIP"
    let cs := vs.map (quantize fmt r o)
    pure (functional [showList toString cs, showList showRat (cs.map (valueOf fmt))] obs)
  | _ => throw "Q1: arity"

/-- `QC <fmt> <rounding> <overflow> <kind> <route> [re...] [im...] | [re codes] [im codes] [re vals] [im vals]` -/
def opQC (args obs : List String) : P String := do
  match args with
  | [s, n, f, r, o, _kind, _route, res, ims] =>
    let fmt ← pFmt s n f
    let r ← pRounding r
    let o ← pOverflow o
    let res ← pList pRat res
    let ims ← pList pRat ims
    let floatSat := o == .saturate && decide (0 ≤ fmt.nfrac) && decide (1 ≤ fmt.nword ∧ fmt.nword ≤ 52 ∧ fmt.nfrac ≤ fmt.nword + 8)
    if !((res ++ ims).all (fun v => inCoreDomain fmt v || floatSat)) then return "SKIP"
    let cr := res.map (quantize fmt r o)
    let ci := ims.map (quantize fmt r o)
    pure (functional [showList toString cr, showList toString ci,
                      showList showRat (cr.map (valueOf fmt)), showList showRat (ci.map (valueOf fmt))] obs)
  | _ => throw "QC: arity"

def zipAll {α β} (p : α → β → Bool) : List α → List β → Bool
  | [], [] => true
  | a :: as, b :: bs => p a b && zipAll p as bs
  | _, _ => false

def flagsTok (fl : List Flags) : List String :=
  [showBool (fl.any (·.ov)), showBool (fl.any (·.un)), showBool (fl.any (·.inacc))]

/-- `W3 <fmt> <rounding> <route> [ints] | [codes]` — wrap of Python integers of any size, any word length.
Relational checker: in range and congruent to the rounded scaled input. -/
def opW3 (args obs : List String) : P String := do
  match args with
  | [s, n, f, r, _route, vs] =>
    let fmt ← pFmt s n f
    let r ← pRounding r
    let vs ← pList pInt vs
    let ks := vs.map (fun (v : Int) => roundR r (scale (v:Rat) fmt.nfrac))
    let model := ks.map (wrap fmt)
    match obs with
    | [cs] =>
      match pList pInt cs with
      | .ok cs => pure (reply (decide (cs = model)) (zipAll (fun k c => Chk.c03 fmt k c) ks cs) [showList toString model])
      | .error _ => pure (reply false false [showList toString model])
    | _ => pure (reply false false [showList toString model])
  | _ => throw "W3: arity"

/-- `WS <fmt> <rounding> <v> <t> | code(v) code(v + t*2^(n_word-n_frac))` — shift invariance, judged on the
implementation alone (the two observed codes must be equal). -/
def opWS (args obs : List String) : P String := do
  match args with
  | [s, n, f, r, v, t] =>
    let fmt ← pFmt s n f
    let r ← pRounding r
    let v ← pRat v
    let t ← pInt t
    let v2 := v + (t:Rat) * scale 1 ((fmt.nword:Int) - fmt.nfrac)
    let c1 := quantize fmt r .wrap v
    let c2 := quantize fmt r .wrap v2
    let model := [toString c1, toString c2]
    match obs with
    | [a, b] => pure (reply (decide (model = obs)) (a == b && a.toInt?.isSome) model)
    | _ => pure (reply false false model)
  | _ => throw "WS: arity"

/-- `WR <fmt> <op> <a> <b> | code` — storing `a op b` (codes of two operands of the same format, n_frac = 0)
into the same format with wrap: an n_word-bit register. -/
def opWR (args obs : List String) : P String := do
  -- `WR s n f op a b [sr nr route]`: operands of format (s, n, f); the result is stored with wrap into a register of
  -- format (sr, nr, f) (the operands' own format when omitted)
  let go (s n f op a b sr nr : String) : P String := do
    let _ ← pFmt s n f
    let reg ← pFmt sr nr f
    let a ← pInt a
    let b ← pInt b
    let exact ← match op with
      | "add" => pure (a + b)
      | "sub" => pure (a - b)
      | "mul" => pure (a * b)
      | _ => throw "WR: op"
    let model := wrap reg exact
    match obs with
    | [c] =>
      match c.toInt? with
      | some c => pure (reply (decide (c = model)) (Chk.c03 reg exact c) [toString model])
      | none => pure (reply false false [toString model])
    | _ => pure (reply false false [toString model])
  match args with
  | [s, n, f, op, a, b] => go s n f op a b s n
  | [s, n, f, op, a, b, sr, nr, _route] => go s n f op a b sr nr
  | _ => throw "WR: arity"

/-- `WQ <fx> <fy> <op> <a> <b> <reg> <rounding> <route> | code` — the exact result of `a op b` (codes of operands of
formats `fx`, `fy`, fraction lengths included) stored with wrap into a register `reg` of any fraction length, in
particular one with fewer fraction bits than the exact result has (the fixed-point multiply `s32/16 * s32/16 -> s32/16`):
the stored code is `wrap (ROUND (exact * 2^reg.nfrac))`. -/
def opWQ (args obs : List String) : P String := do
  match args with
  | [sx, nx, fx, sy, ny, fy, op, a, b, sr, nr, fr, r, _route] =>
    let x ← pFmt sx nx fx
    let y ← pFmt sy ny fy
    let reg ← pFmt sr nr fr
    let r ← pRounding r
    let a ← pInt a
    let b ← pInt b
    let va := valueOf x a
    let vb := valueOf y b
    let exact ← match op with
      | "add" => pure (va + vb)
      | "sub" => pure (va - vb)
      | "mul" => pure (va * vb)
      | _ => throw "WQ: op"
    let k := roundR r (scale exact reg.nfrac)
    let model := wrap reg k
    match obs with
    | [c] =>
      match c.toInt? with
      | some c => pure (reply (decide (c = model)) (Chk.c03 reg k c) [toString model])
      | none => pure (reply false false [toString model])
    | _ => pure (reply false false [toString model])
  | _ => throw "WQ: arity"

/-- `R5 <fmt> <rounding> <overflow> <carrier> <route> [v...] | [codes]` — C05 directional contracts judged
relationally on the observed codes (no reference quantizer in the checker). -/
def opR5 (args obs : List String) : P String := do
  match args with
  | [s, n, f, r, o, _carrier, _route, vs] =>
    let fmt ← pFmt s n f
    let r ← pRounding r
    let o ← pOverflow o
    let vs ← pList pRat vs
    if !(vs.all (inCoreDomain fmt)) then return "SKIP"
    let model := vs.map (quantize fmt r o)
    match obs with
    | [cs] =>
      match pList pInt cs with
      | .ok cs => pure (reply (decide (cs = model)) (zipAll (fun v c => Chk.c05 fmt r v c) vs cs) [showList toString model])
      | .error _ => pure (reply false false [showList toString model])
    | _ => pure (reply false false [showList toString model])
  | _ => throw "R5: arity"

/-- `I5 <fmt> <rounding> <overflow> <how> [codes] | [codes'] ov un inacc` — idempotence: storing the value of
every code gives the same code and no flag. -/
def opI5 (args obs : List String) : P String := do
  match args with
  | [s, n, f, r, o, _how, cs] =>
    let fmt ← pFmt s n f
    let r ← pRounding r
    let o ← pOverflow o
    let cs ← pList pInt cs
    if !(cs.all (fun c => decide (fmt.lo ≤ c ∧ c ≤ fmt.hi))) then return "SKIP"
    let vs := cs.map (valueOf fmt)
    let model := vs.map (quantize fmt r o)
    let fl := vs.map (storeFlags fmt r o)
    -- Spec: observed codes are the input codes, and no flag is raised
    let want := [showList toString cs, "0", "0", "0"]
    let m := showList toString model :: flagsTok fl
    pure (reply (decide (m = obs)) (decide (want = obs)) m)
  | _ => throw "I5: arity"

/-- `M5 <fmt> <rounding> <carrier> [v sorted...] | [codes]` — monotonicity under saturate. -/
def opM5 (args obs : List String) : P String := do
  match args with
  | [s, n, f, r, _carrier, vs] =>
    let fmt ← pFmt s n f
    let r ← pRounding r
    let vs ← pList pRat vs
    if !(vs.all (inCoreDomain fmt)) then return "SKIP"
    let model := vs.map (quantize fmt r .saturate)
    match obs with
    | [cs] =>
      match pList pInt cs with
      | .ok cs => pure (reply (decide (cs = model)) (Chk.sortedInt cs && cs.length == vs.length) [showList toString model])
      | .error _ => pure (reply false false [showList toString model])
    | _ => pure (reply false false [showList toString model])
  | _ => throw "M5: arity"

/-- elementwise with NumPy broadcasting of a length-1 operand. -/
def bcast {α β γ} (g : α → β → γ) : List α → List β → Option (List γ)
  | [a], bs => some (bs.map (g a))
  | as, [b] => some (as.map (fun a => g a b))
  | as, bs => if as.length = bs.length then some (List.zipWith g as bs) else none

def anyB (l : List Bool) : Bool := l.any id

/-- result of a binary operation into target `t` under `(r, o)`: codes and the overflow/underflow flags. -/
def arithInto (op : BinOp) (raw : Bool) (t : Fmt) (r : Rounding) (o : Overflow) (x y : Fmt)
    (as bs : List Int) : Option (List Int × Bool × Bool) := do
  let ks ← bcast (fun a b =>
      if raw then roundR r (rawKernel op t.nfrac x y a b)
      else roundR r (scale (exactOp op (valueOf x a) (valueOf y b)) t.nfrac)) as bs
  let cs := ks.map (ovf o t)
  pure (cs, anyB (ks.map (fun k => decide (t.hi < k))), anyB (ks.map (fun k => decide (k < t.lo))))

/-- does the store of the result change what it was handed (the `inaccuracy` condition of `set_val`)? Raw method: the
kernel value against the stored code; value method: the exact result scaled to the target against the stored code. -/
def inexactInto (op : BinOp) (raw : Bool) (t : Fmt) (r : Rounding) (o : Overflow) (x y : Fmt)
    (as bs : List Int) : Option Bool := do
  let ds ← bcast (fun a b =>
      let q := if raw then rawKernel op t.nfrac x y a b else scale (exactOp op (valueOf x a) (valueOf y b)) t.nfrac
      decide (((ovf o t (roundR r q) : Int) : Rat) ≠ q)) as bs
  pure (anyB ds)

/-- optional tail of an arithmetic observation: `ia(x) ia(y) ia(result)` — the result carries the inaccuracy flag iff an
operand carried it or the store of the result was inexact. The operands' flags are echoed from the observation. -/
def withIa (m : List String) (inexact : Option Bool) (obs : List String) : List String :=
  match obs, inexact with
  | [_, _, _, _, _, _, iax, iay, _], some d => m ++ [iax, iay, showBool (iax == "1" || iay == "1" || d)]
  | _, _ => m

def showRes (t : Fmt) (res : List Int × Bool × Bool) : List String :=
  [showSigned t.signed, toString t.nword, toString t.nfrac, showList toString res.1, showBool res.2.1, showBool res.2.2]

def isExc (obs : List String) : Bool :=
  match obs with
  | [t] => t.startsWith "EXC:"
  | _ => false

def zeroDiv (op : BinOp) (bs : List Int) : Bool :=
  (op == .truediv || op == .floordiv || op == .mod) && bs.any (· == 0)

/-- `AR <op> <policy> <method> <route> <fx> <fy> <r> <o> [a..] [b..] | s n f [codes] ov un`
binary operation, result format from the sizing policy, config of the first operand. -/
def opAR (args obs : List String) : P String := do
  match args with
  | [op, pol, meth, _route, sx, nx, fx, sy, ny, fy, r, o, as, bs] =>
    let op ← pBinOp op
    let pol ← pPolicy pol
    let x ← pFmt sx nx fx
    let y ← pFmt sy ny fy
    let r ← pRounding r
    let o ← pOverflow o
    let as ← pList pInt as
    let bs ← pList pInt bs
    if zeroDiv op bs then return "SKIP"
    match resultFmt pol op x y with
    | none => pure (reply (isExc obs) (isExc obs) ["ERR"])
    | some t =>
      match arithInto op (meth == "raw") t r o x y as bs with
      | none => throw "AR: shapes"
      | some res => pure (functional (withIa (showRes t res) (inexactInto op (meth == "raw") t r o x y as bs) obs) obs)
  | _ => throw "AR: arity"

/-- `AO <op> <kind=out|outlike> <method> <route> <fx> <fy> <ft> <rt> <ot> [a..] [b..] | s n f [codes] ov un`
result stored into an explicit `out` object or a fresh object like `out_like`; governing config is the
target's `(rt, ot)`. A signed result cannot go into an unsigned target (ValueError). -/
def opAO (args obs : List String) : P String := do
  match args with
  | [op, kind, meth, _route, sx, nx, fx, sy, ny, fy, st, nt, ft, r, o, as, bs] =>
    let op ← pBinOp op
    let x ← pFmt sx nx fx
    let y ← pFmt sy ny fy
    let t ← pFmt st nt ft
    let r ← pRounding r
    let o ← pOverflow o
    let as ← pList pInt as
    let bs ← pList pInt bs
    if zeroDiv op bs then return "SKIP"
    if (x.signed || y.signed) && !t.signed then
      pure (reply (isExc obs) (isExc obs) ["ERR"])
    else
      -- `out_like` always computes on values (n_frac is None → repr path)
      let raw := meth == "raw" && kind == "out"
      match arithInto op raw t r o x y as bs with
      | none => throw "AO: shapes"
      | some res => pure (functional (withIa (showRes t res) (inexactInto op raw t r o x y as bs) obs) obs)
  | _ => throw "AO: arity"

/-- `AC <op> <side=l|r> <insize=same> <const_sizing> <method> <fx> <r> <o> [a..] <c> | s n f [codes] ov un`
operation with a constant: the constant is first converted like the Fxp operand (`op_input_size='same'`,
i.e. `Fxp(c, like=x)`: quantized into x's format under x's config), then the operation is sized by
`const_op_sizing`. -/
def opAC (args obs : List String) : P String := do
  match args with
  | [op, side, _insize, csz, meth, sx, nx, fx, r, o, as, c] =>
    let op ← pBinOp op
    let pol ← pPolicy csz
    let x ← pFmt sx nx fx
    let r ← pRounding r
    let o ← pOverflow o
    let as ← pList pInt as
    let c ← pRat c
    -- the constant as a fixed-point object: like x (same format and config) or with inferred sizes and default config
    let (cf, cr, co) ← if _insize == "best" then
        match inferFmt none none none none [c] with
        | some g => pure (g, Rounding.trunc, Overflow.saturate)
        | none => throw "AC: inference"
      else pure (x, r, o)
    let b := quantize cf cr co c
    -- operand order decides the governing configuration (first operand's)
    -- `__radd__ = __add__` and `__rmul__ = __mul__`: only the non-commutative operators really swap the operands
    let swapped := side == "r" && !(op == .add || op == .mul)
    let (fa, fb, la, lb, gr, go) := if !swapped then (x, cf, as, [b], r, o) else (cf, x, [b], as, cr, co)
    if zeroDiv op lb then return "SKIP"
    match resultFmt pol op fa fb with
    | none => pure (reply (isExc obs) (isExc obs) ["ERR"])
    | some t =>
      match arithInto op (meth == "raw") t gr go fa fb la lb with
      | none => throw "AC: shapes"
      | some res => pure (functional (showRes t res) obs)
  | _ => throw "AC: arity"

/-- `DV <op=truediv|floordiv|mod> <method> <route> <fx> <fy> <r> <o> [a..] [b..] | s n f [codes] ov un`
division family with optimal sizing. `truediv` is judged relationally (exact if representable, else one of
the two neighbours, never out of range, no flag); `floordiv` and `mod` functionally. -/
def opDV (args obs : List String) : P String := do
  match args with
  | [op, meth, _route, sx, nx, fx, sy, ny, fy, r, o, as, bs] =>
    let op ← pBinOp op
    let x ← pFmt sx nx fx
    let y ← pFmt sy ny fy
    let r ← pRounding r
    let o ← pOverflow o
    let as ← pList pInt as
    let bs ← pList pInt bs
    if zeroDiv op bs then return "SKIP"
    match resultFmt .optimal op x y with
    | none => pure (reply (isExc obs) false ["ERR"])      -- (the property demands a quotient for every pair of formats: a refusal never satisfies it)
    | some t =>
      match arithInto op (meth == "raw") t r o x y as bs with
      | none => throw "DV: shapes"
      | some res =>
        if op == .truediv then
          match obs with
          | [os, on, of, cs, ov, un] =>
            match pList pInt cs, bcast (fun a b => scale (valueOf x a / valueOf y b) t.nfrac) as bs with
            | .ok cs, some qs =>
              let fmtOk := [os, on, of] == [showSigned t.signed, toString t.nword, toString t.nfrac]
              let s := fmtOk && ov == "0" && un == "0" && zipAll (fun q c => Chk.c09quot t q c) qs cs
              let a := if meth == "raw" then decide (showRes t res = obs) else s
              pure (reply a s (showRes t res))
            | _, _ => pure (reply false false (showRes t res))
          | _ => pure (reply false false (showRes t res))
        else pure (functional (showRes t res) obs)
  | _ => throw "DV: arity"

/-- `CV <route> <srcmode> <shape> <fsrc> <fdst> <r> <o> [codes] | s n f [codes'] shape ov un srcUnchanged`
one conversion by the named route; destination modes `(r, o)`. -/
def opCV (args obs : List String) : P String := do
  match args with
  | [_route, _srcmode, shape, ss, ns, fs, sd, nd, fd, r, o, cs] =>
    let src ← pFmt ss ns fs
    let dst ← pFmt sd nd fd
    let r ← pRounding r
    let o ← pOverflow o
    let cs ← pList pInt cs
    let out := cs.map (convertM src dst r o)
    let fl := cs.map (convertFlags src dst r)
    pure (functional [showSigned dst.signed, toString dst.nword, toString dst.nfrac, showList toString out, shape,
                      showBool (fl.any (·.1)), showBool (fl.any (·.2)), "1"] obs)
  | _ => throw "CV: arity"

def pSteps : List String → P (List (Fmt × Rounding × Overflow))
  | [] => pure []
  | _route :: s :: n :: f :: r :: o :: rest => do
      let d ← pFmt s n f
      let r ← pRounding r
      let o ← pOverflow o
      let tl ← pSteps rest
      pure ((d, r, o) :: tl)
  | _ => throw "CH: steps"

/-- `CH <srcmode> <fsrc> [codes] (<route> <fdst> <r> <o>)* | s n f [codes']` — a chain of conversions starting from a
source created raw or by value. -/
def opCH (args obs : List String) : P String := do
  match args with
  | _mode :: ss :: ns :: fs :: cs :: steps =>
    let src ← pFmt ss ns fs
    let cs ← pList pInt cs
    let steps ← pSteps steps
    let res := cs.map (fun c => convertChain src c steps)
    let d := match res with
      | [] => src
      | (d, _) :: _ => d
    pure (functional [showSigned d.signed, toString d.nword, toString d.nfrac, showList toString (res.map (·.2))] obs)
  | _ => throw "CH: arity"

def showCmp (rs : List CmpResult) : List String :=
  [showList showBool (rs.map (·.lt)), showList showBool (rs.map (·.le)), showList showBool (rs.map (·.eq)),
   showList showBool (rs.map (·.ne)), showList showBool (rs.map (·.gt)), showList showBool (rs.map (·.ge))]

/-- `CMP <kind=ff|fn|nf> <fx> <fy> [a..] [b..] | [lt] [le] [eq] [ne] [gt] [ge]`
`ff`: Fxp ∘ Fxp; `fn`: Fxp ∘ plain number (the value of `(fy, b)`); `nf`: plain number ∘ Fxp. -/
def opCMP (args obs : List String) : P String := do
  match args with
  | [_kind, sx, nx, fx, sy, ny, fy, as, bs] =>
    let x ← pFmt sx nx fx
    let y ← pFmt sy ny fy
    let as ← pList pInt as
    let bs ← pList pInt bs
    match bcast (cmpFxp x y) as bs with
    | none => throw "CMP: shapes"
    | some rs => pure (functional (showCmp rs) obs)
  | _ => throw "CMP: arity"

/-- `NC <mode> <f> [codes] | [get_val] [astype float] [astype int] [bool] [raw] [uraw]` -/
def opNC (args obs : List String) : P String := do
  match args with
  | [_mode, s, n, f, cs] =>
    let fmt ← pFmt s n f
    let cs ← pList pInt cs
    let vals := showList showRat (cs.map (valueOf fmt))
    pure (functional [vals, vals, showList toString (cs.map (astypeInt fmt)), showList showBool (cs.map (toBool fmt)),
                      showList toString cs, showList toString (cs.map (urawM fmt))] obs)
  | _ => throw "NC: arity"

/-- `DR <configured notation> <fmt> <complex> | dtype get_dtype('Q') get_dtype('fxp')` -/
def opDR (args obs : List String) : P String := do
  match args with
  | [cfg, s, n, f, cx] =>
    let fmt ← pFmt s n f
    let cx ← pBool cx
    let nt ← match cfg with
      | "fxp" => pure Notation.fxp
      | "Q" => pure Notation.Q
      | _ => throw "DR: notation"
    pure (functional [String.ofList (renderDtype nt fmt cx), String.ofList (renderDtype .Q fmt cx),
                      String.ofList (renderDtype .fxp fmt cx)] obs)
  | _ => throw "DR: arity"

/-- `DP <route> <string> | s n f cx` — parse a format string (constructor, resize, fxp_sum routes).
A string no regex matches, or a negative word length, is an error. -/
def opDP (args obs : List String) : P String := do
  match args with
  | [route, str] =>
    match parseFormatStr str.toList with
    | none => pure (reply (isExc obs) (isExc obs) ["ERR"])
    | some (sg, w, f, cx) =>
      if w < 0 ∨ (sg ∧ w = 0) then pure (reply (isExc obs) (isExc obs) ["ERR"]) else
      let cxTok := if route == "fxpsum" then "-" else showBool cx
      pure (functional [showSigned sg, toString w, toString f, cxTok] obs)
  | _ => throw "DP: arity"

def showStrs (l : List (List Char)) : String := showList String.ofList l

/-- `SB <fmt> <dot> <prefix=none|0b> [codes] | [strings]` — `bin(frac_dot, prefix)` -/
def opSB (args obs : List String) : P String := do
  match args with
  | [s, n, f, dot, pre, _shape, cs] =>
    let fmt ← pFmt s n f
    let dot ← pBool dot
    let cs ← pList pInt cs
    let pre := if pre == "0b" then ['0', 'b'] else []
    pure (functional [showStrs (cs.map (fun c => binStr fmt c dot pre))] obs)
  | _ => throw "SB: arity"

/-- `SH <fmt> [codes] | [strings]` — `hex()` with the default `0x` prefix -/
def opSH (args obs : List String) : P String := do
  match args with
  | [s, n, f, _shape, cs] =>
    let fmt ← pFmt s n f
    let cs ← pList pInt cs
    pure (functional [showStrs (cs.map (fun c => hexStr fmt c ['0', 'x']))] obs)
  | _ => throw "SH: arity"

/-- `SR <fmt> <base> [codes] | [strings]` — `base_repr(base)` -/
def opSR (args obs : List String) : P String := do
  match args with
  | [_s, _n, _f, b, _shape, cs] =>
    let b ← pNat b
    let cs ← pList pInt cs
    pure (functional [showStrs (cs.map (baseRepr b))] obs)
  | _ => throw "SR: arity"

/-- `SP <kind=bin|bindot|hex> <mode> <route> <shape> <fmt> [codes] | [codes']` — render on the implementation,
feed the strings back into an object of the same format, observe the codes. Spec: the same codes come back.
The model's own render→parse round trip is evaluated as well (it must agree). -/
def opSP (args obs : List String) : P String := do
  match args with
  | [kind, _mode, _route, _shape, s, n, f, cs] =>
    let fmt ← pFmt s n f
    let cs ← pList pInt cs
    let back := cs.map (fun c =>
      match kind with
      | "hex" => parseHexCode fmt.signed fmt.nword (hexStr fmt c ['0', 'x'])
      | "bindot" => parseBinCode fmt.signed fmt.nword (binStr fmt c true ['0', 'b'])
      | _ => parseBinCode fmt.signed fmt.nword (binStr fmt c false ['0', 'b']))
    let model := showList (fun o => match o with | some (v : Int) => toString v | none => "ERR") back
    let want := showList toString cs
    pure (reply (decide ([model] = obs)) (decide ([want] = obs)) [model])
  | _ => throw "SP: arity"

def pBitOp (s : String) : P BitOp :=
  match s with
  | "and" => pure .and
  | "or" => pure .or
  | "xor" => pure .xor
  | _ => throw s!"bad bitop {s}"

/-- `BW <op=inv|and|or|xor> <kind=ff|fm|mf|-> <fx> <fy> <o> [a..] [b..] | s n f [codes]`
bitwise operator; `ff`: both operands Fxp (different word lengths are rejected), `fm`/`mf`: integer mask on
the right / left. Spec (relational): result has x's format and its pattern is the bitwise combination of the
operands' n_word-bit patterns. -/
def opBW (args obs : List String) : P String := do
  match args with
  | [op, kind, sx, nx, fx, sy, ny, fy, o, as, bs] =>
    let x ← pFmt sx nx fx
    let y ← pFmt sy ny fy
    let o ← pOverflow o
    let as ← pList pInt as
    let bs ← pList pInt bs
    if (kind == "ff" || kind == "gg") && (bitwiseFxp .and x y o 0 0).isNone then
      pure (reply (isExc obs) (isExc obs) ["ERR"])
    else
      let (model, pats) ← if op == "inv" then
          pure (as.map (invertM x o), as.map (fun a => 2 ^ x.nword - 1 - upat x.nword a))
        else do
          let bo ← pBitOp op
          if kind == "gg" then
            -- a column of x against a row of y: the grid of all pairs, row-major
            let l := as.flatMap (fun a => bs.map (fun b => (bitwiseM bo x o a b, bitop bo (upat x.nword a) (upat x.nword b))))
            pure (l.map (·.1), l.map (·.2))
          else
          match bcast (fun a b => (bitwiseM bo x o a b, bitop bo (upat x.nword a) (upat x.nword b))) as bs with
          | some l => pure (l.map (·.1), l.map (·.2))
          | none => throw "BW: shapes"
      let m := [showSigned x.signed, toString x.nword, toString x.nfrac, showList toString model]
      match obs with
      | [os, on, of, cs] =>
        match pList pInt cs with
        | .ok cs =>
          let s := [os, on, of] == [showSigned x.signed, toString x.nword, toString x.nfrac] &&
            zipAll (fun (c : Int) (p : Nat) => decide (x.lo ≤ c ∧ c ≤ x.hi) && upat x.nword c == p) cs pats
          pure (reply (decide (m = obs)) s m)
        | .error _ => pure (reply false false m)
      | _ => pure (reply false false m)
  | _ => throw "BW: arity"

/-- `BL <fx> <sy> [a..] [b..] | [~~x] [~(x&y)] [~x|~y] [~(x|y)] [~x&~y] [~x]` — laws evaluated on the
implementation's outputs: double inversion, De Morgan, and code(~x) = -code(x) - 1 for signed `x`. -/
def opBL (args obs : List String) : P String := do
  match args with
  | [sx, nx, fx, sy, as, bs] =>
    let x ← pFmt sx nx fx
    let y : Fmt := ⟨sy == "s", x.nword, x.nfrac⟩
    let as ← pList pInt as
    let bs ← pList pInt bs
    let o := Overflow.saturate
    let inv := invertM x o
    let nn := as.map (fun a => inv (inv a))
    let l1 ← match bcast (fun a b => inv (bitwiseM .and x o a b)) as bs with | some l => pure l | none => throw "BL"
    let l2 ← match bcast (fun a b => bitwiseM .or x o (inv a) (invertM y o b)) as bs with | some l => pure l | none => throw "BL"
    let l3 ← match bcast (fun a b => inv (bitwiseM .or x o a b)) as bs with | some l => pure l | none => throw "BL"
    let l4 ← match bcast (fun a b => bitwiseM .and x o (inv a) (invertM y o b)) as bs with | some l => pure l | none => throw "BL"
    let l5 := as.map inv
    let l6 := as.map (fun a => if x.signed then -a - 1 else inv a)
    let sh := showList (toString : Int → String)
    let m := [sh nn, sh l1, sh l2, sh l3, sh l4, sh l5]
    match obs with
    | [o0, o1, o2, o3, o4, o5] =>
      pure (reply (decide (m = obs)) (o0 == sh as && o1 == o2 && o3 == o4 && o5 == sh l6) m)
    | _ => pure (reply false false m)
  | _ => throw "BL: arity"

def valuesOf (f : Fmt) (cs : List Int) : List Rat := cs.map (valueOf f)

/-- `SF <dir=l|r> <mode=expand|trunc|keep> <cfg overflow> <fx> <n> [codes] | s n f [codes'] ov un unchanged`
Spec (relational): expand: values are exactly `x·2^±n`, no flag; keep/trunc: same format, `>>` is the floor
shift, `<<` is exact when representable and otherwise clamped or wrapped; operand unchanged. -/
def opSF (args obs : List String) : P String := do
  match args with
  | [dir, mode, _o, sx, nx, fx, n, cs] =>
    let x ← pFmt sx nx fx
    let n ← pNat n
    let cs ← pList pInt cs
    let (g, out) := if dir == "r" then
        (if mode == "expand" then rshiftExpand x cs n else (x, rshiftKeep cs n))
      else
        (if mode == "expand" then lshiftExpand x cs n else (x, lshiftKeep x cs n))
    let fl := if dir == "l" then
        (cs.any (fun c => decide (g.hi < c * 2 ^ n)), cs.any (fun c => decide (c * 2 ^ n < g.lo)))
      else (false, false)
    let m := [showSigned g.signed, toString g.nword, toString g.nfrac, showList toString out,
              showBool fl.1, showBool fl.2, "1"]
    match obs with
    | [os, on, of, ocs, ov, un, unch] =>
      match pFmt os on of, pList pInt ocs with
      | .ok og, .ok ocs =>
        let s : Bool :=
          unch == "1" && ocs.length == cs.length &&
          (if mode == "expand" then
            ov == "0" && un == "0" && og.signed == x.signed &&
            zipAll (fun (c : Int) (oc : Int) =>
              decide (og.lo ≤ oc ∧ oc ≤ og.hi) &&
              decide (valueOf og oc = (if dir == "l" then valueOf x c * 2 ^ n else valueOf x c / 2 ^ n))) cs ocs
          else
            decide (og = x) &&
            zipAll (fun (c : Int) (oc : Int) =>
              if dir == "r" then decide (oc = Int.shiftRight c n)
              else if decide (x.lo ≤ c * 2 ^ n ∧ c * 2 ^ n ≤ x.hi) then decide (oc = c * 2 ^ n)
              else decide (oc = sat x (c * 2 ^ n) ∨ oc = wrap x (c * 2 ^ n))) cs ocs)
        pure (reply (decide (m = obs)) s m)
      | _, _ => pure (reply false false m)
    | _ => pure (reply false false m)
  | _ => throw "SF: arity"

/-- `X18 <fmt> <overflow> <route> [ints] | [codes] ov un ext` — integers of any size into wide words:
`rawctor`/`rawset`/`binraw`/`hexraw`: the integer is the code; `intval`: the integer is the value (code = v·2^n_frac).
`ext` is the extended-precision indicator (n_word ≥ 64). -/
def opX18 (args obs : List String) : P String := do
  match args with
  | [s, n, f, o, route, vs] =>
    let fmt ← pFmt s n f
    let o ← pOverflow o
    let vs ← pList pInt vs
    let ks := vs.map (fun (v : Int) => if route == "intval" then roundR .trunc (scale (v : Rat) fmt.nfrac) else v)
    let cs := ks.map (ovf o fmt)
    pure (functional [showList toString cs, showBool (ks.any (fun k => decide (fmt.hi < k))),
                      showBool (ks.any (fun k => decide (k < fmt.lo))), showBool (decide (64 ≤ fmt.nword))] obs)
  | _ => throw "X18: arity"

/-- `EX <signed> <n1> <n2> | extended_prec after construction, resize, reset, like= (value), like= (empty), deepcopy,
indexing, word-only construction, x + x` -/
def opEX (args obs : List String) : P String := do
  match args with
  | [_s, n1, n2] =>
    let n1 ← pNat n1
    let n2 ← pNat n2
    -- after construction (n1); after resize, reset, `like=` (value / empty), deepcopy, indexing, word-only construction (n2);
    -- x + x (one bit more)
    let e2 := showBool (decide (64 ≤ n2))
    pure (functional [showBool (decide (64 ≤ n1)), e2, e2, e2, e2, e2, e2, e2, showBool (decide (64 ≤ n2 + 1))] obs)
  | _ => throw "EX: arity"

/-- `BI <fmt> <rounding> <overflow> <route> [ints] | [codes]` — Python integers of any size stored by value
(C19: no domain restriction). -/
def opBI (args obs : List String) : P String := do
  match args with
  | [s, n, f, r, o, _route, vs] =>
    let fmt ← pFmt s n f
    let r ← pRounding r
    let o ← pOverflow o
    let vs ← pList pInt vs
    pure (functional [showList toString (vs.map (fun (v : Int) => quantize fmt r o (v : Rat)))] obs)
  | _ => throw "BI: arity"

/-- C06 relational checker on an observed format and codes: exact, and (for the unspecified sizes) minimal. -/
def chk06 (sg : Bool) (nwordGiven nfracGiven : Bool) (vals : List Rat) (g : Fmt) (cs : List Int) : Bool :=
  let exact := zipAll (fun v c => decide (valueOf g c = v) && decide (g.lo ≤ c ∧ c ≤ g.hi)) vals cs
  let s : Int := if sg then 1 else 0
  -- fewest fraction bits: with one bit less some value is not representable (or n_frac = 0)
  let minFrac := nfracGiven || decide (g.nfrac ≤ 0) ||
    vals.any (fun v => decide ((scale v (g.nfrac - 1)).den ≠ 1))
  -- fewest word bits with non-negative integer length: one bit less does not hold all values (or n_int = 0)
  let g' : Fmt := ⟨g.signed, g.nword - 1, g.nfrac⟩
  let minWord := nwordGiven || decide ((g.nword : Int) - g.nfrac - s ≤ 0) ||
    vals.any (fun v => let k := (scale v g.nfrac).floor; decide (k < g'.lo ∨ g'.hi < k))
  exact && decide (g.signed = sg) && minFrac && minWord

/-- `INF <signed=s|u|n> <n_word|-> <n_frac|-> <n_int|-> [vals] | s n f [codes] ov un inacc`
size inference for dyadic inputs (uncapped). -/
def opINF (args obs : List String) : P String := do
  match args with
  | [sg, w, f, i, vs] =>
    let signed : Option Bool := if sg == "n" then none else some (sg == "s")
    let w ← pOptInt w
    let f ← pOptInt f
    let i ← pOptInt i
    let vs ← pList pRat vs
    match inferFmt signed w f i vs with
    | none => pure (reply (isExc obs) (isExc obs) ["ERR"])
    | some g =>
      let cs := vs.map (quantize g .trunc .saturate)
      let fl := vs.map (storeFlags g .trunc .saturate)
      let m := [showSigned g.signed, toString g.nword, toString g.nfrac, showList toString cs] ++ flagsTok fl
      -- sizes after n_int reconciliation (as the property words it: "the third follows arithmetically")
      let sg := signed.getD true
      let sI : Int := if sg then 1 else 0
      let (w', f') : Option Int × Option Int := match w, f, i with
        | none, some f, some i => (some (i + f + sI), some f)
        | some w, none, some i => (some w, some (w - i - sI))
        | w, f, _ => (w, f)
      let want : Int × Int := match w', f' with
        | some w, some f => (w, f)
        | _, _ => Chk.specSizes sg vs w' f'
      match obs with
      | [os, on, of, ocs, ov, un, ia] =>
        match pFmt os on of, pList pInt ocs with
        | .ok og, .ok ocs =>
          let fmtOk := decide ((og.nword : Int) = want.1) && decide (og.nfrac = want.2) && (og.signed == sg)
          let codesOk := decide (ocs = vs.map (quantize og .trunc .saturate))
          let flagsOk := [ov, un, ia] == flagsTok (vs.map (storeFlags og .trunc .saturate))
          let noneGiven := w'.isNone && f'.isNone
          let s := fmtOk && codesOk && flagsOk &&
            (!noneGiven || (ov == "0" && un == "0" && ia == "0" && chk06 sg false false vs og ocs))
          pure (reply (decide (m = obs)) s m)
        | _, _ => pure (reply false false m)
      | _ => pure (reply false false m)
  | _ => throw "INF: arity"

/-- `INC <signed> [vals] | s n f [codes] ov un inacc` — inference for arbitrary doubles (possibly hitting the
64-bit cap): the word never exceeds 64, every stored value is within one LSB, inexact iff flagged. Relational only. -/
def opINC (args obs : List String) : P String := do
  match args with
  | [sg, vs] =>
    let signed : Option Bool := if sg == "n" then none else some (sg == "s")
    let vs ← pList pRat vs
    let m := match inferFmt signed none none none vs with
      | none => ["ERR"]
      | some g => [showSigned g.signed, toString g.nword, toString g.nfrac, showList toString (vs.map (quantize g .trunc .saturate))]
    match obs with
    | [os, on, of, ocs, ov, un, ia] =>
      match pFmt os on of, pList pInt ocs with
      | .ok og, .ok ocs =>
        let within := zipAll (fun v c => decide (Chk.absR (valueOf og c - v) < scale 1 (-og.nfrac))) vs ocs
        let inexact := !(zipAll (fun v c => decide (valueOf og c = v)) vs ocs)
        let s := decide (og.nword ≤ 64) && within && ov == "0" && un == "0" && (ia == showBool inexact)
        pure (reply s s m)
      | _, _ => pure (reply false false m)
    | _ => pure (reply false false m)
  | _ => throw "INC: arity"

/-- `SC <fmt> <r> <o> <scale> <bias> <spelling> [v..] | [codes] [get_val] upper lower precision ov un inacc` -/
def opSC (args obs : List String) : P String := do
  match args with
  | [s, n, f, r, o, sc, bi, _spelling, vs] =>
    let fmt ← pFmt s n f
    let r ← pRounding r
    let o ← pOverflow o
    let sc ← pRat sc
    let bi ← pRat bi
    let vs ← pList pRat vs
    if sc = 0 then return "SKIP"
    let cs := vs.map (storeScaled fmt r o sc bi)
    let fl := vs.map (flagsScaled fmt r o sc bi)
    pure (functional ([showList toString cs, showList showRat (cs.map (readScaled fmt sc bi)),
                       showRat (upperScaled fmt sc bi), showRat (lowerScaled fmt sc bi), showRat (precisionScaled fmt sc)]
                      ++ flagsTok fl) obs)
  | _ => throw "SC: arity"

/-- `SCI <signed> <scale> <bias> [v..] | s n f [codes]` — size inference of a scaled object. -/
def opSCI (args obs : List String) : P String := do
  match args with
  | [sg, sc, bi, vs] =>
    let signed : Option Bool := if sg == "n" then none else some (sg == "s")
    let sc ← pRat sc
    let bi ← pRat bi
    let vs ← pList pRat vs
    if sc = 0 then return "SKIP"
    match inferScaled signed sc bi vs with
    | none => pure (reply (isExc obs) (isExc obs) ["ERR"])
    | some g =>
      pure (functional [showSigned g.signed, toString g.nword, toString g.nfrac,
                        showList toString (vs.map (storeScaled g .trunc .saturate sc bi))] obs)
  | _ => throw "SCI: arity"

def showShape (dims : List Nat) : String :=
  match dims with
  | [] => "()"
  | [a] => s!"({a},)"
  | l => "(" ++ ",".intercalate (l.map toString) ++ ")"

/-- apply `g` along an axis of a 2-D array given as rows: `axis 1` = within rows, `axis 0` = within columns. -/
def alongAxis (g : List Int → List Int) (axis : Nat) (rows : List (List Int)) : List (List Int) :=
  if axis = 1 then rows.map g else transposeL ((transposeL rows).map g)

/-- `RD <fn> <route> <axis=n|0|1|-1|-2> <r> <c> <fx> <o> [codes] | s n f shape [codes] ov un`
`r = 0`: 1-D array of length `c`. -/
def opRD (args obs : List String) : P String := do
  match args with
  | [fn, _route, axis, r, c, sx, nx, fx, o, cs] =>
    let r ← pNat r
    let c ← pNat c
    let x ← pFmt sx nx fx
    let o ← pOverflow o
    let cs ← pList pInt cs
    let size := cs.length
    let twoD := r != 0
    let rows : List (List Int) := if twoD then toRows c cs else [cs]
    -- negative axes count from the last one: -1 = last axis, -2 = first axis of a 2-D array
    -- "n": the axis argument is left out (the function's own default); "N": `axis=None` is passed explicitly (the flattened array)
    let ax : Option Nat := if axis == "n" || axis == "N" then none else if axis == "0" || axis == "-2" then some 0 else some 1
    -- effective axis on rows: a 1-D array is the single row, axis 0 → within that row
    let axr : Option Nat := match ax with
      | none => none
      | some a => if twoD then some a else some 1
    let lanes : List (List Int) := match axr with
      | none => [rows.flatten]
      | some 1 => rows
      | some _ => transposeL rows
    let outShape1 : List Nat := match axr with
      | none => []
      | some 1 => if twoD then [r] else []
      | some _ => [c]
    -- diagonal / trace: axis token "n" (main diagonal), "o<k>" (offset k, default axes), "w<k>" (offset k, axis1=1, axis2=0:
    -- the diagonal of the transposed matrix, i.e. offset -k of this one)
    let diagOf : List (List Int) → List Int := fun rs =>
      if axis.startsWith "o" then diagOffL rs ((axis.drop 1).toInt?.getD 0)
      else if axis.startsWith "w" then diagOffL rs (-((axis.drop 1).toInt?.getD 0))
      else diagL rs
    let res : P (Fmt × List Nat × List Int) := match fn with
      | "sum" => pure (sumFmt x size, outShape1, lanes.map sumL)
      | "max" => pure (x, outShape1, lanes.map maxL)
      | "min" => pure (x, outShape1, lanes.map minL)
      | "prod" =>
        let num := match axr with | none => size | some 1 => (if twoD then c else size) | some _ => r
        pure (prodFmt x num, outShape1, lanes.map prodL)
      | "cumsum" =>
        match axr with
        | none => pure (sumFmt x size, [size], cumL (· + ·) rows.flatten)
        | some a => pure (sumFmt x size, if twoD then [r, c] else [size], (alongAxis (cumL (· + ·)) a rows).flatten)
      | "cumprod" =>
        match axr with
        | none => pure (cumprodFmt x size, [size], cumprodCodes x size rows.flatten)
        | some a => pure (cumprodFmt x size, if twoD then [r, c] else [size], (alongAxis (cumprodCodes x size) a rows).flatten)
      | "sort" =>
        match axr with
        | none =>
          if axis == "N" then pure (x, [size], sortL rows.flatten)                           -- axis=None: the flattened array, sorted
          else pure (x, if twoD then [r, c] else [size], (rows.map sortL).flatten)          -- default: the last axis
        | some a => pure (x, if twoD then [r, c] else [size], (alongAxis sortL a rows).flatten)
      | "transpose" =>
        -- axis token "id": the identity permutation is passed as `axes` (nothing moves); "sw": axes=(1,0); "n": no `axes` argument
        if axis == "id" then pure (x, if twoD then [r, c] else [size], cs)
        else pure (x, if twoD then [c, r] else [size], if twoD then (transposeL rows).flatten else cs)
      | "diagonal" => pure (x, [(diagOf rows).length], diagOf rows)
      | "trace" => pure (sumFmt x (diagOf rows).length, [], [sumL (diagOf rows)])
      | _ => throw s!"RD: fn {fn}"
    let (g, shape, ks) ← res
    let out := ks.map (ovf o g)
    pure (functional [showSigned g.signed, toString g.nword, toString g.nfrac, showShape shape, showList toString out,
                      showBool (ks.any (fun k => decide (g.hi < k))), showBool (ks.any (fun k => decide (k < g.lo)))] obs)
  | _ => throw "RD: arity"

/-- `RDD <route> <r1> <c1> <fx> <r2> <c2> <fy> <o> [a] [b] | s n f shape [codes] ov un` — dot product
(`r = 0`: 1-D operand of length `c`). -/
def opRDD (args obs : List String) : P String := do
  match args with
  | [_route, r1, c1, sx, nx, fx, r2, c2, sy, ny, fy, o, as, bs] =>
    let r1 ← pNat r1
    let c1 ← pNat c1
    let r2 ← pNat r2
    let c2 ← pNat c2
    let x ← pFmt sx nx fx
    let y ← pFmt sy ny fy
    let o ← pOverflow o
    let as ← pList pInt as
    let bs ← pList pInt bs
    let g := dotFmt x y c1
    let (shape, ks) : List Nat × List Int :=
      if r1 = 0 ∧ r2 = 0 then ([], [dotL as bs])
      else if r2 = 0 then ([r1], (toRows c1 as).map (fun row => dotL row bs))
      else if r1 = 0 then ([c2], (transposeL (toRows c2 bs)).map (fun col => dotL as col))
      else ([r1, c2], (matmulL (toRows c1 as) (toRows c2 bs)).flatten)
    let out := ks.map (ovf o g)
    pure (functional [showSigned g.signed, toString g.nword, toString g.nfrac, showShape shape, showList toString out,
                      showBool (ks.any (fun k => decide (g.hi < k))), showBool (ks.any (fun k => decide (k < g.lo)))] obs)
  | _ => throw "RDD: arity"

/-- `RDC <route> <fx> <amin|-> <amax|-> [codes] | s n f [codes]` — clip to bounds given as codes of `fx`. -/
def opRDC (args obs : List String) : P String := do
  match args with
  | [_route, sx, nx, fx, lo, hi, cs] =>
    let x ← pFmt sx nx fx
    let lo ← pOptInt lo
    let hi ← pOptInt hi
    let cs ← pList pInt cs
    pure (functional [showSigned x.signed, toString x.nword, toString x.nfrac, showList toString (clipL lo hi cs)] obs)
  | _ => throw "RDC: arity"

/-- `RDM <r1> <c1> <fx> <r2> <c2> <fy> [a] [b] | s n f shape [codes] ov un` — `np.matmul` / `x @ y` of two 2-D operands:
sized like `dot` (every entry is a dot product of a row and a column, `Props/C15.matmul_fits`), exact codes, no flag. -/
def opRDM (args obs : List String) : P String := do
  match args with
  | [r1, c1, sx, nx, fx, _r2, c2, sy, ny, fy, as, bs] =>
    let r1 ← pNat r1
    let c1 ← pNat c1
    let c2 ← pNat c2
    let x ← pFmt sx nx fx
    let y ← pFmt sy ny fy
    let as ← pList pInt as
    let bs ← pList pInt bs
    let ks := (matmulL (toRows c1 as) (toRows c2 bs)).flatten
    let g := dotFmt x y c1
    let out := ks.map (ovf .saturate g)
    pure (functional [showSigned g.signed, toString g.nword, toString g.nfrac, showShape [r1, c2], showList toString out,
                      showBool (ks.any (fun k => decide (g.hi < k))), showBool (ks.any (fun k => decide (k < g.lo)))] obs)
  | _ => throw "RDM: arity"

def pStep (tok : String) : P Step := do
  match tok.splitOn ":" with
  | ["W", vs] => do let vs ← pList pRat vs; pure (.write vs)
  | ["S", vs] => do let vs ← pList pRat vs; pure (.write vs)
  | ["I", i, v] => do let i ← pNat i; let v ← pRat v; pure (.windex i v)
  | ["R"] => pure .reset
  | ["Z", s, n, f] => do let g ← pFmt s n f; pure (.resize g)
  | ["D", y] => pure (.derive (y == "1"))
  | _ => throw s!"bad step {tok}"

/-- `HIST <size> <fmt> <r> <o> <step>* | <flags:events>*` — a history on one object (`size` 0 = scalar).
Steps: `W:[v..]` whole write, `I:i:v` indexed write, `R` reset, `Z:s:n:f` resize, `D:b` derive `x + y`. -/
def opHIST (args obs : List String) : P String := do
  match args with
  | size :: s :: n :: f :: r :: o :: steps =>
    let size ← pNat size
    let fmt ← pFmt s n f
    let r ← pRounding r
    let o ← pOverflow o
    let steps ← steps.mapM pStep
    let x0 : Obj := { fmt := fmt, r := r, o := o, codes := List.replicate (max size 1) 0, ov := false, un := false, inacc := false }
    pure (functional (run x0 steps) obs)
  | _ => throw "HIST: arity"

def showRounding : Rounding → String
  | .trunc => "trunc" | .fix => "fix" | .floor => "floor" | .ceil => "ceil" | .around => "around"
def showOverflow : Overflow → String
  | .saturate => "saturate" | .wrap => "wrap"

def pHStep (tok : String) : P HStep := do
  match tok.splitOn ":" with
  | ["N", a, s, n, f, r, c] => do pure (.create a (← pFmt s n f) (← pNat r) (← pNat c))
  | ["K", b, a] => pure (.likeKw b a)
  | ["C", b, a] => pure (.deepcopy b a)
  | ["L", b, a, t] => pure (.likeM b a t)
  | ["J", b, a, v] => do pure (.fxpLike b a (← pRat v))
  | ["V", b, a, s, n, f] => do pure (.conv b a (← pFmt s n f))
  | ["A", c, a, b] => pure (.add c a b)
  | ["P", c, a, b] => pure (.add c a b)
  | ["B", c, a] => pure (.invert c a)
  | ["S", c, a, n] => do pure (.lshift c a (← pNat n))
  | ["H", c, a, n] => do pure (.rshiftKeep c a (← pNat n))
  | ["X", v, a, i] => do pure (.index v a (← pNat i))
  | ["T", v, a, st, sp, n] => do pure (.slice v a (← pNat st) (← pInt sp) (← pNat n))
  | ["Y", v, a, j] => do pure (.column v a (← pNat j))
  | ["W", a, vs] => do pure (.write a (← pList pRat vs))
  | ["I", a, i, v] => do pure (.windex a (← pNat i) (← pRat v))
  | ["G", a, r, o] => do pure (.setCfg a ⟨← pRounding r, ← pOverflow o⟩)
  | ["R", a] => pure (.reset a)
  | _ => throw s!"bad heap step {tok}"

def showObj (h : Heap) (x : HObj) : String :=
  let fl := h.flagsOf x
  let c := h.cfgOf x
  s!"{x.name}={showSigned x.fmt.signed},{x.fmt.nword},{x.fmt.nfrac}={showList toString (h.codes x)}={showRounding c.r},{showOverflow c.o}={showBool fl.ov}{showBool fl.un}{showBool fl.ia}"

/-- which pairs of live objects share a config cell (c), a status cell (s) or overlap in a buffer (b). -/
def sharing (h : Heap) : String :=
  let objs := h.objs
  let pairs := objs.zipIdx.flatMap (fun (p : HObj × Nat) =>
    (objs.zipIdx.filter (fun (q : HObj × Nat) => p.2 < q.2)).filterMap (fun (q : HObj × Nat) =>
      let x := p.1; let y := q.1
      let c := x.cfg == y.cfg
      let s := x.st == y.st
      let b := x.buf == y.buf && (List.range x.len).any (fun k => (List.range y.len).any (fun l => x.pos k == y.pos l))
      if c || s || b then
        some s!"{x.name}-{y.name}:{if c then "c" else ""}{if s then "s" else ""}{if b then "b" else ""}"
      else none))
  if pairs.isEmpty then "-" else ",".intercalate pairs

def showHeap (h : Heap) : String := ";".intercalate (h.objs.map (showObj h)) ++ "|" ++ sharing h

def runHeapObs (h : Heap) : List HStep → List String
  | [] => []
  | s :: rest => let h' := h.step s; (showHeap h').replace " " "" :: runHeapObs h' rest

/-- `HEAP <step>* | <snapshot>*` — object-graph histories; after every step the observable state of all live
objects and the sharing graph are compared. -/
def opHEAP (args obs : List String) : P String := do
  let steps ← args.mapM pHStep
  let model := (runHeapObs emptyHeap steps).map (fun s => s.replace "|" "#")
  pure (functional model obs)

/-- `INP <kind> <payload> | unchanged` — building an object from a container never modifies the container. -/
def opINP (_args obs : List String) : P String := pure (functional ["1"] obs)

/-- `BCF <where> <key> <value> | outcome` — an invalid configuration value is rejected with an error and not stored. -/
def opBCF (_args obs : List String) : P String :=
  pure (reply (obs == ["REJECTED"]) (obs == ["REJECTED"]) ["REJECTED"])

/-- `WF <what> | s n f cx nint upper lower precision dtype scale bias [codes]` — an object returned by the
implementation during a random program; judged by the verified well-formedness checker (no model prediction). -/
def opWF (_args obs : List String) : P String := do
  match obs with
  | [s, n, f, cx, nint, up, lo, pr, dt, sc, bi, cs] =>
    match pFmt s n f, pBool cx, pInt nint, pRat up, pRat lo, pRat pr, pRat sc, pRat bi, pList pInt cs with
    | .ok fmt, .ok cx, .ok nint, .ok up, .ok lo, .ok pr, .ok sc, .ok bi, .ok cs =>
      let ok := Chk.c02 fmt cx sc bi nint up lo pr dt cs
      pure (reply ok ok ["wf"])
    | _, _, _, _, _, _, _, _, _ => pure (reply false false ["unparsable"])
  | _ => pure (reply false false ["wf"])

def chkWFGroups : Nat → List String → Nat → Option Nat
  | 0, _, _ => none
  | _, [], _ => none
  | fuel + 1, s :: n :: f :: cx :: nint :: up :: lo :: pr :: dt :: sc :: bi :: cs :: rest, i =>
    match pFmt s n f, pBool cx, pInt nint, pRat up, pRat lo, pRat pr, pRat sc, pRat bi, pList pInt cs with
    | .ok fmt, .ok cx, .ok nint, .ok up, .ok lo, .ok pr, .ok sc, .ok bi, .ok cs =>
      if Chk.c02 fmt cx sc bi nint up lo pr dt cs then chkWFGroups fuel rest (i + 1) else some i
    | _, _, _, _, _, _, _, _, _ => some i
  | _, _, i => some i

/-- `PROG <seed> <maxword> <steps> | (s n f cx nint upper lower precision dtype scale bias [codes])*`
a random program of public operations executed on the implementation; every object it returned is judged by the
verified well-formedness checker. -/
def opPROG (_args obs : List String) : P String := do
  if isExc obs then return reply false false ["exception"]
  match chkWFGroups (obs.length + 1) obs 0 with
  | none => pure (reply true true [s!"wf{obs.length / 12}"])
  | some i => pure (reply false false [s!"bad@{i}"])

/-- `SX <fmt> <rounding> <route> <v> | code` — saturation of an input of any magnitude (float or Python int),
`n_frac ≥ 0`: the code is the bound on the input's own side. -/
def opSX (args obs : List String) : P String := do
  match args with
  | [s, n, f, r, _carrier, v] =>
    let fmt ← pFmt s n f
    let r ← pRounding r
    let v ← pRat v
    let m := quantize fmt r .saturate v
    match obs with
    | [c] =>
      match c.toInt? with
      | some c => pure (reply (decide (c = m)) (Chk.c02side fmt v c) [toString m])
      | none => pure (reply false false [toString m])
    | _ => pure (reply false false [toString m])
  | _ => throw "SX: arity"

/-- prefix-notation expression: `+ l r`, `- l r`, `* l r`, leaf `L:s:n:f:code`. Returns the tree and the rest. -/
def pExpr : Nat → List String → P (Expr × List String)
  | 0, _ => throw "EX: too deep"
  | _, [] => throw "EX: truncated"
  | fuel + 1, t :: rest =>
    if t == "+" || t == "-" || t == "*" then do
      let (l, r1) ← pExpr fuel rest
      let (r, r2) ← pExpr fuel r1
      pure ((if t == "+" then Expr.add l r else if t == "-" then Expr.sub l r else Expr.mul l r), r2)
    else
      match t.splitOn ":" with
      | ["L", s, n, f, c] => do pure (Expr.leaf (← pFmt s n f) (← pInt c), rest)
      | _ => throw s!"EX: bad token {t}"

/-- `EX <rounding> <overflow> <prefix expression…> | s n f code value ov un` — a nested expression evaluated with
optimal sizing on both sides; Spec: the value is the exact value of the tree, no overflow/underflow flag. -/
def opEX2 (args obs : List String) : P String := do
  match args with
  | r :: o :: toks =>
    let r ← pRounding r
    let o ← pOverflow o
    let (e, rest) ← pExpr 64 toks
    if !rest.isEmpty then throw "EX: trailing tokens"
    match e.eval r o with
    | none => pure (reply (isExc obs) (isExc obs) ["ERR"])
    | some (t, c) =>
      let m := [showSigned t.signed, toString t.nword, toString t.nfrac, toString c, showRat (valueOf t c), "0", "0"]
      match obs with
      | [_, _, _, _, v, ov, un] =>
        let s := (v == showRat e.value) && ov == "0" && un == "0"
        pure (reply (decide (m = obs)) s m)
      | _ => pure (reply false false m)
  | _ => throw "EX: arity"

def pOpt {α} (f : String → P α) (t : String) : P (Option α) :=
  if t == "-" then pure none else do pure (some (← f t))

/-- `RZ <old fmt> <signed|-> <n_word|-> <n_frac|-> <n_int|-> <dtype|-> | s n f n_int` — size resolution of `resize`
(an object of the old format is resized with exactly these keyword arguments). -/
def opRZ (args obs : List String) : P String := do
  match args with
  | [s, n, f, sg, w, fr, ni, dt] =>
    let old ← pFmt s n f
    let a : ResizeArgs := { signed := ← pOpt pBool sg, nword := ← pOpt pInt w, nfrac := ← pOpt pInt fr,
                            nint := ← pOpt pInt ni, dtype := (if dt == "-" then none else some dt.toList) }
    match resizeMeta old.meta a with
    | none => pure (reply (isExc obs) (isExc obs) ["ERR"])
    | some m =>
      if m.nword < 1 ∨ (m.signed ∧ m.nword < 1) then pure (reply (isExc obs) (isExc obs) ["ERR"]) else
      pure (functional [showSigned m.signed, toString m.nword, toString m.nfrac, toString m.nint] obs)
  | _ => throw "RZ: arity"

/-- `UN <op=neg|pos|abs> <fx> [codes] | s n f [codes]` — unary operators build a default-config object. -/
def opUN (args obs : List String) : P String := do
  match args with
  | [op, sx, nx, fx, cs] =>
    let x ← pFmt sx nx fx
    let cs ← pList pInt cs
    let g ← match op with
      | "neg" => pure (negM x)
      | "pos" => pure (posM x)
      | "abs" => pure (absM x)
      | _ => throw "UN: op"
    pure (functional [showSigned x.signed, toString x.nword, toString x.nfrac, showList toString (cs.map g)] obs)
  | _ => throw "UN: arity"

def dispatch (op : String) (args obs : List String) : P String :=
  match op with
  | "Q1" => opQ1 args obs
  | "QC" => opQC args obs
  | "W3" => opW3 args obs
  | "WS" => opWS args obs
  | "WR" => opWR args obs
  | "WQ" => opWQ args obs
  | "R5" => opR5 args obs
  | "I5" => opI5 args obs
  | "M5" => opM5 args obs
  | "AR" => opAR args obs
  | "RZ" => opRZ args obs
  | "EXPR" => opEX2 args obs
  | "AO" => opAO args obs
  | "UN" => opUN args obs
  | "AC" => opAC args obs
  | "DV" => opDV args obs
  | "CV" => opCV args obs
  | "CMP" => opCMP args obs
  | "NC" => opNC args obs
  | "DR" => opDR args obs
  | "SB" => opSB args obs
  | "WF" => opWF args obs
  | "PROG" => opPROG args obs
  | "SX" => opSX args obs
  | "INP" => opINP args obs
  | "BCF" => opBCF args obs
  | "HEAP" => opHEAP args obs
  | "HIST" => opHIST args obs
  | "RD" => opRD args obs
  | "RDD" => opRDD args obs
  | "RDC" => opRDC args obs
  | "RDM" => opRDM args obs
  | "SC" => opSC args obs
  | "SCI" => opSCI args obs
  | "INF" => opINF args obs
  | "INC" => opINC args obs
  | "BI" => opBI args obs
  | "X18" => opX18 args obs
  | "EX" => opEX args obs
  | "BW" => opBW args obs
  | "BL" => opBL args obs
  | "SF" => opSF args obs
  | "SH" => opSH args obs
  | "SR" => opSR args obs
  | "SP" => opSP args obs
  | "DP" => opDP args obs
  | "CH" => opCH args obs
  | _ => throw s!"unknown op {op}"

end Fxp.Ops
