import FxpVerif.Model.Arith
/-!
# Machine carriers at the 64-bit boundary (`functions.py` add/sub/mul raw kernels, `objects.py` set_val)

NumPy `int64` arithmetic wraps modulo 2^64 (balanced), `uint64` modulo 2^64, an `int64` array combined
with a `uint64` array is computed in `float64` (53-bit mantissa); Python integers (object arrays) are exact.
The code chooses the carrier from the operand formats (`_needs_python_int`, `_mul_raw`) and, when storing,
from the magnitude of the scaled input (`set_val`). This file models the choice and what each carrier
computes; `Props/C19.lean` proves that whenever a machine carrier is chosen, nothing leaves it.
-/
namespace Fxp

inductive Path | pyint | int64 | uint64 | float64
deriving Repr, DecidableEq

def FitsI64 (z : Int) : Prop := -(2 ^ 63 : Int) ≤ z ∧ z < 2 ^ 63
def FitsU64 (z : Int) : Prop := 0 ≤ z ∧ z < (2 ^ 64 : Int)
/-- integers every float64 represents exactly. -/
def FitsF53 (z : Int) : Prop := -(2 ^ 53 : Int) ≤ z ∧ z ≤ 2 ^ 53

instance (z : Int) : Decidable (FitsI64 z) := by unfold FitsI64; exact inferInstance
instance (z : Int) : Decidable (FitsU64 z) := by unfold FitsU64; exact inferInstance
instance (z : Int) : Decidable (FitsF53 z) := by unfold FitsF53; exact inferInstance

/-- what int64 arithmetic returns for the exact result `z`. -/
def wrapI64 (z : Int) : Int := Int.bmod z (2 ^ 64)
/-- what uint64 arithmetic returns for the exact result `z`. -/
def wrapU64 (z : Int) : Int := z % 2 ^ 64

/-- bits of the aligned sum/difference (`_needs_python_int`): one more than the wider aligned operand. -/
def addBits (x y : Fmt) (F : Int) : Int :=
  max ((x.nword : Int) + max (F - x.nfrac) 0) ((y.nword : Int) + max (F - y.nfrac) 0) + 1

/-- the selection rule of `_add_raw` / `_sub_raw`. -/
def addNeedsPyInt (x y : Fmt) (F : Int) : Bool :=
  decide (64 ≤ F) || decide (63 ≤ addBits x y F) || (x.signed != y.signed && decide (53 ≤ addBits x y F))

/-- the selection rule of `_mul_raw`. -/
def mulBits (x y : Fmt) (F : Int) : Int := (x.nword : Int) + y.nword + max (F - x.nfrac - y.nfrac) 0
def mulNeedsPyInt (x y : Fmt) (F : Int) : Bool :=
  decide (64 ≤ F) || decide (63 ≤ mulBits x y F) || (x.signed != y.signed && decide (53 ≤ mulBits x y F))

/-- operands narrower than 64 bits are int64 (signed) or uint64 (unsigned) arrays; 64 bits and more are
Python-int object arrays, which make every operation a Python-int operation. -/
def machinePath (needsPy : Bool) (x y : Fmt) : Path :=
  if needsPy || decide (64 ≤ x.nword) || decide (64 ≤ y.nword) then .pyint
  else if x.signed && y.signed then .int64
  else if !x.signed && !y.signed then .uint64
  else .float64

/-- the rule before the repair: Python integers only when the result fraction length is ≥ 64
(`precision_cast`) — kept to exhibit the defect. -/
def oldAddNeedsPyInt (_x _y : Fmt) (F : Int) : Bool := decide (64 ≤ F)

/-- result of a binary integer operation `z = a' ∘ b'` (exact value `z`) on a carrier; the uint64 result
is re-read as int64 by the raw store (`val.astype(int)`), which is how negative differences survive. -/
def machineResult (p : Path) (z : Int) : Option Int :=
  match p with
  | .pyint => some z
  | .int64 => some (wrapI64 z)
  | .uint64 => some (wrapI64 (wrapU64 z))
  | .float64 => if FitsF53 z then some z else none      -- beyond 2^53 the float64 result is rounded

/-! ### storing a Python integer by value (`n_frac ≥ 0`) -/

/-- `_format_inupt_val` + `set_val`: object path when the integer itself, the conversion factor `2^n_frac` or the
scaled value leaves int64, or the word has 64+ bits. -/
def storeNeedsPyInt (f : Fmt) (v : Int) : Bool :=
  !(decide (FitsI64 v)) || decide (63 ≤ f.nfrac) ||
    (decide (0 < f.nfrac) && !(decide (FitsI64 (v * 2 ^ f.nfrac.toNat)))) || decide (64 ≤ f.nword)

/-- the scaled integer as the chosen carrier computes it. -/
def machineScaled (f : Fmt) (v : Int) : Int :=
  if storeNeedsPyInt f v then v * 2 ^ f.nfrac.toNat else wrapI64 (v * 2 ^ f.nfrac.toNat)

/-- the whole store on the chosen carrier. -/
def machineStoreInt (f : Fmt) (o : Overflow) (v : Int) : Int := ovf o f (machineScaled f v)

/-- the rule before the repair: object path only beyond ±2^64 (unscaled). -/
def oldStoreNeedsPyInt (f : Fmt) (v : Int) : Bool :=
  decide (2 ^ 64 ≤ v) || decide (v < -(2 ^ 64 : Int)) || decide (64 ≤ f.nword)

end Fxp
