import FxpVerif.Model.Infer
/-!
# Scale and bias (`objects.py` 741-758 input conversion, 995-998 read-back, 487-491 limits)

An object created with `scale=s, bias=b` stores the code of `(v - b) / s` and reads back `s·code·2^-n_frac + b`.
-/
namespace Fxp

def toInner (s b v : Rat) : Rat := (v - b) / s
def fromInner (s b x : Rat) : Rat := s * x + b

def storeScaled (f : Fmt) (r : Rounding) (o : Overflow) (s b v : Rat) : Int := quantize f r o (toInner s b v)
def readScaled (f : Fmt) (s b : Rat) (c : Int) : Rat := fromInner s b (valueOf f c)
def upperScaled (f : Fmt) (s b : Rat) : Rat := fromInner s b (valueOf f f.hi)
def lowerScaled (f : Fmt) (s b : Rat) : Rat := fromInner s b (valueOf f f.lo)
def precisionScaled (f : Fmt) (s : Rat) : Rat := s * valueOf f 1
def flagsScaled (f : Fmt) (r : Rounding) (o : Overflow) (s b v : Rat) : Flags := storeFlags f r o (toInner s b v)

/-- size inference of a scaled object sizes the transformed values. -/
def inferScaled (signed : Option Bool) (s b : Rat) (vals : List Rat) : Option Fmt :=
  inferFmt signed none none none (vals.map (toInner s b))

end Fxp
