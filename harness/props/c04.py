"""C04 — status flags and callbacks report exactly what happened, and are sticky."""
from fractions import Fraction
import numpy as np
import fxpmath
from fxpmath.callbacks import Callback
from ..env import Fxp, parse_list, tok_list, lims, exc_token, tok_frac, to_float, is_exact_float, frac, ROUNDS, OVFS
from .. import gen as G
from .. import carriers as C
from ..arith import hist_of
from .. import arith as A
from . import base

TRUSTED_BASE = base.TRUSTED_BASE
ASSUMPTIONS = base.ASSUMPTIONS + ['reading: a "write" is one call of __call__/set_val/__setitem__ (and the re-store done by resize) on an existing real-valued object; construction and complex writes are not counted',
                                  '"results of arithmetic" = results of the binary operators/functions that go through the function wrappers']
RULE = ('HIST lines: random histories (<=10 steps) of scalar/array writes by call and set_val (values as numbers/lists, every third time inside another exact Fxp object), indexed writes, reset, resize and arithmetic-derive on formats <=52 bits with a recording Callback; after every step flags, fired callbacks (in order) '
        'and, for derive steps, the inaccuracy flag of x+y (operator, function, function with out=, np.add with out=, config.op_out holder, out_like=) are compared. Write values sit at hi, hi+1/4 LSB, hi+1, lo, lo-1/4 LSB, lo-1, codes and ties. AR/AO lines (a third of C08\'s): binary operations under every sizing policy and into out / out_like targets, observed with the inaccuracy flags of both operands and of the result. non-trivial = a history in which some flag was raised, or any AR/AO line')
TECHNIQUE = 'Lean 4 theorems on the status state machine (flags iff conditions, trace exact, stickiness by induction over histories, reset, propagation) + differential correspondence of flag/callback traces'
LEVEL_TEXT = ('Machine-checked on the status state machine: a write from any state raises overflow/underflow/inaccuracy exactly when some rounded element exceeds the maximum / is below the minimum / some stored element differs from its input; the callback trace of a write is the '
              'conditions that occurred (each once, in order) followed by exactly one value-change; a raised flag stays raised along every history without reset (induction over histories); reset clears the three flags and nothing else; arithmetic results inherit inaccuracy. '
              'Histories are replayed on the implementation with a recording callback.')
LEVEL_NOTE = 'Trusted: Lean kernel + standard axioms; model-vs-code agreement on generated histories only.'


class Rec(Callback):
    def __init__(self):
        self.ev = []

    def on_value_change(self, fxp_object, logs=None):
        self.ev.append('c')

    def on_status_overflow(self, fxp_object, logs=None):
        self.ev.append('o')

    def on_status_underflow(self, fxp_object, logs=None):
        self.ev.append('u')

    def on_status_inaccuracy(self, fxp_object, logs=None):
        self.ev.append('i')


def pyval(q):
    q = Fraction(q)
    return int(q) if q.denominator == 1 else to_float(q)


def flags(x):
    st = x.status
    assert set(st.keys()) == {'overflow', 'underflow', 'inaccuracy', 'extended_prec'}, 'status keys: %s' % sorted(st.keys())
    return ''.join('1' if st[k] else '0' for k in ('overflow', 'underflow', 'inaccuracy'))


def exec_HIST(t):
    size = int(t[0])
    s, n, f = t[1] == 's', int(t[2]), int(t[3])
    r, o = t[4], t[5]
    rec = Rec()
    out = []
    try:
        x = Fxp(None if size == 0 else np.zeros(size, dtype=int), s, n, f, rounding=r, overflow=o, callbacks=[rec])
        rec.ev.clear()
        for tok in t[6:]:
            parts = tok.split(':')
            rec.ev.clear()
            if parts[0] in ('W', 'S'):
                qs = [frac(v) for v in parse_list(parts[1])]
                vs = [pyval(q) for q in qs]
                val = vs[0] if size == 0 else vs
                # every third whole write (content-determined) hands the values over inside another, exact Fxp object
                if hist_of(len(out), len(qs), *[int(q * 4) % 1009 for q in qs]) % 3 == 0:
                    c = 'fxp' if size == 0 else 'arr.fxp'
                    if C.ok_for(c, qs):
                        val = C.build(c, qs)[0]
                        lo_, hi_ = lims(bool(x.signed), x.n_word)        # (the object's format now: a resize step may have changed it)
                        if all((q * Fraction(2) ** x.n_frac).denominator != 1 or not (lo_ <= q * Fraction(2) ** x.n_frac <= hi_) for q in qs) and len(out) % 2 and val.n_word <= 60:
                            # every element of this write is inexact or out of range anyway: the source object may then carry an
                            # inaccuracy flag of its own past (it held an inexact value before it was given these) - the write is still
                            # one write, notified once per condition
                            src_ = Fxp(0.3 if size == 0 else [0.3] * len(qs), val.signed, val.n_word, val.n_frac)
                            src_(val)
                            if src_.status['inaccuracy'] and A.codes_of(src_) == A.codes_of(val):
                                val = src_
                if size == 0 and hist_of(len(out), len(qs), *[int(q * 4) % 1013 for q in qs]) % 5 == 1 and C.ok_for('decimal', qs):
                    val = C.build('decimal', qs)[0]      # the same value as a decimal.Decimal: inexact writes are flagged and notified (D78)
                if parts[0] == 'W':
                    x(val)
                else:
                    x.set_val(val)
                out.append(flags(x) + ':' + ''.join(rec.ev))
            elif parts[0] == 'I':
                q = frac(parts[2])
                if size > 0 and hist_of(len(out), size, int(q * 4) % 1013) % 2 == 0:
                    # (content-determined) first an element *object* taken from x is written with values far beyond both bounds: that is a
                    # write to the element object — x sees neither a flag nor a callback from it (its values are shared, its status is not)
                    e = x[int(parts[1])]
                    e.set_val(2.0 ** 60)
                    if s:
                        e.set_val(-2.0 ** 60)
                    e.set_val(0.3 * 2.0 ** -f)
                x[int(parts[1])] = C.build('fxp', [q])[0] if (hist_of(len(out), int(q * 4) % 1009) % 3 == 0 and C.ok_for('fxp', [q])) else pyval(q)
                out.append(flags(x) + ':' + ''.join(rec.ev))
            elif parts[0] == 'R':
                x.reset()
                out.append(flags(x) + ':' + ''.join(rec.ev))
            elif parts[0] == 'Z':
                x.resize(parts[1] == 's', int(parts[2]), int(parts[3]))
                out.append(flags(x) + ':' + ''.join(rec.ev))
            elif parts[0] == 'D':
                y = Fxp(0.3 if parts[1] == '1' else 0.25, True, 8, 4)   # 0.3 is inexact in s8/4 (flag set), 0.25 exact
                assert bool(y.status['inaccuracy']) == (parts[1] == '1')
                z1 = x + y
                z2 = fxpmath.add(y, x)
                a, b = z1.status['inaccuracy'], z2.status['inaccuracy']
                # the same result delivered into an existing (clean, exactly fitting) holder by every out= route
                mkh = lambda: Fxp(None if z1.ndim == 0 else np.zeros(z1.shape, dtype=int), z1.signed, z1.n_word, z1.n_frac)
                z3 = fxpmath.add(x, y, out=mkh())
                z4 = np.add(x, y, out=mkh())
                old_out = x.config.op_out
                x.config.op_out = mkh()
                try:
                    z5 = x + y
                finally:
                    x.config.op_out = old_out
                z6 = fxpmath.sub(x, y, out_like=z1) if len(out) % 2 else fxpmath.add(y, x, out_like=z1)
                others = [z.status['inaccuracy'] for z in (z3, z4, z5, z6)]
                # an object shaped like x (like=, the template pattern) is a new object: storing an exact in-range value into it raises
                # nothing, whatever flags x has collected in its own history
                w = Fxp(0 if size == 0 else np.zeros(size, dtype=int), like=x)
                if flags(w) != '000':
                    out.append(flags(x) + ':likeflags' + flags(w))
                elif a != b or any(o_ != a for o_ in others):
                    out.append(flags(x) + ':zmismatch')
                else:
                    out.append(flags(x) + ':' + ('z1' if a else 'z0'))
    except Exception as e:
        return out + [exc_token(e)]
    return out


def exec_AR_ia(t):
    return A.exec_AR(t, ia=True)


def exec_AO_ia(t):
    return A.exec_AO(t, ia=True)


# arithmetic lines of C08 (every sizing policy, out / out_like targets), here observed with the inaccuracy flags of both
# operands and of the result: the result carries the flag iff an operand carried it or its own store was inexact
EXEC = {'HIST': exec_HIST, 'AR': exec_AR_ia, 'AO': exec_AO_ia}


def wval(rng, s, n, f):
    lo, hi = lims(s, n)
    base_ = rng.choice([hi, hi, lo, lo, 0, rng.randint(lo, hi), hi + 1, lo - 1, 2 * hi + 3, 2 * lo - 3])
    d = rng.choice([0, 0, 1, -1, 2, -2, 4, -4])
    x = Fraction(4 * base_ + d, 4)
    return x / Fraction(2) ** f


def generate(tier, rng):
    n_h = 2500 if tier == 'quick' else 60000
    for _ in range(n_h):
        s = rng.random() < 0.5
        n = rng.choice([rng.randint(1 + int(s), 12), rng.randint(1 + int(s), 52)])
        f = rng.randint(-2, n + 2)
        size = rng.choice([0, 0, 1, 3])
        r, o = rng.choice(ROUNDS), rng.choice(OVFS)
        steps = []
        cs, cn, cf = s, n, f
        ok = True
        for _ in range(rng.randint(1, 10)):
            kind = rng.random()
            if kind < 0.45:
                vs = [wval(rng, cs, cn, cf) for _ in range(max(size, 1))]
                if rng.random() < 0.06:
                    # integers at the ends of the 64-bit machine range (any write is a write: the flags must be exact for them too)
                    vs = [Fraction(rng.choice([-2 ** 63, 2 ** 63 - 1, -2 ** 63 + 1, 2 ** 62, -2 ** 62 - 1])) if rng.random() < 0.7 else Fraction(rng.randint(-3, 3)) for _ in vs]
                elif not all(G.in_c01_domain(cn, cf, v) and is_exact_float(v) for v in vs):
                    ok = False; break
                steps.append('%s:%s' % (rng.choice('WS'), tok_list([tok_frac(v) for v in vs])))
            elif kind < 0.6 and size > 0:
                v = wval(rng, cs, cn, cf)
                if not (G.in_c01_domain(cn, cf, v) and is_exact_float(v)):
                    ok = False; break
                steps.append('I:%d:%s' % (rng.randrange(size), tok_frac(v)))
            elif kind < 0.72:
                steps.append('R')
            elif kind < 0.85:
                n2 = max(1 + int(cs), min(52, cn + rng.choice([-3, -1, 0, 1, 4])))
                f2 = cf + rng.choice([-2, -1, 0, 1, 2])
                if not (-8 <= f2 <= n2 + 8):
                    continue
                steps.append('Z:%s:%d:%d' % ('s' if cs else 'u', n2, f2))
                cn, cf = n2, f2
            else:
                if cn <= 40 and -2 <= cf <= 40:
                    steps.append('D:%d' % rng.choice([0, 1]))
        if ok and steps:
            yield 'HIST %d %s %d %d %s %s %s' % (size, 's' if s else 'u', n, f, r, o, ' '.join(steps))
    # results of arithmetic: AR / AO lines as in C08, with the inaccuracy flags observed
    from . import c08
    k = 0
    for l in c08.generate(tier, rng):
        if l.startswith(('AR ', 'AO ')):
            k += 1
            if k % 3 == 0:
                yield l


def nontrivial(full_line, model):
    if not full_line.startswith('HIST'):
        return True
    return any(tok[:3] != '000' for tok in model.split())


def kf_class(t):
    return None


def debug_class(t):
    if t[0] != 'HIST':
        return ' '.join(t[0:5])
    return 'HIST size=%s kinds=%s' % (t[1], ''.join(sorted(set(tok[0] for tok in t[7:]))))


def stats(verdicts):
    return base.generic_stats(verdicts, lambda t: (['op:HIST', 'size:' + t[1], 'ovf:' + t[6], 'round:' + t[5]] + ['step:' + k for k in sorted(set(tok[0] for tok in t[7:]))]) if t[0] == 'HIST'
                              else ['op:' + t[0], 'policy:' + t[2]],
                              lambda t: len(t[7:]) if t[0] == 'HIST' else 1, [])
