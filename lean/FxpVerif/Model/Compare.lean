import FxpVerif.Model.Core
/-!
# Comparisons and numeric conversions (`objects.py` 934-1056, 1149-1168, 1479-1507)

Comparison operators compare `get_val()` of both sides; `astype(int)` is `raw // conv_factor` (floor);
`uraw` is `np.where(val < 0, (1 << n_word) + val, val)`.
-/
namespace Fxp

structure CmpResult where
  lt : Bool
  le : Bool
  eq : Bool
  ne : Bool
  gt : Bool
  ge : Bool
deriving Repr, DecidableEq

/-- the six relations between two exact values. -/
def cmpRat (u v : Rat) : CmpResult :=
  { lt := decide (u < v), le := decide (u ≤ v), eq := decide (u = v),
    ne := decide (u ≠ v), gt := decide (v < u), ge := decide (v ≤ u) }

def cmpFxp (x y : Fmt) (a b : Int) : CmpResult := cmpRat (valueOf x a) (valueOf y b)

/-- `astype(int)` / `int()`: floor of the value. -/
def astypeInt (f : Fmt) (c : Int) : Int := (valueOf f c).floor

/-- `bool()`. -/
def toBool (f : Fmt) (c : Int) : Bool := decide (valueOf f c ≠ 0)

/-- `uraw()`: the n_word-bit two's-complement image of the code. -/
def urawM (f : Fmt) (c : Int) : Int := if c < 0 then 2 ^ f.nword + c else c

end Fxp
