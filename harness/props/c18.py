"""C18 — extended precision: words of 64+ bits store and render integers bit-exactly."""
import numpy as np
from ..env import Fxp, parse_list, tok_list, lims, codes_of, exc_token, tok_bool, OVFS
from . import base
from . import c11, c13, c03

TRUSTED_BASE = base.TRUSTED_BASE
ASSUMPTIONS = base.ASSUMPTIONS + ['quantifier: integers (codes or integer values) and raw-mode strings, as scalars and as lists/tuples of Python integers; ndarray carriers of wide codes are judged by C11',
                                  'bin()/hex() and bitwise operators at these widths reuse the ops of C11 and C13 (same model functions, unbounded in n_word)']
RULE = ('X18 lines: n_word in {64,65,66,72,96,127,128,129,200,256} x n_frac in {0,1,n/2,n-1,n} x signedness x overflow; integers at and just beyond both bounds, multiples of the modulus +- small, random up to 4x the word; '
        'routes raw constructor / raw set_val / integer value / bin string raw / hex string raw; EX lines: extended_prec after construction, resize, reset, like= (with and without a value), deepcopy, indexing, word-only construction and x+x for word lengths around 64; plus SB/SH/SP (C11 ops) and BW (C13 ops) at these widths. '
        'non-trivial = the integer is out of range (saturated or wrapped) or needs more than 63 bits')
TECHNIQUE = 'Lean 4 theorems unbounded in n_word (C01 spec_iff, C03 wrap uniqueness, C11 round trips, C13 patterns instantiated at wide words; extended_prec iff n_word>=64) + differential correspondence on the wide grid'
LEVEL_TEXT = ('The C01/C03/C11/C13 theorems hold for every n_word, so 64..256 bits are not a special case of the model: an in-range integer code is stored unchanged, an out-of-range one is clamped to its own side or reduced to the unique congruent code, flags exact. '
              'What is specific to wide words in the code (Python-int object arrays) is tied to that model by correspondence on the quantifier\'s grid through five routes, including rendering, parsing and bitwise operators at these widths and the extended_prec indicator through construction, resize and reset.')
LEVEL_NOTE = 'Trusted: Lean kernel + standard axioms; model-vs-code agreement on generated inputs only.'

WORDS = [64, 65, 66, 72, 96, 127, 128, 129, 200, 256]


def exec_X18(t):
    s, n, f = t[0] == 's', int(t[1]), int(t[2])
    o, route = t[3], t[4]
    vs = [int(v) for v in parse_list(t[5])]
    v = vs[0] if len(vs) == 1 else (list(vs) if len(vs) % 2 else tuple(vs))      # several integers travel as a list / tuple
    try:
        if len(vs) > 1 and (n + len(vs) + vs[0]) % 3 == 0 and route in ('rawset', 'rawctor', 'intval'):
            # (content-determined) one of the python integers travels next to a NumPy integer in the same list: the python integers
            # are python integers all the same
            k_ = next((i for i, c in enumerate(vs) if -2 ** 63 <= c < 2 ** 63), None)
            if k_ is not None:
                v = [np.int64(c) if i == k_ else c for i, c in enumerate(vs)]
            # ... or next to a NumPy unsigned one (D62: the pair is promoted to float64 whatever the size of the python integer)
            k_ = next((i for i, c in enumerate(vs) if 0 <= c < 2 ** 64), None)
            if k_ is not None and (n + vs[0]) % 2:
                v = [np.uint64(c) if i == k_ else c for i, c in enumerate(vs)]
        if route == 'rawset' and len(vs) > 1 and (n + vs[-1]) % 2:
            # the codes are stored one by one into the elements of an existing wide object
            x = Fxp(np.zeros(len(vs), dtype=int), s, n, f, overflow=o)
            for i_, c_ in enumerate(vs):
                x.set_val(c_, raw=True, index=i_)
            if any(isinstance(e_, np.ndarray) for e_ in (x.val.flatten() if x.val.dtype == object else [])):
                return ['NESTED_ELEMENT']
        elif route == 'rawset' and len(vs) > 1:
            x = Fxp(np.zeros(len(vs), dtype=int), s, n, f, overflow=o); x.set_val(v, raw=True)
        elif route == 'rawctor' and (n + vs[0] + len(vs)) % 3 == 1:
            # built like a holder that has a past of its own (it overflowed and underflowed before): the new object's flags speak of
            # its own store only
            T = Fxp(None, s, n, f, overflow=o)
            T.set_val(1 << (n + 3), raw=True)
            T.set_val(-(1 << (n + 3)), raw=True)
            assert T.status['overflow'] and T.status['underflow']
            x = Fxp(v, like=T, raw=True)
        elif route == 'rawctor':
            x = Fxp(v, s, n, f, raw=True, overflow=o)
        elif route == 'rawset':
            x = Fxp(None, s, n, f, overflow=o); x.set_val(v, raw=True)
        elif route == 'intval':
            x = Fxp(v, s, n, f, overflow=o)
        elif route in ('binraw', 'hexraw'):
            # a raw-mode string denotes an in-range pattern; render it ourselves (independent of bin()/hex())
            pat = v % (1 << n)
            st = ('0b' + format(pat, '0%db' % n)) if route == 'binraw' else ('0x' + format(pat, '0%dX' % ((n + 3) // 4)))
            x = Fxp(st, s, n, f, raw=True, overflow=o)
        else:
            raise ValueError(route)
        st_ = x.status
        return [tok_list([str(c) for c in codes_of(x)]), tok_bool(st_['overflow']), tok_bool(st_['underflow']), tok_bool(st_['extended_prec'])]
    except Exception as e:
        return [exc_token(e)]


def exec_EX(t):
    s, n1, n2 = t[0] == 's', int(t[1]), int(t[2])
    try:
        x = Fxp(1, s, n1, 0)
        a = x.status['extended_prec']
        x.resize(n_word=n2)
        b = x.status['extended_prec']
        x.reset()
        c = x.status['extended_prec']
        # the rest of the status record stays usable after reset
        _ = (x.status['overflow'], x.status['underflow'], x.status['inaccuracy'])
        x(3)
        # every other way of obtaining an object of that word length
        import copy
        d = Fxp(1, like=x).status['extended_prec']
        e = Fxp(None, like=x).status['extended_prec']
        f = (copy.deepcopy(x) if n1 % 2 else x.deepcopy()).status['extended_prec']
        arr = Fxp([1, 2], s, n2, 0)
        g = arr[1].status['extended_prec']
        h = Fxp(1, s, n2).status['extended_prec']           # n_frac inferred, word given
        i = (x + x).status['extended_prec']                 # one bit more than x
    except Exception as e_:
        return [exc_token(e_)]
    return [tok_bool(v) for v in (a, b, c, d, e, f, g, h, i)]


EXEC = {'X18': exec_X18, 'EX': exec_EX, 'SB': c11.exec_SB, 'SH': c11.exec_SH, 'SP': c11.exec_SP, 'BW': c13.exec_BW}


def fm(s, n, f):
    return '%s %d %d' % ('s' if s else 'u', n, f)


def generate(tier, rng):
    L = lambda l: tok_list([str(c) for c in l])
    reps = 1 if tier == 'quick' else 8
    for n in WORDS:
        for f in sorted(set([0, 1, n // 2, n - 1, n])):
            for s in (True, False):
                lo, hi = lims(s, n)
                m = 1 << n
                for o in OVFS:
                    vals = [lo, lo - 1, lo + 1, hi, hi + 1, hi - 1, 0, -1, 1, m, -m, m + 3, -m - 3, 2 * m - 1, 3 * m + (hi // 3), (1 << 63), (1 << 64) - 1, -(1 << 63) - 1]
                    vals += [rng.getrandbits(rng.randint(1, 4 * n)) * rng.choice([1, -1]) for _ in range(4 * reps)]
                    for v in vals:
                        routes = ['rawctor', 'rawset'] + (['intval'] if abs(v) < (1 << (3 * n)) else [])
                        route = rng.choice(routes)
                        yield 'X18 %s %s %s %s' % (fm(s, n, f), o, route, L([v]))
                    for _ in range(2 * reps):
                        c = rng.choice([lo, hi, 0, -1 if s else hi, rng.randint(lo, hi)])
                        yield 'X18 %s %s %s %s' % (fm(s, n, f), o, rng.choice(['binraw', 'hexraw']), L([c]))
                    # lists / tuples of Python integers: windows in which NumPy would pick a 64-bit or float carrier by itself
                    for _ in range(3 * reps):
                        win = lambda: rng.choice([rng.randint(1 << 63, (1 << 64) - 1), -rng.randint(1, 1 << 63), rng.randint(0, (1 << 63) - 1),
                                                  (1 << 63) + 1, -1, rng.choice(vals), rng.randint(lo, hi),
                                                  (1 << 62) + 1, (1 << 53) + 1, rng.randint(1 << 53, 1 << 63) | 1, 3])
                        vv = [win() for _ in range(rng.choice([2, 3]))]
                        if f > 0 and max(abs(x) for x in vv) >= (1 << (3 * n)):
                            continue
                        yield 'X18 %s %s %s %s' % (fm(s, n, f), o, rng.choice(['rawctor', 'rawset', 'intval']), L(vv))
                # arrays holding a code at the edge of the 64-bit carriers, rendered (elements go through the integer helpers one by one)
                for c in [c for c in ((1 << 63), (1 << 64) - 1, (1 << 63) + 5) if lo <= c <= hi]:
                    yield 'SH %s 1 %s' % (fm(s, n, f), L([c, 1]))
                    yield 'SB %s %d %s 1 %s' % (fm(s, n, f), rng.choice([0, 1]), rng.choice(['none', '0b']), L([1, c]))
                # rendering / parsing / bitwise at this width (ops of C11 and C13)
                for _ in range(2 * reps):
                    c = rng.choice([lo, hi, 0, 1, lo + 1, hi - 1, rng.randint(lo, hi)])
                    yield 'SB %s %d %s 0 %s' % (fm(s, n, f), rng.choice([0, 1]), rng.choice(['none', '0b']), L([c]))
                    yield 'SH %s 0 %s' % (fm(s, n, f), L([c]))
                    yield 'SP %s raw %s 0 %s %s' % (rng.choice(['bin', 'hex']), rng.choice(['ctor', 'setval']), fm(s, n, f), L([c]))
                    sy = rng.random() < 0.5
                    loy, hiy = lims(sy, n)
                    yield 'BW %s ff %s %s %s %s %s' % (rng.choice(['and', 'or', 'xor']), fm(s, n, f), fm(sy, n, 0), rng.choice(OVFS), L([c]), L([rng.randint(loy, hiy)]))
                    yield 'BW inv - %s %s %s %s []' % (fm(s, n, f), fm(s, n, f), rng.choice(OVFS), L([c]))
    for n1 in [8, 32, 62, 63, 64, 65, 128]:
        for n2 in [8, 63, 64, 65, 200]:
            for s in (True, False):
                yield 'EX %s %d %d' % ('s' if s else 'u', n1, n2)


def nontrivial(full_line, model):
    return True


def kf_class(t):
    return None


def debug_class(t):
    return t[0] + ' ' + (t[5] if t[0] == 'X18' else '')


def stats(verdicts):
    return base.generic_stats(verdicts, lambda t: ['op:' + t[0]] + (['route:' + t[5], 'ovf:' + t[4], 'word:%s' % t[2]] if t[0] == 'X18' else []), None,
                              ['X18: the complete grid n_word x n_frac x signedness x overflow of the quantifier, boundary integers on both sides'])
