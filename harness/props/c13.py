"""C13 — bitwise operators act on the n_word-bit two's-complement word."""
import numpy as np
from ..env import Fxp, parse_list, tok_list, lims, codes_of, fmt_of, exc_token, OVFS
from ..arith import mk
from . import base

TRUSTED_BASE = base.TRUSTED_BASE + ['Python `&`, `|`, `^` on non-negative ints are modelled by Nat.land/lor/xor (core Lean)']
ASSUMPTIONS = base.ASSUMPTIONS + ['quantifier: scalar or array Fxp with scalar Fxp / integer mask; array-with-array operands are outside the statement (they raise TypeError on the pinned tree)']
RULE = ('BW lines: ~x, x&y, x|y, x^y with y an Fxp of the same word length and either signedness, or an integer mask on either side (also negative and oversized masks); all code pairs for n_word<=4 (quick) / <=6 (thorough) x 4 signedness combinations x n_frac 0..n_word; '
        'boundary and random codes for n_word in {16,31,32,33,63,64,65,100,128}; different word lengths must raise. BL lines: ~~x, De Morgan and ~x=-x-LSB evaluated on the implementation itself. '
        'non-trivial = some operand negative or mixed signedness or mask outside [0,2^n)')
TECHNIQUE = 'Lean 4 theorems (bit i of the result pattern = Boolean op of operand bits for all i<n_word; ~~x=x; ~x=-x-1 signed; De Morgan; result format; word-length mismatch rejected) + relational checker on the implementation'
LEVEL_TEXT = ('Machine-checked for every word length: the model result is in range of x\'s format and bit i of its two\'s-complement pattern is NOT/AND/OR/XOR of the operands\' bits i (Nat.testBit), hence ~~x=x, ~x=-x-LSB for signed x and De Morgan\'s laws; '
              'operands of different word lengths yield an error. The implementation is judged by the verified pattern checker on exhaustive small formats and boundary/random codes at 16..128 bits, and the laws are also evaluated on the implementation directly.')
LEVEL_NOTE = 'Trusted: Lean kernel + standard axioms; model-vs-code agreement on generated inputs only.'

OPS = {'and': lambda a, b: a & b, 'or': lambda a, b: a | b, 'xor': lambda a, b: a ^ b}


def mk13(codes, signed, n, f, **cfg):
    """operands of 61..63 bits also come with a past (the shared histories stop at 60 bits): an object created empty — its value
    type is the one of its format, float when it has fraction bits — and filled with its codes afterwards, or created from a float"""
    if 61 <= n <= 63 and (codes[0] + len(codes)) % 2:
        if (codes[0] + f) % 3 == 0:
            x = Fxp(0.0 if len(codes) == 1 else np.zeros(len(codes)), signed, n, f, **cfg)
        else:
            x = Fxp(None if len(codes) == 1 else np.zeros(len(codes), dtype=int), signed, n, f, **cfg)
        x.set_val(codes[0] if len(codes) == 1 else np.array(codes, dtype=np.int64 if signed else np.uint64), raw=True)
        assert codes_of(x) == list(codes)
        return x
    return mk(codes, signed, n, f, **cfg)


def exec_BW(t):
    op, kind = t[0], t[1]
    sx, nx, fx = t[2] == 's', int(t[3]), int(t[4])
    sy, ny, fy = t[5] == 's', int(t[6]), int(t[7])
    o = t[8]
    a = [int(c) for c in parse_list(t[9])]
    b = [int(c) for c in parse_list(t[10])]
    try:
        x = mk13(a, sx, nx, fx, overflow=o)
        before = codes_of(x)
        NPOPS = {'and': np.bitwise_and, 'or': np.bitwise_or, 'xor': np.bitwise_xor}
        sp = (nx + len(a) + a[0] + (b[0] if b else 0)) % 3       # content-determined spelling of the same operation
        if op == 'inv':
            z = np.invert(x) if sp == 0 else ~x
        elif kind == 'gg':
            # a column of x against a row of y (both fixed-point arrays): the grid of all pairs, by broadcasting
            y = mk13(b, sy, ny, fy)
            X, Y = x[:, None], y[None, :]
            z = NPOPS[op](X, Y) if sp == 0 else OPS[op](X, Y)
            if np.shape(z.val) != (len(a), len(b)):
                return ['SHAPE:%s' % (np.shape(z.val),)]
        elif kind == 'ff':
            y = mk13(b, sy, ny, fy)
            z = NPOPS[op](x, y) if sp == 0 else OPS[op](x, y)
        else:
            # the integer mask as a python integer or (when it fits one) as a NumPy integer scalar, which makes NumPy dispatch the operator
            m = b[0]
            if len(b) > 1:
                # one mask per element: a list, or (when they fit) a NumPy array of them
                m = np.array(b) if (sp == 1 and all(-2 ** 63 <= v < 2 ** 63 for v in b)) else list(b)
                if sp == 0:
                    sp = 2          # (the np.bitwise_* spelling below hands over b[0] only)
            elif sp == 1 and -2 ** 63 <= m < 2 ** 63:
                m = np.int64(m)
            elif sp == 2 and 0 <= m < 2 ** 8:
                m = np.uint8(m)
            if kind == 'fm':
                z = NPOPS[op](x, b[0]) if sp == 0 else OPS[op](x, m)
            else:
                z = NPOPS[op](b[0], x) if sp == 0 else OPS[op](m, x)
        if codes_of(x) != before:
            return ['MUTATED']
    except Exception as e:
        return [exc_token(e)]
    return fmt_of(z).split() + [tok_list([str(c) for c in codes_of(z)])]


def exec_BL(t):
    sx, nx, fx = t[0] == 's', int(t[1]), int(t[2])
    sy = t[3] == 's'
    a = [int(c) for c in parse_list(t[4])]
    b = [int(c) for c in parse_list(t[5])]
    try:
        x = mk13(a, sx, nx, fx)
        y = mk13(b, sy, nx, fx)
        L = lambda z: tok_list([str(c) for c in codes_of(z)])
        out = [L(~~x), L(~(x & y)), L((~x) | (~y)), L(~(x | y)), L((~x) & (~y)), L(~x)]
    except Exception as e:
        return [exc_token(e)]
    return out


EXEC = {'BW': exec_BW, 'BL': exec_BL}


def fm(s, n, f):
    return '%s %d %d' % ('s' if s else 'u', n, f)


def generate(tier, rng):
    L = lambda l: tok_list([str(c) for c in l])
    maxw = 4 if tier == 'quick' else 6
    for n in range(1, maxw + 1):
        for sx in (True, False):
            lox, hix = lims(sx, n)
            for f in range(0, n + 1):
                if tier == 'quick' and f not in (0, n // 2, n):
                    continue
                o = rng.choice(OVFS)
                allx = list(range(lox, hix + 1))
                yield 'BW inv - %s %s %s %s []' % (fm(sx, n, f), fm(sx, n, f), o, L(allx))
                for sy in (True, False):
                    loy, hiy = lims(sy, n)
                    a = [ca for ca in allx for cb in range(loy, hiy + 1)]
                    b = [cb for ca in allx for cb in range(loy, hiy + 1)]
                    for op in ('and', 'or', 'xor'):
                        # scalar x scalar pairs are executed one by one (array & array is outside the statement)
                        for ca, cb in zip(a, b):
                            if rng.random() < (0.15 if tier == 'quick' else 0.5) or n <= 2:
                                yield 'BW %s ff %s %s %s %s %s' % (op, fm(sx, n, f), fm(sy, n, rng.randint(0, n)), o, L([ca]), L([cb]))
                    # array x with a scalar Fxp y of either signedness (every code of y for small words)
                    for cb in range(loy, hiy + 1):
                        if n <= 3 or rng.random() < 0.3:
                            yield 'BW %s ff %s %s %s %s %s' % (rng.choice(['and', 'or', 'xor']), fm(sx, n, f), fm(sy, n, rng.randint(0, n)), rng.choice(OVFS), L(allx), L([cb]))
                        if len(allx) >= 2:
                            yb_ = [rng.randint(loy, hiy) for _ in range(len(allx))]       # as many elements, another shape
                            yield 'BW %s gg %s %s %s %s %s' % (rng.choice(['and', 'or', 'xor']), fm(sx, n, f), fm(sy, n, rng.randint(0, n)), rng.choice(OVFS), L(allx), L(yb_))
                            yield 'BW %s gg %s %s %s %s %s' % (rng.choice(['and', 'or', 'xor']), fm(sx, n, f), fm(sy, n, rng.randint(0, n)), rng.choice(OVFS), L(allx[:3]), L(yb_[:2]))
                        # both operands arrays (element by element), and an array of masks (D67: only the first operand was iterated)
                        if True:
                            yb = [rng.randint(loy, hiy) for _ in allx]
                            yield 'BW %s ff %s %s %s %s %s' % (rng.choice(['and', 'or', 'xor']), fm(sx, n, f), fm(sy, n, rng.randint(0, n)), rng.choice(OVFS), L(allx), L(yb))
                            yield 'BW %s ff %s %s %s %s %s' % (rng.choice(['and', 'or', 'xor']), fm(sx, n, f), fm(sy, n, rng.randint(0, n)), rng.choice(OVFS), L([allx[0]]), L(yb))
                            yield 'BW %s %s %s %s %s %s %s' % (rng.choice(['and', 'or', 'xor']), rng.choice(['fm', 'mf']), fm(sx, n, f), fm(sx, n, f), rng.choice(OVFS), L(allx),
                                                               L([rng.randint(-(1 << n) - 2, (1 << n) + 2) for _ in allx]))
                    if n >= 2:
                        ca, cb = rng.choice(allx), rng.randint(loy, hiy)
                        yield 'BL %s %s %s %s' % (fm(sx, n, f), 's' if sy else 'u', L([ca]), L([cb]))
                # integer masks (either side), array with scalar mask
                for m in [0, 1, (1 << n) - 1, -1, -(1 << (n - 1)), (1 << n), (1 << n) + 1, rng.randint(-(1 << (n + 2)), 1 << (n + 2))]:
                    op = rng.choice(['and', 'or', 'xor'])
                    yield 'BW %s fm %s %s %s %s %s' % (op, fm(sx, n, f), fm(sx, n, f), o, L(allx), L([m]))
                    ca = rng.choice(allx)
                    yield 'BW %s mf %s %s %s %s %s' % (op, fm(sx, n, f), fm(sx, n, f), o, L([ca]), L([m]))
    for _ in range(2500 if tier == 'quick' else 60000):
        n = rng.choice([16, 31, 32, 33, 63, 64, 65, 100, 128])
        sx, sy = rng.random() < 0.5, rng.random() < 0.5
        f = rng.choice([0, n // 2, n, rng.randint(0, n)])
        lox, hix = lims(sx, n); loy, hiy = lims(sy, n)
        pick = lambda lo, hi: rng.choice([lo, hi, 0, 1, -1 if lo < 0 else hi, lo + 1, hi - 1, rng.randint(lo, hi), rng.randint(lo, hi), (hi // 3), (hi // 3) * 2])
        ca, cb = pick(lox, hix), pick(loy, hiy)
        what = rng.random()
        o = rng.choice(OVFS)
        if what < 0.15:
            # ~x of a scalar or an array; for wide words the codes also sit at the edges of the 64-bit carriers (2^63, 2^64 - 1)
            xs = [ca] if rng.random() < 0.5 else [ca, pick(lox, hix), pick(lox, hix)]
            if n >= 65:
                edge = [c for c in (2 ** 63, 2 ** 64 - 1, 2 ** 63 + 5, -(2 ** 63) - 1, 2 ** 64) if lox <= c <= hix]
                xs = [rng.choice(edge) if rng.random() < 0.6 else c for c in xs]
            yield 'BW inv - %s %s %s %s []' % (fm(sx, n, f), fm(sx, n, f), o, L(xs))
        elif what < 0.55:
            xs = [ca] if rng.random() < 0.6 else [ca, pick(lox, hix), pick(lox, hix)]      # scalar or array x, scalar y
            yield 'BW %s ff %s %s %s %s %s' % (rng.choice(['and', 'or', 'xor']), fm(sx, n, f), fm(sy, n, rng.randint(0, n)), o, L(xs), L([cb]))
            ys = [rng.choice([loy, hiy, 0, 1, rng.randint(loy, hiy)]) for _ in xs]
            if len(xs) >= 2:
                yield 'BW %s gg %s %s %s %s %s' % (rng.choice(['and', 'or', 'xor']), fm(sx, n, f), fm(sy, n, rng.randint(0, n)), o, L(xs), L(ys))
            yield 'BW %s ff %s %s %s %s %s' % (rng.choice(['and', 'or', 'xor']), fm(sx, n, f), fm(sy, n, rng.randint(0, n)), o, L(xs), L(ys))
            yield 'BW %s %s %s %s %s %s %s' % (rng.choice(['and', 'or', 'xor']), rng.choice(['fm', 'mf']), fm(sx, n, f), fm(sx, n, f), o, L(xs),
                                               L([rng.choice([0, -1, (1 << n) - 1, 1 << 63, rng.getrandbits(n)]) for _ in xs]))
        elif what < 0.75:
            m = rng.choice([rng.getrandbits(n), -rng.getrandbits(n), rng.getrandbits(n + 5), (1 << n) - 1, 1 << (n - 1)])
            yield 'BW %s %s %s %s %s %s %s' % (rng.choice(['and', 'or', 'xor']), rng.choice(['fm', 'mf']), fm(sx, n, f), fm(sx, n, f), o, L([ca]), L([m]))
        elif what < 0.9:
            yield 'BL %s %s %s %s' % (fm(sx, n, f), 's' if sy else 'u', L([ca]), L([cb]))
        else:
            # malformed: different word lengths
            n2 = n + rng.choice([-1, 1, 8])
            lo2, hi2 = lims(sy, n2)
            yield 'BW %s ff %s %s %s %s %s' % (rng.choice(['and', 'or', 'xor']), fm(sx, n, f), fm(sy, n2, 0), o, L([ca]), L([rng.randint(lo2, hi2)]))


def nontrivial(full_line, model):
    return True


def debug_class(t):
    return ' '.join(t[0:3]) + ' ' + base.word_bucket(int(t[4]) if t[0] == 'BW' else int(t[2]))


def stats(verdicts):
    return base.generic_stats(verdicts, lambda t: ['op:' + t[0] + (':' + t[1] + ':' + t[2] if t[0] == 'BW' else ''), 'word:' + base.word_bucket(int(t[4]) if t[0] == 'BW' else int(t[2]))],
                              lambda t: max(1, len(parse_list(t[-2]))),
                              ['BW inv / masks: all codes of every format n_word<=4 (quick) / <=6 (thorough); BW ff: code pairs of those formats (15% sampled in quick, 50% in thorough, all for n_word<=2)'])
