import FxpVerif.Spec.C03
import FxpVerif.Lemmas.Round
import FxpVerif.Lemmas.Overflow
import FxpVerif.Lemmas.BitsInt
/-! # C03 — property theorems (every statement is for arbitrary `n_word ≥ 1`; there is no 64 here) -/
namespace Fxp.C03
open Fxp

/-- the model's `wrap` (mask, then sign-extend — `utils.wrap`) satisfies the Spec … -/
theorem wrap_spec (f : Fmt) (hw : 0 < f.nword) (k : ℤ) : Spec f k (wrap f k) :=
  ⟨wrap_inRange f hw k, wrap_congr f k⟩

/-- `utils.wrap` **as written**: mask with `& (2^n - 1)`, then `np.where(x < 2^(n-1), x, x | -2^n)` when signed — on
two's-complement integers of unbounded size (`Int.land` / `Int.lor`). -/
def wrapBits (f : Fmt) (k : ℤ) : ℤ :=
  let m : ℤ := 2 ^ f.nword
  let x := Int.land k (m - 1)
  if f.signed then (if x < 2 ^ (f.nword - 1) then x else Int.lor x (-m)) else x

/-- the bitwise formulation of the code and the arithmetic formulation of the model are the same function (this used to be a
trusted identity; it is a theorem now). -/
theorem wrapBits_eq_wrap (f : Fmt) (k : ℤ) : wrapBits f k = wrap f k := by
  unfold wrapBits wrap
  simp only [BitsInt.land_mask]
  have hp : (0:ℤ) < 2 ^ f.nword := by positivity
  have h0 := Int.emod_nonneg k (ne_of_gt hp)
  have h1 := Int.emod_lt_of_pos k hp
  cases f.signed
  · simp
  · simp only [if_true]
    split
    · rfl
    · exact BitsInt.lor_neg_pow f.nword _ h0 h1


/-- … and the Spec has exactly one solution: "the unique in-range integer congruent to the rounded input". -/
theorem wrap_spec_iff (f : Fmt) (hw : 0 < f.nword) (k c : ℤ) : Spec f k c ↔ c = wrap f k :=
  ⟨fun h => wrap_unique f hw k c h.1 h.2, fun h => h ▸ wrap_spec f hw k⟩

/-- the checker evaluated on the implementation's output is the Spec. -/
theorem chk_iff (f : Fmt) (k c : ℤ) : Chk.c03 f k c = true ↔ Spec f k c := by
  unfold Chk.c03 Spec Fmt.InRange
  rw [Bool.and_eq_true, decide_eq_true_eq, decide_eq_true_eq]

/-- signed: the low `n_word` bits reinterpreted in two's complement = balanced remainder. -/
theorem wrap_signed_bmod (f : Fmt) (hw : 0 < f.nword) (hs : f.signed = true) (k : ℤ) :
    wrap f k = Int.bmod k (2 ^ f.nword) := wrap_eq_bmod f hw hs k

/-- unsigned: plain remainder. -/
theorem wrap_unsigned_emod (f : Fmt) (hs : f.signed = false) (k : ℤ) : wrap f k = k % 2 ^ f.nword := by
  unfold wrap; simp [hs]

/-- both sides of the range: a value above the range by `j·2^n` or below it comes back to the same code. -/
theorem wrap_periodic (f : Fmt) (k t : ℤ) : wrap f (k + t * 2 ^ f.nword) = wrap f k := wrap_add_mul f k t

theorem two_zpow_sub (n : ℕ) (e : ℤ) : (2:ℚ) ^ ((n:ℤ) - e) * (2:ℚ) ^ e = ((2 ^ n : ℤ) : ℚ) := by
  rw [← zpow_add₀ (by norm_num : (2:ℚ) ≠ 0)]
  simp [zpow_natCast]

/-- **shift invariance** of the whole store pipeline under wrap: adding `t·2^(n_word-n_frac)` to the input
does not change the stored code — for floor, ceil and around unconditionally … -/
theorem quantize_wrap_shift (f : Fmt) (hw : 0 < f.nword) (r : Rounding) (v : ℚ) (t : ℤ)
    (hr : r = .floor ∨ r = .ceil ∨ r = .around) :
    quantize f r .wrap (v + t * (2:ℚ) ^ ((f.nword:ℤ) - f.nfrac)) = quantize f r .wrap v := by
  unfold quantize ovf
  rw [scale_eq, scale_eq, add_mul, mul_assoc, two_zpow_sub]
  have hcast : ((t:ℚ) * ((2 ^ f.nword : ℤ) : ℚ)) = ((t * 2 ^ f.nword : ℤ) : ℚ) := by push_cast; ring
  rw [hcast, roundR_add_int r _ _ ?_ ?_]
  · exact wrap_add_mul f _ t
  · intro _
    have : (2:ℤ) ^ f.nword = 2 * 2 ^ (f.nword - 1) := two_pow_pred _ hw
    rw [this, show t * (2 * 2 ^ (f.nword - 1)) = 2 * (t * 2 ^ (f.nword - 1)) by ring]
    exact Int.mul_emod_right 2 _
  · intro h; rcases hr with h' | h' | h' <;> rcases h with h | h <;> simp [h] at h'

/-- … and for trunc/fix whenever the shift does not move the scaled input across zero. -/
theorem quantize_wrap_shift_trunc (f : Fmt) (r : Rounding) (v : ℚ) (t : ℤ) (hr : r = .trunc ∨ r = .fix)
    (hs : v * (2:ℚ) ^ f.nfrac < 0 ↔ v * (2:ℚ) ^ f.nfrac + ((t * 2 ^ f.nword : ℤ) : ℚ) < 0) :
    quantize f r .wrap (v + t * (2:ℚ) ^ ((f.nword:ℤ) - f.nfrac)) = quantize f r .wrap v := by
  unfold quantize ovf
  rw [scale_eq, scale_eq, add_mul, mul_assoc, two_zpow_sub]
  have hcast : ((t:ℚ) * ((2 ^ f.nword : ℤ) : ℚ)) = ((t * 2 ^ f.nword : ℤ) : ℚ) := by push_cast; ring
  rw [hcast, roundR_add_int r _ _ ?_ ?_]
  · exact wrap_add_mul f _ t
  · intro h; rcases hr with h' | h' <;> simp [h'] at h
  · intro _; exact hs

/-- on-grid inputs (the scaled value is an integer) are shift-invariant in every mode. -/
theorem quantize_wrap_shift_grid (f : Fmt) (r : Rounding) (k t : ℤ) :
    quantize f r .wrap (valueOf f k + t * (2:ℚ) ^ ((f.nword:ℤ) - f.nfrac)) = quantize f r .wrap (valueOf f k) := by
  unfold quantize ovf
  rw [scale_eq, add_mul, mul_assoc, two_zpow_sub, ← scale_eq]
  unfold valueOf
  rw [scale_int_cancel]
  have hcast : ((k:ℚ) + (t:ℚ) * ((2 ^ f.nword : ℤ) : ℚ)) = ((k + t * 2 ^ f.nword : ℤ) : ℚ) := by push_cast; ring
  rw [hcast, roundR_int, roundR_int]
  exact wrap_add_mul f k t

/-- the literal "any shift, any mode" reading is false of C01's own arithmetic: trunc of -1/2 is 0 but
trunc of -1/2 + 8 is 7 (3-bit unsigned, n_frac = 0).  The code follows C01 here. -/
theorem shift_trunc_counterexample :
    quantize ⟨false, 3, 0⟩ .trunc .wrap (-1/2 + 1 * (2:ℚ) ^ ((3:ℤ) - 0)) ≠ quantize ⟨false, 3, 0⟩ .trunc .wrap (-1/2) := by
  have : (-1/2 + 1 * (2:ℚ) ^ ((3:ℤ) - 0)) = 15/2 := by norm_num
  rw [this]; decide +kernel

/-- **register behaviour**: storing a sum / difference / product with wrap equals the n_word-bit register
operation on the wrapped operands. -/
theorem wrap_add (f : Fmt) (a b : ℤ) : wrap f (a + b) = wrap f (wrap f a + wrap f b) := wrap_add_hom f a b
theorem wrap_sub (f : Fmt) (a b : ℤ) : wrap f (a - b) = wrap f (wrap f a - wrap f b) := wrap_sub_hom f a b
theorem wrap_mul (f : Fmt) (a b : ℤ) : wrap f (a * b) = wrap f (wrap f a * wrap f b) := wrap_mul_hom f a b

/-! ### a register with fewer fraction bits than the exact result (the fixed-point multiply `s32/16 · s32/16 → s32/16`)

The exact result of `+ - *` is an integer code `p` with `fe` fraction bits; the register has `k` fewer.  What is stored is
`wrap (ROUND (p / 2^k))` — for every rounding rule the rounded value is an integer function of `p` alone, so no float is
involved in the specification — and under `floor` (the arithmetic right shift of hardware) it is exactly the bit field
`k .. k+n_word-1` of the two's-complement image of `p`. -/

/-- the exact result `p·2^-(fr+k)` scaled to the register's `fr` fraction bits is the rational `p / 2^k`. -/
theorem scale_drop (fr : ℤ) (p : ℤ) (k : ℕ) : scale (scale (p:ℚ) (-(fr + k))) fr = (p:ℚ) / ((2 ^ k : ℕ) : ℚ) := by
  rw [scale_eq, scale_eq, mul_assoc, ← zpow_add₀ (by norm_num : (2:ℚ) ≠ 0)]
  have : -(fr + (k:ℤ)) + fr = -(k:ℤ) := by ring
  rw [this, zpow_neg, zpow_natCast]
  push_cast
  rw [div_eq_mul_inv]

/-- floor of `p / 2^k` is the arithmetic right shift `p >>> k` (`Int` floor division). -/
theorem floor_drop (p : ℤ) (k : ℕ) : ⌊(p:ℚ) / ((2 ^ k : ℕ) : ℚ)⌋ = p / 2 ^ k := by
  rw [Rat.floor_intCast_div_natCast]; push_cast; rfl

/-- **what the register holds, every rounding rule**: the store of the exact result is `wrap` of the integer obtained by
rounding the rational `p / 2^k` — in particular it depends on all the bits of `p` (no 53-bit mantissa in between). -/
theorem register_drop (reg : Fmt) (r : Rounding) (p : ℤ) (k : ℕ) :
    quantize reg r .wrap (scale (p:ℚ) (-(reg.nfrac + k))) = wrap reg (roundR r ((p:ℚ) / ((2 ^ k : ℕ) : ℚ))) := by
  unfold quantize ovf
  rw [scale_drop]

/-- under `floor`: the register holds `p >>> k` reduced to `n_word` bits. -/
theorem register_drop_floor (reg : Fmt) (p : ℤ) (k : ℕ) :
    quantize reg .floor .wrap (scale (p:ℚ) (-(reg.nfrac + k))) = wrap reg (p / 2 ^ k) := by
  rw [register_drop, roundR_floor, floor_drop]

/-- bits `k .. k+n-1` of `p`: shifting then masking is masking the `n+k` low bits then shifting. -/
theorem shift_mask (p : ℤ) (k n : ℕ) : (p / 2 ^ k) % 2 ^ n = (p % 2 ^ (n + k)) / 2 ^ k := by
  have hB : (0:ℤ) < 2 ^ k := by positivity
  have hC : (0:ℤ) < 2 ^ n := by positivity
  have hBC : (2:ℤ) ^ (n + k) = 2 ^ k * 2 ^ n := by rw [pow_add]; ring
  rw [hBC]
  generalize (2:ℤ) ^ k = B at *
  generalize (2:ℤ) ^ n = C at *
  have hm0 := Int.emod_nonneg p (ne_of_gt (Int.mul_pos hB hC))
  have hm1 := Int.emod_lt_of_pos p (Int.mul_pos hB hC)
  have hp : p = (B * C) * (p / (B * C)) + p % (B * C) := (Int.mul_ediv_add_emod p (B * C)).symm
  generalize p % (B * C) = m at *
  generalize p / (B * C) = t at *
  subst hp
  have h1 : (B * C * t + m) / B = C * t + m / B := by
    rw [show B * C * t + m = m + B * (C * t) by ring, Int.add_mul_ediv_left _ _ (ne_of_gt hB)]; ring
  rw [h1, show C * t + m / B = m / B + C * t by ring, Int.add_mul_emod_self_left]
  apply Int.emod_eq_of_lt (Int.ediv_nonneg hm0 (le_of_lt hB))
  exact Int.ediv_lt_of_lt_mul hB (by rw [mul_comm] at hm1; linarith [hm1, mul_comm C B])

/-- unsigned register under floor: exactly the bit field `k .. k+n_word-1` of `p`. -/
theorem register_drop_floor_unsigned (reg : Fmt) (hs : reg.signed = false) (p : ℤ) (k : ℕ) :
    quantize reg .floor .wrap (scale (p:ℚ) (-(reg.nfrac + k))) = (p % 2 ^ (reg.nword + k)) / 2 ^ k := by
  rw [register_drop_floor, wrap_unsigned_emod reg hs, shift_mask]

/-- signed register under floor: the same bit field, reinterpreted in two's complement — bits of `p` above `k + n_word`
never matter (`p` may be replaced by its low `n_word + k` bits). -/
theorem register_drop_floor_low_bits (reg : Fmt) (p : ℤ) (k : ℕ) :
    quantize reg .floor .wrap (scale (p:ℚ) (-(reg.nfrac + k))) = wrap reg ((p % 2 ^ (reg.nword + k)) / 2 ^ k) := by
  rw [register_drop_floor]
  have h := shift_mask p k reg.nword
  unfold wrap
  simp only [h]
  have h2 : ((p % 2 ^ (reg.nword + k)) / 2 ^ k) % 2 ^ reg.nword = (p % 2 ^ (reg.nword + k)) / 2 ^ k := by
    rw [← h]; exact Int.emod_emod_of_dvd _ (dvd_refl _)
  rw [h2]

/-! integer-only forms of `ROUND(p / 2^k)` for the other rounding rules (what a hardware rounder computes from the bits of `p`) -/

/-- ceil: `⌈p/2^k⌉ = -((-p) >>> k)`. -/
theorem ceil_drop (p : ℤ) (k : ℕ) : ⌈(p:ℚ) / ((2 ^ k : ℕ) : ℚ)⌉ = -((-p) / 2 ^ k) := by
  have h := floor_drop (-p) k
  rw [← h]
  have : ((-p : ℤ) : ℚ) / ((2 ^ k : ℕ) : ℚ) = -((p:ℚ) / ((2 ^ k : ℕ) : ℚ)) := by push_cast; ring
  rw [this, Int.floor_neg, neg_neg]

theorem register_drop_ceil (reg : Fmt) (p : ℤ) (k : ℕ) :
    quantize reg .ceil .wrap (scale (p:ℚ) (-(reg.nfrac + k))) = wrap reg (-((-p) / 2 ^ k)) := by
  rw [register_drop, roundR_ceil, ceil_drop]

/-- trunc / fix: toward zero — the floor shift for `p ≥ 0`, the ceil shift for `p < 0` (`Int.tdiv`). -/
theorem trunc_drop (p : ℤ) (k : ℕ) :
    roundR .trunc ((p:ℚ) / ((2 ^ k : ℕ) : ℚ)) = if p < 0 then -((-p) / 2 ^ k) else p / 2 ^ k := by
  rw [roundR_trunc]
  have hpos : (0:ℚ) < ((2 ^ k : ℕ) : ℚ) := by positivity
  have hiff : (p:ℚ) / ((2 ^ k : ℕ) : ℚ) < 0 ↔ p < 0 := by
    rw [div_lt_iff₀ hpos, zero_mul]; exact_mod_cast Iff.rfl
  by_cases hp : p < 0
  · rw [if_pos (hiff.mpr hp), if_pos hp, ceil_drop]
  · rw [if_neg (fun h => hp (hiff.mp h)), if_neg hp, floor_drop]

theorem register_drop_trunc (reg : Fmt) (p : ℤ) (k : ℕ) :
    quantize reg .trunc .wrap (scale (p:ℚ) (-(reg.nfrac + k))) = wrap reg (if p < 0 then -((-p) / 2 ^ k) else p / 2 ^ k) := by
  rw [register_drop, trunc_drop]

/-- around (nearest, ties to the even code) from the quotient `q = p >>> k` and the dropped bits `r = p mod 2^k`:
one is added when the dropped bits exceed half an LSB, or equal it and `q` is odd. -/
theorem around_drop (p : ℤ) (k : ℕ) (hk : 1 ≤ k) :
    roundR .around ((p:ℚ) / ((2 ^ k : ℕ) : ℚ)) =
      p / 2 ^ k + (if 2 ^ (k - 1) < p % 2 ^ k ∨ (p % 2 ^ k = 2 ^ (k - 1) ∧ (p / 2 ^ k) % 2 = 1) then 1 else 0) := by
  show roundHalfEven _ = _
  set x : ℚ := (p:ℚ) / ((2 ^ k : ℕ) : ℚ) with hx
  have hfl : ⌊x⌋ = p / 2 ^ k := floor_drop p k
  have hB : (0:ℤ) < 2 ^ k := by positivity
  have hBq : (0:ℚ) < ((2 ^ k : ℕ) : ℚ) := by positivity
  have hsplit : (2:ℤ) ^ k = 2 * 2 ^ (k - 1) := by
    conv_lhs => rw [show k = (k - 1) + 1 by omega]
    rw [pow_succ]; ring
  -- the fractional part is r / 2^k
  have hd : x - ((⌊x⌋ : ℤ) : ℚ) = ((p % 2 ^ k : ℤ) : ℚ) / ((2 ^ k : ℕ) : ℚ) := by
    rw [hfl, hx]
    have hdm : p = 2 ^ k * (p / 2 ^ k) + p % 2 ^ k := (Int.mul_ediv_add_emod p (2 ^ k)).symm
    have : (p:ℚ) = ((2 ^ k : ℕ) : ℚ) * ((p / 2 ^ k : ℤ) : ℚ) + ((p % 2 ^ k : ℤ) : ℚ) := by
      have := congrArg (fun z : ℤ => (z:ℚ)) hdm
      push_cast at this ⊢; exact this
    field_simp
    linarith
  set r : ℤ := p % 2 ^ k with hr
  set q : ℤ := p / 2 ^ k with hq
  set H : ℤ := 2 ^ (k - 1) with hH
  have hr0 : 0 ≤ r := Int.emod_nonneg p (ne_of_gt hB)
  have hr1 : r < 2 ^ k := Int.emod_lt_of_pos p hB
  have hcastB : ((2 ^ k : ℕ) : ℚ) = 2 * (H:ℚ) := by
    have h2 : ((2:ℤ) ^ k : ℤ) = 2 * H := hsplit
    have := congrArg (fun z : ℤ => (z:ℚ)) h2
    push_cast at this ⊢; exact this
  have hHpos : (0:ℚ) < (H:ℚ) := by rw [hH]; positivity
  -- compare r/2^k with 1/2  ⇔  compare r with H
  have lt_iff : (r:ℚ) / ((2 ^ k : ℕ) : ℚ) < 1/2 ↔ r < H := by
    rw [hcastB, div_lt_iff₀ (by linarith)]
    constructor
    · intro h; have : (r:ℚ) < (H:ℚ) := by linarith
      exact_mod_cast this
    · intro h; have : (r:ℚ) < (H:ℚ) := by exact_mod_cast h
      linarith
  have gt_iff : 1/2 < (r:ℚ) / ((2 ^ k : ℕ) : ℚ) ↔ H < r := by
    rw [hcastB, lt_div_iff₀ (by linarith)]
    constructor
    · intro h; have : (H:ℚ) < (r:ℚ) := by linarith
      exact_mod_cast this
    · intro h; have : (H:ℚ) < (r:ℚ) := by exact_mod_cast h
      linarith
  rcases lt_trichotomy r H with hlt | heq | hgt
  · rw [roundHalfEven_of_lt x (by rw [hd]; exact lt_iff.mpr hlt), hfl, if_neg (by omega)]; simp
  · have htie : x - ((⌊x⌋ : ℤ) : ℚ) = 1/2 := by
      rw [hd, heq, hcastB]; field_simp
    rw [roundHalfEven_of_tie x htie, hfl]
    by_cases hodd : q % 2 = 1
    · rw [if_neg (by omega), if_pos (Or.inr ⟨heq, hodd⟩)]
    · rw [if_pos (by omega), if_neg (by omega)]; simp
  · rw [roundHalfEven_of_gt x (by rw [hd]; exact gt_iff.mpr hgt), hfl, if_pos (Or.inl hgt)]

theorem register_drop_around (reg : Fmt) (p : ℤ) (k : ℕ) (hk : 1 ≤ k) :
    quantize reg .around .wrap (scale (p:ℚ) (-(reg.nfrac + k))) =
      wrap reg (p / 2 ^ k + (if 2 ^ (k - 1) < p % 2 ^ k ∨ (p % 2 ^ k = 2 ^ (k - 1) ∧ (p / 2 ^ k) % 2 = 1) then 1 else 0)) := by
  rw [register_drop, around_drop p k hk]

/-- the canonical multiply `s32/16 · s32/16 → s32/16` (wrap, floor): codes `a`, `b` give `((a·b) >>> 16)` in 32 bits. -/
theorem q16_16_multiply (a b : ℤ) :
    quantize ⟨true, 32, 16⟩ .floor .wrap (valueOf ⟨true, 32, 16⟩ a * valueOf ⟨true, 32, 16⟩ b) = wrap ⟨true, 32, 16⟩ ((a * b) / 2 ^ 16) := by
  have hv : valueOf ⟨true, 32, 16⟩ a * valueOf ⟨true, 32, 16⟩ b = scale ((a * b : ℤ) : ℚ) (-((16:ℤ) + (16:ℕ))) := by
    unfold valueOf; simp only [scale_eq]; push_cast
    rw [show ((-32:ℤ)) = -16 + -16 by norm_num, zpow_add₀ (by norm_num : (2:ℚ) ≠ 0)]; ring
  rw [hv]
  exact register_drop_floor ⟨true, 32, 16⟩ (a * b) 16

/-- in-range codes are fixed points. -/
theorem wrap_id (f : Fmt) (hw : 0 < f.nword) (k : ℤ) (h : f.InRange k) : wrap f k = k := wrap_of_inRange f hw k h

/-! non-vacuity -/
example : wrap ⟨true, 8, 0⟩ 200 = -56 := by decide +kernel
example : wrap ⟨false, 8, 0⟩ (-1) = 255 := by decide +kernel
example : wrap ⟨true, 128, 0⟩ (2^127) = -2^127 := by decide +kernel
example : Spec ⟨true, 8, 0⟩ 200 (-56) := by unfold Spec Fmt.InRange Fmt.lo Fmt.hi; decide +kernel
/-- the witness of D41: `2147483647 · 1073741825 >>> 16` in 32 bits is 16383 (a float product gives 16384). -/
example : wrap ⟨true, 32, 16⟩ ((2147483647 * 1073741825) / 2 ^ 16) = 16383 := by decide +kernel

end Fxp.C03
