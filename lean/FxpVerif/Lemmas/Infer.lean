import FxpVerif.Model.Infer
import FxpVerif.Model.Chk
import FxpVerif.Lemmas.Round
import FxpVerif.Lemmas.Overflow
import Mathlib.Tactic.FieldSimp
/-! Loop invariants of the two search loops of `set_best_sizes`. -/
namespace Fxp

/-- "`x` is an integer". -/
def IsInt (x : ℚ) : Prop := ∃ z : ℤ, x = z

theorem half_pow_eq (n : ℕ) : half_pow n = 1 / (2:ℚ) ^ n := by unfold half_pow; push_cast; rfl

theorem half_pow_succ (n : ℕ) : half_pow n = 2 * half_pow (n + 1) := by
  rw [half_pow_eq, half_pow_eq, pow_succ]; field_simp

theorem half_pow_pos (n : ℕ) : 0 < half_pow n := by rw [half_pow_eq]; positivity

theorem maxError_eq : maxError = half_pow 63 := rfl

/-- invariant of the fraction loop: the remainder `r` is what is left of `r0` below bit `nf`. -/
structure FracInv (F : ℕ) (r0 r : ℚ) (nf : ℕ) : Prop where
  nonneg : 0 ≤ r
  lt : r < half_pow nf
  cong : IsInt ((r0 - r) * 2 ^ nf)
  grid : IsInt (r * 2 ^ F)

/-- a positive multiple of `2^-F` is at least `2^-F`. -/
theorem grid_pos_ge (F : ℕ) (x : ℚ) (hg : IsInt (x * 2 ^ F)) (hx : 0 < x) : half_pow F ≤ x := by
  obtain ⟨z, hz⟩ := hg
  have hp : (0:ℚ) < 2 ^ F := by positivity
  have hzpos : (0:ℚ) < z := by rw [← hz]; positivity
  have : (1:ℤ) ≤ z := by
    have : (0:ℤ) < z := by exact_mod_cast hzpos
    omega
  have h1 : (1:ℚ) ≤ z := by exact_mod_cast this
  rw [half_pow_eq, div_le_iff₀ hp, hz]; exact h1

theorem half_pow_mono {a b : ℕ} (h : a ≤ b) : half_pow b ≤ half_pow a := by
  rw [half_pow_eq, half_pow_eq]
  apply one_div_le_one_div_of_le (by positivity)
  exact pow_le_pow_right₀ (by norm_num) h

theorem half_pow_lt {a b : ℕ} (h : a < b) : half_pow b < half_pow a := by
  rw [half_pow_eq, half_pow_eq]
  apply one_div_lt_one_div_of_lt (by positivity)
  exact pow_lt_pow_right₀ (by norm_num) h

/-- **the fraction loop**: started from an invariant state with `e > max_error`, it returns a count `n`
such that `r0·2^n` is an integer and no smaller count `≥ nf` with a positive remainder does — for inputs on the
`2^-F` grid with `F ≤ 62 ≤ maxNF`. -/
theorem fracLoop_spec (F : ℕ) (hF : F ≤ 62) (maxNF : ℤ) (hmax : (F : ℤ) ≤ maxNF) (r0 : ℚ) :
    ∀ (fuel nf : ℕ) (r e : ℚ), F < fuel + nf → FracInv F r0 r nf → (0 < r → maxError < e) →
      IsInt (r0 * 2 ^ (fracLoop fuel maxNF r nf e)) ∧ nf ≤ fracLoop fuel maxNF r nf e ∧
      (0 < r → ∀ i, nf ≤ i → i < fracLoop fuel maxNF r nf e → ¬ IsInt (r0 * 2 ^ i)) ∧
      (r = 0 → fracLoop fuel maxNF r nf e = nf) := by
  intro fuel
  induction fuel with
  | zero =>
    intro nf r e hfuel inv he
    -- no fuel left: nf > F, so the remainder must be 0
    have hr0 : r = 0 := by
      by_contra hne
      have hpos : 0 < r := lt_of_le_of_ne inv.nonneg (Ne.symm hne)
      have h1 := grid_pos_ge F r inv.grid hpos
      have h2 := half_pow_mono (show F ≤ nf by omega)
      linarith [inv.lt]
    simp only [fracLoop]
    refine ⟨?_, le_refl _, fun h => by rw [hr0] at h; exact absurd h (lt_irrefl _), fun _ => trivial⟩
    have := inv.cong; rw [hr0, sub_zero] at this; exact this
  | succ fuel ih =>
    intro nf r e hfuel inv he
    unfold fracLoop
    by_cases hr : 0 < r
    · -- the loop body runs: e > maxError (hypothesis), nf ≤ maxNF (nf < F), r > 0
      have hge := grid_pos_ge F r inv.grid hr
      have hnfF : nf < F := by
        by_contra hcon
        have := half_pow_mono (show F ≤ nf by omega)
        linarith [inv.lt]
      have hcond : maxError < e ∧ (nf : ℤ) ≤ maxNF ∧ 0 < r := ⟨he hr, by omega, hr⟩
      rw [if_pos hcond]
      simp only
      set bit := half_pow (nf + 1) with hbit
      have hbitpos : 0 < bit := half_pow_pos _
      have hdouble : half_pow nf = 2 * bit := half_pow_succ nf
      -- bit is on the grid because nf + 1 ≤ F
      have hbitgrid : IsInt (bit * 2 ^ F) := by
        refine ⟨(2 ^ (F - (nf + 1)) : ℕ), ?_⟩
        rw [hbit, half_pow_eq]
        have : (2:ℚ) ^ F = 2 ^ (nf + 1) * 2 ^ (F - (nf + 1)) := by rw [← pow_add]; congr 1; omega
        rw [this]; push_cast; field_simp
      have hbit2 : bit * 2 ^ (nf + 1) = 1 := by rw [hbit, half_pow_eq]; field_simp
      -- new remainder
      set r' : ℚ := if 0 ≤ r - bit then r - bit else r with hr'
      have inv' : FracInv F r0 r' (nf + 1) := by
        by_cases hb : 0 ≤ r - bit
        · have : r' = r - bit := by rw [hr', if_pos hb]
          rw [this]
          refine ⟨hb, by linarith [inv.lt], ?_, ?_⟩
          · obtain ⟨z, hz⟩ := inv.cong
            refine ⟨2 * z + 1, ?_⟩
            have : (r0 - (r - bit)) * 2 ^ (nf + 1) = 2 * ((r0 - r) * 2 ^ nf) + bit * 2 ^ (nf + 1) := by ring
            rw [this, hz, hbit2]; push_cast; ring
          · obtain ⟨z1, h1⟩ := inv.grid
            obtain ⟨z2, h2⟩ := hbitgrid
            exact ⟨z1 - z2, by rw [sub_mul, h1, h2]; push_cast; ring⟩
        · have : r' = r := by rw [hr', if_neg hb]
          rw [this]
          refine ⟨inv.nonneg, by linarith, ?_, inv.grid⟩
          obtain ⟨z, hz⟩ := inv.cong
          exact ⟨2 * z, by rw [pow_succ, ← mul_assoc, hz]; push_cast; ring⟩
      -- the error term stays above max_error unless the remainder vanished
      set e' : ℚ := if r - bit < 0 then -(r - bit) else r - bit with he'
      have he'pos : 0 < r' → maxError < e' := by
        intro hr'pos
        -- r - bit is a non-zero multiple of 2^-F
        have hne : r - bit ≠ 0 := by
          intro h0
          have : r' = 0 := by rw [hr', if_pos (by rw [h0])]; exact h0
          linarith
        have habs : half_pow F ≤ e' := by
          by_cases hneg : r - bit < 0
          · rw [he', if_pos hneg]
            apply grid_pos_ge F _ _ (by linarith)
            obtain ⟨z1, h1⟩ := inv.grid
            obtain ⟨z2, h2⟩ := hbitgrid
            exact ⟨z2 - z1, by rw [neg_sub, sub_mul, h1, h2]; push_cast; ring⟩
          · rw [he', if_neg hneg]
            have : 0 < r - bit := lt_of_le_of_ne (not_lt.mp hneg) (Ne.symm hne)
            apply grid_pos_ge F _ _ this
            obtain ⟨z1, h1⟩ := inv.grid
            obtain ⟨z2, h2⟩ := hbitgrid
            exact ⟨z1 - z2, by rw [sub_mul, h1, h2]; push_cast; ring⟩
        have : maxError < half_pow F := by rw [maxError_eq]; exact half_pow_lt (by omega)
        linarith
      obtain ⟨a1, a2, a3, a4⟩ := ih (nf + 1) r' e' (by omega) inv' he'pos
      refine ⟨a1, by omega, ?_, fun h => by linarith⟩
      intro _ i hi1 hi2
      rcases Nat.eq_or_lt_of_le hi1 with heq | hlt
      · -- i = nf: r0·2^nf = integer + r·2^nf with 0 < r·2^nf < 1
        subst heq
        rintro ⟨z, hz⟩
        obtain ⟨w, hw⟩ := inv.cong
        have hrr : r * 2 ^ nf = (z - w : ℤ) := by
          have : r * 2 ^ nf = r0 * 2 ^ nf - (r0 - r) * 2 ^ nf := by ring
          rw [this, hz, hw]; push_cast; ring
        have hp : (0:ℚ) < 2 ^ nf := by positivity
        have h0 : 0 < r * 2 ^ nf := by positivity
        have h1 : r * 2 ^ nf < 1 := by
          have := inv.lt
          rw [half_pow_eq, lt_div_iff₀ hp] at this; exact this
        rw [hrr] at h0 h1
        have h0' : (0:ℤ) < z - w := by exact_mod_cast h0
        have h1' : z - w < (1:ℤ) := by exact_mod_cast h1
        omega
      · by_cases hr'pos : 0 < r'
        · exact a3 hr'pos i (by omega) hi2
        · have hr'0 : r' = 0 := le_antisymm (not_lt.mp hr'pos) inv'.nonneg
          have := a4 hr'0
          omega
    · -- r = 0: the loop exits at once
      have hr0 : r = 0 := le_antisymm (not_lt.mp hr) inv.nonneg
      rw [if_neg (by intro h; exact hr h.2.2)]
      refine ⟨?_, le_refl _, fun h => absurd h hr, fun _ => rfl⟩
      have := inv.cong; rw [hr0, sub_zero] at this; exact this

/-! ### the integer-bit loop -/

/-- the loop's exit test is "fits in `n` magnitude bits". -/
theorem msb_zero_iff (k : ℤ) (n : ℕ) :
    Int.shiftRight k n + (if k < 0 then 1 else 0) = 0 ↔ Chk.fitsBits k n = true := by
  have hsh : Int.shiftRight k n = k / 2 ^ n := Int.shiftRight_eq_div_pow k n
  rw [hsh]
  have hp : (0:ℤ) < 2 ^ n := by positivity
  unfold Chk.fitsBits
  by_cases hk : k < 0
  · rw [if_pos hk, if_neg (by omega)]
    simp only [decide_eq_true_eq]
    constructor
    · intro h
      have : k / 2 ^ n = -1 := by omega
      have := Int.mul_ediv_add_emod k (2 ^ n)
      have := Int.emod_nonneg k (ne_of_gt hp)
      nlinarith
    · intro h
      have h1 : k / 2 ^ n < 0 := Int.ediv_neg_of_neg_of_pos hk hp
      have h2 : -1 ≤ k / 2 ^ n := by
        apply Int.le_ediv_of_mul_le hp; linarith
      omega
  · rw [if_neg hk, if_pos (by omega)]
    simp only [decide_eq_true_eq, add_zero]
    constructor
    · intro h
      by_contra hge
      have : 1 ≤ k / 2 ^ n := Int.le_ediv_of_mul_le hp (by linarith)
      omega
    · intro h
      exact Int.ediv_eq_zero_of_lt (by omega) h

theorem fitsBits_mono (k : ℤ) {a b : ℕ} (h : a ≤ b) (hf : Chk.fitsBits k a = true) : Chk.fitsBits k b = true := by
  unfold Chk.fitsBits at *
  have hp : (2:ℤ) ^ a ≤ 2 ^ b := by exact_mod_cast Nat.pow_le_pow_right (by norm_num) h
  by_cases hk : 0 ≤ k
  · rw [if_pos hk] at hf ⊢
    simp only [decide_eq_true_eq] at hf ⊢; omega
  · rw [if_neg hk] at hf ⊢
    simp only [decide_eq_true_eq] at hf ⊢; omega

theorem fitsBits_natAbs (k : ℤ) : Chk.fitsBits k k.natAbs = true := by
  unfold Chk.fitsBits
  have h : (k.natAbs : ℤ) < 2 ^ k.natAbs := by exact_mod_cast Nat.lt_two_pow_self
  split <;> simp <;> omega

/-- **the integer-bit loop** returns the least `m ≥ n` at which both extremes fit (given enough fuel). -/
theorem intLoop_spec (vmax vmin : ℤ) :
    ∀ (fuel n : ℕ), vmax.natAbs + vmin.natAbs < fuel + n →
      (Chk.fitsBits vmax (intLoop fuel vmax vmin n) = true ∧ Chk.fitsBits vmin (intLoop fuel vmax vmin n) = true) ∧
      n ≤ intLoop fuel vmax vmin n ∧
      ∀ j, n ≤ j → j < intLoop fuel vmax vmin n → ¬ (Chk.fitsBits vmax j = true ∧ Chk.fitsBits vmin j = true) := by
  intro fuel
  induction fuel with
  | zero =>
    intro n h
    simp only [intLoop]
    refine ⟨⟨fitsBits_mono vmax (by omega) (fitsBits_natAbs vmax), fitsBits_mono vmin (by omega) (fitsBits_natAbs vmin)⟩,
            le_refl _, fun j h1 h2 => by omega⟩
  | succ fuel ih =>
    intro n h
    unfold intLoop
    simp only
    by_cases hc : Int.shiftRight vmax n + (if vmax < 0 then 1 else 0) = 0 ∧ Int.shiftRight vmin n + (if vmin < 0 then 1 else 0) = 0
    · rw [if_pos hc]
      exact ⟨⟨(msb_zero_iff vmax n).mp hc.1, (msb_zero_iff vmin n).mp hc.2⟩, le_refl _, fun j h1 h2 => by omega⟩
    · rw [if_neg hc]
      obtain ⟨a1, a2, a3⟩ := ih (n + 1) (by omega)
      refine ⟨a1, by omega, ?_⟩
      intro j h1 h2
      rcases Nat.eq_or_lt_of_le h1 with heq | hlt
      · subst heq
        intro hf
        exact hc ⟨(msb_zero_iff vmax n).mpr hf.1, (msb_zero_iff vmin n).mpr hf.2⟩
      · exact a3 j (by omega) h2

end Fxp
