#!/bin/bash
# tools/coverage.sh — which lines of /repo/fxpmath the quick tier of all 20 checks executes (coverage.py from /venv; single process).
# Writes the report to stdout; scratch data under $TMPDIR (default /tmp/fxpverif-cov), removed afterwards.
cd "$(dirname "$0")/.."
d=${TMPDIR:-/tmp}/fxpverif-cov; rm -rf $d; mkdir -p $d
cp -r evidence $d/evidence.bak
for id in C01 C02 C03 C04 C05 C06 C07 C08 C09 C10 C11 C12 C13 C14 C15 C16 C17 C18 C19 C20; do
  VERIF_PROCS=1 VERIF_SKIP_LEANCHECKER=1 COVERAGE_FILE=$d/.coverage.$id /venv/bin/python -m coverage run --source=${FXP_REPO:-/repo}/fxpmath -m harness.check $id quick >/dev/null 2>&1
done
cp $d/evidence.bak/*.json evidence/     # single-process evidence is not the registered one
(cd $d && /venv/bin/python -m coverage combine -q .coverage.C* >/dev/null 2>&1 && /venv/bin/python -m coverage report -m)
rm -rf $d
