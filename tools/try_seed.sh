#!/bin/bash
# tools/try_seed.sh <patch.diff> <tier> <ID>...  — apply a seeded change to /repo, run the named checks, undo it.
# prints one line per check: id rc and the VIOLATION line (if any).  /repo must be clean.
cd "$(dirname "$0")/.."
patch=$(readlink -f "$1"); tier=$2; shift 2
if [ -n "$(git -C /repo status --porcelain)" ]; then echo "/repo not clean"; exit 2; fi
git -C /repo apply "$patch" || { echo "patch does not apply"; exit 2; }
trap 'git -C /repo checkout -- . ' EXIT
for id in "$@"; do
  out=$(VERIF_SKIP_LEANCHECKER=1 ./check $id $tier 2>&1); rc=$?
  echo "$id rc=$rc $(echo "$out" | grep -E '^VIOLATION' | head -1)"
  echo "$out" | grep -E "failing input" | head -2 | cut -c1-300
done
