import FxpVerif.Lemmas.Arith
/-! # C07 — add, subtract, multiply with optimal sizing are exact and never overflow

All statements hold for every pair of constructible formats (`Fmt.WF`: a signed format has its sign bit),
any signedness mix, any `n_frac : ℤ`, unbounded word lengths. -/
namespace Fxp.C07
open Fxp Fmt

/-- alignment shifts of the two operands to the common fraction length `max fx fy` (both ≥ 0). -/
def kx (x y : Fmt) : Nat := (max x.nfrac y.nfrac - x.nfrac).toNat
def ky (x y : Fmt) : Nat := (max x.nfrac y.nfrac - y.nfrac).toNat

/-- the exact aligned integer results. -/
def sumCode (x y : Fmt) (a b : ℤ) : ℤ := a * 2 ^ kx x y + b * 2 ^ ky x y
def diffCode (x y : Fmt) (a b : ℤ) : ℤ := a * 2 ^ kx x y - b * 2 ^ ky x y

/-- the format produced by the growth rule of `add`/`sub`: one integer bit more than the wider operand,
the finer fraction. It always exists. -/
theorem addsub_fmt (op : BinOp) (hop : op = .add ∨ op = .sub) (x y : Fmt) (hx : x.WF) (hy : y.WF) :
    ∃ t, resultFmt .optimal op x y = some t ∧ t.signed = (x.signed || y.signed) ∧
      t.nfrac = max x.nfrac y.nfrac ∧ t.WF ∧
      t.mag = max (x.mag + kx x y) (y.mag + ky x y) + 1 ∧
      t.nint = max x.nint y.nint + 1 := by
  have ix := nint_eq_mag x hx
  have iy := nint_eq_mag y hy
  have hsz : optimalSize op x y = (x.signed || y.signed, max x.nint y.nint + 1, max x.nfrac y.nfrac) := by
    rcases hop with h | h <;> subst h <;> rfl
  unfold resultFmt sizing
  simp only [hsz]
  unfold mkFmt
  have hb : 0 ≤ bsig (x.signed || y.signed) ∧ bsig (x.signed || y.signed) ≤ 1 := by
    unfold bsig; split <;> omega
  have hw : 1 ≤ bsig (x.signed || y.signed) + (max x.nint y.nint + 1) + max x.nfrac y.nfrac := by
    rw [ix, iy]; omega
  rw [if_neg (by omega)]
  refine ⟨_, rfl, rfl, rfl, ?_, ?_, ?_⟩
  · intro _; show 0 < Int.toNat _; omega
  · show Int.toNat _ - (if (x.signed || y.signed) = true then 1 else 0) = _
    unfold kx ky
    rw [ix, iy] at hw ⊢
    unfold bsig at hw hb ⊢
    split <;> simp_all <;> omega
  · unfold nint
    show ((Int.toNat _ : Nat) : ℤ) - max x.nfrac y.nfrac - (if (x.signed || y.signed) = true then 1 else 0) = _
    unfold bsig at hw hb ⊢
    split <;> simp_all <;> omega

theorem rawKernel_add (x y : Fmt) (a b : ℤ) :
    rawKernel .add (max x.nfrac y.nfrac) x y a b = ((sumCode x y a b : ℤ) : ℚ) := by
  unfold rawKernel sumCode kx ky
  rw [scale_int_nonneg a _ (by omega), scale_int_nonneg b _ (by omega)]
  push_cast; ring

theorem rawKernel_sub (x y : Fmt) (a b : ℤ) :
    rawKernel .sub (max x.nfrac y.nfrac) x y a b = ((diffCode x y a b : ℤ) : ℚ) := by
  unfold rawKernel diffCode kx ky
  rw [scale_int_nonneg a _ (by omega), scale_int_nonneg b _ (by omega)]
  push_cast; ring

/-- **never overflows (add)**: the exact aligned sum of in-range codes is in range of the result format. -/
theorem add_fits (x y : Fmt) (hx : x.WF) (hy : y.WF) (a b : ℤ) (ha : x.InRange a) (hb : y.InRange b)
    (t : Fmt) (ht : resultFmt .optimal .add x y = some t) : t.InRange (sumCode x y a b) := by
  obtain ⟨t', ht', hs, _, hwf, hmag, _⟩ := addsub_fmt .add (Or.inl rfl) x y hx hy
  rw [ht] at ht'; cases ht'
  rw [inRange_iff_mag t hwf, hs, hmag]
  exact add_bound x.signed y.signed x.mag y.mag (kx x y) (ky x y) _ a b
    ((inRange_iff_mag x hx a).mp ha) ((inRange_iff_mag y hy b).mp hb) rfl

/-- **never overflows (sub)** when the result is signed, or the difference is non-negative. -/
theorem sub_fits (x y : Fmt) (hx : x.WF) (hy : y.WF) (a b : ℤ) (ha : x.InRange a) (hb : y.InRange b)
    (t : Fmt) (ht : resultFmt .optimal .sub x y = some t)
    (hsign : (x.signed || y.signed) = true ∨ 0 ≤ diffCode x y a b) : t.InRange (diffCode x y a b) := by
  obtain ⟨t', ht', hs, _, hwf, hmag, _⟩ := addsub_fmt .sub (Or.inr rfl) x y hx hy
  rw [ht] at ht'; cases ht'
  rw [inRange_iff_mag t hwf, hs, hmag]
  have := sub_bound x.signed y.signed x.mag y.mag (kx x y) (ky x y) _ a b
    ((inRange_iff_mag x hx a).mp ha) ((inRange_iff_mag y hy b).mp hb) rfl
  refine ⟨?_, this.2⟩
  rcases hsign with h | h
  · rw [h]; simp only [bsig, if_true]; unfold diffCode; linarith [this.1]
  · have : (0:ℤ) ≤ bsig (x.signed || y.signed) * 2 ^ (max (x.mag + kx x y) (y.mag + ky x y) + 1) := by
      unfold bsig; split <;> positivity
    unfold diffCode at h ⊢
    linarith

theorem ovf_id (o : Overflow) (t : Fmt) (hw : 0 < t.nword) (k : ℤ) (h : t.InRange k) : ovf o t k = k := by
  cases o
  · exact sat_of_inRange t k h
  · exact wrap_of_inRange t hw k h

theorem nword_pos_of_mag (t : Fmt) (h : 0 < t.mag) : 0 < t.nword := by
  unfold mag at h; omega

/-- value of the aligned sum is the sum of the values (so "exact"). -/
theorem value_sum (x y t : Fmt) (htf : t.nfrac = max x.nfrac y.nfrac) (a b : ℤ) :
    valueOf t (sumCode x y a b) = valueOf x a + valueOf y b := by
  unfold valueOf sumCode kx ky
  rw [scale_eq, scale_eq, scale_eq, htf]
  push_cast
  have e1 : ((2:ℚ) ^ (max x.nfrac y.nfrac - x.nfrac).toNat) = (2:ℚ) ^ (max x.nfrac y.nfrac - x.nfrac) := by
    rw [← zpow_natCast]; congr 1; omega
  have e2 : ((2:ℚ) ^ (max x.nfrac y.nfrac - y.nfrac).toNat) = (2:ℚ) ^ (max x.nfrac y.nfrac - y.nfrac) := by
    rw [← zpow_natCast]; congr 1; omega
  rw [e1, e2, add_mul, mul_assoc, mul_assoc, ← zpow_add₀ (by norm_num : (2:ℚ) ≠ 0),
      ← zpow_add₀ (by norm_num : (2:ℚ) ≠ 0)]
  congr 2 <;> ring_nf

theorem value_diff (x y t : Fmt) (htf : t.nfrac = max x.nfrac y.nfrac) (a b : ℤ) :
    valueOf t (diffCode x y a b) = valueOf x a - valueOf y b := by
  have h1 := value_sum x y t htf a (-b)
  unfold sumCode at h1
  unfold diffCode
  have : valueOf y (-b) = -valueOf y b := by unfold valueOf; rw [scale_eq, scale_eq]; push_cast; ring
  rw [this] at h1
  rw [show a * 2 ^ kx x y - b * 2 ^ ky x y = a * 2 ^ kx x y + -b * 2 ^ ky x y by ring, h1]; ring

/-- **C07 for `+`**: under any rounding and either overflow mode the stored code is the exact aligned sum,
its value is the exact sum of the operand values, and neither overflow nor underflow is raised. -/
theorem add_exact (x y : Fmt) (hx : x.WF) (hy : y.WF) (a b : ℤ) (ha : x.InRange a) (hb : y.InRange b)
    (t : Fmt) (ht : resultFmt .optimal .add x y = some t) (r : Rounding) (o : Overflow) :
    arithRaw .add t r o x y a b = sumCode x y a b ∧
    valueOf t (arithRaw .add t r o x y a b) = valueOf x a + valueOf y b ∧
    arithFlags t (roundR r (rawKernel .add t.nfrac x y a b)) = (false, false) := by
  obtain ⟨t', ht', hs, hf, hwf, hmag, _⟩ := addsub_fmt .add (Or.inl rfl) x y hx hy
  have hfit := add_fits x y hx hy a b ha hb t ht
  rw [ht] at ht'; cases ht'
  have hk : roundR r (rawKernel .add t.nfrac x y a b) = sumCode x y a b := by
    rw [hf, rawKernel_add, roundR_int]
  have hcode : arithRaw .add t r o x y a b = sumCode x y a b := by
    unfold arithRaw storeRawFloat
    rw [hk]; exact ovf_id o t (nword_pos_of_mag t (by omega)) _ hfit
  refine ⟨hcode, by rw [hcode]; exact value_sum x y t hf a b, ?_⟩
  rw [hk]; unfold arithFlags
  obtain ⟨h1, h2⟩ := hfit
  simp [not_lt.mpr h1, not_lt.mpr h2]

/-- **C07 for `-`** (signed result, or non-negative difference of unsigned operands). -/
theorem sub_exact (x y : Fmt) (hx : x.WF) (hy : y.WF) (a b : ℤ) (ha : x.InRange a) (hb : y.InRange b)
    (t : Fmt) (ht : resultFmt .optimal .sub x y = some t) (r : Rounding) (o : Overflow)
    (hsign : (x.signed || y.signed) = true ∨ 0 ≤ diffCode x y a b) :
    arithRaw .sub t r o x y a b = diffCode x y a b ∧
    valueOf t (arithRaw .sub t r o x y a b) = valueOf x a - valueOf y b ∧
    arithFlags t (roundR r (rawKernel .sub t.nfrac x y a b)) = (false, false) := by
  obtain ⟨t', ht', hs, hf, hwf, hmag, _⟩ := addsub_fmt .sub (Or.inr rfl) x y hx hy
  have hfit := sub_fits x y hx hy a b ha hb t ht hsign
  rw [ht] at ht'; cases ht'
  have hk : roundR r (rawKernel .sub t.nfrac x y a b) = diffCode x y a b := by
    rw [hf, rawKernel_sub, roundR_int]
  have hcode : arithRaw .sub t r o x y a b = diffCode x y a b := by
    unfold arithRaw storeRawFloat
    rw [hk]; exact ovf_id o t (nword_pos_of_mag t (by omega)) _ hfit
  refine ⟨hcode, by rw [hcode]; exact value_diff x y t hf a b, ?_⟩
  rw [hk]; unfold arithFlags
  obtain ⟨h1, h2⟩ := hfit
  simp [not_lt.mpr h1, not_lt.mpr h2]

/-- **the single exception**: a negative difference of two unsigned operands is the exact difference
quantized into the unsigned result format — 0 with underflow (and no overflow) under saturate. -/
theorem sub_unsigned_neg (x y : Fmt) (hx : x.WF) (hy : y.WF) (a b : ℤ)
    (t : Fmt) (ht : resultFmt .optimal .sub x y = some t) (r : Rounding)
    (hu : (x.signed || y.signed) = false) (hneg : diffCode x y a b < 0) :
    arithRaw .sub t r .saturate x y a b = 0 ∧
    arithFlags t (roundR r (rawKernel .sub t.nfrac x y a b)) = (false, true) := by
  obtain ⟨t', ht', hs, hf, hwf, hmag, _⟩ := addsub_fmt .sub (Or.inr rfl) x y hx hy
  rw [ht] at ht'; cases ht'
  have hk : roundR r (rawKernel .sub t.nfrac x y a b) = diffCode x y a b := by
    rw [hf, rawKernel_sub, roundR_int]
  have hlo : t.lo = 0 := by unfold lo; rw [hs, hu]; simp
  have hhi : 0 ≤ t.hi := by rw [← hlo]; exact lo_le_hi t
  constructor
  · unfold arithRaw storeRawFloat
    rw [hk]; show sat t _ = 0
    rw [sat_below t _ (by rw [hlo]; exact hneg), hlo]
  · rw [hk]; unfold arithFlags
    rw [hlo]
    simp [hneg, not_lt.mpr (le_trans (le_of_lt hneg) hhi)]

/-! ### multiplication -/

theorem mul_fmt (x y : Fmt) (hx : x.WF) (hy : y.WF) :
    ∃ t, resultFmt .optimal .mul x y = some t ∧ t.signed = (x.signed || y.signed) ∧
      t.nfrac = x.nfrac + y.nfrac ∧ t.nword = x.nword + y.nword ∧ t.WF := by
  unfold resultFmt sizing optimalSize
  simp only
  unfold mkFmt
  have hb : 0 ≤ bsig (x.signed || y.signed) ∧ bsig (x.signed || y.signed) ≤ 1 := by
    unfold bsig; split <;> omega
  have hwf : (x.signed || y.signed) = true → 0 < x.nword + y.nword := by
    intro h
    rcases Bool.or_eq_true_iff.mp h with h | h
    · have := hx h; omega
    · have := hy h; omega
  have e : bsig (x.signed || y.signed) + ((x.nword:ℤ) + y.nword - bsig (x.signed || y.signed) - (x.nfrac + y.nfrac))
      + (x.nfrac + y.nfrac) = ((x.nword + y.nword : ℕ) : ℤ) := by push_cast; ring
  rw [e]
  rw [if_neg]
  · refine ⟨_, rfl, rfl, rfl, ?_, ?_⟩
    · show Int.toNat ((x.nword + y.nword : ℕ) : ℤ) = _; exact Int.toNat_natCast _
    · intro h; have := hwf h
      show 0 < Int.toNat ((x.nword + y.nword : ℕ) : ℤ)
      rw [Int.toNat_natCast]; exact this
  · rintro (h | ⟨h1, h2⟩)
    · omega
    · have := hwf h1; omega

theorem rawKernel_mul (x y : Fmt) (a b : ℤ) :
    rawKernel .mul (x.nfrac + y.nfrac) x y a b = ((a * b : ℤ) : ℚ) := by
  unfold rawKernel
  rw [show x.nfrac + y.nfrac - x.nfrac - y.nfrac = 0 by ring]
  unfold scale; simp

/-- **never overflows (mul)**: the product of in-range codes fits `n_word_x + n_word_y` bits, for all four
signedness mixes (including most-negative × most-negative). -/
theorem mul_fits (x y : Fmt) (hx : x.WF) (hy : y.WF) (a b : ℤ) (ha : x.InRange a) (hb : y.InRange b)
    (t : Fmt) (ht : resultFmt .optimal .mul x y = some t) : t.InRange (a * b) := by
  obtain ⟨t', ht', hs, _, hw, hwf⟩ := mul_fmt x y hx hy
  rw [ht] at ht'; cases ht'
  rw [inRange_iff_mag t hwf, hs]
  have hm := mul_bound x.signed y.signed x.mag y.mag a b
    ((inRange_iff_mag x hx a).mp ha) ((inRange_iff_mag y hy b).mp hb)
  have : t.mag = x.mag + y.mag + (if (x.signed && y.signed) = true then 1 else 0) := by
    unfold mag; rw [hw, hs]
    have := hx; have := hy
    unfold WF at hx hy
    cases hxs : x.signed <;> cases hys : y.signed <;> simp_all <;> omega
  rw [this]; exact hm

/-- **C07 for `*`**. -/
theorem mul_exact (x y : Fmt) (hx : x.WF) (hy : y.WF) (a b : ℤ) (ha : x.InRange a) (hb : y.InRange b)
    (t : Fmt) (ht : resultFmt .optimal .mul x y = some t) (r : Rounding) (o : Overflow)
    (hpos : 0 < x.nword + y.nword) :
    arithRaw .mul t r o x y a b = a * b ∧
    valueOf t (arithRaw .mul t r o x y a b) = valueOf x a * valueOf y b ∧
    arithFlags t (roundR r (rawKernel .mul t.nfrac x y a b)) = (false, false) := by
  obtain ⟨t', ht', hs, hf, hw, hwf⟩ := mul_fmt x y hx hy
  have hfit := mul_fits x y hx hy a b ha hb t ht
  rw [ht] at ht'; cases ht'
  have hk : roundR r (rawKernel .mul t.nfrac x y a b) = a * b := by
    rw [hf, rawKernel_mul, roundR_int]
  have hcode : arithRaw .mul t r o x y a b = a * b := by
    unfold arithRaw storeRawFloat
    rw [hk]; exact ovf_id o t (by omega) _ hfit
  refine ⟨hcode, ?_, ?_⟩
  · rw [hcode]; unfold valueOf
    rw [scale_eq, scale_eq, scale_eq, hf, neg_add, zpow_add₀ (by norm_num : (2:ℚ) ≠ 0)]
    push_cast; ring
  · rw [hk]; unfold arithFlags
    obtain ⟨h1, h2⟩ := hfit
    simp [not_lt.mpr h1, not_lt.mpr h2]

/-! ### nested expressions -/

/-- leaves are well-formed stored operands; subtraction nodes have a signed side (so the unsigned-negative
exception cannot occur). -/
def _root_.Fxp.Expr.Ok : Expr → Prop
  | .leaf f c => f.WF ∧ 0 < f.nword ∧ f.InRange c
  | .add l r => l.Ok ∧ r.Ok
  | .sub l r => l.Ok ∧ r.Ok ∧ (l.hasSigned = true ∨ r.hasSigned = true)
  | .mul l r => l.Ok ∧ r.Ok

/-- **nested expressions are exact**: by structural induction, for trees of any depth. -/
theorem expr_exact (rd : Rounding) (o : Overflow) (e : Expr) (h : e.Ok) :
    ∃ t c, e.eval rd o = some (t, c) ∧ t.WF ∧ 0 < t.nword ∧ t.InRange c ∧ valueOf t c = e.value ∧
      t.signed = e.hasSigned := by
  induction e with
  | leaf f c => exact ⟨f, c, rfl, h.1, h.2.1, h.2.2, rfl, rfl⟩
  | add l r ihl ihr =>
    obtain ⟨x, a, ex, hx, hxp, ha, va, sa⟩ := ihl h.1
    obtain ⟨y, b, ey, hy, hyp, hb, vb, sb⟩ := ihr h.2
    obtain ⟨t, ht, hs, hf, hwf, hmag, _⟩ := addsub_fmt .add (Or.inl rfl) x y hx hy
    obtain ⟨c1, c2, _⟩ := add_exact x y hx hy a b ha hb t ht rd o
    refine ⟨t, arithRaw .add t rd o x y a b, ?_, hwf, nword_pos_of_mag t (by omega), ?_, ?_, ?_⟩
    · simp [Expr.eval, ex, ey, ht]
    · rw [c1]; exact add_fits x y hx hy a b ha hb t ht
    · rw [c2, va, vb]; rfl
    · rw [hs, sa, sb]; rfl
  | sub l r ihl ihr =>
    obtain ⟨x, a, ex, hx, hxp, ha, va, sa⟩ := ihl h.1
    obtain ⟨y, b, ey, hy, hyp, hb, vb, sb⟩ := ihr h.2.1
    obtain ⟨t, ht, hs, hf, hwf, hmag, _⟩ := addsub_fmt .sub (Or.inr rfl) x y hx hy
    have hsg : (x.signed || y.signed) = true := by
      rw [sa, sb]; rcases h.2.2 with h' | h' <;> simp [h']
    obtain ⟨c1, c2, _⟩ := sub_exact x y hx hy a b ha hb t ht rd o (Or.inl hsg)
    refine ⟨t, arithRaw .sub t rd o x y a b, ?_, hwf, nword_pos_of_mag t (by omega), ?_, ?_, ?_⟩
    · simp [Expr.eval, ex, ey, ht]
    · rw [c1]; exact sub_fits x y hx hy a b ha hb t ht (Or.inl hsg)
    · rw [c2, va, vb]; rfl
    · rw [hs, sa, sb]; rfl
  | mul l r ihl ihr =>
    obtain ⟨x, a, ex, hx, hxp, ha, va, sa⟩ := ihl h.1
    obtain ⟨y, b, ey, hy, hyp, hb, vb, sb⟩ := ihr h.2
    obtain ⟨t, ht, hs, hf, hw, hwf⟩ := mul_fmt x y hx hy
    obtain ⟨c1, c2, _⟩ := mul_exact x y hx hy a b ha hb t ht rd o (by omega)
    refine ⟨t, arithRaw .mul t rd o x y a b, ?_, hwf, by omega, ?_, ?_, ?_⟩
    · simp [Expr.eval, ex, ey, ht]
    · rw [c1]; exact mul_fits x y hx hy a b ha hb t ht
    · rw [c2, va, vb]; rfl
    · rw [hs, sa, sb]; rfl

/-- arrays with broadcasting are the scalar operation applied to every pair. -/
theorem broadcast_pointwise (g : ℤ → ℤ → ℤ) (as bs : List ℤ) (h : as.length = bs.length) :
    (List.zipWith g as bs).length = as.length ∧
    ∀ i (hi : i < as.length), (List.zipWith g as bs)[i]'(by simp [h]; omega) = g (as[i]) (bs[i]'(by omega)) := by
  refine ⟨by simp [h], fun i hi => by simp⟩

/-! non-vacuity: most-negative corners -/
example : resultFmt .optimal .mul ⟨true, 4, 2⟩ ⟨true, 4, 1⟩ = some ⟨true, 8, 3⟩ := by decide +kernel
example : arithRaw .mul ⟨true, 8, 3⟩ .trunc .saturate ⟨true, 4, 2⟩ ⟨true, 4, 1⟩ (-8) (-8) = 64 := by decide +kernel
example : resultFmt .optimal .add ⟨true, 4, 2⟩ ⟨false, 3, -1⟩ = some ⟨true, 8, 2⟩ := by decide +kernel

end Fxp.C07
