#!/venv/bin/python
"""Run the repository's pinned test suite (guard off) and compare with /root/.vp/BASELINE.json stable_pass."""
import json, os, subprocess, sys, tempfile, xml.etree.ElementTree as ET
repo = sys.argv[1] if len(sys.argv) > 1 else '/repo'
base = json.load(open('/root/.vp/BASELINE.json'))
fd, path = tempfile.mkstemp(suffix='.xml', dir='/root'); os.close(fd)
env = dict(os.environ); env.pop('FXPMATH_VERIF', None); env['PYTHONPATH'] = repo
subprocess.run(['/venv/bin/python', '-m', 'pytest', '-q', '-p', 'no:cacheprovider', '--timeout=900',
                '--continue-on-collection-errors', '--junitxml=' + path], cwd=repo, env=env,
               stdout=subprocess.DEVNULL, stderr=subprocess.DEVNULL)
passed = set()
for tc in ET.parse(path).getroot().iter('testcase'):
    if not any(c.tag in ('failure', 'error', 'skipped') for c in tc):
        passed.add(tc.get('classname') + '::' + tc.get('name'))
os.remove(path)
missing = [t for t in base['stable_pass'] if t not in passed]
print('passed %d; baseline %d; missing from baseline: %s' % (len(passed), len(base['stable_pass']), missing))
sys.exit(1 if missing else 0)
