#!/bin/bash
# tools/soak.sh <quick|thorough> <seed>...   run every registered check with each seed; report non-zero exits.
cd "$(dirname "$0")/.."
tier=$1; shift
( cd lean && lake build >/dev/null 2>&1 )
bad=0
for seed in "$@"; do
  for id in C01 C02 C03 C04 C05 C06 C07 C08 C09 C10 C11 C12 C13 C14 C15 C16 C17 C18 C19 C20; do
    out=$(VERIF_SEED=$seed VERIF_SKIP_LEANCHECKER=${VERIF_SKIP_LEANCHECKER:-1} ./check $id $tier 2>&1); rc=$?
    echo "seed=$seed $(echo "$out" | tail -1 | cut -c1-220) rc=$rc"
    if [ $rc -ne 0 ]; then bad=1; echo "$out" | grep -E "VIOLATION|failing input|INFRA" | cut -c1-500; fi
  done
done
exit $bad
