#!/venv/bin/python
"""Record the normalised-AST fingerprint of every fxpmath source file of the tree the model was last validated
against (anchors.lock.json). A different fingerprint at run time only *escalates* the quick budget."""
import ast, hashlib, json, os, sys
repo = sys.argv[1] if len(sys.argv) > 1 else '/repo'
out = {}
for fn in sorted(os.listdir(os.path.join(repo, 'fxpmath'))):
    if fn.endswith('.py'):
        src = open(os.path.join(repo, 'fxpmath', fn)).read()
        out[fn] = hashlib.sha256(ast.dump(ast.parse(src), include_attributes=False).encode()).hexdigest()
json.dump(out, open(os.path.join(os.path.dirname(os.path.dirname(os.path.abspath(__file__))), 'anchors.lock.json'), 'w'), indent=1)
print(out)
