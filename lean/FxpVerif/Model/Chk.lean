import FxpVerif.Model.Store
/-!
# Decidable checkers run by the driver on the implementation's observed outputs

Each `chkXX` is proved equivalent to (or to imply) the corresponding `Spec` in `Props/CXX.lean`.
Core Lean only, so the compiled driver can link them.
-/
namespace Fxp.Chk
open Fxp

/-- C01: observed code and read-back value against the reference quantizer. -/
def c01 (f : Fmt) (r : Rounding) (o : Overflow) (v : Rat) (c : Int) (x : Rat) : Bool :=
  decide (c = quantize f r o v) && decide (x = valueOf f c)

end Fxp.Chk
