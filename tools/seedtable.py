#!/usr/bin/env python3
"""tools/seedtable.py — regenerate the seeded-change table of DESIGN.md §13.5 from seeded/*/meta.json (between the SEEDTABLE markers)."""
import json, os, glob, re
root = os.path.join(os.path.dirname(os.path.abspath(__file__)), '..')
rows = []
for d in sorted(glob.glob(os.path.join(root, 'seeded', '*'))):
    m = json.load(open(os.path.join(d, 'meta.json')))
    name = os.path.basename(d)
    rnd = '10' if name.startswith('r10-') else '9' if name.startswith('r9-') else '8' if name.startswith('r8-') else '7' if name.startswith('r7-') else '6' if name.startswith('r6-') else '5' if name.startswith('r5-') else '4' if name.startswith('R') else (re.match(r'C\d\dr(\d)', name) or [0, '1'])[1]
    esc = lambda t: t.replace('|', '\\|').replace('\n', ' ')
    rows.append('| `%s` | %s | %s | %s | %s | %s |' % (name, m['property'], rnd, esc(m['needs_to_manifest']), ', '.join(m['caught_by_quick']) or '—', esc(m['history'])))
table = '\n'.join(['| seeded change (`seeded/<name>/`) | property | round | needs, to manifest | caught by (quick) | first run / after strengthening |',
                   '|---|---|---|---|---|---|'] + rows)
p = os.path.join(root, 'DESIGN.md')
s = open(p).read()
if '@@SEEDTABLE@@' in s:
    s = s.replace('@@SEEDTABLE@@', '<!-- SEEDTABLE:BEGIN -->\n' + table + '\n<!-- SEEDTABLE:END -->')
else:
    s = re.sub(r'<!-- SEEDTABLE:BEGIN -->.*?<!-- SEEDTABLE:END -->', lambda _: '<!-- SEEDTABLE:BEGIN -->\n' + table + '\n<!-- SEEDTABLE:END -->', s, flags=re.S)
open(p, 'w').write(s)
print(len(rows), 'seeds')
