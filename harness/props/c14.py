"""C14 — shifts scale by powers of two: lossless in expand mode, arithmetic otherwise."""
import numpy as np
from ..env import Fxp, parse_list, tok_list, lims, codes_of, fmt_of, exc_token, tok_bool, OVFS
from ..arith import mk
from . import base

TRUSTED_BASE = base.TRUSTED_BASE + ['`int(np.ceil(np.log2(|c|+0.5)))` is modelled as the bit length of |c| (-1 for 0); exact for |c| < 2^32']
ASSUMPTIONS = base.ASSUMPTIONS + ['reading: in trunc/keep mode a left shift that is not representable may be clamped OR wrapped (the statement allows both); in expand mode the chosen word length is not compared, only value, signedness, range and flags']
RULE = ('SF lines: (direction, shifting mode, configured overflow, format, count, codes): all codes for n_word<=4 (quick) / <=6 (thorough), boundary/random codes with many trailing zeros for n_word<=32, signed and unsigned, '
        'n_frac in {0, n_word/2}, counts 0..n_word+3 with n_word+n<=62, three shifting modes x two overflow configs, scalars and arrays (array-wide min_pow2). non-trivial = count>0 and some code non-zero')
TECHNIQUE = 'Lean 4 theorems (expand << and >> exact and in range; keep >> = floor(code/2^n); keep << exact if representable else clamped; shift by 0 identity) + relational checker on the implementation'
LEVEL_TEXT = ('Machine-checked: in expand mode the model\'s x<<n and x>>n have values exactly x*2^n and x/2^n (no bit lost because the shift never exceeds the array-wide number of trailing zeros; the grown word holds the result, no flag), '
              'in keep/trunc mode x>>n is floor(code/2^n) and x<<n is c*2^n when representable and the clamp otherwise; n=0 is the identity. The implementation is judged by a relational checker that accepts clamp or wrap and does not compare the chosen word length.')
LEVEL_NOTE = 'Trusted: Lean kernel + standard axioms; float log2 modelled as bit length; model-vs-code agreement on generated inputs only.'


def exec_SF(t):
    d, mode, o = t[0], t[1], t[2]
    sx, nx, fx = t[3] == 's', int(t[4]), int(t[5])
    n = int(t[6])
    cs = [int(c) for c in parse_list(t[7])]
    try:
        x = mk(cs, sx, nx, fx, shifting=mode, overflow=o)
        before = (fmt_of(x), codes_of(x))
        if (nx + n + len(cs) + cs[0]) % 3 == 0:
            # the in-place spelling (content-determined): `y <<= n` / `y >>= n` rebinds the name to the shifted object;
            # the object the name referred to before (x) is not modified
            import operator
            z = operator.ilshift(x, n) if d == 'l' else operator.irshift(x, n)
            if z is x:
                return ['INPLACE_RETURNED_OPERAND']
        else:
            cnt = n
            if (nx + n + cs[0]) % 2:
                # the count as the NumPy integer it is when it comes out of a table of per-stage shifts (narrowest type that holds it)
                cnt = (np.int8 if n < 128 else np.int16)(n) if (nx + cs[-1]) % 2 else (np.uint8 if n < 256 else np.uint16)(n)
            z = (x << cnt) if d == 'l' else (x >> cnt)
        unchanged = (fmt_of(x), codes_of(x)) == before
        st = z.status
        # the value of the result is read the same through every reader (the stored reading `real` included: D68)
        if getattr(z, 'real', None) is not None and not np.array_equal(np.asarray(z.real), np.asarray(z.get_val())):
            return ['STALE_READING']
    except Exception as e:
        return [exc_token(e)]
    return fmt_of(z).split() + [tok_list([str(c) for c in codes_of(z)]), tok_bool(st['overflow']), tok_bool(st['underflow']), tok_bool(unchanged)]


EXEC = {'SF': exec_SF}


def fm(s, n, f):
    return '%s %d %d' % ('s' if s else 'u', n, f)


def generate(tier, rng):
    L = lambda l: tok_list([str(c) for c in l])
    maxw = 4 if tier == 'quick' else 6
    for s in (True, False):
        for n in range(1, maxw + 1):
            lo, hi = lims(s, n)
            allc = list(range(lo, hi + 1))
            for f in sorted(set([0, n // 2])):
                for k in range(0, n + 4):
                    for mode in ('expand', 'trunc', 'keep'):
                        for d in ('l', 'r'):
                            o = rng.choice(OVFS)
                            for c in allc:
                                if n <= 3 or rng.random() < 0.3:
                                    yield 'SF %s %s %s %s %d %s' % (d, mode, o, fm(s, n, f), k, L([c]))
                            yield 'SF %s %s %s %s %d %s' % (d, mode, o, fm(s, n, f), k, L(allc))
    for _ in range(2500 if tier == 'quick' else 60000):
        s = rng.random() < 0.5
        n = rng.choice([7, 8, 12, 16, 24, 31, 32, rng.randint(5, 32)])
        f = rng.choice([0, n // 2])
        lo, hi = lims(s, n)
        k = rng.randint(0, min(n + 3, 62 - n))
        size = rng.choice([1, 1, 2, 4])
        cs = []
        for _ in range(size):
            c = rng.choice([lo, hi, 0, 1, lo + 1, hi - 1, rng.randint(lo, hi), (rng.randint(lo, hi) >> rng.randint(0, n)) << rng.randint(0, n)])
            cs.append(max(lo, min(hi, c)))
        yield 'SF %s %s %s %s %d %s' % (rng.choice('lr'), rng.choice(['expand', 'trunc', 'keep']), rng.choice(OVFS), fm(s, n, f), k, L(cs))


def nontrivial(full_line, model):
    t = full_line.split(' | ')[0].split()
    return int(t[7]) > 0 and any(c != '0' for c in parse_list(t[8]))


def debug_class(t):
    return ' '.join(t[0:4]) + ' ' + base.word_bucket(int(t[5]))


def stats(verdicts):
    return base.generic_stats(verdicts, lambda t: ['dir:' + t[1], 'mode:' + t[2], 'ovf:' + t[3], 'signed:' + t[4], 'word:' + base.word_bucket(int(t[5]))],
                              lambda t: len(parse_list(t[8])),
                              ['SF: all codes (as arrays; as scalars for n_word<=3, 30% sampled above) of formats n_word<=4 (quick) / <=6 (thorough), n_frac in {0,n_word/2}, counts 0..n_word+3, 3 modes, both directions'])
