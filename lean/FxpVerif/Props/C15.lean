import FxpVerif.Model.Reduce
import FxpVerif.Lemmas.Arith
import FxpVerif.Props.C16
import FxpVerif.Props.C07
/-! # C15 — NumPy reductions and linear algebra on fixed-point arrays are exact -/
namespace Fxp.C15
open Fxp Fmt

/-- `clog2` is a ceiling: `k ≤ 2^(clog2 k)`. -/
theorem le_two_pow_clog2 (n : ℕ) : n ≤ 2 ^ clog2 n := by
  unfold clog2
  split
  · have : 1 ≤ 2 ^ 0 := by norm_num
    omega
  · have := Nat.lt_log2_self (n := n - 1)
    omega

theorem foldl_add (l : List ℤ) (a : ℤ) : l.foldl (· + ·) a = a + l.sum := by
  induction l generalizing a with
  | nil => simp
  | cons x t ih => simp only [List.foldl_cons, List.sum_cons, ih]; ring

theorem sumL_eq (l : List ℤ) : sumL l = l.sum := by unfold sumL; rw [foldl_add]; ring

theorem foldl_mul (l : List ℤ) (a : ℤ) : l.foldl (· * ·) a = a * l.prod := by
  induction l generalizing a with
  | nil => simp
  | cons x t ih => simp only [List.foldl_cons, List.prod_cons, ih]; ring

theorem prodL_eq (l : List ℤ) : prodL l = l.prod := by unfold prodL; rw [foldl_mul]; ring

/-- `k` codes in `[L, U]` sum into `[k·L, k·U]`. -/
theorem sum_bounds (L U : ℤ) (xs : List ℤ) (h : ∀ x ∈ xs, L ≤ x ∧ x ≤ U) :
    (xs.length : ℤ) * L ≤ xs.sum ∧ xs.sum ≤ (xs.length : ℤ) * U := by
  induction xs with
  | nil => simp
  | cons y ys ih =>
    have hy := h y (by simp)
    have := ih (fun x hx => h x (by simp [hx]))
    simp only [List.sum_cons, List.length_cons, Nat.cast_add, Nat.cast_one]
    constructor <;> nlinarith [hy.1, hy.2, this.1, this.2]

/-- a total between `k·lo` and `k·hi` with `1 ≤ k ≤ N` fits the format widened by `clog2 N` bits. -/
theorem widened_fits (f : Fmt) (hw : 0 < f.nword) (k N : ℕ) (hk1 : 1 ≤ k) (hkN : k ≤ N) (S : ℤ)
    (h1 : (k : ℤ) * f.lo ≤ S) (h2 : S ≤ (k : ℤ) * f.hi) : (sumFmt f N).InRange S := by
  have hc := le_two_pow_clog2 N
  have hc' : (N : ℤ) ≤ 2 ^ clog2 N := by exact_mod_cast hc
  have hkN' : (k : ℤ) ≤ N := by exact_mod_cast hkN
  have hk1' : (1 : ℤ) ≤ k := by exact_mod_cast hk1
  rcases f with ⟨sg, nw, fr⟩
  unfold InRange lo hi sumFmt at *
  simp only at *
  have e1 : (2:ℤ) ^ (clog2 N + nw) = 2 ^ nw * 2 ^ clog2 N := by rw [pow_add]; ring
  have e2 : (2:ℤ) ^ (clog2 N + nw - 1) = 2 ^ (nw - 1) * 2 ^ clog2 N := by
    rw [show clog2 N + nw - 1 = (nw - 1) + clog2 N by omega, pow_add]
  have hP : (0:ℤ) < 2 ^ (nw - 1) := by positivity
  have hM : (0:ℤ) < 2 ^ nw := by positivity
  rw [e1, e2]
  generalize (2:ℤ) ^ (nw - 1) = P at *
  generalize (2:ℤ) ^ nw = M at *
  generalize (2:ℤ) ^ clog2 N = C at *
  cases sg <;> simp at * <;> constructor <;> nlinarith

/-- **sum never overflows**: `k` in-range codes sum into `n_word + ceil(log2 k)` bits (even all at an extreme). -/
theorem sum_fits (f : Fmt) (hw : 0 < f.nword) (cs : List ℤ) (hne : cs ≠ []) (h : ∀ c ∈ cs, f.InRange c) :
    (sumFmt f cs.length).InRange (sumL cs) := by
  rw [sumL_eq]
  obtain ⟨h1, h2⟩ := sum_bounds f.lo f.hi cs h
  exact widened_fits f hw cs.length cs.length (List.length_pos_iff.mpr hne) (le_refl _) _ h1 h2

/-- **cumsum never overflows**: every non-empty prefix sum fits the same format. -/
theorem cumsum_fits (f : Fmt) (hw : 0 < f.nword) (cs pre : List ℤ) (hpre : pre <+: cs) (hne : pre ≠ [])
    (h : ∀ c ∈ cs, f.InRange c) : (sumFmt f cs.length).InRange (sumL pre) := by
  rw [sumL_eq]
  have hmem : ∀ c ∈ pre, f.InRange c := fun c hc => h c (hpre.subset hc)
  obtain ⟨h1, h2⟩ := sum_bounds f.lo f.hi pre hmem
  exact widened_fits f hw pre.length cs.length (List.length_pos_iff.mpr hne) hpre.length_le _ h1 h2

/-- trace is the sum of the diagonal: same statement with the diagonal's length. -/
theorem trace_fits (f : Fmt) (hw : 0 < f.nword) (diag : List ℤ) (hne : diag ≠ []) (h : ∀ c ∈ diag, f.InRange c) :
    (sumFmt f diag.length).InRange (sumL diag) := sum_fits f hw diag hne h

/-- value of a sum is the sum of the values. -/
theorem sum_value_exact (f : Fmt) (N : ℕ) (cs : List ℤ) :
    valueOf (sumFmt f N) (sumL cs) = (cs.map (valueOf f)).sum := by
  rw [sumL_eq]
  unfold valueOf sumFmt
  simp only [scale_eq]
  induction cs with
  | nil => simp
  | cons c t ih => simp only [List.sum_cons, List.map_cons, Int.cast_add, add_mul, ih]

/-! ### products -/

/-- magnitude bound of a product of `k` in-range codes. -/
theorem prod_abs_bound (f : Fmt) (hf : f.WF) (cs : List ℤ) (h : ∀ c ∈ cs, f.InRange c) :
    |cs.prod| ≤ 2 ^ (cs.length * f.mag) := by
  induction cs with
  | nil => simp
  | cons c t ih =>
    have hc := (inRange_iff_mag f hf c).mp (h c (by simp))
    have := ih (fun x hx => h x (by simp [hx]))
    have hb : 0 ≤ bsig f.signed ∧ bsig f.signed ≤ 1 := by unfold bsig; split <;> omega
    have hP : (0:ℤ) < 2 ^ f.mag := by positivity
    have hcabs : |c| ≤ 2 ^ f.mag := by
      rw [abs_le]; constructor <;> nlinarith [hc.1, hc.2]
    simp only [List.prod_cons, List.length_cons, abs_mul]
    rw [show (t.length + 1) * f.mag = f.mag + t.length * f.mag by ring, pow_add]
    exact mul_le_mul hcabs this (abs_nonneg _) (le_of_lt hP)

theorem unsigned_prod_bound (A : ℤ) (hA : 1 ≤ A) (cs : List ℤ) (h : ∀ c ∈ cs, 0 ≤ c ∧ c ≤ A - 1) :
    0 ≤ cs.prod ∧ cs.prod ≤ A ^ cs.length := by
  induction cs with
  | nil => simp
  | cons c t ih =>
    have hc := h c (by simp)
    have := ih (fun x hx => h x (by simp [hx]))
    simp only [List.prod_cons, List.length_cons, pow_succ]
    constructor
    · exact mul_nonneg hc.1 this.1
    · nlinarith [mul_nonneg hc.1 (sub_nonneg.mpr this.2), mul_nonneg (sub_nonneg.mpr hc.2) this.1]

/-- **prod never overflows**: the product of `k ≥ 1` in-range codes fits `k·n_word` bits. -/
theorem prod_fits (f : Fmt) (hf : f.WF) (hw : 0 < f.nword) (cs : List ℤ) (hne : cs ≠ []) (h : ∀ c ∈ cs, f.InRange c) :
    (prodFmt f cs.length).InRange (prodL cs) := by
  rw [prodL_eq]
  have hk : 1 ≤ cs.length := List.length_pos_iff.mpr hne
  have habs := prod_abs_bound f hf cs h
  rcases f with ⟨sg, nw, fr⟩
  cases sg
  · -- unsigned: all codes are ≥ 0, product ≤ (2^n - 1)·2^((k-1)n) ≤ 2^(kn) - 1
    have hnn : ∀ c ∈ cs, 0 ≤ c ∧ c ≤ 2 ^ nw - 1 := by
      intro c hc
      have := h c hc
      unfold InRange lo hi at this; simpa using this
    obtain ⟨c, t, rfl⟩ := List.exists_cons_of_ne_nil hne
    have hc := hnn c (by simp)
    have ht := unsigned_prod_bound (2 ^ nw) (one_le_two_pow nw) t (fun x hx => hnn x (by simp [hx]))
    unfold InRange lo hi prodFmt
    simp only [List.prod_cons, List.length_cons, Bool.false_eq_true, if_false]
    rw [show (t.length + 1) * nw = nw + nw * t.length by ring, pow_add, pow_mul]
    have hB : (1:ℤ) ≤ (2 ^ nw) ^ t.length := by
      have : (0:ℤ) < (2 ^ nw) ^ t.length := by positivity
      omega
    constructor
    · exact mul_nonneg hc.1 ht.1
    · nlinarith [mul_nonneg hc.1 (sub_nonneg.mpr ht.2), mul_nonneg (sub_nonneg.mpr hc.2) ht.1]
  · have hmag : (⟨true, nw, fr⟩ : Fmt).mag = nw - 1 := by unfold mag; simp
    have hnw : 1 ≤ nw := hw
    rw [hmag, abs_le] at habs
    unfold InRange lo hi prodFmt
    simp only [if_true]
    by_cases hk1 : cs.length = 1
    · obtain ⟨c, rfl⟩ := List.length_eq_one_iff.mp hk1
      have := h c (by simp)
      unfold InRange lo hi at this
      simpa using this
    · have hk2 : 2 ≤ cs.length := by omega
      have hexp : cs.length * (nw - 1) + 1 ≤ cs.length * nw - 1 := by
        have : cs.length * (nw - 1) + cs.length = cs.length * nw := by
          rw [← Nat.mul_succ]; congr 1; omega
        omega
      have hp : (2:ℤ) ^ (cs.length * (nw - 1) + 1) ≤ 2 ^ (cs.length * nw - 1) := pow_mono2 hexp
      rw [pow_succ] at hp
      have hq : (0:ℤ) < 2 ^ (cs.length * (nw - 1)) := by positivity
      constructor <;> linarith [habs.1, habs.2]

/-- value of a product is the product of the values. -/
theorem prod_value_exact (f : Fmt) (cs : List ℤ) :
    valueOf (prodFmt f cs.length) (prodL cs) = (cs.map (valueOf f)).prod := by
  rw [prodL_eq]
  unfold valueOf prodFmt
  simp only [scale_eq]
  induction cs with
  | nil => simp
  | cons c t ih =>
    simp only [List.prod_cons, List.map_cons, List.length_cons, Int.cast_mul]
    rw [← ih]
    have : (2:ℚ) ^ (-(((t.length + 1 : ℕ) : ℤ) * f.nfrac)) = (2:ℚ) ^ (-f.nfrac) * (2:ℚ) ^ (-((t.length : ℤ) * f.nfrac)) := by
      rw [← zpow_add₀ (by norm_num : (2:ℚ) ≠ 0)]; congr 1; push_cast; ring
    rw [this]; ring

/-! ### dot -/

/-- **dot never overflows**: a length-`k` dot product fits `clog2 k + n_x + n_y` bits, any signedness mix. -/
theorem dot_fits (x y : Fmt) (hx : x.WF) (hy : y.WF) (hpos : 0 < x.nword + y.nword) (as bs : List ℤ)
    (hlen : as.length = bs.length) (hne : as ≠ []) (ha : ∀ a ∈ as, x.InRange a) (hb : ∀ b ∈ bs, y.InRange b) :
    (dotFmt x y as.length).InRange (dotL as bs) := by
  obtain ⟨t, ht, hs, hf, hw, hwf⟩ := C07.mul_fmt x y hx hy
  have hprods : ∀ p ∈ List.zipWith (· * ·) as bs, t.InRange p := by
    intro p hp
    obtain ⟨i, hi, rfl⟩ := List.mem_iff_getElem.mp hp
    simp only [List.getElem_zipWith]
    simp only [List.length_zipWith] at hi
    exact C07.mul_fits x y hx hy _ _ (ha _ (List.getElem_mem _)) (hb _ (List.getElem_mem _)) t ht
  have hzne : List.zipWith (· * ·) as bs ≠ [] := by
    intro h0
    have := congrArg List.length h0
    simp only [List.length_zipWith, List.length_nil] at this
    have := List.length_pos_iff.mpr hne
    omega
  have := sum_fits t (by omega) _ hzne hprods
  have hl : (List.zipWith (· * ·) as bs).length = as.length := by simp [hlen]
  rw [hl] at this
  have hfmt : sumFmt t as.length = dotFmt x y as.length := by
    rcases t with ⟨ts, tw, tf⟩
    simp only at hs hw hf
    subst hs hw hf
    unfold sumFmt dotFmt
    simp only [Fmt.mk.injEq, true_and, and_true]; omega
  rw [← hfmt]; exact this

/-! ### selection functions -/

theorem foldl_max_spec (l : List ℤ) (a : ℤ) : (l.foldl max a = a ∨ l.foldl max a ∈ l) ∧ a ≤ l.foldl max a ∧ ∀ c ∈ l, c ≤ l.foldl max a := by
  induction l generalizing a with
  | nil => simp
  | cons x t ih =>
    obtain ⟨h1, h2, h3⟩ := ih (max a x)
    simp only [List.foldl_cons]
    refine ⟨?_, le_trans (le_max_left _ _) h2, ?_⟩
    · rcases h1 with h | h
      · rcases max_choice a x with hm | hm
        · left; rw [h, hm]
        · right; rw [h, hm]; exact List.mem_cons_self
      · right; exact List.mem_cons_of_mem _ h
    · intro c hc
      rcases List.mem_cons.mp hc with rfl | hc
      · exact le_trans (le_max_right _ _) h2
      · exact h3 c hc

/-- `max` returns an element that bounds all others; by strict monotonicity of `valueOf` it is the maximum of the values. -/
theorem max_value (f : Fmt) (cs : List ℤ) (hne : cs ≠ []) :
    maxL cs ∈ cs ∧ ∀ c ∈ cs, valueOf f c ≤ valueOf f (maxL cs) := by
  cases cs with
  | nil => exact absurd rfl hne
  | cons a t =>
    obtain ⟨h1, h2, h3⟩ := foldl_max_spec t a
    have hle : ∀ c ∈ a :: t, c ≤ maxL (a :: t) := by
      intro c hc
      rcases List.mem_cons.mp hc with rfl | hc
      · exact h2
      · exact h3 c hc
    refine ⟨?_, fun c hc => ?_⟩
    · show t.foldl max a ∈ a :: t
      rcases h1 with h | h
      · rw [h]; exact List.mem_cons_self
      · exact List.mem_cons_of_mem _ h
    · rcases lt_or_eq_of_le (hle c hc) with h | h
      · exact le_of_lt ((C16.valueOf_strictMono f _ _).mpr h)
      · rw [h]

theorem insertSorted_perm (x : ℤ) (l : List ℤ) : (insertSorted x l).Perm (x :: l) := by
  induction l with
  | nil => simp [insertSorted]
  | cons a t ih =>
    unfold insertSorted
    split
    · exact List.Perm.refl _
    · exact (List.Perm.cons a ih).trans (List.Perm.swap x a t)

theorem insertSorted_sorted (x : ℤ) (l : List ℤ) (h : l.Pairwise (· ≤ ·)) : (insertSorted x l).Pairwise (· ≤ ·) := by
  induction l with
  | nil => simp [insertSorted]
  | cons a t ih =>
    unfold insertSorted
    have ht := (List.pairwise_cons.mp h)
    split
    · rename_i hxa
      refine List.pairwise_cons.mpr ⟨?_, h⟩
      intro c hc
      rcases List.mem_cons.mp hc with rfl | hc
      · exact hxa
      · exact le_trans hxa (ht.1 c hc)
    · rename_i hxa
      refine List.pairwise_cons.mpr ⟨?_, ih ht.2⟩
      intro c hc
      have := (insertSorted_perm x t).subset hc
      rcases List.mem_cons.mp this with rfl | hc'
      · omega
      · exact ht.1 c hc'

/-- `sort` returns a sorted permutation of the codes (hence of the values). -/
theorem sort_is_sorted_perm (l : List ℤ) : (sortL l).Perm l ∧ (sortL l).Pairwise (· ≤ ·) := by
  induction l with
  | nil => simp [sortL]
  | cons a t ih =>
    have e : sortL (a :: t) = insertSorted a (sortL t) := rfl
    rw [e]
    exact ⟨(insertSorted_perm a _).trans (List.Perm.cons a ih.1), insertSorted_sorted a _ ih.2⟩

/-- `clip` clamps every code into the given bounds and leaves codes inside them unchanged. -/
theorem clip_value (lo hi : ℤ) (hlh : lo ≤ hi) (l : List ℤ) :
    ∀ c ∈ clipL (some lo) (some hi) l, lo ≤ c ∧ c ≤ hi := by
  intro c hc
  unfold clipL at hc
  obtain ⟨a, _, rfl⟩ := List.mem_map.mp hc
  simp only
  omega

/-- transposing twice gives the matrix back is an indexing fact; here: the diagonal has `min r c` entries for full rows. -/
theorem transpose_shape (rows : List (List ℤ)) (r : List ℤ) (h : rows = r :: []) : (transposeL rows).length = r.length := by
  subst h; simp [transposeL]

/-! non-vacuity: all elements at the most negative code -/
/-! ### cumprod: every partial product, rescaled to the common fraction length, fits the result format -/

/-- an in-range code shifted left by `e` bits fits every word of at least `n_word + e` bits (same signedness). -/
theorem shifted_fits (sg : Bool) (w W e : ℕ) (fr fr' : ℤ) (hw : 0 < w) (hW : w + e ≤ W) (c : ℤ)
    (h : (⟨sg, w, fr⟩ : Fmt).InRange c) : (⟨sg, W, fr'⟩ : Fmt).InRange (c * 2 ^ e) := by
  unfold InRange lo hi at *
  simp only at *
  have hE : (0:ℤ) < 2 ^ e := by positivity
  have hE1 : (1:ℤ) ≤ 2 ^ e := one_le_two_pow e
  cases sg
  · simp only [Bool.false_eq_true, if_false] at *
    have hp : (2:ℤ) ^ (w + e) ≤ 2 ^ W := pow_mono2 hW
    rw [pow_add] at hp
    constructor
    · exact mul_nonneg h.1 hE.le
    · nlinarith [h.2]
  · simp only [if_true] at *
    have hp : (2:ℤ) ^ (w - 1 + e) ≤ 2 ^ (W - 1) := pow_mono2 (by omega)
    rw [pow_add] at hp
    have hP : (0:ℤ) < 2 ^ (w - 1) := by positivity
    constructor <;> nlinarith [h.1, h.2]

/-- the exponent by which the `k`-th partial product is rescaled is non-negative. -/
theorem cumprod_shift_nonneg (f : Fmt) (size k : ℕ) (hk1 : 1 ≤ k) (hk : k ≤ size) :
    0 ≤ cumprodFrac f size - (k : ℤ) * f.nfrac := by
  unfold cumprodFrac
  have a1 : (1 : ℤ) ≤ k := by exact_mod_cast hk1
  have a2 : (k : ℤ) ≤ size := by exact_mod_cast hk
  split
  · rename_i h
    have : 0 ≤ ((size : ℤ) - k) * f.nfrac := mul_nonneg (by omega) h
    linarith
  · rename_i h
    have : 0 ≤ ((k : ℤ) - 1) * (-f.nfrac) := mul_nonneg (by omega) (by omega)
    linarith

/-- the word of `cumprodFmt` is large enough for the `k`-th partial product (`k·n_word` bits) plus its rescaling. -/
theorem cumprod_word_ge (f : Fmt) (size k : ℕ) (hk1 : 1 ≤ k) (hk : k ≤ size) :
    (k : ℤ) * f.nword + (cumprodFrac f size - (k : ℤ) * f.nfrac) ≤
      max ((f.nword : ℤ) + cumprodFrac f size - f.nfrac) ((size : ℤ) * f.nword + cumprodFrac f size - size * f.nfrac) := by
  have a1 : (1 : ℤ) ≤ k := by exact_mod_cast hk1
  have a2 : (k : ℤ) ≤ size := by exact_mod_cast hk
  -- k·(n − f) is linear in k: its maximum over 1 ≤ k ≤ size is at one of the ends
  by_cases hd : 0 ≤ (f.nword : ℤ) - f.nfrac
  · have : (k : ℤ) * ((f.nword : ℤ) - f.nfrac) ≤ (size : ℤ) * ((f.nword : ℤ) - f.nfrac) := mul_le_mul_of_nonneg_right a2 hd
    exact le_trans (by nlinarith) (le_max_right _ _)
  · have : (k : ℤ) * ((f.nword : ℤ) - f.nfrac) ≤ 1 * ((f.nword : ℤ) - f.nfrac) := by nlinarith
    exact le_trans (by nlinarith) (le_max_left _ _)

/-- **cumprod never overflows**: every non-empty prefix product, rescaled to the common fraction length, fits the format
`cumprodFmt` — for every fraction length (negative, or longer than the word), all codes at their extremes included. -/
theorem cumprod_fits (f : Fmt) (hf : f.WF) (hw : 0 < f.nword) (cs pre : List ℤ) (hpre : pre <+: cs) (hne : pre ≠ [])
    (h : ∀ c ∈ cs, f.InRange c) :
    (cumprodFmt f cs.length).InRange
      (prodL pre * 2 ^ (cumprodFrac f cs.length - (pre.length : ℤ) * f.nfrac).toNat) := by
  have hk1 : 1 ≤ pre.length := List.length_pos_iff.mpr hne
  have hk : pre.length ≤ cs.length := hpre.length_le
  have hmem : ∀ c ∈ pre, f.InRange c := fun c hc => h c (hpre.subset hc)
  have hp := prod_fits f hf hw pre hne hmem
  have he := cumprod_shift_nonneg f cs.length pre.length hk1 hk
  have hwd := cumprod_word_ge f cs.length pre.length hk1 hk
  unfold prodFmt at hp
  unfold cumprodFmt
  refine shifted_fits f.signed (pre.length * f.nword) _ _ _ _ (Nat.mul_pos hk1 hw) ?_ _ hp
  -- the word: toNat of the maximum
  have : ((pre.length * f.nword + (cumprodFrac f cs.length - (pre.length : ℤ) * f.nfrac).toNat : ℕ) : ℤ) ≤
      max ((f.nword : ℤ) + cumprodFrac f cs.length - f.nfrac) ((cs.length : ℤ) * f.nword + cumprodFrac f cs.length - cs.length * f.nfrac) := by
    push_cast
    rw [Int.toNat_of_nonneg he]
    exact hwd
  omega

/-- **cumprod is exact**: the value of the `k`-th element of the result (the rescaled prefix product, read in `cumprodFmt`) is the
product of the values of the first `k` elements — for every fraction length. -/
theorem cumprod_value_exact (f : Fmt) (size : ℕ) (pre : List ℤ) (hk1 : 1 ≤ pre.length) (hk : pre.length ≤ size) :
    valueOf (cumprodFmt f size) (prodL pre * 2 ^ (cumprodFrac f size - (pre.length : ℤ) * f.nfrac).toNat) =
      (pre.map (valueOf f)).prod := by
  have he := cumprod_shift_nonneg f size pre.length hk1 hk
  rw [← prod_value_exact f pre]
  unfold valueOf cumprodFmt prodFmt
  simp only [scale_eq]
  push_cast
  have h2 : ((2:ℚ) ^ (cumprodFrac f size - (pre.length : ℤ) * f.nfrac).toNat) = (2:ℚ) ^ (cumprodFrac f size - (pre.length : ℤ) * f.nfrac) := by
    rw [← zpow_natCast, Int.toNat_of_nonneg he]
  rw [h2, mul_assoc, ← zpow_add₀ (by norm_num : (2:ℚ) ≠ 0)]
  congr 2
  ring


example : cumprodFmt ⟨true, 1, 3⟩ 2 = ⟨true, 4, 6⟩ ∧ cumprodFmt ⟨true, 3, -2⟩ 3 = ⟨true, 13, -2⟩ ∧ cumprodFmt ⟨true, 4, 2⟩ 3 = ⟨true, 12, 6⟩ := by
  decide +kernel

example : sumL [-8, -8, -8, -8] = -32 ∧ (sumFmt ⟨true, 4, 0⟩ 4) = ⟨true, 6, 0⟩ := by decide +kernel
example : (sumFmt ⟨true, 4, 0⟩ 4).InRange (-32) := by unfold Fmt.InRange Fmt.lo Fmt.hi; decide +kernel
example : prodL [-8, -8] = 64 ∧ (prodFmt ⟨true, 4, 0⟩ 2).InRange 64 := by
  unfold Fmt.InRange Fmt.lo Fmt.hi; decide +kernel

/-! ### matmul -/

/-- a column of a rectangular matrix: taking entry `j` of every row keeps one entry per row. -/
theorem column_spec (b : List (List ℤ)) (m j : ℕ) (hj : j < m) (hb : ∀ row ∈ b, row.length = m) :
    (b.filterMap (fun row => row[j]?)).length = b.length ∧
      ∀ c ∈ b.filterMap (fun row => row[j]?), ∃ row ∈ b, c ∈ row := by
  induction b with
  | nil => simp
  | cons r rest ih =>
    have hr : r.length = m := hb r (by simp)
    have hrest : ∀ row ∈ rest, row.length = m := fun row h => hb row (by simp [h])
    obtain ⟨ihl, ihm⟩ := ih hrest
    have hsome : r[j]? = some (r[j]'(by omega)) := List.getElem?_eq_getElem (by omega)
    simp only [List.filterMap_cons, hsome, List.length_cons, ihl, true_and]
    intro c hc
    rcases List.mem_cons.mp hc with h | h
    · exact ⟨r, by simp, by rw [h]; exact List.getElem_mem _⟩
    · obtain ⟨row, hrow, hcr⟩ := ihm c h
      exact ⟨row, by simp [hrow], hcr⟩

/-- **matmul never overflows**: every entry of the product of an `r×k` by a `k×m` matrix is the dot product of a row and a column
and fits the format `dot` uses, `clog2 k + n_x + n_y` bits (the format `np.matmul` / `@` return since D66). -/
theorem matmul_fits (x y : Fmt) (hx : x.WF) (hy : y.WF) (hpos : 0 < x.nword + y.nword) (a b : List (List ℤ)) (k m : ℕ) (hk : 0 < k)
    (ha : ∀ row ∈ a, row.length = k ∧ ∀ c ∈ row, x.InRange c)
    (hbl : b.length = k) (hb : ∀ row ∈ b, row.length = m ∧ ∀ c ∈ row, y.InRange c) :
    ∀ row ∈ matmulL a b, ∀ e ∈ row, (dotFmt x y k).InRange e := by
  intro row hrow e he
  unfold matmulL at hrow
  simp only [List.mem_map] at hrow
  obtain ⟨r, hr, rfl⟩ := hrow
  simp only [List.mem_map] at he
  obtain ⟨col, hcol, rfl⟩ := he
  obtain ⟨hrl, hrr⟩ := ha r hr
  -- the column
  have hcolspec : col.length = k ∧ ∀ c ∈ col, y.InRange c := by
    cases b with
    | nil => simp at hbl; omega
    | cons r0 rest =>
      unfold transposeL at hcol
      simp only [List.mem_map, List.mem_range] at hcol
      obtain ⟨j, hj, rfl⟩ := hcol
      have hr0 : r0.length = m := (hb r0 (by simp)).1
      obtain ⟨hl, hm⟩ := column_spec (r0 :: rest) m j (by omega) (fun row h => (hb row h).1)
      refine ⟨by rw [hl]; exact hbl, ?_⟩
      intro c hc
      obtain ⟨row, hrow, hcr⟩ := hm c hc
      exact (hb row hrow).2 c hcr
  have hne : r ≠ [] := by
    intro h0; rw [h0] at hrl; simp at hrl; omega
  have := dot_fits x y hx hy hpos r col (by rw [hrl, hcolspec.1]) hne hrr hcolspec.2
  rw [hrl] at this
  exact this

example : matmulL [[1, 2], [3, 4]] [[5, 6], [7, 8]] = [[19, 22], [43, 50]] := by decide +kernel
example : matmulL [[-8, -8], [-8, -8]] [[-8, -8], [-8, -8]] = [[128, 128], [128, 128]] ∧ (dotFmt ⟨true, 4, 0⟩ ⟨true, 4, 0⟩ 2).InRange 128 := by
  unfold Fmt.InRange Fmt.lo Fmt.hi; decide +kernel


/-! ### diagonals with an offset -/

/-- the diagonal with offset 0 is the main diagonal. -/
theorem diagOffL_zero (rows : List (List ℤ)) : diagOffL rows 0 = diagL rows := by
  unfold diagOffL diagL
  simp

/-- every entry of a diagonal (any offset) is an entry of the matrix: it is in the range of the format, so `diagonal` keeps the format
and `trace` of `k` of them fits `clog2 k` more bits (`trace_fits`). -/
theorem diagOffL_mem (rows : List (List ℤ)) (k : ℤ) : ∀ e ∈ diagOffL rows k, ∃ row ∈ rows, e ∈ row := by
  intro e he
  unfold diagOffL at he
  simp only [List.mem_filterMap] at he
  obtain ⟨p, hp, hpe⟩ := he
  have hrow : p.1 ∈ rows := by
    have := List.mem_zipIdx hp
    obtain ⟨_, _, h3⟩ := this
    rw [h3]; exact List.getElem_mem _
  refine ⟨p.1, hrow, ?_⟩
  split at hpe
  · exact List.mem_of_getElem? hpe
  · simp at hpe

example : diagOffL [[1, 2, 3], [4, 5, 6]] 1 = [2, 6] ∧ diagOffL [[1, 2, 3], [4, 5, 6]] (-1) = [4] ∧ diagOffL [[1, 2, 3], [4, 5, 6]] 0 = [1, 5] := by
  decide +kernel


end Fxp.C15
