"""C11 — binary and hex strings are faithful images of the code and parse back to it."""
import numpy as np
import fxpmath
from ..env import Fxp, parse_list, tok_list, lims, codes_of, exc_token
from .. import gen as G
from . import base
from ..arith import warm, overwrite_in_place

TRUSTED_BASE = base.TRUSTED_BASE + ['np.binary_repr / str.format("X") / np.base_repr / int(str, base) are modelled by digit-list functions (Model/Digits.lean)']
ASSUMPTIONS = base.ASSUMPTIONS + ['strings fed back to constructor/call/set_val carry the 0b / 0x prefix (an unprefixed digit string is a decimal numeral for those routes); from_bin takes the unprefixed rendering']
RULE = ('SB/SH/SR: rendering of all codes for n_word<=6 (quick) / <=8 (thorough), all n_frac 0..n_word, with and without binary point and prefix; boundary/random codes for n_word up to 256; scalars, 1-D and 2-D arrays (row-major, transposed and column-major). '
        'SP: render on the implementation, feed back by constructor/call/set_val/from_bin (method and function) in value mode (n_word<=53) and raw mode (to 256 bits), n_word>=2; '
        'non-trivial = negative code, or n_frac>0, or n_word not a multiple of 4 (hex)')
TECHNIQUE = 'Lean 4 theorems (bin = n_word two\'s-complement digits of the code, point position, hex = same pattern in ceil(n/4) digits, base_repr sign-magnitude, render->parse round trips for every code of every format) + differential correspondence'
LEVEL_TEXT = ('Machine-checked on digit-list models for every word length: bin() has exactly n_word digits whose value is code mod 2^n_word, the binary point sits n_frac digits from the right, hex() is the same pattern in ceil(n_word/4) digits, '
              'base_repr is sign and magnitude, and parsing a rendered bin or hex string (sign extension, two\'s-complement reading) returns the code for every in-range code when n_word>=2. The implementation is compared with the model on all codes of small formats '
              'and boundary/random codes up to 256 bits, scalars and arrays up to 2 dimensions, through all parsing routes.')
LEVEL_NOTE = 'Trusted: Lean kernel + standard axioms; NumPy/Python string primitives are modelled; value-mode parsing relies on float exactness for n_word<=53.'


def mkx(codes, shape, s, n, f):
    big = n >= 64 or any(abs(c) >= 2 ** 63 for c in codes)
    if not big and shape in (0, 1, 2) and (n + f + len(codes) + codes[0]) % 4 == 0 and (shape != 2 or len(codes) % 2 == 0):
        # an object with a past (content-determined): born with other codes, rendered and used, then overwritten in its existing buffer
        lo = -(1 << (n - 1)) if s else 0
        other = [lo if k % 2 else ((1 << (n - 1)) - 1 if s else (1 << n) - 1) for k in range(len(codes))]
        arr0 = other[0] if shape == 0 else np.array(other, dtype=np.int64).reshape((2, -1) if shape == 2 else (-1,))
        x = Fxp(arr0, s, n, f, raw=True)
        warm(x, extra=(lambda: x.bin(frac_dot=True), lambda: x.hex(), lambda: x.base_repr(2)))
        return overwrite_in_place(x, codes)
    if shape == 0:
        return Fxp(codes[0], s, n, f, raw=True)
    arr = np.array(codes, dtype=object) if big else np.array(codes, dtype=np.int64)
    if shape == 2:
        arr = arr.reshape(2, -1)
    elif shape == 3:
        # the same logical (2, k/2) array, reached by transposing: column-major in memory
        t = Fxp(np.ascontiguousarray(arr.reshape(2, -1).T), s, n, f, raw=True)
        x = [lambda: t.T, lambda: t.transpose(), lambda: np.transpose(t)][len(codes) % 3]()
        assert x.shape == (2, len(codes) // 2)
        return x
    elif shape == 4:
        arr = np.asfortranarray(arr.reshape(2, -1))
    return Fxp(arr, s, n, f, raw=True)


def flat_strs(r):
    if isinstance(r, str):
        return [r]
    out = []
    for e in r:
        out += flat_strs(e)
    return out


def parse_common(t):
    return t[0] == 's', int(t[1]), int(t[2])


def exec_SB(t):
    s, n, f = parse_common(t)
    dot, pre = t[3] == '1', t[4]
    codes = [int(c) for c in parse_list(t[6])]
    shape = int(t[5])
    try:
        x = mkx(codes, shape, s, n, f)
        if codes_of(x) != codes:
            return ['SRCFAIL']
        r = x.bin(frac_dot=dot, prefix=('0b' if pre == '0b' else None))
    except Exception as e:
        return [exc_token(e)]
    return [tok_list(flat_strs(r))]


def exec_SH(t):
    s, n, f = parse_common(t)
    shape = int(t[3])
    codes = [int(c) for c in parse_list(t[4])]
    try:
        x = mkx(codes, shape, s, n, f)
        if codes_of(x) != codes:
            return ['SRCFAIL']
        k_ = (n + f + len(codes) + codes[0]) % 5
        if k_:
            x.config.bin_prefix = ['b', '0b', 'B', '0B'][k_ - 1]      # the selected *binary* prefix is no part of a hex image
        r = x.hex()
    except Exception as e:
        return [exc_token(e)]
    return [tok_list(flat_strs(r))]


def exec_SR(t):
    s, n, f = parse_common(t)
    b = int(t[3]); shape = int(t[4])
    codes = [int(c) for c in parse_list(t[5])]
    try:
        x = mkx(codes, shape, s, n, f)
        if codes_of(x) != codes:
            return ['SRCFAIL']
        r = x.base_repr(b)
    except Exception as e:
        return [exc_token(e)]
    return [tok_list(flat_strs(r))]


def exec_SP(t):
    kind, mode, route, shape = t[0], t[1], t[2], int(t[3])
    s, n, f = t[4] == 's', int(t[5]), int(t[6])
    codes = [int(c) for c in parse_list(t[7])]
    raw = mode == 'raw'
    try:
        x = mkx(codes, shape, s, n, f)
        if codes_of(x) != codes:
            return ['SRCFAIL']
        frombin = route in ('frombin', 'frombin_fn')
        if kind == 'hex':
            r = x.hex()
        else:
            r = x.bin(frac_dot=(kind == 'bindot'), prefix=(None if frombin else '0b'))
        if shape >= 2:
            # a 2-D rendering is a list of per-row string arrays: it is fed back as it is, as one string array, or as nested lists
            k = (len(codes) + n + codes[-1]) % 3
            r = r if k == 0 else np.array(r) if k == 1 else np.array(r).tolist()
        okw = {'overflow': 'wrap'} if (n + f + codes[0]) % 2 else {}     # (a destination configured to wrap restores an in-range code all the same)
        if route == 'ctor':
            y = Fxp(r, s, n, f, raw=raw, **okw)
        elif route == 'frombin_fn':
            y = fxpmath.from_bin(r, signed=s, n_word=n, n_frac=f, raw=raw)
        else:
            y = Fxp(None if shape == 0 else np.zeros_like(np.array(codes, dtype=object), dtype=int), s, n, f, **okw)
            if (len(codes) + n + f + codes[0]) % 3 == 0 and n <= 60:
                # a destination with a past (content-determined): it has parsed the very same string(s) before, while it had another
                # fraction length; what a string means is decided by the format the object has when the string is stored
                f0 = f - 1 if f > 0 else f + 1
                y = Fxp(None if shape == 0 else np.zeros_like(np.array(codes, dtype=object), dtype=int), s, n, f0)
                for g in (lambda: y(r), lambda: y.set_val(r, raw=raw), lambda: y.from_bin(r, raw=raw) if kind != 'hex' else None):
                    try:
                        g()
                    except Exception:
                        pass
                y.resize(n_frac=f)
            if route == 'call':
                if raw:
                    return ['SKIPROUTE']
                y(r)
            elif route == 'setval':
                y.set_val(r, raw=raw)
            elif route == 'frombin':
                y.from_bin(r, raw=raw)
        back = codes_of(y)
    except Exception as e:
        return [exc_token(e)]
    return [tok_list([str(c) for c in back]) if back is not None else 'nonint']


EXEC = {'SB': exec_SB, 'SH': exec_SH, 'SR': exec_SR, 'SP': exec_SP}


def fm(s, n, f):
    return '%s %d %d' % ('s' if s else 'u', n, f)


def pick_codes(rng, s, n, k):
    lo, hi = lims(s, n)
    return [rng.choice([lo, hi, 0, 1, lo + 1, hi - 1, -1 if s else hi, rng.randint(lo, hi), rng.randint(lo, hi)]) for _ in range(k)]


def generate(tier, rng):
    L = lambda l: tok_list([str(c) for c in l])
    maxw = 6 if tier == 'quick' else 8
    for s in (True, False):
        for n in range(1, maxw + 1):
            lo, hi = lims(s, n)
            allc = list(range(lo, hi + 1))
            for f in range(0, n + 1):
                for dot in (0, 1):
                    yield 'SB %s %d %s %d %s' % (fm(s, n, f), dot, rng.choice(['none', '0b']), 1, L(allc))
                yield 'SH %s 1 %s' % (fm(s, n, f), L(allc))
                yield 'SR %s %d 1 %s' % (fm(s, n, f), rng.choice([2, 3, 8, 10, 16, 36]), L(allc))
                if n >= 2:
                    for kind in ('bin', 'bindot', 'hex'):
                        for mode in ('value', 'raw'):
                            route = rng.choice(['ctor', 'setval', 'frombin', 'frombin_fn'] + (['call'] if mode == 'value' else []))
                            if kind == 'hex' and route.startswith('frombin'):
                                route = 'ctor'
                            yield 'SP %s %s %s 1 %s %s' % (kind, mode, route, fm(s, n, f), L(allc))
                if n <= 3:
                    for c in allc:
                        yield 'SB %s %d %s 0 %s' % (fm(s, n, f), rng.choice([0, 1]), rng.choice(['none', '0b']), L([c]))
                        yield 'SH %s 0 %s' % (fm(s, n, f), L([c]))
                        if n >= 2:
                            yield 'SP %s %s %s 0 %s %s' % (rng.choice(['bin', 'hex']), rng.choice(['value', 'raw']), rng.choice(['ctor', 'setval']), fm(s, n, f), L([c]))
    for _ in range(2500 if tier == 'quick' else 60000):
        s = rng.random() < 0.5
        n = rng.choice([2, 7, 8, 9, 12, 15, 16, 17, 31, 32, 33, 52, 53, 55, 56, 59, 62, 63, 64, 65, 72, 100, 127, 128, 129, 200, 255, 256] + [rng.randint(2, 256)])
        f = rng.choice([0, 1, n // 2, n - 1, n, rng.randint(0, n)])
        shape = rng.choice([0, 0, 1, 2, 3, 4])     # 3: transposed (column-major) 2-D history, 4: column-major constructor input
        k = 1 if shape == 0 else (rng.choice([2, 3]) if shape == 1 else rng.choice([4, 6]))
        codes = pick_codes(rng, s, n, k)
        what = rng.random()
        if what < 0.25:
            yield 'SB %s %d %s %d %s' % (fm(s, n, f), rng.choice([0, 1]), rng.choice(['none', '0b']), shape, L(codes))
        elif what < 0.4:
            yield 'SH %s %d %s' % (fm(s, n, f), shape, L(codes))
        elif what < 0.5:
            yield 'SR %s %d %d %s' % (fm(s, n, f), rng.choice([2, 3, 10, 16]), shape, L(codes))
        else:
            kind = rng.choice(['bin', 'bindot', 'hex'])
            mode = 'value' if (n <= 53 and rng.random() < 0.5) else 'raw'
            route = rng.choice(['ctor', 'setval', 'frombin', 'frombin_fn'] + (['call'] if mode == 'value' else []))
            if kind == 'hex' and route.startswith('frombin'):
                route = 'setval'
            yield 'SP %s %s %s %d %s %s' % (kind, mode, route, shape, fm(s, n, f), L(codes))


def nontrivial(full_line, model):
    return True


def kf_class(t):
    return None


def debug_class(t):
    if t[0] == 'SP':
        return ' '.join(t[0:5]) + ' ' + base.word_bucket(int(t[6]))
    return t[0] + ' ' + base.word_bucket(int(t[2])) + ' shape' + (t[6] if t[0] == 'SB' else t[4] if t[0] == 'SH' else t[5])


def stats(verdicts):
    return base.generic_stats(verdicts, lambda t: ['op:' + t[0]] + (['kind:' + t[1], 'mode:' + t[2], 'route:' + t[3], 'shape:' + t[4], 'word:' + base.word_bucket(int(t[6]))] if t[0] == 'SP' else ['word:' + base.word_bucket(int(t[2]))]),
                              lambda t: len(parse_list(t[-1])),
                              ['SB/SH/SR/SP: all codes of every format n_word<=6 (quick) / <=8 (thorough), n_frac 0..n_word'])
