import FxpVerif.Props.C01
import FxpVerif.Props.C03
import FxpVerif.Props.C11
import FxpVerif.Props.C13
/-! # C18 — extended precision (n_word ≥ 64)

No new mathematics: the theorems of C01/C03/C11/C13 are unbounded in `n_word`. This file instantiates them
for the raw / integer-value routes and states the extended-precision indicator. -/
namespace Fxp.C18
open Fxp

/-- the extended-precision indicator of the model: `n_word ≥ 64` (`resize`, and it must survive `reset`). -/
def extFlag (f : Fmt) : Bool := decide (64 ≤ f.nword)

theorem ext_flag_iff (f : Fmt) : extFlag f = true ↔ 64 ≤ f.nword := by
  unfold extFlag; simp

/-- a Python integer supplied as a **code** (`raw=True`): stored bit-exactly when in range … -/
theorem raw_in_range_exact (f : Fmt) (hw : 0 < f.nword) (o : Overflow) (k : ℤ) (h : f.InRange k) :
    storeRawInt f o k = k := by
  unfold storeRawInt
  cases o
  · exact sat_of_inRange f k h
  · exact wrap_of_inRange f hw k h

/-- … and saturated or wrapped exactly (C01 / C03) when not, for any width. -/
theorem raw_out_of_range (f : Fmt) (hw : 0 < f.nword) (k : ℤ) :
    (f.hi < k → storeRawInt f .saturate k = f.hi) ∧ (k < f.lo → storeRawInt f .saturate k = f.lo) ∧
    C03.Spec f k (storeRawInt f .wrap k) :=
  ⟨sat_above f k, sat_below f k, C03.wrap_spec f hw k⟩

/-- a Python integer supplied as a **value** into a format with `n_frac ≥ 0`: the Python-int object path
computes `v·2^n_frac` exactly and does not round. -/
theorem object_path_eq_quantize (f : Fmt) (r : Rounding) (o : Overflow) (v : ℤ) (hf : 0 ≤ f.nfrac) :
    storeIntShift f o v = quantize f r o (v : ℚ) := by
  have := C01.storeInt_eq f r o v
  unfold storeInt at this
  rw [if_pos hf] at this
  exact this

/-- overflow / underflow flags of the raw store are exact. -/
theorem raw_flags_exact (f : Fmt) (k : ℤ) :
    (decide (f.hi < k) = true ↔ f.hi < k) ∧ (decide (k < f.lo) = true ↔ k < f.lo) := by simp

/-- rendering and parsing at any width (instances of C11). -/
theorem wide_bin_roundtrip (f : Fmt) (hw : 64 ≤ f.nword) (c : ℤ) (h : f.InRange c) :
    parseBinCode f.signed f.nword (binStr f c false ['0', 'b']) = some c :=
  C11.bin_roundtrip_raw f (by omega) (fun _ => by omega) c h

theorem wide_hex_roundtrip (f : Fmt) (hw : 64 ≤ f.nword) (c : ℤ) (h : f.InRange c) :
    parseHexCode f.signed f.nword (hexStr f c ['0', 'x']) = some c :=
  C11.hex_roundtrip_raw f (by omega) (fun _ => by omega) c h

/-- bitwise operators at any width (instance of C13). -/
theorem wide_bitwise (op : BitOp) (f : Fmt) (hw : 64 ≤ f.nword) (o : Overflow) (c m : ℤ) :
    f.InRange (bitwiseM op f o c m) ∧
    upat f.nword (bitwiseM op f o c m) = bitop op (upat f.nword c) (upat f.nword m) :=
  C13.bitwise_pattern op f (by omega) o c m

/-! non-vacuity at 128 bits -/
example : storeRawInt ⟨true, 128, 0⟩ .wrap (2 ^ 127) = -2 ^ 127 := by decide +kernel
example : storeRawInt ⟨false, 128, 64⟩ .saturate (2 ^ 200) = 2 ^ 128 - 1 := by decide +kernel
example : extFlag ⟨true, 64, 0⟩ = true ∧ extFlag ⟨true, 63, 0⟩ = false := by decide

end Fxp.C18
