"""C02 — every produced object is well-formed: codes in range, metadata consistent."""
import random
from fractions import Fraction
import numpy as np
import fxpmath
from ..env import Fxp, parse_list, tok_list, lims, codes_of, exc_token, tok_frac, tok_exact, to_float, is_exact_float, frac, ROUNDS, OVFS, tok_bool
from . import base

TRUSTED_BASE = base.TRUSTED_BASE
ASSUMPTIONS = base.ASSUMPTIONS + ['"produced object" = an Fxp returned to the caller; an operation that raises produces none (e.g. smallest sizing that yields a non-positive word)',
                                  'programs are generated on the implementation side; the Lean side contributes the verified checker and the reachability theorem for the model\'s operation set']
RULE = ('PROG lines: a seed determines a random program (<=12 steps, pool of <=6 live objects, formats up to 20 bits quick / 52 thorough) over construct / call / set_val / setitem / resize / like / like= / conversion / + - * / // % with every sizing policy, '
        'constants, out/out_like, neg/abs, shifts in 3 modes, bitwise, indexing, sum/cumsum/max/min/dot/transpose/clip, scaled objects; after every step the attributes val, n_int, upper, lower, precision, dtype of every returned Fxp are judged by the verified checker. '
        'RZ lines: an object of a random format resized with every combination of signed / n_word / n_frac / n_int / dtype= (fxp, S/U, Q/UQ spellings): resulting signed, n_word, n_frac, n_int against the model of the size resolution. SX lines: floats up to +-1.7e308 and Python ints up to +-2^1000 under saturate into n_frac>=0 formats: the code must be the bound on the input\'s own side. non-trivial = every program with at least one derived object')
TECHNIQUE = 'Lean 4 theorems (every model operation returns in-range codes: wf_step for each constructor of the operation set, wf_reachable by induction over programs; saturate picks the own-side bound for any magnitude) + verified well-formedness checker run on every object returned by random programs'
LEVEL_TEXT = ('Machine-checked: every operation of the model (store, arithmetic into any target, conversion, unary minus/abs, bitwise, shifts, reductions) returns codes inside the range of the result format — by induction over programs every reachable object is well-formed — and saturate '
              'stores the bound on the input\'s own side for inputs of any magnitude. On the implementation every object returned by random programs of public operations is judged by the verified checker (range, n_int, upper/lower/precision through scale and bias, dtype string).')
LEVEL_NOTE = 'Trusted: Lean kernel + standard axioms; the program generator lives on the implementation side (no model prediction of whole programs: the other 19 checks tie each operation to the model).'


def wf_tokens(x):
    cx = (x.vdtype == complex)
    if cx:
        return None
    cs = codes_of(x)
    if cs is None:
        return ['nonint'] * 12
    sc = Fraction(x.scale) if not isinstance(x.scale, float) else Fraction(*x.scale.as_integer_ratio())
    bi = Fraction(x.bias) if not isinstance(x.bias, float) else Fraction(*x.bias.as_integer_ratio())
    return ['s' if x.signed else 'u', str(x.n_word), str(x.n_frac), '0', str(x.n_int), tok_exact(x.upper), tok_exact(x.lower), tok_exact(x.precision),
            x.dtype, tok_frac(sc), tok_frac(bi), tok_list([str(c) for c in cs])]


def rand_fmt(rng, maxw):
    s = rng.random() < 0.6
    n = rng.randint(1 + int(s), maxw)
    f = rng.randint(0, n) if rng.random() < 0.8 else rng.randint(-3, n + 3)
    return s, n, f


def rand_vals(rng, s, n, f, k):
    lo, hi = lims(s, n)
    out = []
    for _ in range(k):
        c = rng.choice([lo, hi, 0, 1, lo - 2, hi + 2, rng.randint(lo, hi), rng.randint(2 * lo - 1, 2 * hi + 1)])
        out.append(float(Fraction(4 * c + rng.choice([0, 0, 1, 2, 3]), 4) / Fraction(2) ** f))
    return out


def exec_PROG(t):
    seed, maxw, nsteps = int(t[0]), int(t[1]), int(t[2])
    rng = random.Random(seed)
    pool = []
    out = []
    def emit(z):
        # the quantifier is over core-domain formats (n_word <= 52): wider results (e.g. a 28x28-bit product) have
        # limits that are not exact doubles, so they are neither judged nor kept in the pool
        if isinstance(z, Fxp) and z.n_word <= 52:
            w = wf_tokens(z)
            if w is not None:
                out.extend(w)
                if len(pool) < 6 and z.size <= 9:
                    pool.append(z)
                elif z.size <= 9:
                    pool[rng.randrange(len(pool))] = z
    def newobj():
        s, n, f = rand_fmt(rng, maxw)
        k = rng.choice([0, 0, 3, 4])
        vals = rand_vals(rng, s, n, f, max(k, 1))
        cfg = dict(rounding=rng.choice(ROUNDS), overflow=rng.choice(OVFS), shifting=rng.choice(['expand', 'trunc', 'keep']),
                   op_sizing=rng.choice(['optimal', 'same', 'largest', 'smallest']), const_op_sizing=rng.choice(['optimal', 'same', 'largest', 'smallest']),
                   op_method=rng.choice(['raw', 'repr']), op_input_size=rng.choice(['same', 'best']))
        if rng.random() < 0.15 and n <= 16:      # scaled objects only where the affine limits are exact doubles (C17's domain)
            cfg['scale'] = rng.choice([2, 0.5, -1, 3]); cfg['bias'] = rng.choice([0, 1, -2, 0.25])
        v = vals[0] if k == 0 else (np.array(vals).reshape(2, 2) if k == 4 and rng.random() < 0.5 else vals)
        how = rng.choice(['pos', 'pos', 'dtype', 'nint'])
        if how == 'dtype':
            return Fxp(v, dtype='fxp-%s%d/%d' % ('s' if s else 'u', n, f), **cfg)
        if how == 'nint':
            return Fxp(v, signed=s, n_int=n - f - int(s), n_frac=f, **cfg)
        return Fxp(v, s, n, f, **cfg)
    try:
        emit(newobj())
        for _ in range(nsteps):
            x = rng.choice(pool)
            y = rng.choice(pool)
            op = rng.choice(['new', 'call', 'setval', 'setitem', 'resize', 'like', 'likekw', 'conv', 'add', 'sub', 'mul', 'div', 'fdiv', 'mod', 'const', 'out', 'outlike',
                             'neg', 'abs', 'lsh', 'rsh', 'inv', 'and', 'idx', 'idx', 'sum', 'cumsum', 'max', 'min', 'dot', 'T', 'clip', 'deepcopy', 'npfunc', 'npfunc'])
            try:
                if op == 'new':
                    emit(newobj())
                elif op in ('call', 'setval'):
                    vals = rand_vals(rng, x.signed, x.n_word, x.n_frac, max(x.size, 1))
                    v = vals[0] if x.ndim == 0 else np.array(vals).reshape(x.shape)
                    if x.scaled:
                        v = v * x.scale + x.bias if x.ndim else vals[0] * x.scale + x.bias
                    emit(x(v) if op == 'call' else x.set_val(v))
                elif op == 'setitem':
                    if x.ndim >= 1:
                        x[rng.randrange(x.shape[0])] = rand_vals(rng, x.signed, x.n_word, x.n_frac, 1)[0] if x.ndim == 1 else rand_vals(rng, x.signed, x.n_word, x.n_frac, x.shape[1])
                        emit(x)
                elif op == 'resize':
                    s2, n2, f2 = rand_fmt(rng, maxw)
                    if abs(f2 - x.n_frac) <= 30 and not x.scaled:
                        if x.ndim >= 1 and rng.random() < 0.6:
                            _ = x[0]; _ = x[0:1]            # the array has been indexed before it is re-formatted
                        how = rng.choice(['pos', 'pos', 'dtype', 'dtype', 'nint_nfrac', 'nword_nint'])
                        i2 = n2 - f2 - int(s2)
                        if how == 'pos':
                            x.resize(s2, n2, f2)
                        elif how == 'dtype':
                            sp = ['fxp-%s%d/%d' % ('s' if s2 else 'u', n2, f2)]
                            if i2 >= 0 and f2 >= 0:
                                sp += ['%s%d.%d' % (rng.choice(['S', 'Q'] if s2 else ['U', 'UQ']), i2, f2)]
                            x.resize(dtype=rng.choice(sp))      # signedness comes from the string
                        elif how == 'nint_nfrac':
                            x.resize(signed=s2, n_int=i2, n_frac=f2)
                        else:
                            x.resize(signed=s2, n_word=n2, n_int=i2)
                        emit(x)
                        if x.ndim >= 1:
                            # an element (a slice) taken now is an object of the array's format as it is now
                            e_ = x[rng.randrange(x.shape[0])] if rng.random() < 0.5 else x[0:1]
                            assert (bool(e_.signed), e_.n_word, e_.n_frac) == (bool(x.signed), x.n_word, x.n_frac), 'element format differs from its array'
                            emit(e_)
                elif op == 'like':
                    if not (x.scaled or y.scaled) and abs(y.n_frac - x.n_frac) <= 30:
                        emit(x.like(y))
                elif op == 'likekw':
                    emit(Fxp(rand_vals(rng, x.signed, x.n_word, x.n_frac, 1)[0], like=x))
                elif op == 'conv':
                    s2, n2, f2 = rand_fmt(rng, maxw)
                    if not x.scaled and abs(f2 - x.n_frac) <= 30:
                        emit(Fxp(x, s2, n2, f2, rounding=rng.choice(ROUNDS), overflow=rng.choice(OVFS)))
                elif op in ('add', 'sub', 'mul', 'div', 'fdiv', 'mod'):
                    if x.scaled or y.scaled or (x.ndim and y.ndim and x.shape != y.shape):
                        continue
                    if op in ('div', 'fdiv', 'mod') and np.any(np.asarray(y.val) == 0):
                        continue
                    if x.n_word + y.n_word > 56:
                        continue
                    f_ = {'add': lambda a, b: a + b, 'sub': lambda a, b: a - b, 'mul': lambda a, b: a * b, 'div': lambda a, b: a / b,
                          'fdiv': lambda a, b: a // b, 'mod': lambda a, b: a % b}[op]
                    emit(f_(x, y))
                elif op == 'const':
                    if x.scaled:
                        continue
                    c = rng.choice([1, 2, -3, 0.5, 0.75, -1.25, 7])
                    emit(rng.choice([lambda: x + c, lambda: c + x, lambda: x - c, lambda: c - x, lambda: x * c, lambda: c * x])())
                elif op in ('out', 'outlike'):
                    if x.scaled or y.scaled or (x.ndim and y.ndim and x.shape != y.shape) or x.n_word + y.n_word > 56:
                        continue
                    s2, n2, f2 = rand_fmt(rng, maxw)
                    tgt = Fxp(None, s2 or x.signed or y.signed, n2 + 1, max(f2, 0), rounding=rng.choice(ROUNDS), overflow=rng.choice(OVFS))
                    fn = rng.choice([fxpmath.add, fxpmath.sub, fxpmath.mul])
                    emit(fn(x, y, out=tgt) if op == 'out' else fn(x, y, out_like=tgt))
                elif op == 'neg':
                    emit(-x)
                elif op == 'abs':
                    emit(abs(x))
                elif op == 'lsh':
                    n = rng.randint(0, 5)
                    if x.n_word + n <= 60 and not x.scaled:
                        emit(x << n)
                elif op == 'rsh':
                    if not x.scaled:
                        emit(x >> rng.randint(0, 5))
                elif op == 'inv':
                    if x.ndim <= 1 and not x.scaled:
                        emit(~x)
                elif op == 'and':
                    if x.ndim <= 1 and not x.scaled:
                        m = rng.getrandbits(x.n_word)
                        emit(rng.choice([lambda: x & m, lambda: x | m, lambda: x ^ m, lambda: m & x])())
                elif op == 'idx':
                    if x.ndim >= 1:
                        k = rng.randrange(x.shape[0])
                        emit(rng.choice([lambda: x[k], lambda: x[k:], lambda: x[:k + 1], lambda: x[::-1], lambda: x.copy(), lambda: x[...]])())
                elif op in ('sum', 'cumsum', 'max', 'min'):
                    if x.ndim >= 1 and not x.scaled and x.n_word <= 40:
                        ax = rng.choice([None, 0] + ([1] if x.ndim == 2 else []))
                        route = rng.random() < 0.5
                        f_ = {'sum': np.sum, 'cumsum': np.cumsum, 'max': np.max, 'min': np.min}[op]
                        emit(f_(x, axis=ax) if route else getattr(x, op)(axis=ax))
                elif op == 'dot':
                    if x.ndim == 1 and y.ndim == 1 and x.shape == y.shape and not (x.scaled or y.scaled) and x.n_word + y.n_word <= 50:
                        emit(np.dot(x, y) if rng.random() < 0.5 else x.dot(y))
                elif op == 'T':
                    if x.ndim == 2 and not x.scaled:
                        emit(np.transpose(x))
                elif op == 'clip':
                    if x.ndim >= 1 and not x.scaled:
                        emit(np.clip(x, float(x.lower) / 2, float(x.upper) / 2))
                elif op == 'deepcopy':
                    emit(rng.choice([lambda: x.deepcopy(), lambda: x.flatten() if x.ndim else x.deepcopy(), lambda: x.T, lambda: fxpmath.fxp_like(x, rand_vals(rng, x.signed, x.n_word, x.n_frac, 1)[0])])())
                elif op == 'npfunc':
                    # any other NumPy-dispatched function or method that returns an Fxp (whatever sizing it chooses, the object must be well-formed)
                    if x.scaled or x.n_word > 24:
                        continue
                    cands = [lambda: np.negative(x), lambda: np.abs(x), lambda: np.positive(x), lambda: np.conjugate(x), lambda: x.conjugate()]
                    if x.ndim >= 1:
                        cands += [lambda: np.prod(x), lambda: x.prod(), lambda: np.cumprod(x) if x.size <= 4 and x.n_word <= 12 else None, lambda: np.sort(x), lambda: np.mean(x), lambda: x.mean(),
                                  lambda: np.std(x), lambda: np.var(x), lambda: np.squeeze(x), lambda: np.ravel(x), lambda: np.flip(x), lambda: np.roll(x, 1),
                                  lambda: np.tile(x, 2), lambda: np.repeat(x, 2), lambda: np.where(np.asarray(x.get_val()) > 0, x, x),
                                  lambda: np.median(x), lambda: np.round(x), lambda: np.maximum(x, x), lambda: np.minimum(x, 0), lambda: fxpmath.fxp_sum(x), lambda: fxpmath.fxp_max(x), lambda: fxpmath.fxp_min(x)]
                    if x.ndim == 2:
                        cands += [lambda: np.trace(x), lambda: x.trace(), lambda: np.diagonal(x), lambda: x.diagonal(), lambda: np.matmul(x, np.transpose(x)) if x.n_word <= 12 else None,
                                  lambda: np.dot(x, np.transpose(x)) if x.n_word <= 12 else None, lambda: x[:, 0], lambda: x[::-1]]
                    z = rng.choice(cands)()
                    if isinstance(z, Fxp):
                        emit(z)
            except (ValueError, TypeError, ZeroDivisionError, OverflowError) as e:
                # an operation that raises produces no object (nothing to judge); remember the class for the evidence
                out.extend([])
            # every object produced earlier and still alive must have stayed well-formed, whatever happened to its relatives
            # (views, shallow copies, templates, operands) in this step
            for z in pool:
                if z.n_word <= 52:
                    w = wf_tokens(z)
                    if w is not None:
                        out.extend(w)
    except Exception as e:
        return [exc_token(e)]
    return out


def exec_SX(t):
    s, n, f = t[0] == 's', int(t[1]), int(t[2])
    r, carrier, v = t[3], t[4], frac(t[5])
    idx = 0
    try:
        if carrier == 'pyint':
            val = int(v)
        elif carrier == 'pyfloat':
            val = to_float(v)
        elif carrier == 'arr':
            val = np.array([to_float(v)])
        elif carrier == 'arr0':
            val = np.array([0.0, to_float(v)]); idx = 1         # behind an element that is not saturated (D60: the clip's output type)
        elif carrier == 'list0':
            val = [0.0, to_float(v)]; idx = 1
        elif carrier == 'arrbig':
            val = [to_float(v), 1e300]                          # beside a huge companion (the python-integer route also below 64 bits)
        elif carrier == 'u64':
            val = np.uint64(int(v))                             # D61: 2**63 and above are no int64
        elif carrier == 'u64arr':
            val = np.array([3, int(v)], dtype=np.uint64); idx = 1
        else:
            val = [int(v)]
        route = int(v.numerator) % 3
        if route == 0:
            x = Fxp(val, s, n, f, rounding=r, overflow='saturate')
        else:
            x = Fxp(None if np.ndim(val) == 0 else [0] * len(val), s, n, f, rounding=r, overflow='saturate')
            if route == 1:
                x(val)
            else:
                x.set_val(val)
        return [str(codes_of(x)[idx])]
    except Exception as e:
        return [exc_token(e)]


def exec_RZ(t):
    s, n, f = t[0] == 's', int(t[1]), int(t[2])
    opt = lambda tok, conv: None if tok == '-' else conv(tok)
    kw = dict(signed=opt(t[3], lambda v: v == '1'), n_word=opt(t[4], int), n_frac=opt(t[5], int), n_int=opt(t[6], int), dtype=opt(t[7], str))
    kw = {k: v for k, v in kw.items() if v is not None}
    try:
        x = Fxp(None if len(t[7]) % 2 else np.zeros(2, dtype=int), s, n, f)
        x.resize(**kw)
        assert x.dtype.replace('-complex', '') == 'fxp-%s%d/%d' % ('s' if x.signed else 'u', x.n_word, x.n_frac), 'dtype string %s' % x.dtype
    except Exception as e:
        return [exc_token(e)]
    return ['s' if x.signed else 'u', str(x.n_word), str(x.n_frac), str(x.n_int)]


EXEC = {'PROG': exec_PROG, 'SX': exec_SX, 'RZ': exec_RZ}


def generate(tier, rng):
    maxw = 20 if tier == 'quick' else 52
    for _ in range(2500 if tier == 'quick' else 60000):
        yield 'PROG %d %d %d' % (rng.getrandbits(40), rng.choice([8, maxw, maxw]), rng.randint(3, 12))
    # size resolution of resize: every combination of the five arguments
    for _ in range(1500 if tier == 'quick' else 40000):
        so, no_, fo = rand_fmt(rng, 24)
        s2, n2, f2 = rand_fmt(rng, 24)
        i2 = n2 - f2 - int(s2)
        combo = rng.choice(['s', 'w', 'f', 'sw', 'sf', 'wf', 'swf', 'if', 'sif', 'wi', 'swi', 'i', 'si', 'swfi', 'dtype', 'dtype', 'dtype', 'dtype+s', 'dtype+w'])
        sg = '1' if s2 else '0'
        a = ['-'] * 5
        if combo.startswith('dtype'):
            sp = ['fxp-%s%d/%d' % ('s' if s2 else 'u', n2, f2)]
            if i2 + int(s2) >= 0 and f2 >= 0:
                sp += ['%s%d.%d' % (tag, i2 + int(s2), f2) for tag in (['S', 'Q', 'q'] if s2 else ['U', 'UQ', 'uq'])]
            a[4] = rng.choice(sp)
            if combo == 'dtype+s':
                a[0] = sg
            if combo == 'dtype+w':
                a[1] = str(n2)
        else:
            if 's' in combo: a[0] = sg
            if 'w' in combo: a[1] = str(n2)
            if 'f' in combo: a[2] = str(f2)
            if 'i' in combo: a[3] = str(i2)
        yield 'RZ %s %d %d %s' % ('s' if so else 'u', no_, fo, ' '.join(a))
    for _ in range(1500 if tier == 'quick' else 40000):
        s = rng.random() < 0.5
        n = rng.randint(1 + int(s), 52)
        f = rng.randint(0, n + 3)
        r = rng.choice(ROUNDS)
        if rng.random() < 0.5:
            e = rng.choice([rng.randint(0, 70), rng.randint(60, 1023)])
            m = rng.randint(2 ** 52, 2 ** 53 - 1)
            v = Fraction(m) * Fraction(2) ** (e - 52) * rng.choice([1, -1])
            if not is_exact_float(v):
                continue
            yield 'SX %s %d %d %s %s %s' % ('s' if s else 'u', n, f, r, rng.choice(['pyfloat', 'arr']), tok_frac(v))
        else:
            k = rng.choice([rng.randint(0, 70), rng.randint(60, 1000)])
            v = rng.choice([1 << k, -(1 << k), (1 << k) - 1, -(1 << k) - 1, rng.getrandbits(k + 1) * rng.choice([1, -1]),
                            # the windows in which NumPy picks uint64 / wraps int64 by itself
                            (1 << 63) + rng.getrandbits(62), (1 << 64) - 1 - rng.getrandbits(8), 1 << 63, -(1 << 63) - 1 - rng.getrandbits(8),
                            ((1 << 63) + rng.getrandbits(60)) >> f, -(((1 << 63) + rng.getrandbits(60)) >> f),
                            (1 << 63) >> f, (1 << 64) >> f, -((1 << 63) >> f) - 1, (1 << 62) >> f])      # scaled value exactly at 2^63 / 2^64
            yield 'SX %s %d %d %s %s %d' % ('s' if s else 'u', n, f, r, rng.choice(['pyint', 'list']), v)
    # words beyond the core (54 bits and more): floats whose scaled value is at / next to a bound that no float holds, in arrays and
    # lists behind an unsaturated element or beside a huge one; NumPy unsigned integers in the window 2^63..2^64 (D60, D61)
    for _ in range(600 if tier == 'quick' else 12000):
        s = rng.random() < 0.5
        n = rng.choice([53, 54, 60, 62, 63, 64, 65, 70, 96, 128]) if rng.random() < 0.7 else rng.randint(1 + int(s), 52)
        f = rng.choice([0, 1, n // 2, n - 1, n, n + 1, rng.randint(0, n + 3)])
        r = rng.choice(ROUNDS)
        hi1 = (1 << (n - 1)) if s else (1 << n)
        if rng.random() < 0.6:
            k = rng.choice([hi1, hi1, -hi1, hi1 * 2, hi1 + (hi1 >> 20), hi1 - (hi1 >> 30), -hi1 - (hi1 >> 40), hi1 << 30])
            v = Fraction(k, 1 << f)
            if not is_exact_float(v):
                continue
            yield 'SX %s %d %d %s %s %s' % ('s' if s else 'u', n, f, r, rng.choice(['arr', 'arr0', 'list0', 'arrbig', 'pyfloat']), tok_frac(v))
        else:
            v = rng.choice([1 << 63, (1 << 64) - 1, (1 << 63) + rng.getrandbits(62), (1 << 63) - 1, rng.getrandbits(64)])
            yield 'SX %s %d %d %s %s %d' % ('s' if s else 'u', n, f, r, rng.choice(['u64', 'u64arr']), v)


def nontrivial(full_line, model):
    return True


def kf_class(t):
    return None


def debug_class(t):
    return t[0] + (' ' + t[5] if t[0] == 'SX' else '')


def stats(verdicts):
    objs = 0
    for v in verdicts:
        if v[1].startswith('PROG') and v[2].startswith('wf'):
            objs += int(v[2][2:] or 0)
    st = base.generic_stats(verdicts, lambda t: ['op:' + t[0]] + (['carrier:' + t[5]] if t[0] == 'SX' else ['maxword:' + t[2]]), None, [])
    st['distribution']['objects_judged'] = objs
    st['elements'] = objs + sum(1 for v in verdicts if v[1].startswith('SX'))
    return st
